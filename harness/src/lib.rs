//! Shared parts of the correspondence harness: Coq term printing, the native driver of
//! `air::execute_air`, the network simulator, and the RunTop (limits/version) observations.
//! Each component driver is its own binary under src/bin/ (so that one broken driver cannot
//! block the others): it reads one JSON case per line on stdin and prints one JSON line per case.
#![allow(dead_code)]
pub mod coqfmt;
pub mod sim;
pub mod cmd_limits;
pub mod ast2coq;
pub mod oracles;
