(* ForgeExec.v -- the parameter check at the place where a merged result is USED (property C14):
   statements over model/Exec.v's handle_prev_state / populate_from_data / verify_call /
   resolved_call_execute / exec_call and RunExec.run, and ExecStreams.v's handle_canon_executed.

   Mirrors:
     air/src/execution_step/instructions/call/verifier.rs            verify_call
     air/src/execution_step/instructions/call/prev_result_handler.rs handle_prev_state (Failed arm)
     air/src/execution_step/instructions/call/call_result_setter.rs  populate_context_from_data (Scalar, Stream arms)
     air/src/execution_step/instructions/canon_utils/mod.rs          handle_canon_executed, verify_canon
   The canon statements are over model/ExecStreams.v (handle_canon_executed, verify_canon).
   Definitions only (proofs: proofs/ForgeExecProofs.v). *)
From Aqua Require Import Base Json Air Trace Handler Values Scalars Lens Exec RunExec ExecStreams.
Open Scope N_scope.
Open Scope list_scope.

(* the service-result CID a met state carries *)
Definition met_cid (met : call_result cid) : option cid :=
  match met with
  | Failed c => Some c
  | Executed (VRScalar c) => Some c
  | Executed (VRStream c _) => Some c
  | _ => None
  end.

(* the instruction's output fits the kind of the met result (otherwise CallResultNotCorrespondToInstr) *)
Definition kind_fits (met : call_result cid) (out : call_output) : bool :=
  match met, out with
  | Failed _, _ => true
  | Executed (VRScalar _), OutScalar _ => true
  | Executed (VRStream _ _), OutStream _ => true
  | Executed (VRUnused _), OutNone => true
  | _, _ => false
  end.

(* the stored parameters equal the instruction's *)
Definition params_match (ah : cid) (t : tetraplet) (si : service_info) : bool :=
  cid_eqb ah (si_arg_hash si) && tetraplet_eqb t (si_tetraplet si).

(* the run goes on after the state: the result was bound (XOk) or raised as a catchable error *)
Definition goes_on (r : xres) : bool :=
  match r with
  | XOk _ => true
  | XErr (ECatch _) _ => true
  | _ => false
  end.

(* C14_use, "only if": whenever handle_prev_state lets the run go on with an Executed / Failed state
   that carries a service-result CID (a scalar set, a stream value added, LocalServiceError raised),
   the stored (argument hash, tetraplet) equal the instruction's *)
Definition C14_use_bound_stmt : Prop :=
  forall x met pos src t ah out r sd c,
    handle_prev_state x met pos src t (Some ah) out = (r, sd) ->
    met_cid met = Some c -> goes_on r = true ->
    exists si, resolve_service_info x c = POk si /\ params_match ah t si = true.

(* a Failed state surfaces as LocalServiceError and nothing else catchable *)
Definition C14_use_failed_stmt : Prop :=
  forall x fc pos src t ah out e x' sd,
    handle_prev_state x (Failed fc) pos src t (Some ah) out = (XErr (ECatch e) x', sd) ->
    exists code msg, e = CLocalServiceError code msg.

(* C14_use, "otherwise": the stored parameters differ => the uncatchable InstructionParametersMismatch,
   context untouched *)
Definition C14_use_mismatch_stmt : Prop :=
  forall x met pos src t ah out c si,
    met_cid met = Some c -> kind_fits met out = true ->
    resolve_service_info x c = POk si -> params_match ah t si = false ->
    exists param, handle_prev_state x met pos src t (Some ah) out =
                  (XErr (EUncatch (UInstructionParametersMismatch param)) x, SD false None).

(* a result of the wrong kind for the instruction: uncatchable as well *)
Definition C14_use_kind_stmt : Prop :=
  forall x v pos src t ah out,
    kind_fits (Executed v) out = false ->
    handle_prev_state x (Executed v) pos src t (Some ah) out =
    (XErr (EUncatch UCallResultNotCorrespondToInstr) x, SD false None).

(* the uncatchable error of handle_prev_state is the call instruction's outcome *)
Definition C14_use_call_stmt : Prop :=
  forall x text tr args out t vals tets h' met pos src u x' sd,
    resolve_triplet x tr = POk t -> check_output_name x out = POk tt ->
    collect_args x args = POk (vals, tets) ->
    meet_call_start cid cid_eqb (x_handler x) = Ok (CallMet cid met pos src, h') ->
    handle_prev_state (set_handler x h') met pos src t (Some (CArgs vals)) out = (XErr (EUncatch u) x', sd) ->
    exec_call x text tr args out = XErr (EUncatch u) x'.

(* an uncatchable error of the script ends the run with that error's code and the PREVIOUS data *)
Definition C14_use_run_stmt : Prop :=
  forall esi fin fuel i u x,
    exec esi fuel (ri_script i) (initial_ctx i) = XErr (EUncatch u) x ->
    run esi fin fuel i = OutPrevData (uncatchable_code u).

(* the code is InstructionParametersMismatch's place in the generated error table *)
Definition C14_use_code_stmt : Prop :=
  forall param, uncatchable_code (UInstructionParametersMismatch param) = 20017%Z /\
                index_of (String.eqb "InstructionParametersMismatch") uncatchable_error_variants = Some 17.

(* the gap (DESIGN section 7, item 6): an Executed(Unused value_cid) state met by a call without an
   output variable is taken as it is, whatever the id: nothing is resolved, compared or recorded *)
Definition C14_unused_unchecked_stmt : Prop :=
  forall x c pos src t ah,
    handle_prev_state x (Executed (VRUnused c)) pos src t (Some ah) OutNone =
    (XOk (call_end x (Executed (VRUnused c))), SD false None).

(* ------------------------------------------------------------------------------------------ *)
(* canon (ExecStreams.handle_canon_executed): a merged Executed canon state is rebuilt into a canon
   stream only if the tetraplet its result aggregate names is (resolved peer, "", "", "") *)
Definition C14_use_canon_bound_stmt : Prop :=
  forall k x p c x',
    handle_canon_executed k x p c = XOk x' ->
    exists peer vcs,
      resolve_peer_id_to_string x p = POk peer /\
      c = CCanonResult (CTetraplet (canon_tetraplet peer)) vcs.

(* otherwise: uncatchable InstructionParametersMismatch, context untouched, before any value is looked up *)
Definition C14_use_canon_mismatch_stmt : Prop :=
  forall k x p peer t vcs,
    resolve_peer_id_to_string x p = POk peer ->
    cid_mem (CCanonResult (CTetraplet t) vcs) (cs_canon_results (x_cids x)) = true ->
    cid_mem (CTetraplet t) (cs_tetraplets (x_cids x)) = true ->
    t <> canon_tetraplet peer ->
    handle_canon_executed k x p (CCanonResult (CTetraplet t) vcs) =
    XErr (EUncatch (UInstructionParametersMismatch "canon tetraplet")) x.

Definition C14_use_canon_stmt : Prop := C14_use_canon_bound_stmt /\ C14_use_canon_mismatch_stmt.

(* tie to the sources (tools/genx_forge.py): the two comparisons of verify_call in the model's order,
   the one of verify_canon, where verify_call is called, what handle_canon_executed expects *)
Definition model_verify_call_params : list string :=
  let t0 := canon_tetraplet "p" in
  let t1 := canon_tetraplet "q" in
  let name (r : pres unit) := match r with PErr (EUncatch (UInstructionParametersMismatch p)) => p | _ => "" end in
  (* both differ: the argument hash is reported, so it is compared first; then the tetraplet alone *)
  [name (verify_call (CArgs []) t0 (CArgs [JNull]) t1); name (verify_call (CArgs []) t0 (CArgs []) t1)]%string.

Definition forge_exec_source_agrees : bool :=
  list_eqb String.eqb model_verify_call_params (map fst forge_verify_call_checks) &&
  list_eqb (pair_eqb String.eqb String.eqb) (map snd forge_verify_call_checks)
           [("expected_argument_hash", "stored_argument_hash"); ("expected_tetraplet", "stored_tetraplet")]%string &&
  list_eqb String.eqb (map fst forge_verify_canon_checks) ["canon tetraplet"]%string &&
  list_eqb (pair_eqb String.eqb String.eqb) (map snd forge_verify_canon_checks) [("expected_tetraplet", "stored_tetraplet")]%string &&
  list_eqb (pair_eqb String.eqb N.eqb) forge_verify_call_sites
           [("handle_prev_state", 1); ("populate_context_from_data", 2)]%string &&
  forge_canon_expected_tetraplet.
