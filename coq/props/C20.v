(* props/C20.v -- execution is deterministic.
   A Gallina function is deterministic by construction; the content of the property over the model is ORDER
   INDEPENDENCE: every hash-map / hash-set iteration of the Rust code is an explicit order parameter of the
   model (model/DetSpec.v) and the canonical observation does not depend on it.  Seeds, addresses and
   thread-locals of the real process are covered by re-execution (harness/src/bin/det20.rs), not by a theorem.
   Only pinned statements, [exact], non-vacuity examples and Print Assumptions. *)
From Coq Require Import Permutation.
From Aqua Require Import Base Json JsonText Air Trace Handler Values Scalars Lens Exec RunExec ExecStreams.
From Aqua Require Import DetSpec DetProofs.
From Aqua Require Stream Sig SigProofs StreamPosSpec StreamPosProofs.
Open Scope N_scope.
Open Scope list_scope.
Open Scope string_scope.

(* every nondeterminism source found in the sources today (tools/genx_det.py) is classified, every classified
   site still exists; no clock / random / address source at all; the only site classified as a genuine order
   dependence of the outcome is the canon-map rendering *)
Theorem C20_catalogue_closed :
  catalogue_closed = true /\ no_external_sources = true /\ classified_findings = ["canon-map-colliding-keys"].
Proof. exact (conj catalogue_closed_ok (conj no_external_sources_ok classified_findings_ok)). Qed.

(* the three verification loops whose error names a culprit visit their HashMap in key order in the sources today
   (DataVerifier::verify, CidStore::verify, CidStore::verify_raw_value); five message-only sites remain
   (known finding preparation-error-first-culprit-uncovered-sites) *)
Theorem C20_first_culprit_source_tie : first_culprit_fixed = true /\ length message_only_sites = 5%nat.
Proof. exact (conj first_culprit_fixed_ok message_only_sites_ok). Qed.

(* farewell_step/outcome.rs dedup: whatever the HashSet's iteration order, the same SET of next peers, no duplicates *)
Theorem C20_dedup_order : C20_dedup_order_stmt.
Proof. exact DetProofs.C20_dedup_order. Qed.

(* Streams::compactify / StreamMaps::compactify: for any two iteration orders of the stream names the streams
   afterwards are equal, a panic is reached under both or none, and the update_generation calls are the same multiset *)
Theorem C20_compactify_order : forall (V : Type) (pos_of : V -> N), C20_compactify_order_stmt V pos_of.
Proof. exact DetProofs.C20_compactify_order. Qed.

(* updates at pairwise different trace positions can be applied in any order *)
Theorem C20_apply_updates_order : forall (H E : Type) (upd : H -> N -> N -> H + E), C20_apply_updates_order_stmt H E upd.
Proof. exact DetProofs.C20_apply_updates_order. Qed.

(* the model's TraceHandler::update_generation satisfies the commutation hypothesis *)
Theorem C20_update_generation_commutes : C20_update_generation_commutes_stmt.
Proof. exact DetProofs.C20_update_generation_commutes. Qed.

(* one table (Streams or StreamMaps) of the executor model: the same context afterwards, or none under both orders *)
Theorem C20_compactify_table_order : C20_compactify_table_order_stmt.
Proof. exact DetProofs.C20_compactify_table_order. Qed.
(* the farewell compactification of the executor model (ExecStreams.finish_streams with both orders as parameters) *)
Theorem C20_finish_streams_order : C20_finish_streams_order_stmt.
Proof. exact DetProofs.C20_finish_streams_order. Qed.
Theorem C20_finish_streams_tie : C20_finish_streams_tie_stmt.
Proof. exact DetProofs.C20_finish_streams_tie. Qed.

(* CidTracker::from_cid_stores: the merged stores as sets *)
Theorem C20_stores_order : C20_stores_order_stmt.
Proof. exact DetProofs.C20_stores_order. Qed.
Theorem C20_merge_cid_states_order : C20_merge_cid_states_order_stmt.
Proof. exact DetProofs.C20_merge_cid_states_order. Qed.

(* DataVerifier (six iteration orders): verdict and merged signature store are order independent (C15_order) *)
Theorem C20_verifier_order : forall key_ok : string -> bool, Sig.C15_order_stmt key_ok.
Proof. exact SigProofs.C15_order. Qed.

(* CanonStreamMap::as_jvalue: order independent when no two keys render to the same string ... *)
Theorem C20_canon_map_order : C20_canon_map_order_stmt.
Proof. exact DetProofs.C20_canon_map_order. Qed.
(* ... and order DEPENDENT otherwise (keys 42 and "42"): the unconditional statement is refuted; replayed on
   the real code, known finding canon-map-colliding-keys *)
Theorem C20_canon_map_refuted : C20_canon_map_refuted_stmt.
Proof. exact DetProofs.C20_canon_map_refuted. Qed.
Theorem C20_canon_map_full_refuted : ~ C20_canon_map_full.
Proof. exact DetProofs.C20_canon_map_full_refuted. Qed.

(* the text of the 30000 message does not depend on the iteration order of the call results
   (the source renders them through a BTreeMap: Generated.farewell_unprocessed_sorted) *)
Theorem C20_message_order : C20_message_order_stmt.
Proof. exact DetProofs.C20_message_order. Qed.
Theorem C20_message_source_tie : farewell_unprocessed_sorted = true.
Proof. exact DetProofs.farewell_sorted_ok. Qed.

(* the run: all order parameters are irrelevant for the canonical observation (code, data, requests, signed
   cids equal; next peers equal as duplicate-free sets), provided the context the farewell step starts in has
   unique stream names and its stream values sit at pairwise different trace positions *)
Theorem C20_order_irrelevant_partial : C20_order_irrelevant_stmt.
Proof. exact DetProofs.C20_order_irrelevant. Qed.

(* the hypothesis of C20_order_irrelevant_partial is an invariant of the executor model (model/StreamPosSpec.v,
   proofs/StreamPosProofs.v; the invariant itself is pinned as C02_stream_pos_inv in props/C02.v): a context that
   satisfies stream_pos_ok has unique stream names and stream values at pairwise different trace positions ... *)
Theorem C20_streams_ok_of_inv : StreamPosSpec.streams_ok_of_inv_stmt.
Proof. exact StreamPosProofs.streams_ok_of_inv. Qed.
(* ... and every context in which the farewell step of a run starts satisfies it *)
Theorem C20_streams_ok_run : StreamPosSpec.streams_ok_run_stmt.
Proof. exact StreamPosProofs.streams_ok_run. Qed.
(* hence the run, without any hypothesis on the reached context: all order parameters are irrelevant for the
   canonical observation.  This is DetSpec.C20_full. *)
Theorem C20_order_irrelevant_run2 : StreamPosSpec.C20_order_irrelevant_run2_stmt.
Proof. exact StreamPosProofs.order_irrelevant_run2. Qed.
Theorem C20_full_holds : C20_full.
Proof. exact StreamPosProofs.order_irrelevant_run2. Qed.

(* remark: the model run is a function of its inputs; with the identity orders it is ExecStreams.run2 *)
Theorem C20_function : C20_function_stmt.
Proof. exact DetProofs.C20_function. Qed.

(* ---------------- non-vacuity ---------------- *)
Example C20_dedup_example :
  dedup_real id_order ["B"; "C"; "B"] = ["B"; "C"] /\ dedup_real (@rev string) ["B"; "C"; "B"] = ["C"; "B"].
Proof. vm_compute. split; reflexivity. Qed.

(* two streams, both orders: same streams, permuted updates *)
Definition v_at (p : N) : vagg := VALiteral JNull "A" p.
Definition new_rows (rows : list (N * list vagg)) (len size : N) : Stream.stream vagg :=
  {| Stream.s_prev := Stream.matrix_new vagg; Stream.s_cur := Stream.matrix_new vagg;
     Stream.s_new := {| Stream.m_len := len; Stream.m_cells := rows; Stream.m_size := size |} |}.
Definition two_streams (p : N) : Stream.streams vagg :=
  [("$a", [Stream.descriptor_global vagg (new_rows [(0, [v_at 1]); (1, [v_at p])] 2 2)]);
   ("$b", [Stream.descriptor_global vagg (new_rows [(0, [v_at 0])] 1 1)])].
Example C20_compactify_example :
  let r := Stream.streams_compactify vagg va_pos ["$a"; "$b"] (two_streams 2) in
  let r' := Stream.streams_compactify vagg va_pos ["$b"; "$a"] (two_streams 2) in
  fst r = fst r' /\ Stream.cp_updates (snd r) = [(1, 0); (2, 1); (0, 0)] /\ Stream.cp_updates (snd r') = [(0, 0); (1, 0); (2, 1)] /\
  Stream.cp_crash (snd r) = None /\ positions_disjoint vagg va_pos (two_streams 2).
Proof.
  vm_compute. repeat split; try reflexivity.
  repeat (constructor; [cbn; intuition discriminate|]). constructor.
Qed.

(* the hypothesis positions_disjoint cannot be dropped: two streams claiming the same trace position *)
Definition ex_params := {| rp_init_peer := "A"; rp_current_peer := "A"; rp_timestamp := 1; rp_ttl := 1 |}.
Definition ex_ctx (m : Stream.streams vagg) : ctx :=
  let x := initial_ctx {| ri_script := INull; ri_params := ex_params; ri_prev := empty_data; ri_cur := empty_data; ri_results := [] |} in
  let h := x_handler x in
  let k := push_state cid (push_state cid (h_keeper cid h) (SAp [0])) (SAp [0]) in
  with_streams (set_handler x (with_keeper cid h k)) m.
Example C20_finish_needs_disjoint : C20_finish_needs_disjoint_stmt.
Proof.
  exists id_order, (@rev string), (ex_ctx (two_streams 0)).
  split; [apply id_is_perm|]. split; [apply rev_is_perm|]. split; [|split; [split|]].
  - vm_compute. repeat (constructor; [cbn; intuition discriminate|]). constructor.
  - vm_compute. constructor.
  - vm_compute. constructor.
  - vm_compute. discriminate.
Qed.

(* a run with two streams and two next peers: the hypothesis of C20_order_irrelevant_partial holds and the
   two orders give the next peers in different orders, everything else equal *)
Definition ex_script : instr :=
  IPar (ISeq (IAp "ap1" (ALiteral "x") (ApStream {| v_name := "$s"; v_pos := 10 |}))
             (ISeq (IAp "ap2" (ALiteral "y") (ApStream {| v_name := "$t"; v_pos := 20 |}))
                   (IAp "ap3" (ALiteral "z") (ApStream {| v_name := "$s"; v_pos := 30 |}))))
       (IPar (ICall "c1" {| t_peer := PLiteral "B"; t_service := SLiteral "s"; t_function := SLiteral "f" |} [] OutNone)
             (ICall "c2" {| t_peer := PLiteral "C"; t_service := SLiteral "s"; t_function := SLiteral "f" |} [] OutNone)).
Definition ex_input := {| ri_script := ex_script; ri_params := ex_params; ri_prev := empty_data; ri_cur := empty_data; ri_results := [] |}.
Definition rev_orders := {| o_streams := @rev string; o_stream_maps := @rev string; o_next := @rev string |}.
Example C20_run_example :
  (forall x, end_ctx (exec stream_instr 100 (ri_script ex_input) (initial_ctx ex_input)) = Some x -> streams_ok x) /\
  valid_orders rev_orders /\
  (exists d, run_det id_orders 100 ex_input = OutNewData 0 d ["B"; "C"] [] [] /\
             run_det rev_orders 100 ex_input = OutNewData 0 d ["C"; "B"] [] [] /\
             d_trace d = [SPar 3 3; SAp [0]; SAp [0]; SAp [0]; SPar 1 1; SCall (RequestSentBy (SPeer "A")); SCall (RequestSentBy (SPeer "A"))]).
Proof.
  split; [|split].
  - intros x H. vm_compute in H. injection H as <-. split; split.
    + vm_compute. repeat (constructor; [cbn; intuition discriminate|]). constructor.
    + vm_compute. repeat (constructor; [cbn; intuition discriminate|]). constructor.
    + vm_compute. constructor.
    + vm_compute. constructor.
  - split; [|split]; apply rev_is_perm.
  - eexists. vm_compute. repeat split; reflexivity.
Qed.

(* canon map: without colliding keys both orders render the same object; with 42 / "42" they do not *)
Example C20_canon_map_example :
  let g := groups_of [(KInt 42, JStr "int"); (KStr "k", JStr "str"); (KInt 42, JStr "more")] in
  let bad := groups_of [(KInt 42, JStr "int"); (KStr "42", JStr "str")] in
  as_jvalue id_order g = JObj [("42", JArr [JStr "int"; JStr "more"]); ("k", JArr [JStr "str"])] /\
  as_jvalue (@rev _) g = as_jvalue id_order g /\
  as_jvalue id_order bad = JObj [("42", JArr [JStr "str"])] /\
  as_jvalue (@rev _) bad = JObj [("42", JArr [JStr "int"])].
Proof. vm_compute. repeat split; reflexivity. Qed.

Example C20_message_example :
  let r := [("900007", (0%Z, """left-1""")); ("900000", (1%Z, """left-0"""))] in
  unprocessed_msg id_order r = unprocessed_msg (@rev _) r /\
  unprocessed_msg id_order r =
    "after finishing execution of supplied AIR, there are some unprocessed call results: `{""900000"": CallServiceResult { ret_code: 1, result: ""\""left-0\"""" }, ""900007"": CallServiceResult { ret_code: 0, result: ""\""left-1\"""" }}`, probably a wrong call_id used".
Proof. vm_compute. split; reflexivity. Qed.

Print Assumptions C20_catalogue_closed.
Print Assumptions C20_first_culprit_source_tie.
Print Assumptions C20_dedup_order.
Print Assumptions C20_compactify_order.
Print Assumptions C20_apply_updates_order.
Print Assumptions C20_update_generation_commutes.
Print Assumptions C20_compactify_table_order.
Print Assumptions C20_finish_streams_order.
Print Assumptions C20_finish_streams_tie.
Print Assumptions C20_stores_order.
Print Assumptions C20_merge_cid_states_order.
Print Assumptions C20_verifier_order.
Print Assumptions C20_canon_map_order.
Print Assumptions C20_canon_map_refuted.
Print Assumptions C20_canon_map_full_refuted.
Print Assumptions C20_message_order.
Print Assumptions C20_message_source_tie.
Print Assumptions C20_order_irrelevant_partial.
Print Assumptions C20_function.
Print Assumptions C20_streams_ok_of_inv.
Print Assumptions C20_streams_ok_run.
Print Assumptions C20_order_irrelevant_run2.
Print Assumptions C20_full_holds.
