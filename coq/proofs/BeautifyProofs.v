(* BeautifyProofs.v -- proofs about model/Beautify.v (property C28).

   Plan:  beautify_walker = print_trees o flatten                      (induction on the script)
          gforest (print_trees ts) = gnodes ts                         (layout; needs step > 0)
          items (gnodes ts) = Some ts                                  (keywords; needs the text hypothesis)
          parse_lines (render_lines ls) = Some ls                      (text; needs the text hypothesis)
   and the corollaries on listing order and indentation. *)
From Coq Require Import Lia.
From Aqua Require Import Base Air Beautify.
Open Scope list_scope.
Open Scope N_scope.

(* ============================================================================================ *)
(* induction principles                                                                          *)
(* ============================================================================================ *)

Lemma tree_ind' (P : tree -> Prop)
  (HL : forall x, P (TLeaf x))
  (HP : forall l r, Forall P l -> Forall P r -> P (TPar l r))
  (HT : forall l r, Forall P l -> Forall P r -> P (TTry l r))
  (HB : forall h b, Forall P b -> P (TBlock h b))
  (HBL : forall h b l, Forall P b -> Forall P l -> P (TBlockLast h b l)) :
  forall t, P t.
Proof.
  fix IH 1. intros [x|l r|l r|h b|h b l].
  - apply HL.
  - apply HP.
    + revert l. fix IHl 1. intros [|y l]; constructor; [apply IH | apply IHl].
    + revert r. fix IHl 1. intros [|y r]; constructor; [apply IH | apply IHl].
  - apply HT.
    + revert l. fix IHl 1. intros [|y l]; constructor; [apply IH | apply IHl].
    + revert r. fix IHl 1. intros [|y r]; constructor; [apply IH | apply IHl].
  - apply HB.
    revert b. fix IHl 1. intros [|y b]; constructor; [apply IH | apply IHl].
  - apply HBL.
    + revert b. fix IHl 1. intros [|y b]; constructor; [apply IH | apply IHl].
    + revert l. fix IHl 1. intros [|y l]; constructor; [apply IH | apply IHl].
Qed.

Definition is_simple (t : instr) : bool :=
  match t with
  | ISeq _ _ | IPar _ _ | IXor _ _ | IMatch _ _ _ _ | IMisMatch _ _ _ _
  | IFoldScalar _ _ _ _ _ _ | IFoldStream _ _ _ _ _ _ | IFoldStreamMap _ _ _ _ _ _ | INew _ _ _ _ => false
  | _ => true
  end.

Lemma instr_ind' (P : instr -> Prop)
  (Hs : forall t, is_simple t = true -> P t)
  (Hseq : forall a b, P a -> P b -> P (ISeq a b))
  (Hpar : forall a b, P a -> P b -> P (IPar a b))
  (Hxor : forall a b, P a -> P b -> P (IXor a b))
  (Hmatch : forall x l r b, P b -> P (IMatch x l r b))
  (Hmis : forall x l r b, P b -> P (IMisMatch x l r b))
  (Hf1 : forall x it i b last sp, P b -> (forall l, last = Some l -> P l) -> P (IFoldScalar x it i b last sp))
  (Hf2 : forall x it i b last sp, P b -> (forall l, last = Some l -> P l) -> P (IFoldStream x it i b last sp))
  (Hf3 : forall x it i b last sp, P b -> (forall l, last = Some l -> P l) -> P (IFoldStreamMap x it i b last sp))
  (Hnew : forall x a b sp, P b -> P (INew x a b sp)) :
  forall t, P t.
Proof.
  fix IH 1. intros t. destruct t.
  all: try (apply Hs; reflexivity).
  - apply Hseq; apply IH.
  - apply Hpar; apply IH.
  - apply Hxor; apply IH.
  - apply Hmatch; apply IH.
  - apply Hmis; apply IH.
  - destruct last as [l0|].
    + apply Hf1; [apply IH | intros l' E; injection E as <-; apply IH].
    + apply Hf1; [apply IH | intros l' E; discriminate E].
  - destruct last as [l0|].
    + apply Hf2; [apply IH | intros l' E; injection E as <-; apply IH].
    + apply Hf2; [apply IH | intros l' E; discriminate E].
  - destruct last as [l0|].
    + apply Hf3; [apply IH | intros l' E; injection E as <-; apply IH].
    + apply Hf3; [apply IH | intros l' E; discriminate E].
  - apply Hnew; apply IH.
Qed.

(* ============================================================================================ *)
(* 1. the beautifier is the reference printer applied to the flattening                          *)
(* ============================================================================================ *)

Lemma print_trees_single step d x : print_trees step d [x] = print_tree step d x.
Proof. unfold print_trees. cbn [flat_map]. apply app_nil_r. Qed.

Lemma print_trees_app step d a b : print_trees step d (a ++ b) = print_trees step d a ++ print_trees step d b.
Proof. unfold print_trees. apply flat_map_app. Qed.

Lemma print_trees_cons step d x r : print_trees step d (x :: r) = print_tree step d x ++ print_trees step d r.
Proof. reflexivity. Qed.

Lemma walker_print (hopon : bool) (step : N) :
  forall t d, beautify_walker hopon step t d = print_trees step d (flatten hopon t).
Proof.
  induction t as [t H | t1 t2 IHt1 IHt2 | t1 t2 IHt1 IHt2 | t1 t2 IHt1 IHt2 | x l r t IHt | x l r t IHt
                  | x it i t last sp IHt H | x it i t last sp IHt H | x it i t last sp IHt H | x a t sp IHt] using instr_ind'; intros d.
  - destruct t; try discriminate; reflexivity.
  - cbn [beautify_walker flatten]. rewrite print_trees_app, IHt1, IHt2. reflexivity.
  - cbn [beautify_walker flatten]. rewrite print_trees_single, IHt1, IHt2. reflexivity.
  - cbn [beautify_walker flatten]. rewrite print_trees_single, IHt1, IHt2. reflexivity.
  - cbn [beautify_walker flatten]. rewrite print_trees_single, IHt. reflexivity.
  - cbn [beautify_walker flatten]. rewrite print_trees_single, IHt. reflexivity.
  - destruct last as [l|]; cbn [beautify_walker flatten]; rewrite print_trees_single, IHt.
    + rewrite (H l eq_refl). reflexivity.
    + cbn [print_tree]. rewrite app_nil_r. reflexivity.
  - destruct last as [l|]; cbn [beautify_walker flatten]; rewrite print_trees_single, IHt.
    + rewrite (H l eq_refl). reflexivity.
    + cbn [print_tree]. rewrite app_nil_r. reflexivity.
  - destruct last as [l|]; cbn [beautify_walker flatten]; rewrite print_trees_single, IHt.
    + rewrite (H l eq_refl). reflexivity.
    + cbn [print_tree]. rewrite app_nil_r. reflexivity.
  - cbn [beautify_walker flatten].
    destruct (if hopon then try_hopon a t else None) as [p|].
    + reflexivity.
    + rewrite print_trees_single, IHt. reflexivity.
Qed.

(* bodies are never empty *)
Fixpoint tree_wf (t : tree) : bool :=
  match t with
  | TLeaf _ => true
  | TPar l r | TTry l r => nonempty l && nonempty r && forallb tree_wf l && forallb tree_wf r
  | TBlock _ b => nonempty b && forallb tree_wf b
  | TBlockLast _ b l => nonempty b && nonempty l && forallb tree_wf b && forallb tree_wf l
  end.

Lemma nonempty_app {A} (a b : list A) : nonempty a = true -> nonempty (a ++ b) = true.
Proof. destruct a; [discriminate | reflexivity]. Qed.

Lemma flatten_wf (hopon : bool) :
  forall t, nonempty (flatten hopon t) = true /\ forallb tree_wf (flatten hopon t) = true.
Proof.
  induction t as [t H | t1 t2 IHt1 IHt2 | t1 t2 IHt1 IHt2 | t1 t2 IHt1 IHt2 | x l r t IHt | x l r t IHt
                  | x it i t last sp IHt H | x it i t last sp IHt H | x it i t last sp IHt H | x a t sp IHt] using instr_ind'.
  - destruct t; try discriminate; split; reflexivity.
  - destruct IHt1 as [n1 w1], IHt2 as [n2 w2]. cbn [flatten]. split.
    + apply nonempty_app, n1.
    + rewrite forallb_app, w1, w2. reflexivity.
  - destruct IHt1 as [n1 w1], IHt2 as [n2 w2]. cbn [flatten forallb tree_wf]. rewrite n1, n2, w1, w2. split; reflexivity.
  - destruct IHt1 as [n1 w1], IHt2 as [n2 w2]. cbn [flatten forallb tree_wf]. rewrite n1, n2, w1, w2. split; reflexivity.
  - destruct IHt as [n1 w1]. cbn [flatten forallb tree_wf]. rewrite n1, w1. split; reflexivity.
  - destruct IHt as [n1 w1]. cbn [flatten forallb tree_wf]. rewrite n1, w1. split; reflexivity.
  - destruct IHt as [n1 w1]. destruct last as [l|]; cbn [flatten forallb tree_wf].
    + destruct (H l eq_refl) as [n2 w2]. rewrite n1, n2, w1, w2. split; reflexivity.
    + rewrite n1, w1. split; reflexivity.
  - destruct IHt as [n1 w1]. destruct last as [l|]; cbn [flatten forallb tree_wf].
    + destruct (H l eq_refl) as [n2 w2]. rewrite n1, n2, w1, w2. split; reflexivity.
    + rewrite n1, w1. split; reflexivity.
  - destruct IHt as [n1 w1]. destruct last as [l|]; cbn [flatten forallb tree_wf].
    + destruct (H l eq_refl) as [n2 w2]. rewrite n1, n2, w1, w2. split; reflexivity.
    + rewrite n1, w1. split; reflexivity.
  - destruct IHt as [n1 w1]. cbn [flatten].
    destruct (if hopon then try_hopon a t else None) as [p|]; cbn [forallb tree_wf].
    + split; reflexivity.
    + rewrite n1, w1. split; reflexivity.
Qed.

(* ============================================================================================ *)
(* 2. layout: the indentation forest of a printed structure                                      *)
(* ============================================================================================ *)

Fixpoint gnodes_tree (step d : N) (t : tree) : list gnode :=
  let sub := flat_map (gnodes_tree step (d + step)) in
  match t with
  | TLeaf x => [GNode d x []]
  | TPar l r => [GNode d kw_par (sub l); GNode d kw_par_sep (sub r)]
  | TTry l r => [GNode d kw_try (sub l); GNode d kw_catch (sub r)]
  | TBlock h b => [GNode d (h +++ kw_colon) (sub b)]
  | TBlockLast h b l => [GNode d (h +++ kw_colon) (sub b); GNode d kw_last (sub l)]
  end.
Definition gnodes (step d : N) (ts : list tree) : list gnode := flat_map (gnodes_tree step d) ts.

Definition head_le (d : N) (s : list gnode) : Prop :=
  match s with [] => True | n :: _ => g_ind n <= d end.

Lemma roots_at_tree step d t : Forall (fun n => g_ind n = d) (gnodes_tree step d t).
Proof. destruct t; cbn; repeat constructor. Qed.

Lemma roots_at step d ts : Forall (fun n => g_ind n = d) (gnodes step d ts).
Proof.
  induction ts as [|x r IH]; [constructor|].
  unfold gnodes. cbn [flat_map]. apply Forall_app. split; [apply roots_at_tree | apply IH].
Qed.

Lemma head_le_mono d d' s : d <= d' -> head_le d s -> head_le d' s.
Proof. destruct s; cbn; [trivial | lia]. Qed.

Lemma head_le_app d X S : Forall (fun n => g_ind n = d) X -> head_le d S -> head_le d (X ++ S).
Proof.
  intros HX HS. destruct X as [|n X]; [exact HS|].
  inversion HX as [|? ? E _]; subst. cbn. lia.
Qed.

Lemma span_all d X S :
  Forall (fun n => d < g_ind n) X -> head_le d S -> span_deeper d (X ++ S) = (X, S).
Proof.
  intros HX HS. induction HX as [|n X Hn _ IH].
  - cbn [app]. destruct S as [|m S]; [reflexivity|].
    cbn in HS. cbn [span_deeper].
    destruct (N.ltb_spec d (g_ind m)) as [Hlt|_]; [lia | reflexivity].
  - cbn [app span_deeper].
    destruct (N.ltb_spec d (g_ind n)) as [_|Hge]; [| lia].
    rewrite IH. reflexivity.
Qed.

Lemma add_line_block step d x X S :
  0 < step -> Forall (fun n => g_ind n = d + step) X -> head_le d S ->
  add_line (mk d x) (X ++ S) = GNode d x X :: S.
Proof.
  intros Hs HX HS. unfold add_line. cbn [l_indent l_text mk].
  rewrite span_all; [reflexivity | | exact HS].
  eapply Forall_impl; [| exact HX]. cbn. intros n E. lia.
Qed.

Lemma add_line_leaf d x S : head_le d S -> add_line (mk d x) S = GNode d x [] :: S.
Proof.
  intros HS. unfold add_line. cbn [l_indent l_text mk].
  change S with ([] ++ S) at 1. rewrite span_all; [reflexivity | constructor | exact HS].
Qed.

Lemma fold_add_app S p1 p2 :
  fold_right add_line S (p1 ++ p2) = fold_right add_line (fold_right add_line S p2) p1.
Proof. apply fold_right_app. Qed.

Definition layout_P (step : N) (t : tree) : Prop :=
  forall d S, head_le d S -> fold_right add_line S (print_tree step d t) = gnodes_tree step d t ++ S.

Lemma layout_list step ts :
  Forall (layout_P step) ts ->
  forall d S, head_le d S -> fold_right add_line S (print_trees step d ts) = gnodes step d ts ++ S.
Proof.
  induction 1 as [|x r Hx _ IH]; intros d S HS; [reflexivity|].
  rewrite print_trees_cons, fold_add_app, IH by exact HS.
  rewrite Hx by (apply head_le_app; [apply roots_at | exact HS]).
  unfold gnodes. cbn [flat_map]. rewrite app_assoc. reflexivity.
Qed.

Lemma layout_tree step : 0 < step -> forall t, layout_P step t.
Proof.
  intros Hs. induction t as [x | l r H H0 | l r H H0 | h b H | h b l H H0] using tree_ind'; intros d S HS.
  - cbn [print_tree gnodes_tree fold_right]. rewrite add_line_leaf by exact HS. reflexivity.
  - cbn [print_tree gnodes_tree fold_right].
    rewrite fold_add_app. cbn [fold_right].
    fold (print_trees step (d + step) r). fold (print_trees step (d + step) l).
    rewrite (layout_list step r H0) by (eapply head_le_mono; [| exact HS]; lia).
    rewrite (add_line_block step) by (try exact Hs; try apply roots_at; exact HS).
    rewrite (layout_list step l H) by (cbn; lia).
    rewrite (add_line_block step) by (try exact Hs; try apply roots_at; cbn; lia).
    reflexivity.
  - cbn [print_tree gnodes_tree fold_right].
    rewrite fold_add_app. cbn [fold_right].
    fold (print_trees step (d + step) r). fold (print_trees step (d + step) l).
    rewrite (layout_list step r H0) by (eapply head_le_mono; [| exact HS]; lia).
    rewrite (add_line_block step) by (try exact Hs; try apply roots_at; exact HS).
    rewrite (layout_list step l H) by (cbn; lia).
    rewrite (add_line_block step) by (try exact Hs; try apply roots_at; cbn; lia).
    reflexivity.
  - cbn [print_tree gnodes_tree fold_right].
    fold (print_trees step (d + step) b).
    rewrite (layout_list step b H) by (eapply head_le_mono; [| exact HS]; lia).
    rewrite (add_line_block step) by (try exact Hs; try apply roots_at; exact HS).
    reflexivity.
  - cbn [print_tree gnodes_tree fold_right].
    rewrite fold_add_app. cbn [fold_right].
    fold (print_trees step (d + step) b). fold (print_trees step (d + step) l).
    rewrite (layout_list step l H0) by (eapply head_le_mono; [| exact HS]; lia).
    rewrite (add_line_block step) by (try exact Hs; try apply roots_at; exact HS).
    rewrite (layout_list step b H) by (cbn; lia).
    rewrite (add_line_block step) by (try exact Hs; try apply roots_at; cbn; lia).
    reflexivity.
Qed.

Lemma gforest_print step ts : 0 < step -> gforest (print_trees step 0 ts) = gnodes step 0 ts.
Proof.
  intros Hs. unfold gforest.
  rewrite layout_list; [apply app_nil_r | | exact I].
  apply Forall_forall. intros t _. apply layout_tree, Hs.
Qed.

(* ============================================================================================ *)
(* 3. keywords: reading the forest of a structure gives the structure back                       *)
(* ============================================================================================ *)

Lemma kids_trees_eq i t k : kids_trees (GNode i t k) = items k.
Proof. reflexivity. Qed.

Lemma items_nil : items [] = Some [].
Proof. reflexivity. Qed.

Lemma items_cons x r :
  items (x :: r) =
    let tx := g_txt x in
    let pair_block := fun (sep : string) (mkt : list tree -> list tree -> tree) =>
      match r with
      | y :: r' =>
          if String.eqb (g_txt y) sep then
            match kids_trees x, kids_trees y, items r' with
            | Some a, Some b, Some m => if nonempty a && nonempty b then Some (mkt a b :: m) else None
            | _, _, _ => None
            end
          else None
      | [] => None
      end in
    if String.eqb tx kw_par then pair_block kw_par_sep TPar
    else if String.eqb tx kw_try then pair_block kw_catch TTry
    else if is_separator tx then None
    else
      match g_kids x with
      | [] => match items r with Some m => Some (TLeaf tx :: m) | None => None end
      | _ :: _ =>
          match strip_colon tx, kids_trees x with
          | Some h, Some body =>
              match r with
              | y :: r' =>
                  if String.eqb (g_txt y) kw_last then
                    match kids_trees y, items r' with
                    | Some lst, Some m => if nonempty lst then Some (TBlockLast h body lst :: m) else None
                    | _, _ => None
                    end
                  else match items r with Some m => Some (TBlock h body :: m) | None => None end
              | [] => Some [TBlock h body]
              end
          | _, _ => None
          end
      end.
Proof. reflexivity. Qed.

Lemma strip_colon_append h : strip_colon (h +++ kw_colon) = Some h.
Proof.
  induction h as [|c h IH]; [reflexivity|].
  cbn [String.append strip_colon]. rewrite IH.
  destruct h; reflexivity.
Qed.

Lemma orb_false3 a b c : a || b || c = false -> a = false /\ b = false /\ c = false.
Proof. destruct a, b, c; cbn; intros; try discriminate; auto. Qed.

Lemma line_ok_facts x :
  line_ok x = true ->
  String.eqb x kw_par = false /\ String.eqb x kw_try = false /\ is_separator x = false /\
  String.eqb x kw_last = false /\ row_safe x = true.
Proof.
  unfold line_ok, is_keyword. intros H.
  apply andb_true_iff in H. destruct H as [Hr Hk].
  apply negb_true_iff in Hk.
  apply orb_false3 in Hk. destruct Hk as (H1 & H2 & H3).
  repeat split; try assumption.
  unfold is_separator in H3. apply orb_false3 in H3. tauto.
Qed.

Definition starts_ok (rest : list gnode) : Prop :=
  match rest with [] => True | n :: _ => String.eqb (g_txt n) kw_last = false end.

Lemma gnodes_cons step d x r : gnodes step d (x :: r) = gnodes_tree step d x ++ gnodes step d r.
Proof. reflexivity. Qed.

Lemma gnodes_nonempty step d ts : nonempty ts = true -> exists n k, gnodes step d ts = n :: k.
Proof.
  destruct ts as [|x r]; [discriminate|]. intros _. rewrite gnodes_cons.
  destruct x; cbn; eauto.
Qed.

Lemma gnodes_tree_starts_ok step d t rest :
  tree_texts_ok t = true -> starts_ok (gnodes_tree step d t ++ rest).
Proof.
  destruct t; cbn [gnodes_tree app starts_ok g_txt tree_texts_ok]; intros H; try reflexivity.
  - apply line_ok_facts in H. tauto.
  - apply andb_true_iff in H. destruct H as [H _]. apply line_ok_facts in H. tauto.
  - apply andb_true_iff in H. destruct H as [H _]. apply andb_true_iff in H. destruct H as [H _].
    apply line_ok_facts in H. tauto.
Qed.

Definition read_P (step : N) (t : tree) : Prop :=
  tree_wf t = true -> tree_texts_ok t = true ->
  forall d rest, starts_ok rest ->
    items (gnodes_tree step d t ++ rest) = option_map (cons t) (items rest).

Lemma read_list step ts :
  Forall (read_P step) ts ->
  forallb tree_wf ts = true -> forallb tree_texts_ok ts = true ->
  forall d rest, starts_ok rest ->
    items (gnodes step d ts ++ rest) = option_map (app ts) (items rest).
Proof.
  induction 1 as [|x r Hx _ IH]; intros Hw Ht d rest Hr.
  - cbn. destruct (items rest); reflexivity.
  - cbn [forallb] in Hw, Ht.
    apply andb_true_iff in Hw. destruct Hw as [Hwx Hwr].
    apply andb_true_iff in Ht. destruct Ht as [Htx Htr].
    rewrite gnodes_cons, <- app_assoc.
    rewrite Hx; try assumption.
    + rewrite IH by assumption. destruct (items rest); reflexivity.
    + destruct r as [|y r']; [exact Hr|].
      rewrite gnodes_cons, <- app_assoc. apply gnodes_tree_starts_ok.
      cbn [forallb] in Htr. apply andb_true_iff in Htr. tauto.
Qed.

Lemma read_kids step d ts :
  Forall (read_P step) ts -> forallb tree_wf ts = true -> forallb tree_texts_ok ts = true ->
  items (gnodes step d ts) = Some ts.
Proof.
  intros HF Hw Ht.
  rewrite <- (app_nil_r (gnodes step d ts)).
  rewrite (read_list step ts HF Hw Ht d []) by exact I.
  rewrite items_nil. cbn. rewrite app_nil_r. reflexivity.
Qed.

Lemma read_tree step : forall t, read_P step t.
Proof.
  induction t as [x | l r H H0 | l r H H0 | h b H | h b l H H0] using tree_ind'; intros Hw Ht d rest Hr.
  - (* leaf *)
    cbn [tree_texts_ok] in Ht. apply line_ok_facts in Ht. destruct Ht as (E1 & E2 & E3 & _).
    cbn [gnodes_tree app]. rewrite items_cons. cbn [g_txt g_kids].
    rewrite E1, E2, E3. destruct (items rest); reflexivity.
  - (* par *)
    cbn [tree_wf] in Hw. cbn [tree_texts_ok] in Ht.
    apply andb_true_iff in Hw. destruct Hw as [Hw Hwr].
    apply andb_true_iff in Hw. destruct Hw as [Hw Hwl].
    apply andb_true_iff in Hw. destruct Hw as [Hnl Hnr].
    apply andb_true_iff in Ht. destruct Ht as [Htl Htr].
    cbn [gnodes_tree app]. rewrite items_cons. cbn [g_txt g_kids].
    change (String.eqb kw_par kw_par) with true. cbn iota.
    change (String.eqb kw_par_sep kw_par_sep) with true. cbn iota.
    rewrite !kids_trees_eq.
    fold (gnodes step (d + step) l). fold (gnodes step (d + step) r).
    rewrite (read_kids step (d + step) l) by assumption.
    rewrite (read_kids step (d + step) r) by assumption.
    destruct (items rest); [| reflexivity].
    rewrite Hnl, Hnr. reflexivity.
  - (* try *)
    cbn [tree_wf] in Hw. cbn [tree_texts_ok] in Ht.
    apply andb_true_iff in Hw. destruct Hw as [Hw Hwr].
    apply andb_true_iff in Hw. destruct Hw as [Hw Hwl].
    apply andb_true_iff in Hw. destruct Hw as [Hnl Hnr].
    apply andb_true_iff in Ht. destruct Ht as [Htl Htr].
    cbn [gnodes_tree app]. rewrite items_cons. cbn [g_txt g_kids].
    change (String.eqb kw_try kw_par) with false. cbn iota.
    change (String.eqb kw_try kw_try) with true. cbn iota.
    change (String.eqb kw_catch kw_catch) with true. cbn iota.
    rewrite !kids_trees_eq.
    fold (gnodes step (d + step) l). fold (gnodes step (d + step) r).
    rewrite (read_kids step (d + step) l) by assumption.
    rewrite (read_kids step (d + step) r) by assumption.
    destruct (items rest); [| reflexivity].
    rewrite Hnl, Hnr. reflexivity.
  - (* block *)
    cbn [tree_wf] in Hw. cbn [tree_texts_ok] in Ht.
    apply andb_true_iff in Hw. destruct Hw as [Hn Hw].
    apply andb_true_iff in Ht. destruct Ht as [Hh Ht].
    apply line_ok_facts in Hh. destruct Hh as (E1 & E2 & E3 & _).
    cbn [gnodes_tree app]. rewrite items_cons. cbn [g_txt g_kids].
    rewrite E1, E2, E3.
    fold (gnodes step (d + step) b).
    destruct (gnodes_nonempty step (d + step) b Hn) as (n & k & Ek).
    rewrite Ek at 1. rewrite strip_colon_append, kids_trees_eq.
    rewrite (read_kids step (d + step) b) by assumption.
    destruct rest as [|y r'].
    + rewrite items_nil. reflexivity.
    + cbn [starts_ok] in Hr. rewrite Hr. destruct (items (y :: r')); reflexivity.
  - (* block with last *)
    cbn [tree_wf] in Hw. cbn [tree_texts_ok] in Ht.
    apply andb_true_iff in Hw. destruct Hw as [Hw Hwl].
    apply andb_true_iff in Hw. destruct Hw as [Hw Hwb].
    apply andb_true_iff in Hw. destruct Hw as [Hnb Hnl].
    apply andb_true_iff in Ht. destruct Ht as [Ht Htl].
    apply andb_true_iff in Ht. destruct Ht as [Hh Htb].
    apply line_ok_facts in Hh. destruct Hh as (E1 & E2 & E3 & _).
    cbn [gnodes_tree app]. rewrite items_cons. cbn [g_txt g_kids].
    rewrite E1, E2, E3.
    fold (gnodes step (d + step) b). fold (gnodes step (d + step) l).
    destruct (gnodes_nonempty step (d + step) b Hnb) as (n & k & Ek).
    rewrite Ek at 1. rewrite strip_colon_append, !kids_trees_eq.
    change (String.eqb kw_last kw_last) with true. cbn iota.
    rewrite (read_kids step (d + step) b) by assumption.
    rewrite (read_kids step (d + step) l) by assumption.
    destruct (items rest); [| reflexivity].
    rewrite Hnl. reflexivity.
Qed.

Lemma read_print step ts :
  0 < step -> forallb tree_wf ts = true -> forallb tree_texts_ok ts = true ->
  read_lines (print_trees step 0 ts) = Some ts.
Proof.
  intros Hs Hw Ht. unfold read_lines. rewrite gforest_print by exact Hs.
  apply read_kids; try assumption.
  apply Forall_forall. intros t _. apply read_tree.
Qed.

(* ============================================================================================ *)
(* 4. text: splitting the rendered text gives the lines back                                     *)
(* ============================================================================================ *)

Lemma parse_rows_row row rest :
  has_char nl row = false ->
  parse_rows (row +++ String nl rest) = option_map (cons row) (parse_rows rest).
Proof.
  induction row as [|c row IH]; intros H.
  - cbn. reflexivity.
  - cbn [has_char] in H. apply orb_false_iff in H. destruct H as [Hc Hrow].
    cbn [String.append parse_rows]. rewrite Hc, IH by exact Hrow.
    destruct (parse_rows rest); reflexivity.
Qed.

Lemma has_char_append c a b : has_char c (a +++ b) = has_char c a || has_char c b.
Proof. induction a as [|x a IH]; [reflexivity|]. cbn. rewrite IH, orb_assoc. reflexivity. Qed.

Lemma has_char_spaces k : has_char nl (spaces_nat k) = false.
Proof. induction k; [reflexivity|]. cbn. exact IHk. Qed.

Lemma line_of_row_spaces k x :
  starts_with_space x = false -> line_of_row (spaces_nat k +++ x) = mk (N.of_nat k) x.
Proof.
  intros Hx. induction k as [|k IH].
  - cbn [spaces_nat String.append N.of_nat]. destruct x as [|c x]; [reflexivity|].
    cbn in Hx. cbn [line_of_row]. rewrite Hx. reflexivity.
  - cbn [spaces_nat String.append line_of_row]. change (Ascii.eqb space space) with true. cbn iota.
    rewrite IH. cbn [l_indent l_text mk]. rewrite Nat2N.inj_succ. reflexivity.
Qed.

Lemma parse_render ls :
  Forall (fun l => row_safe (l_text l) = true) ls -> parse_lines (render_lines ls) = Some ls.
Proof.
  unfold parse_lines. induction 1 as [|l r Hl _ IH]; [reflexivity|].
  unfold row_safe in Hl. apply andb_true_iff in Hl. destruct Hl as [Hn Hsp].
  apply negb_true_iff in Hn. apply negb_true_iff in Hsp.
  cbn [render_lines].
  replace (spaces (l_indent l) +++ l_text l +++ String nl (render_lines r))
    with ((spaces (l_indent l) +++ l_text l) +++ String nl (render_lines r)).
  2:{ generalize (spaces (l_indent l)). intros s. induction s as [|c s IHs]; [reflexivity|]. cbn. rewrite IHs. reflexivity. }
  rewrite parse_rows_row.
  2:{ rewrite has_char_append. unfold spaces. rewrite has_char_spaces, Hn. reflexivity. }
  destruct (parse_rows (render_lines r)) as [rows|]; [| discriminate IH].
  cbn [option_map] in IH |- *. injection IH as IH. cbn [map]. rewrite IH.
  unfold spaces. rewrite line_of_row_spaces by exact Hsp. rewrite N2Nat.id.
  destruct l; reflexivity.
Qed.

Lemma kw_row_safe :
  row_safe kw_par = true /\ row_safe kw_par_sep = true /\ row_safe kw_try = true /\
  row_safe kw_catch = true /\ row_safe kw_last = true.
Proof. repeat split; reflexivity. Qed.

Definition safe_P (step : N) (t : tree) : Prop :=
  tree_texts_ok t = true -> forall d, Forall (fun l => row_safe (l_text l) = true) (print_tree step d t).

Lemma safe_list step ts :
  Forall (safe_P step) ts -> forallb tree_texts_ok ts = true ->
  forall d, Forall (fun l => row_safe (l_text l) = true) (print_trees step d ts).
Proof.
  induction 1 as [|x r Hx _ IH]; intros Ht d; [constructor|].
  cbn [forallb] in Ht. apply andb_true_iff in Ht. destruct Ht as [Htx Htr].
  rewrite print_trees_cons. apply Forall_app. split; [apply Hx, Htx | apply IH, Htr].
Qed.

Lemma safe_tree step : forall t, safe_P step t.
Proof.
  induction t as [x | l r H H0 | l r H H0 | h b H | h b l H H0] using tree_ind'; intros Ht d; cbn [tree_texts_ok] in Ht; cbn [print_tree].
  - constructor; [| constructor]. apply line_ok_facts in Ht. tauto.
  - apply andb_true_iff in Ht. destruct Ht as [Hl Hr].
    constructor; [reflexivity|]. apply Forall_app. split; [apply (safe_list step l H Hl)|].
    constructor; [reflexivity|]. apply (safe_list step r H0 Hr).
  - apply andb_true_iff in Ht. destruct Ht as [Hl Hr].
    constructor; [reflexivity|]. apply Forall_app. split; [apply (safe_list step l H Hl)|].
    constructor; [reflexivity|]. apply (safe_list step r H0 Hr).
  - apply andb_true_iff in Ht. destruct Ht as [Hh Hb].
    constructor; [apply line_ok_facts in Hh; tauto|]. apply (safe_list step b H Hb).
  - apply andb_true_iff in Ht. destruct Ht as [Ht Hl]. apply andb_true_iff in Ht. destruct Ht as [Hh Hb].
    constructor; [apply line_ok_facts in Hh; tauto|]. apply Forall_app. split; [apply (safe_list step b H Hb)|].
    constructor; [reflexivity|]. apply (safe_list step l H0 Hl).
Qed.

Lemma print_safe step d ts :
  forallb tree_texts_ok ts = true -> Forall (fun l => row_safe (l_text l) = true) (print_trees step d ts).
Proof.
  intros Ht. apply safe_list; [| exact Ht]. apply Forall_forall. intros t _. apply safe_tree.
Qed.

(* ============================================================================================ *)
(* 5. listing order and indentation                                                              *)
(* ============================================================================================ *)

Lemma instruction_lines_app a b : instruction_lines (a ++ b) = instruction_lines a ++ instruction_lines b.
Proof. unfold instruction_lines. rewrite filter_app, map_app. reflexivity. Qed.

Lemma instruction_lines_keep d x ls :
  is_separator x = false -> instruction_lines (mk d x :: ls) = (d, x) :: instruction_lines ls.
Proof. intros H. unfold instruction_lines. cbn [filter l_text mk]. rewrite H. reflexivity. Qed.

Lemma instruction_lines_drop d x ls :
  is_separator x = true -> instruction_lines (mk d x :: ls) = instruction_lines ls.
Proof. intros H. unfold instruction_lines. cbn [filter l_text mk]. rewrite H. reflexivity. Qed.

Definition scale (step : N) (p : N * string) : N * string := (step * fst p, snd p).

Definition listing_P (step : N) (t : tree) : Prop :=
  tree_texts_ok t = true ->
  forall k, instruction_lines (print_tree step (step * k) t) = map (scale step) (tree_listing k t).

Lemma listing_list step ts :
  Forall (listing_P step) ts -> forallb tree_texts_ok ts = true ->
  forall k, instruction_lines (print_trees step (step * k) ts) = map (scale step) (listing k ts).
Proof.
  induction 1 as [|x r Hx _ IH]; intros Ht k; [reflexivity|].
  cbn [forallb] in Ht. apply andb_true_iff in Ht. destruct Ht as [Htx Htr].
  rewrite print_trees_cons, instruction_lines_app, Hx, IH by assumption.
  unfold listing. cbn [flat_map]. rewrite map_app. reflexivity.
Qed.

Lemma step_succ step k : step * k + step = step * (k + 1).
Proof. lia. Qed.

Lemma listing_tree step : forall t, listing_P step t.
Proof.
  induction t as [x | l r H H0 | l r H H0 | h b H | h b l H H0] using tree_ind'; intros Ht k; cbn [tree_texts_ok] in Ht; cbn [print_tree tree_listing].
  - apply line_ok_facts in Ht. rewrite instruction_lines_keep by tauto. reflexivity.
  - apply andb_true_iff in Ht. destruct Ht as [Hl Hr].
    rewrite step_succ.
    fold (print_trees step (step * (k + 1)) l). fold (print_trees step (step * (k + 1)) r).
    fold (listing (k + 1) l). fold (listing (k + 1) r).
    rewrite instruction_lines_keep by reflexivity.
    rewrite instruction_lines_app, instruction_lines_drop by reflexivity.
    rewrite (listing_list step l H Hl), (listing_list step r H0 Hr).
    cbn [map]. rewrite map_app. reflexivity.
  - apply andb_true_iff in Ht. destruct Ht as [Hl Hr].
    rewrite step_succ.
    fold (print_trees step (step * (k + 1)) l). fold (print_trees step (step * (k + 1)) r).
    fold (listing (k + 1) l). fold (listing (k + 1) r).
    rewrite instruction_lines_keep by reflexivity.
    rewrite instruction_lines_app, instruction_lines_drop by reflexivity.
    rewrite (listing_list step l H Hl), (listing_list step r H0 Hr).
    cbn [map]. rewrite map_app. reflexivity.
  - apply andb_true_iff in Ht. destruct Ht as [Hh Hb]. apply line_ok_facts in Hh.
    rewrite step_succ.
    fold (print_trees step (step * (k + 1)) b). fold (listing (k + 1) b).
    rewrite instruction_lines_keep by tauto.
    rewrite (listing_list step b H Hb). reflexivity.
  - apply andb_true_iff in Ht. destruct Ht as [Ht Hl]. apply andb_true_iff in Ht. destruct Ht as [Hh Hb].
    apply line_ok_facts in Hh.
    rewrite step_succ.
    fold (print_trees step (step * (k + 1)) b). fold (print_trees step (step * (k + 1)) l).
    fold (listing (k + 1) b). fold (listing (k + 1) l).
    rewrite instruction_lines_keep by tauto.
    rewrite instruction_lines_app, instruction_lines_drop by reflexivity.
    rewrite (listing_list step b H Hb), (listing_list step l H0 Hl).
    cbn [map]. rewrite map_app. reflexivity.
Qed.

Definition indent_P (step : N) (t : tree) : Prop :=
  forall k, forallb (indents_ok step k) (gnodes_tree step (step * k) t) = true.

Lemma indent_list step ts :
  Forall (indent_P step) ts -> forall k, forallb (indents_ok step k) (gnodes step (step * k) ts) = true.
Proof.
  induction 1 as [|x r Hx _ IH]; intros k; [reflexivity|].
  rewrite gnodes_cons, forallb_app, Hx, IH. reflexivity.
Qed.

Lemma indent_tree step : forall t, indent_P step t.
Proof.
  induction t as [x | l r H H0 | l r H H0 | h b H | h b l H H0] using tree_ind'; intros k; cbn [gnodes_tree forallb indents_ok]; rewrite ?N.eqb_refl; cbn [andb].
  - reflexivity.
  - rewrite step_succ. fold (gnodes step (step * (k + 1)) l). fold (gnodes step (step * (k + 1)) r).
    rewrite (indent_list step l H), (indent_list step r H0). reflexivity.
  - rewrite step_succ. fold (gnodes step (step * (k + 1)) l). fold (gnodes step (step * (k + 1)) r).
    rewrite (indent_list step l H), (indent_list step r H0). reflexivity.
  - rewrite step_succ. fold (gnodes step (step * (k + 1)) b).
    rewrite (indent_list step b H). reflexivity.
  - rewrite step_succ. fold (gnodes step (step * (k + 1)) b). fold (gnodes step (step * (k + 1)) l).
    rewrite (indent_list step b H), (indent_list step l H0). reflexivity.
Qed.

(* ============================================================================================ *)
(* 6. the only crash: usize overflow of the indentation                                          *)
(* ============================================================================================ *)

Lemma forest_depth_app a b : forest_depth (a ++ b) = N.max (forest_depth a) (forest_depth b).
Proof.
  unfold forest_depth. induction a as [|x a IH]; cbn [app map fold_right]; [lia|]. rewrite IH. lia.
Qed.

Lemma forest_depth_single x : forest_depth [x] = tree_depth x.
Proof. unfold forest_depth. cbn. lia. Qed.

Lemma tree_depth_par l r : tree_depth (TPar l r) = 1 + N.max (forest_depth l) (forest_depth r).
Proof. reflexivity. Qed.
Lemma tree_depth_try l r : tree_depth (TTry l r) = 1 + N.max (forest_depth l) (forest_depth r).
Proof. reflexivity. Qed.
Lemma tree_depth_block h b : tree_depth (TBlock h b) = 1 + forest_depth b.
Proof. reflexivity. Qed.
Lemma tree_depth_blocklast h b l : tree_depth (TBlockLast h b l) = 1 + N.max (forest_depth b) (forest_depth l).
Proof. reflexivity. Qed.

Lemma mul_step_le step a b : a <= b -> step * a <= step * b.
Proof. apply N.mul_le_mono_l. Qed.

Lemma no_overflow (hopon : bool) (step : N) :
  forall t indent, indent + step * forest_depth (flatten hopon t) <= usize_max ->
                   walker_overflows hopon step t indent = false.
Proof.
  induction t as [t H | t1 t2 IHt1 IHt2 | t1 t2 IHt1 IHt2 | t1 t2 IHt1 IHt2 | x l r t IHt | x l r t IHt
                  | x it i t last sp IHt H | x it i t last sp IHt H | x it i t last sp IHt H | x a t sp IHt] using instr_ind'; intros indent Hb.
  - destruct t; try discriminate; reflexivity.
  - cbn [flatten] in Hb. rewrite forest_depth_app in Hb. cbn [walker_overflows].
    pose proof (mul_step_le step (forest_depth (flatten hopon t1)) _ (N.le_max_l _ (forest_depth (flatten hopon t2)))).
    pose proof (mul_step_le step (forest_depth (flatten hopon t2)) _ (N.le_max_r (forest_depth (flatten hopon t1)) _)).
    rewrite IHt1, IHt2 by lia. reflexivity.
  - cbn [flatten] in Hb. rewrite forest_depth_single, tree_depth_par in Hb. cbn [walker_overflows].
    rewrite N.mul_add_distr_l, N.mul_1_r in Hb.
    pose proof (mul_step_le step (forest_depth (flatten hopon t1)) _ (N.le_max_l _ (forest_depth (flatten hopon t2)))).
    pose proof (mul_step_le step (forest_depth (flatten hopon t2)) _ (N.le_max_r (forest_depth (flatten hopon t1)) _)).
    rewrite IHt1, IHt2 by lia.
    destruct (N.ltb_spec usize_max (indent + step)); [lia | reflexivity].
  - cbn [flatten] in Hb. rewrite forest_depth_single, tree_depth_try in Hb. cbn [walker_overflows].
    rewrite N.mul_add_distr_l, N.mul_1_r in Hb.
    pose proof (mul_step_le step (forest_depth (flatten hopon t1)) _ (N.le_max_l _ (forest_depth (flatten hopon t2)))).
    pose proof (mul_step_le step (forest_depth (flatten hopon t2)) _ (N.le_max_r (forest_depth (flatten hopon t1)) _)).
    rewrite IHt1, IHt2 by lia.
    destruct (N.ltb_spec usize_max (indent + step)); [lia | reflexivity].
  - cbn [flatten] in Hb. rewrite forest_depth_single, tree_depth_block in Hb. cbn [walker_overflows].
    rewrite N.mul_add_distr_l, N.mul_1_r in Hb.
    rewrite IHt by lia.
    destruct (N.ltb_spec usize_max (indent + step)); [lia | reflexivity].
  - cbn [flatten] in Hb. rewrite forest_depth_single, tree_depth_block in Hb. cbn [walker_overflows].
    rewrite N.mul_add_distr_l, N.mul_1_r in Hb.
    rewrite IHt by lia.
    destruct (N.ltb_spec usize_max (indent + step)); [lia | reflexivity].
  - destruct last as [l|]; cbn [flatten] in Hb; cbn [walker_overflows].
    + rewrite forest_depth_single, tree_depth_blocklast, N.mul_add_distr_l, N.mul_1_r in Hb.
      pose proof (mul_step_le step (forest_depth (flatten hopon t)) _ (N.le_max_l _ (forest_depth (flatten hopon l)))).
      pose proof (mul_step_le step (forest_depth (flatten hopon l)) _ (N.le_max_r (forest_depth (flatten hopon t)) _)).
      rewrite IHt, (H l eq_refl) by lia.
      destruct (N.ltb_spec usize_max (indent + step)); [lia | reflexivity].
    + rewrite forest_depth_single, tree_depth_block, N.mul_add_distr_l, N.mul_1_r in Hb.
      rewrite IHt by lia.
      destruct (N.ltb_spec usize_max (indent + step)); [lia | reflexivity].
  - destruct last as [l|]; cbn [flatten] in Hb; cbn [walker_overflows].
    + rewrite forest_depth_single, tree_depth_blocklast, N.mul_add_distr_l, N.mul_1_r in Hb.
      pose proof (mul_step_le step (forest_depth (flatten hopon t)) _ (N.le_max_l _ (forest_depth (flatten hopon l)))).
      pose proof (mul_step_le step (forest_depth (flatten hopon l)) _ (N.le_max_r (forest_depth (flatten hopon t)) _)).
      rewrite IHt, (H l eq_refl) by lia.
      destruct (N.ltb_spec usize_max (indent + step)); [lia | reflexivity].
    + rewrite forest_depth_single, tree_depth_block, N.mul_add_distr_l, N.mul_1_r in Hb.
      rewrite IHt by lia.
      destruct (N.ltb_spec usize_max (indent + step)); [lia | reflexivity].
  - destruct last as [l|]; cbn [flatten] in Hb; cbn [walker_overflows].
    + rewrite forest_depth_single, tree_depth_blocklast, N.mul_add_distr_l, N.mul_1_r in Hb.
      pose proof (mul_step_le step (forest_depth (flatten hopon t)) _ (N.le_max_l _ (forest_depth (flatten hopon l)))).
      pose proof (mul_step_le step (forest_depth (flatten hopon l)) _ (N.le_max_r (forest_depth (flatten hopon t)) _)).
      rewrite IHt, (H l eq_refl) by lia.
      destruct (N.ltb_spec usize_max (indent + step)); [lia | reflexivity].
    + rewrite forest_depth_single, tree_depth_block, N.mul_add_distr_l, N.mul_1_r in Hb.
      rewrite IHt by lia.
      destruct (N.ltb_spec usize_max (indent + step)); [lia | reflexivity].
  - cbn [flatten] in Hb. cbn [walker_overflows].
    destruct (if hopon then try_hopon a t else None) as [p|]; [reflexivity|].
    rewrite forest_depth_single, tree_depth_block, N.mul_add_distr_l, N.mul_1_r in Hb.
    rewrite IHt by lia.
    destruct (N.ltb_spec usize_max (indent + step)); [lia | reflexivity].
Qed.

(* ============================================================================================ *)
(* 7. the statements of model/Beautify.v                                                         *)
(* ============================================================================================ *)

Theorem C28_read_flatten_holds : C28_read_flatten_stmt.
Proof.
  intros hopon step t Hs Ht. rewrite walker_print.
  apply read_print; [exact Hs | apply flatten_wf | exact Ht].
Qed.

Theorem C28_text_holds : C28_text_stmt.
Proof.
  intros hopon step t s Hs Ht E. unfold beautify_ast in E.
  destruct (walker_overflows hopon step t 0); [discriminate E|].
  injection E as <-. unfold read_text.
  rewrite parse_render.
  - apply C28_read_flatten_holds; assumption.
  - rewrite walker_print. apply print_safe, Ht.
Qed.

Theorem C28_listing_holds : C28_listing_stmt.
Proof.
  intros hopon step t Ht. rewrite walker_print.
  replace 0 with (step * 0) at 1 by lia.
  rewrite listing_list; [reflexivity | | exact Ht].
  apply Forall_forall. intros x _. apply listing_tree.
Qed.

Theorem C28_indent_holds : C28_indent_stmt.
Proof.
  intros hopon step t Hs. rewrite walker_print, gforest_print by exact Hs.
  replace 0 with (step * 0) at 2 by lia.
  apply indent_list. apply Forall_forall. intros x _. apply indent_tree.
Qed.

Theorem C28_no_crash_holds : C28_no_crash_stmt.
Proof.
  intros hopon step t Hb. unfold beautify_ast.
  rewrite no_overflow by (rewrite N.add_0_l; exact Hb). eauto.
Qed.

Lemma beautify_tables_ok : beautify_tables_agree = true.
Proof. vm_compute. reflexivity. Qed.

(* the hypothesis on the renderings cannot be dropped: a string literal may contain a newline (the lexer
   takes everything up to the next double quote), the beautifier prints it verbatim, and the rest of the
   literal is then read as lines of the listing.
   Script:  (seq (call "p" ("s" "f") ["a<NL>par:<NL>    null<NL>|<NL>    null"]) (null))
   The term is the real parser's tree of that script (harness/src/bin/beautify.rs). *)
Definition C28_newline_witness : instr :=
  (ISeq (ICall "call ""p"" (""s"" ""f"") [""a
par:
    null
|
    null""] " {| t_peer := (PLiteral "p"); t_service := (SLiteral "s"); t_function := (SLiteral "f") |} [(VLiteral "a
par:
    null
|
    null")] OutNone) INull).

Theorem C28_unrestricted_refuted : ~ C28_unrestricted.
Proof.
  intros H.
  pose proof (H 4 C28_newline_witness (render_lines (beautify_walker false 4 C28_newline_witness 0))
                eq_refl eq_refl eq_refl) as E.
  vm_compute in E. discriminate E.
Qed.
