(* C19Canon.v -- the canon half of property C19 over the stage-2/3 executor (model/ExecStreams.v:
   exec_canon_generic = canon.rs / canon_map.rs / canon_stream_map_scalar.rs + canon_utils/mod.rs):
   a stream (or stream map) is canonicalized only by the peer the canon is designated to, and a
   canon is newly marked as sent exactly when the designated peer -- which differs from the current
   one -- is pushed to the next peers.  Definitions only. *)
From Aqua Require Import Base Json Air Trace Handler Values Scalars Lens Exec RunExec ExecStreams CallSpec.
Open Scope N_scope.
Open Scope list_scope.

(* the state found in the previous/current data for this canon position *)
Definition met_canon (x : ctx) (c : canon_result cid) : Prop :=
  exists h, meet_canon_start cid cid_eqb (x_handler x) = Ok (CanonMet cid c, h).

Definition canon_post (x : ctx) (p : peer_arg) (y : ctx) : Prop :=
  (* a canon never touches the call bookkeeping *)
  x_requests y = x_requests x /\ x_lcid y = x_lcid x /\ x_call_results y = x_call_results x /\
  x_params y = x_params x /\
  (* either nothing is forwarded, or the designated peer -- not the current one -- is pushed and the
     canon is marked as sent by the current peer *)
  (x_next_peers y = x_next_peers x \/
   exists peer, resolve_peer_id_to_string x p = POk peer /\ peer <> current_peer x /\
                x_next_peers y = x_next_peers x ++ [peer] /\
                tr y = tr x ++ [SCanon (CanonRequestSentBy (current_peer x))]) /\
  (* a NEW sent-mark (not the one met in the data) is the current peer's and comes with a forward *)
  (forall s, tr y = tr x ++ [SCanon (CanonRequestSentBy s)] -> ~ met_canon x (CanonRequestSentBy s) ->
             s = current_peer x /\ x_next_peers y <> x_next_peers x) /\
  (* a NEW canon result (not the one met in the data) is made only where the canon is designated *)
  (forall c, tr y = tr x ++ [SCanon (CanonExecuted c)] -> ~ met_canon x (CanonExecuted c) ->
             resolve_peer_id_to_string x p = POk (current_peer x)).

(* for the three canon instructions (canon, canon of a stream map, canon of a stream map into a scalar) *)
Definition C19_canon_stmt : Prop :=
  forall k tb x p stream y,
    outcome_ctx (exec_canon_generic k tb x p stream) = Some y -> canon_post x p y.
