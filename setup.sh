#!/bin/sh
# Offline build of the whole framework from files on disk: translator, full Coq build, harness.
set -e
cd "$(dirname "$0")"
export CARGO_NET_OFFLINE=true
mkdir -p .cache evidence replays
python3 tools/gen_model.py
cd coq
coq_makefile -f _CoqProject -o Makefile $(find gen model proofs props -name '*.v' | sort)
find gen model proofs props -name '*.v' | sort > .srclist.tmp
python3 - <<'PY'
import os
srcs=[l.strip() for l in open('.srclist.tmp') if l.strip()]
open('.srclist','w').write("\n".join(srcs))
os.remove('.srclist.tmp')
PY
timeout 3000 make -j16 -k || echo 'WARNING: some Coq files did not build (each check rebuilds what it needs)'
cd ../harness
cp /repo/Cargo.lock Cargo.lock.repo 2>/dev/null || true
timeout 3000 cargo build --offline --lib
for b in src/bin/*.rs; do
  n=$(basename "$b" .rs)
  timeout 3000 cargo build --offline --bin "$n" || echo "WARNING: driver $n did not build"
done
echo "setup done"
