(* TetraSpec.v -- specification vocabulary and statements of property C17
   ("security tetraplets describe where each argument came from") over the executor model
   (model/Exec.v, model/ExecStreams.v).

   Rust: marine_call_parameters::SecurityTetraplet (literal_tetraplet, add_lens),
   crates/air-lib/polyplets/src/triplet.rs (ResolvedTriplet -> SecurityTetraplet),
   air/src/execution_step/resolver/resolvable_impl.rs, value_types/utils.rs
   (populate_tetraplet_with_lambda), value_types/jvaluable/*.rs, value_types/iterable/*.rs,
   instructions/call/{triplet.rs, resolved_call.rs, call_result_setter.rs}, instructions/canon_utils.

   The specification of provenance is written here on its own:
     origin  = (peer, service, function) of the call instruction that produced a value, or
               (init peer, "", "") for literals and built-ins;
     lens    = the text of the lenses applied to the producing call's result, [render_path] for a
               value path, [index_lens i] for the i-th element met by a fold.
   The statements say where the model (hence, through the lock-step correspondence, the code) puts
   exactly [tet origin lens] next to an argument, and the three places where it does not
   (`.length`, a lens into a canon stream, a lens on an error object): these are stated exactly
   and refuted against the property text with concrete runs.
   Definitions only; proofs in proofs/TetraProofs.v. *)
From Aqua Require Import Base Json Air Trace Handler Values Scalars Lens Exec RunExec ExecStreams CallSpec.
From Aqua Require Stream.
Open Scope N_scope.
Open Scope list_scope.

(* ------------------------------------------------------------------------------------------ *)
(* the specification *)

Record origin := { o_peer : string; o_service : string; o_function : string }.

Definition origin_of (t : tetraplet) : origin :=
  {| o_peer := tp_peer t; o_service := tp_service t; o_function := tp_function t |}.
Definition tet (o : origin) (lens : string) : tetraplet :=
  {| tp_peer := o_peer o; tp_service := o_service o; tp_function := o_function o; tp_lens := lens |}.

(* literals and built-ins: the init peer, no service, no function *)
Definition literal_origin (init : string) : origin := {| o_peer := init; o_service := ""; o_function := "" |}.
(* a value produced by a call: the RESOLVED peer, service and function of that call instruction *)
Definition call_origin (peer service function : string) : origin :=
  {| o_peer := peer; o_service := service; o_function := function |}.

(* the text of a lens.  An accessor taken from a scalar is rendered by the scalar's NAME (the
   index / field it held at run time does not appear). *)
Definition render_accessor (a : accessor) : string :=
  match a with
  | ArrayAccess i => "[" ++ N_to_string i ++ "]"
  | FieldAccessByName f => f
  | FieldAccessByScalar s => "[" ++ s ++ "]"
  | AccessorError => "a parser error occurred while parsing lambda expression"
  end%string.
Definition render_path (p : list accessor) : string :=
  (".$." ++ match p with
            | [] => ""
            | a :: rest => fold_left (fun acc b => acc ++ "." ++ render_accessor b) rest (render_accessor a)
            end)%string.
(* one step of a fold over an array: the element's position *)
Definition index_lens (i : N) : string := (".$.[" ++ N_to_string i ++ "]")%string.

(* the tetraplet the property asks for: origin of the value the lens was applied to, the lens
   appended to whatever lens that value already carries *)
Definition lensed (t : tetraplet) (lens : string) : tetraplet := tet (origin_of t) (tp_lens t ++ lens)%string.

Definition is_builtin_value (v : value) : bool :=
  match v with
  | VInitPeerId | VTimestamp | VTTL | VLiteral _ | VNumber _ | VBoolean _ | VEmptyArray => true
  | _ => false
  end.
Definition is_builtin_ap_arg (a : ap_arg) : bool :=
  match a with
  | AInitPeerId | ATimestamp | ATTL | ALiteral _ | ANumber _ | ABoolean _ | AEmptyArray => true
  | _ => false
  end.

(* the content id under which a call result travels to the other peers *)
Definition service_cid (result : json) (arg_hash : cid) (t : tetraplet) : cid :=
  CService (CValue result) arg_hash (CTetraplet t).

(* ------------------------------------------------------------------------------------------ *)
(* C17_call_result: a value produced by a call is stored with the tetraplet of THAT call
   instruction -- resolved peer, service, function, empty lens -- when the result comes from the
   local service and when it is loaded from merged data *)

Definition C17_call_result_stmt : Prop :=
  (* the tetraplet of a call is its resolved triplet with an empty lens *)
  (forall x tr t, resolve_triplet x tr = POk t ->
      resolve_peer_id_to_string x (t_peer tr) = POk (tp_peer t) /\
      resolve_to_string x (t_service tr) = POk (tp_service t) /\
      resolve_to_string x (t_function tr) = POk (tp_function t) /\
      t = tet (call_origin (tp_peer t) (tp_service t) (tp_function t)) "") /\
  (* local service result, scalar output *)
  (forall x result t pos ah sv y cr,
      populate_from_service_result x result t pos ah (OutScalar sv) = (XOk y, cr) ->
      exists x2, set_scalar_value (fst (track_service_result x result t ah)) (v_name sv)
                                  (VAService result t pos (service_cid result ah t)) = POk x2 /\
                 y = record_cid x2 (tp_peer t) (service_cid result ah t) /\
                 cr = Some (Executed (VRScalar (service_cid result ah t)))) /\
  (* local service result, stream output *)
  (forall x result t pos ah sv y cr,
      populate_from_service_result x result t pos ah (OutStream sv) = (XOk y, cr) ->
      exists x2, add_stream_value (fst (track_service_result x result t ah)) (v_name sv)
                                  (VAService result t pos (service_cid result ah t)) Stream.GNew (v_pos sv) = POk x2 /\
                 y = record_cid x2 (tp_peer t) (service_cid result ah t) /\
                 cr = Some (Executed (VRStream (service_cid result ah t) generation_stub))) /\
  (* result loaded from (merged) data: the tetraplet recorded in the data IS the tetraplet of this
     call instruction (verify_call), and the value is stored with it *)
  (forall x c ah t pos src sv y,
      populate_from_data x (VRScalar c) ah t pos src (OutScalar sv) = POk y ->
      exists result ah', c = service_cid result ah' t /\
                         set_scalar_value x (v_name sv) (VAService result t pos c) = POk y) /\
  (forall x c g ah t pos src sv y,
      populate_from_data x (VRStream c g) ah t pos src (OutStream sv) = POk y ->
      exists result ah', c = service_cid result ah' t /\
                         add_stream_value x (v_name sv) (VAService result t pos c) (gen_of_source src g) (v_pos sv) = POk y) /\
  (* whatever is stored that way carries exactly the call's tetraplet *)
  (forall result t pos c, va_tetraplet (VAService result t pos c) = t /\ va_result (VAService result t pos c) = result).

(* a stored scalar is what a later argument resolves to (the scalars store in a state where the
   current depth is allowed, as in every state reached by execution; no iterator of that name) *)
Definition matrix_ok (m : matrix vagg) : Prop := existsb (N.eqb (m_depth vagg m)) (m_allowed vagg m) = true.
Definition C17_stored_is_read_stmt : Prop :=
  forall x name v y,
    matrix_ok (x_scalars x) -> iter_get (x_iterables x) name = None ->
    set_scalar_value x name v = POk y ->
    resolve_scalar y name = POk (va_result v, [va_tetraplet v], va_provenance v).

(* ------------------------------------------------------------------------------------------ *)
(* C17_literal: literals and built-ins *)

Definition C17_literal_stmt : Prop :=
  (forall x v, is_builtin_value v = true ->
      exists j, resolve_value x v = POk (j, [tet (literal_origin (init_peer x)) ""], ProvLiteral)) /\
  (forall x a touch v, is_builtin_ap_arg a = true -> apply_to_arg x a touch = POk v ->
      va_tetraplet v = tet (literal_origin (init_peer x)) "") /\
  (forall p, literal_tetraplet p = tet (literal_origin p) "").

(* error objects (:error:, %last_error%): the tetraplet kept with the error, or the init peer's
   literal tetraplet; a lens applied to the error object is NOT recorded *)
Definition C17_error_stmt : Prop :=
  (forall x ie lens j ts p, resolve_errors x ie lens = POk (j, ts, p) ->
      ts = [match ie_tetraplet ie with Some t => t | None => tet (literal_origin (init_peer x)) "" end]) /\
  (forall e i p t, ie_tetraplet (instr_error_from_exec_error e i p t) = t) /\
  (ie_tetraplet no_error = None).

(* ------------------------------------------------------------------------------------------ *)
(* C17_lens: x.$.path comes with exactly one tetraplet: the origin of x, and x's lens followed by
   the rendered path.  The `.length` functor is the exception (stated exactly). *)

Definition length_functor_tetraplet : tetraplet :=
  {| tp_peer := ""; tp_service := ""; tp_function := ""; tp_lens := ".length" |}.

Definition C17_lens_stmt : Prop :=
  (forall p, lambda_to_string (LValuePath p) = render_path p) /\
  (forall x v j ts p, resolve_scalar_l x v = POk (j, ts, p) ->
      exists r j0 t0,
        scalars_get_value x (vl_name v) = POk r /\ scalar_ref_parts r = POk (j0, t0, p) /\
        of_lres (select_by_lambda_from_scalar (lens_env x) j0 (vl_lambda v)) = POk j /\
        match vl_lambda v with
        | LValuePath path => ts = [lensed t0 (render_path path)]
        | LFunctorLength => ts = [length_functor_tetraplet]
        end) /\
  (* the value the lens is applied to: a stored value with its own tetraplet, or the current
     element of a fold *)
  (forall a, scalar_ref_parts (SRValue a) = POk (va_result a, va_tetraplet a, va_provenance a)) /\
  (forall x v, resolve_value x (VScalarL v) = resolve_scalar_l x v).

(* ------------------------------------------------------------------------------------------ *)
(* C17_iterator: inside a fold the iterator carries the origin of what is iterated and the lens
   ".$.[i]" of the i-th element; over a lens result the lenses concatenate; over a canon stream
   (and over a stream) every element keeps its own tetraplet *)

Definition C17_iterator_stmt : Prop :=
  (forall v c len it, it_peek (ItResolvedCall v c len) = Some it ->
      exists arr, va_result v = JArr arr /\ nth_N arr c = Some (it_value it) /\
                  it_tetraplet it = lensed (va_tetraplet v) (index_lens c) /\ it_prov it = va_provenance v) /\
  (forall items t p c it, it_peek (ItLambdaResult items t p c) = Some it ->
      nth_N items c = Some (it_value it) /\ it_tetraplet it = lensed t (index_lens c) /\ it_prov it = p) /\
  (forall vs c it, it_peek (ItCanon vs c) = Some it \/ it_peek (ItVec vs c) = Some it ->
      exists v, nth_N vs c = Some v /\ it_value it = va_result v /\ it_tetraplet it = va_tetraplet v /\
                it_prov it = va_provenance v) /\
  (* how the iterables are created *)
  (forall x v it, create_fold_iterable x (FIScalar v) = POk (FoldOver it) ->
      exists a arr, va_result a = JArr arr /\ it = ItResolvedCall a 0 (len_N arr) /\
        (scalars_get_value x (v_name v) = POk (SRValue a) \/
         exists f i, scalars_get_value x (v_name v) = POk (SRIterable f) /\ it_peek (fs_iterable f) = Some i /\
                     a = item_into_vagg i)) /\
  (forall x v it, create_fold_iterable x (FIScalarL v) = POk (FoldOver it) ->
      exists r j0 t0 p path arr,
        scalars_get_value x (vl_name v) = POk r /\ scalar_ref_parts r = POk (j0, t0, p) /\
        vl_lambda v = LValuePath path /\
        it = ItLambdaResult arr (lensed t0 (render_path path)) p 0) /\
  (forall x v it, create_fold_iterable x (FICanon v) = POk (FoldOver it) ->
      exists c, get_canon_stream x (v_name v) = POk c /\ it = ItCanon (cw_values c) 0) /\
  (* `next` moves the cursor by one, `prev` back by one *)
  (forall i i', it_next i = (true, i') -> i' = it_with_cursor i (it_cursor i + 1)) /\
  (forall i i', it_prev i = (true, i') -> i' = it_with_cursor i (it_cursor i - 1)) /\
  (* and an iterator used as an argument / copied by ap is that item *)
  (forall f it, it_peek (fs_iterable f) = Some it ->
      scalar_ref_parts (SRIterable f) = POk (it_value it, it_tetraplet it, it_prov it)).

(* ------------------------------------------------------------------------------------------ *)
(* C17_canon: a canon stream as an argument comes with one tetraplet per element, each element's
   own; a lens into a canon stream comes with the selected element's tetraplet UNCHANGED (the
   lens is not recorded); `.length` of a canon stream comes with (executing peer, ".length", "", "") *)

Definition canon_length_tetraplet (executing_peer : string) : tetraplet :=
  {| tp_peer := executing_peer; tp_service := ".length"; tp_function := ""; tp_lens := "" |}.

Definition canon_result_cid (peer : string) (values : list vagg) : cid :=
  CCanonResult (CTetraplet (canon_tetraplet peer)) (map canon_elem_cid values).

Definition C17_canon_stmt : Prop :=
  (forall x name j ts p, resolve_canon x name = POk (j, ts, p) ->
      exists c, get_canon_stream x name = POk c /\
                j = JArr (map va_result (cw_values c)) /\ ts = map va_tetraplet (cw_values c) /\
                length ts = length (cw_values c)) /\
  (forall x v j ts p, resolve_canon_l x v = POk (j, ts, p) ->
      exists c, get_canon_stream x (vl_name v) = POk c /\
        match vl_lambda v with
        | LValuePath path =>
            exists idx rest el, of_lres (split_to_idx (lens_env x) path) = POk (idx, rest) /\
                                nth_N (cw_values c) idx = Some el /\
                                ts = [va_tetraplet el] /\ p = va_provenance el
        | LFunctorLength => ts = [canon_length_tetraplet (current_peer x)]
        end) /\
  (* canonicalisation stores the stream's values as they are, and the content id other peers receive lists
     every element with its own tetraplet (canon_elem_cid) *)
  (forall x stream name peer y, create_canon_first_time (CKStream name) TStreams x stream peer = XOk y ->
      let values := match get_in TStreams x (v_name stream) (v_pos stream) with
                    | Some s => Stream.stream_iter vagg s | None => [] end in
      exists x1 x2, set_canon_value x1 name {| cw_values := values; cw_tetraplet := canon_tetraplet peer;
                                                cw_cid := canon_result_cid peer values |} = POk x2 /\
                    y = set_handler x2 (meet_canon_end cid (x_handler x2) (CanonExecuted (canon_result_cid peer values)))) /\
  (forall v, canon_elem_cid v = CCanonElem (CValue (va_result v)) (CTetraplet (va_tetraplet v)) (prov_to_opt (va_provenance v))) /\
  (* ... and a peer that rebuilds the canon stream from the content ids gets every element back
     with the tetraplet and the value its producer stored *)
  (forall cs values ws, canon_values_by_cids cs (map canon_elem_cid values) = POk ws ->
      map va_tetraplet ws = map va_tetraplet values /\ map va_result ws = map va_result values /\
      map va_provenance ws = map va_provenance values).

(* ------------------------------------------------------------------------------------------ *)
(* C17_canon_map: canon stream maps.  A map passed as a whole comes with one tetraplet per {key, value}
   pair, the VALUE's own (ap into a map keeps the value's tetraplet); `#%m.$.key.[i]` comes with that
   element's tetraplet, `#%m.$.key.[i].rest` with the element's lens followed by "." and the rendered rest
   (no "$"); a key group `#%m.$.key` (and a missing key) comes with the MAP's tetraplet -- the peer that
   canonicalised it, no service, no function -- whose lens is REPLACED by the whole lens text;
   `#%m.length` comes with (executing peer, "", "", "length") *)

Definition map_length_tetraplet (executing_peer : string) : tetraplet :=
  {| tp_peer := executing_peer; tp_service := ""; tp_function := ""; tp_lens := "length" |}.

Definition C17_canon_map_stmt : Prop :=
  (forall x name j ts p, resolve_canon_map x name = POk (j, ts, p) ->
      exists c, get_canon_map x name = POk c /\ ts = map va_tetraplet (cmw_values c) /\ p = ProvCanon (cmw_cid c)) /\
  (* the {key, value} object stored by `ap (key value) %map` keeps the value's tetraplet and provenance *)
  (forall v j, va_tetraplet (va_with_result v j) = va_tetraplet v /\ va_provenance (va_with_result v j) = va_provenance v /\
               va_result (va_with_result v j) = j) /\
  (forall x v j ts p, resolve_canon_map_l x v = POk (j, ts, p) ->
      exists c, get_canon_map x (vl_name v) = POk c /\ p = ProvCanon (cmw_cid c) /\
        match vl_lambda v with
        | LFunctorLength => ts = [map_length_tetraplet (current_peer x)]
        | LValuePath [] => False
        | LValuePath (prefix :: body) =>
            exists k, of_lres (canon_map_key (lens_env x) prefix) = POk k /\
              match body, cm_group (cm_pairs (cmw_values c)) k with
              | _ :: _, _ :: _ =>
                  exists idx rest el, of_lres (split_to_idx (lens_env x) body) = POk (idx, rest) /\
                                      nth_N (cm_group (cm_pairs (cmw_values c)) k) idx = Some el /\
                                      ts = [match rest with
                                            | [] => va_tetraplet el
                                            | _ => lensed (va_tetraplet el) ("." ++ join_dot (map accessor_to_string rest))
                                            end]
              | _, _ => ts = [with_lens (cmw_tetraplet c) (lambda_to_string (vl_lambda v))]
              end
        end) /\
  (forall x v, resolve_value x (VCanonMap v) = resolve_canon_map x (v_name v)) /\
  (forall x v, resolve_value x (VCanonMapL v) = resolve_canon_map_l x v).

(* ------------------------------------------------------------------------------------------ *)
(* C17_request: the tetraplets handed to the host are exactly the per-argument tetraplets above *)

Definition mk_request (t : tetraplet) (av : list json) (ats : list (list tetraplet)) : request :=
  {| rq_service := tp_service t; rq_function := tp_function t; rq_args := av; rq_tetraplets := ats |}.

(* a request that is what some call instruction makes of its arguments in some context of this run *)
Definition sourced (params : run_params) (p : N * request) : Prop :=
  exists x' t args, x_params x' = params /\
                    collect_args x' args = POk (rq_args (snd p), rq_tetraplets (snd p)) /\
                    snd p = mk_request t (rq_args (snd p)) (rq_tetraplets (snd p)).

Definition c17_rel (x y : ctx) : Prop :=
  x_params y = x_params x /\
  exists added, x_requests y = x_requests x ++ added /\ Forall (sourced (x_params x)) added.

Definition C17_request_stmt : Prop :=
  (* the argument list of a call is resolved argument by argument *)
  (forall x args av ats, collect_args x args = POk (av, ats) ->
      length av = length args /\ length ats = length args /\
      forall k a, nth_error args k = Some a ->
        exists j ts p, resolve_value x a = POk (j, ts, p) /\ nth_error av k = Some j /\ nth_error ats k = Some ts) /\
  (* one resolved call: the requests are unchanged, or exactly one request is appended and it carries the
     arguments and tetraplets collect_args computed in the context the call started in *)
  (forall x t args out y, outcome_ctx (resolved_call_execute x t args out) = Some y ->
      x_requests y = x_requests x \/
      exists av ats, collect_args x args = POk (av, ats) /\
                     x_requests y = x_requests x ++ [(x_lcid x + 1, mk_request t av ats)]) /\
  (* whole executions: every request appended is sourced that way *)
  (forall hook, hook_preserves c17_rel hook ->
      forall fuel i x y, outcome_ctx (exec hook fuel i x) = Some y -> c17_rel x y) /\
  (* ... in particular with the stream / canon instructions of ExecStreams.v, and for a whole run *)
  (forall fuel i x y, outcome_ctx (exec stream_instr fuel i x) = Some y -> c17_rel x y) /\
  (forall fuel i code d next reqs signed, run2 fuel i = OutNewData code d next reqs signed ->
      Forall (sourced (ri_params i)) reqs).

(* ------------------------------------------------------------------------------------------ *)
(* C17_same_everywhere: the tetraplet of a value loaded from data on another peer equals the one
   its producer computed *)

Definition C17_same_everywhere_stmt : Prop :=
  (* scalars *)
  (forall (* producer *) x result t pos ah sv y cr
          (* consumer *) x' c ah' t' pos' src sv' y',
      populate_from_service_result x result t pos ah (OutScalar sv) = (XOk y, cr) ->
      cr = Some (Executed (VRScalar c)) ->
      populate_from_data x' (VRScalar c) ah' t' pos' src (OutScalar sv') = POk y' ->
      t' = t /\ set_scalar_value x' (v_name sv') (VAService result t pos' c) = POk y') /\
  (* stream values *)
  (forall x result t pos ah sv y cr x' c g ah' t' pos' src sv' y',
      populate_from_service_result x result t pos ah (OutStream sv) = (XOk y, cr) ->
      cr = Some (Executed (VRStream c g)) ->
      populate_from_data x' (VRStream c g) ah' t' pos' src (OutStream sv') = POk y' ->
      t' = t /\ add_stream_value x' (v_name sv') (VAService result t pos' c) (gen_of_source src g) (v_pos sv') = POk y') /\
  (* the check that makes it so *)
  (forall eh et sh st_, verify_call eh et sh st_ = POk tt -> et = st_) /\
  (* canon streams: see C17_canon (rebuilt elements keep tetraplet, value, provenance) *)
  (forall v, va_tetraplet (va_new (va_result v) (va_tetraplet v) 0 (prov_of_opt (prov_to_opt (va_provenance v)))) = va_tetraplet v).

(* ------------------------------------------------------------------------------------------ *)
(* the property as the text has it, for the argument kinds where the code deviates: refuted by
   concrete single-peer histories (the same scripts are corpus cases replayed on the real code) *)

(* a peer that runs on [cur], then answers its own requests: run, hand the results back, run again ... *)
Definition hist_fuel : nat := 400.
Fixpoint settle (rounds : nat) (script : instr) (params : run_params) (svc : request -> service_answer)
         (prev cur : idata) (results : list (N * service_answer)) (acc : list request) : idata * list request :=
  match rounds with
  | O => (prev, acc)
  | S n =>
      match run2 hist_fuel {| ri_script := script; ri_params := params; ri_prev := prev; ri_cur := cur;
                              ri_results := results |} with
      | OutNewData _ d _ reqs _ =>
          match reqs with
          | [] => (d, acc)
          | _ => settle n script params svc d empty_data (map (fun ir => (fst ir, svc (snd ir))) reqs) (acc ++ map snd reqs)
          end
      | _ => (prev, acc)
      end
  end.

(* the requests a single peer sees when it runs the script from empty data *)
Definition requests_of (script : instr) (params : run_params) (svc : request -> service_answer) : list request :=
  snd (settle 8 script params svc empty_data empty_data [] []).
(* ... and the requests a second peer sees when it receives the first peer's final data *)
Definition requests_of_second (script : instr) (p1 p2 : run_params) (svc : request -> service_answer) : list request :=
  snd (settle 8 script p2 svc empty_data (fst (settle 8 script p1 svc empty_data empty_data [] [])) [] []).

(* the tetraplets the requests to function [fn] came with *)
Definition tetraplets_to (fn : string) (l : list request) : list (list (list tetraplet)) :=
  map rq_tetraplets (filter (fun r => String.eqb (rq_function r) fn) l).

Definition w_params (current : string) : run_params :=
  {| rp_init_peer := "A"; rp_current_peer := current; rp_timestamp := 1700000000; rp_ttl := 3600 |}.
Definition w_ok (j : json) : service_answer := {| sa_ret_code := 0; sa_text := "<json>"; sa_parsed := Some j |}.
Definition w_svc (r : request) : service_answer :=
  if String.eqb (rq_function r) "arr" then w_ok (JArr [JStr "a"; JStr "b"; JStr "c"]) else
  if String.eqb (rq_function r) "obj" then w_ok (JObj [("f"%string, JStr "v"); ("l"%string, JArr [JStr "p"; JStr "q"])]) else
  if String.eqb (rq_function r) "fail" then {| sa_ret_code := 1; sa_text := """boom"""; sa_parsed := Some (JStr "boom") |} else
  w_ok (JStr "ok").

(* the witness scripts (printed from the real parser's trees by harness/src/bin/astdump.rs); the same scripts
   with real peer ids are corpus/C17/*.json, replayed on the real interpreter by ./check C17 *)
(* (seq (call "A" ("s" "arr") [] x) (call "A" ("u" "use") [x.length x.$.[1] x])) *)
Definition w_length_scalar : instr :=
  (ISeq (ICall "call ""A"" (""s"" ""arr"") [] x" {| t_peer := (PLiteral "A"); t_service := (SLiteral "s"); t_function := (SLiteral "arr") |} [] (OutScalar {| v_name := "x"; v_pos := 30 |})) (ICall "call ""A"" (""u"" ""use"") [x.length x.$.[1] x] " {| t_peer := (PLiteral "A"); t_service := (SLiteral "u"); t_function := (SLiteral "use") |} [(VScalarL {| vl_name := "x"; vl_lambda := LFunctorLength; vl_pos := 56 |}); (VScalarL {| vl_name := "x"; vl_lambda := (LValuePath [(ArrayAccess 1)]); vl_pos := 65 |}); (VScalar {| v_name := "x"; v_pos := 73 |})] OutNone)).

(* (seq (seq (call "A" ("s" "obj") [] $st) (canon "A" $st #can)) (call "A" ("u" "use") [#can.length #can #can.$.[0] #can.$.[0].l.[1]])) *)
Definition w_canon : instr :=
  (ISeq (ISeq (ICall "call ""A"" (""s"" ""obj"") [] $st" {| t_peer := (PLiteral "A"); t_service := (SLiteral "s"); t_function := (SLiteral "obj") |} [] (OutStream {| v_name := "$st"; v_pos := 35 |})) (ICanon "canon ""A"" $st #can" (PLiteral "A") {| v_name := "$st"; v_pos := 51 |} {| v_name := "#can"; v_pos := 55 |})) (ICall "call ""A"" (""u"" ""use"") [#can.length #can #can.$.[0] #can.$.[0].l.[1]] " {| t_peer := (PLiteral "A"); t_service := (SLiteral "u"); t_function := (SLiteral "use") |} [(VCanonL {| vl_name := "#can"; vl_lambda := LFunctorLength; vl_pos := 85 |}); (VCanon {| v_name := "#can"; v_pos := 97 |}); (VCanonL {| vl_name := "#can"; vl_lambda := (LValuePath [(ArrayAccess 0)]); vl_pos := 102 |}); (VCanonL {| vl_name := "#can"; vl_lambda := (LValuePath [(ArrayAccess 0); (FieldAccessByName "l"); (ArrayAccess 1)]); vl_pos := 113 |})] OutNone)).

(* (xor (call "A" ("s" "fail") [] x) (call "A" ("u" "use") [%last_error% %last_error%.$.message :error:.$.error_code])) *)
Definition w_error : instr :=
  (IXor (ICall "call ""A"" (""s"" ""fail"") [] x" {| t_peer := (PLiteral "A"); t_service := (SLiteral "s"); t_function := (SLiteral "fail") |} [] (OutScalar {| v_name := "x"; v_pos := 31 |})) (ICall "call ""A"" (""u"" ""use"") [%last_error% %last_error%.$.message :error:.$.error_code] " {| t_peer := (PLiteral "A"); t_service := (SLiteral "u"); t_function := (SLiteral "use") |} [(VLastError None); (VLastError (Some (LValuePath [(FieldAccessByName "message")]))); (VError (Some (LValuePath [(FieldAccessByName "error_code")])))] OutNone)).

(* (seq (call "A" ("s" "obj") [] x) (seq (fold x.$.l i (seq (call "A" ("u" "use") [i x.$.l]) (next i))) (call "A" ("u" "lit") ["s" 1 %init_peer_id% []]))) *)
Definition w_fold : instr :=
  (ISeq (ICall "call ""A"" (""s"" ""obj"") [] x" {| t_peer := (PLiteral "A"); t_service := (SLiteral "s"); t_function := (SLiteral "obj") |} [] (OutScalar {| v_name := "x"; v_pos := 30 |})) (ISeq (IFoldScalar "fold x.$.l i" (FIScalarL {| vl_name := "x"; vl_lambda := (LValuePath [(FieldAccessByName "l")]); vl_pos := 44 |}) {| v_name := "i"; v_pos := 50 |} (ISeq (ICall "call ""A"" (""u"" ""use"") [i x.$.l] " {| t_peer := (PLiteral "A"); t_service := (SLiteral "u"); t_function := (SLiteral "use") |} [(VScalar {| v_name := "i"; v_pos := 80 |}); (VScalarL {| vl_name := "x"; vl_lambda := (LValuePath [(FieldAccessByName "l")]); vl_pos := 82 |})] OutNone) (INext "next i" {| v_name := "i"; v_pos := 96 |})) None {| sp_left := 38; sp_right := 100 |}) (ICall "call ""A"" (""u"" ""lit"") [""s"" 1 %init_peer_id% []] " {| t_peer := (PLiteral "A"); t_service := (SLiteral "u"); t_function := (SLiteral "lit") |} [(VLiteral "s"); (VNumber (NumInt 1%Z)); VInitPeerId; VEmptyArray] OutNone))).

(* (seq (call "A" ("s" "arr") [] x) (seq (ap x.$.[1] y) (fold x i (seq (call "B" ("u" "use") [i y x]) (next i))))) *)
Definition w_two_peers : instr :=
  (ISeq (ICall "call ""A"" (""s"" ""arr"") [] x" {| t_peer := (PLiteral "A"); t_service := (SLiteral "s"); t_function := (SLiteral "arr") |} [] (OutScalar {| v_name := "x"; v_pos := 30 |})) (ISeq (IAp "ap x.$.[1] y" (AScalarL {| vl_name := "x"; vl_lambda := (LValuePath [(ArrayAccess 1)]); vl_pos := 42 |}) (ApScalar {| v_name := "y"; v_pos := 50 |})) (IFoldScalar "fold x i" (FIScalar {| v_name := "x"; v_pos := 59 |}) {| v_name := "i"; v_pos := 61 |} (ISeq (ICall "call ""B"" (""u"" ""use"") [i y x] " {| t_peer := (PLiteral "B"); t_service := (SLiteral "u"); t_function := (SLiteral "use") |} [(VScalar {| v_name := "i"; v_pos := 91 |}); (VScalar {| v_name := "y"; v_pos := 93 |}); (VScalar {| v_name := "x"; v_pos := 95 |})] OutNone) (INext "next i" {| v_name := "i"; v_pos := 105 |})) None {| sp_left := 53; sp_right := 109 |}))).

(* (seq (call "A" ("s" "obj") [] x) (seq (ap ("k" x) %m) (seq (canon "A" %m #%cm) (call "A" ("u" "use") [#%cm.length #%cm #%cm.$.k.[0] #%cm.$.k.[0].l.[1] #%cm.$.k])))) *)
Definition w_map : instr :=
  (ISeq (ICall "call ""A"" (""s"" ""obj"") [] x" {| t_peer := (PLiteral "A"); t_service := (SLiteral "s"); t_function := (SLiteral "obj") |} [] (OutScalar {| v_name := "x"; v_pos := 30 |})) (ISeq (IApMap "ap (""k"" x) %m" (KLiteral "k") (AScalar {| v_name := "x"; v_pos := 47 |}) {| v_name := "%m"; v_pos := 50 |}) (ISeq (ICanonMap "canon ""A"" %m #%cm" (PLiteral "A") {| v_name := "%m"; v_pos := 70 |} {| v_name := "#%cm"; v_pos := 73 |}) (ICall "call ""A"" (""u"" ""use"") [#%cm.length #%cm #%cm.$.k.[0] #%cm.$.k.[0].l.[1] #%cm.$.k] " {| t_peer := (PLiteral "A"); t_service := (SLiteral "u"); t_function := (SLiteral "use") |} [(VCanonMapL {| vl_name := "#%cm"; vl_lambda := LFunctorLength; vl_pos := 102 |}); (VCanonMap {| v_name := "#%cm"; v_pos := 114 |}); (VCanonMapL {| vl_name := "#%cm"; vl_lambda := (LValuePath [(FieldAccessByName "k"); (ArrayAccess 0)]); vl_pos := 119 |}); (VCanonMapL {| vl_name := "#%cm"; vl_lambda := (LValuePath [(FieldAccessByName "k"); (ArrayAccess 0); (FieldAccessByName "l"); (ArrayAccess 1)]); vl_pos := 132 |}); (VCanonMapL {| vl_name := "#%cm"; vl_lambda := (LValuePath [(FieldAccessByName "k")]); vl_pos := 151 |})] OutNone)))).

(* what the property TEXT asks for, for the four argument kinds where the code deviates *)
Definition C17_text_length_stmt : Prop :=
  forall x v j ts p, resolve_scalar_l x v = POk (j, ts, p) -> vl_lambda v = LFunctorLength ->
    exists r j0 t0, scalars_get_value x (vl_name v) = POk r /\ scalar_ref_parts r = POk (j0, t0, p) /\
                    ts = [lensed t0 ".length"].
Definition C17_text_canon_length_stmt : Prop :=
  forall x v j ts p, resolve_canon_l x v = POk (j, ts, p) -> vl_lambda v = LFunctorLength ->
    exists c, get_canon_stream x (vl_name v) = POk c /\
              (ts = [tet (origin_of (cw_tetraplet c)) ".length"] \/ ts = [tet (literal_origin (init_peer x)) ".length"] \/
               ts = [tet (literal_origin (init_peer x)) ""]).
(* either reading of "the exact lens": the lens as written, or the part applied to the producing call's result *)
Definition C17_text_canon_lens_stmt : Prop :=
  forall x v j ts p path, resolve_canon_l x v = POk (j, ts, p) -> vl_lambda v = LValuePath path ->
    exists c idx rest el, get_canon_stream x (vl_name v) = POk c /\
                          of_lres (split_to_idx (lens_env x) path) = POk (idx, rest) /\ nth_N (cw_values c) idx = Some el /\
                          (ts = [lensed (va_tetraplet el) (render_path path)] \/
                           ts = [lensed (va_tetraplet el) (match rest with [] => "" | _ => render_path rest end)]).
Definition C17_text_map_length_stmt : Prop :=
  forall x v j ts p, resolve_canon_map_l x v = POk (j, ts, p) -> vl_lambda v = LFunctorLength ->
    exists c lens, get_canon_map x (vl_name v) = POk c /\ In lens [".length"; "length"; ""]%string /\
                   (ts = [tet (origin_of (cmw_tetraplet c)) lens] \/ ts = [tet (literal_origin (init_peer x)) lens]).
Definition C17_text_error_lens_stmt : Prop :=
  forall x ie l j ts p, resolve_errors x ie (Some l) = POk (j, ts, p) ->
    ts = [lensed (match ie_tetraplet ie with Some t => t | None => tet (literal_origin (init_peer x)) "" end) (lambda_to_string l)].

(* the whole property as the text has it: the proved statements plus the four text statements above *)
Definition C17_partial : Prop :=
  C17_call_result_stmt /\ C17_stored_is_read_stmt /\ C17_literal_stmt /\ C17_error_stmt /\ C17_lens_stmt /\
  C17_iterator_stmt /\ C17_canon_stmt /\ C17_canon_map_stmt /\ C17_request_stmt /\ C17_same_everywhere_stmt.
Definition C17_full : Prop :=
  C17_partial /\ C17_text_length_stmt /\ C17_text_canon_length_stmt /\ C17_text_map_length_stmt /\ C17_text_canon_lens_stmt /\
  C17_text_error_lens_stmt.

(* ------------------------------------------------------------------------------------------ *)
(* source tie (tools/genx_tetra.py) *)

Definition c17_source_agrees : bool :=
  (* SecurityTetraplet::literal_tetraplet / add_lens (marine-call-parameters, the version Cargo.lock pins) *)
  list_eqb (pair_eqb String.eqb String.eqb) c17_literal_tetraplet_fields
           [("peer_pk", "init_peer_id.into()"); ("service_id", "String::new()"); ("function_name", "String::new()");
            ("lens", "String::new()")] &&
  String.eqb c17_add_lens_body "self.lens.push_str(lens)" &&
  (* polyplets/src/triplet.rs: From<ResolvedTriplet> for SecurityTetraplet *)
  list_eqb (pair_eqb String.eqb String.eqb) c17_triplet_to_tetraplet_fields
           [("peer_pk", "triplet.peer_pk"); ("service_id", "triplet.service_id"); ("function_name", "triplet.function_name");
            ("lens", "String::new()")] &&
  (* value_types/utils.rs: populate_tetraplet_with_lambda *)
  list_eqb (pair_eqb String.eqb String.eqb) c17_populate_arms
           [("LambdaAST::ValuePath(_)", "tetraplet.add_lens(&lambda.to_string()); tetraplet");
            ("LambdaAST::Functor(_)", "SecurityTetraplet::new("""", """", """", lambda.to_string())")] &&
  (* lambda/ast/src/ast/traits.rs: Display *)
  list_eqb (pair_eqb String.eqb String.eqb) c17_lambda_display
           [("Functor(functor)", ".{functor}"); ("ValuePath(value_path)", ".$.{}")] &&
  String.eqb c17_lambda_join "." &&
  list_eqb (pair_eqb String.eqb String.eqb) c17_accessor_display
           [("ArrayAccess { idx }", "[{idx}]"); ("FieldAccessByName { field_name }", "{field_name}");
            ("FieldAccessByScalar { scalar_name }", "[{scalar_name}]");
            ("Error", "a parser error occurred while parsing lambda expression")] &&
  String.eqb c17_functor_length_display "length" &&
  (* value_types/iterable/{resolved_call,lambda_result}.rs: the lens of a fold step *)
  list_eqb (pair_eqb String.eqb String.eqb) c17_iterable_lens_formats
           [("air/src/execution_step/value_types/iterable/lambda_result.rs", ".$.[{}]|self.cursor");
            ("air/src/execution_step/value_types/iterable/resolved_call.rs", ".$.[{}]|self.cursor")] &&
  (* the other iterables hand the element's own tetraplet over *)
  list_eqb (pair_eqb String.eqb String.eqb) c17_element_iterables_tetraplet
           [("air/src/execution_step/value_types/iterable/canon_stream.rs", "value.get_tetraplet()");
            ("air/src/execution_step/value_types/iterable/canon_stream_map.rs", "value.get_tetraplet()");
            ("air/src/execution_step/value_types/iterable/vec_resolved_call.rs", "self.call_results[self.cursor].as_inner_parts()")] &&
  (* resolver/resolvable_impl.rs *)
  String.eqb c17_resolve_const_tetraplet "SecurityTetraplet::literal_tetraplet(ctx.run_parameters.init_peer_id.as_ref())" &&
  String.eqb c17_resolve_errors_none_tetraplet "SecurityTetraplet::literal_tetraplet(ctx.run_parameters.init_peer_id.as_ref())" &&
  (* jvaluable/canon_stream.rs *)
  String.eqb c17_canon_as_tetraplets "self.iter().map(|r| r.get_tetraplet()).collect()" &&
  String.eqb c17_canon_lens_some_arm "resolved_call.get_tetraplet().deref().clone()" &&
  list_eqb String.eqb c17_canon_lens_none_arm ["exec_ctx.run_parameters.current_peer_id.to_string()"; "lambda.to_string()"; """"""; """"""] &&
  (* instructions/call/resolved_call.rs: the call's tetraplet and what the request carries *)
  String.eqb c17_resolved_call_tetraplet "triplet.into()" &&
  list_eqb String.eqb c17_request_fields ["tetraplet.service_id.to_string()"; "tetraplet.function_name.to_string()";
                                          "call_arguments"; "serialized_tetraplets"] &&
  (* call_result_setter.rs: the value is stored with the call's tetraplet in both directions *)
  list_eqb String.eqb c17_setter_local_tracks ["track_service_result(executed_result.result.clone(), tetraplet, argument_hash)";
                                               "track_service_result(executed_result.result.clone(), tetraplet, argument_hash)"] &&
  list_eqb String.eqb c17_setter_data_aggregates ["ServiceResultAggregate::new(value, tetraplet, trace_pos)";
                                                  "ServiceResultAggregate::new(value, tetraplet, trace_pos)"] &&
  (c17_setter_verify_calls =? 2) &&
  (* call/verifier.rs: verify_call compares the stored tetraplet with the instruction's *)
  String.eqb c17_verify_call_tetraplet_test "expected_tetraplet != stored_tetraplet" &&
  (* every place of air/src that builds or extends a tetraplet *)
  list_eqb (pair_eqb String.eqb String.eqb) c17_tetraplet_construction_sites
           [("air/src/execution_step/instructions/fail.rs", "literal_tetraplet x1");
            ("air/src/execution_step/instructions/canon_utils/mod.rs", "new x1");
            ("air/src/execution_step/lambda_applier/applier.rs", "new x1");
            ("air/src/execution_step/resolver/resolvable_impl.rs", "literal_tetraplet x2");
            ("air/src/execution_step/value_types/canon_stream.rs", "new x1");
            ("air/src/execution_step/value_types/utils.rs", "add_lens x1");
            ("air/src/execution_step/value_types/utils.rs", "new x1");
            ("air/src/execution_step/value_types/iterable/lambda_result.rs", "add_lens x1");
            ("air/src/execution_step/value_types/iterable/resolved_call.rs", "add_lens x1");
            ("air/src/execution_step/value_types/jvaluable/canon_stream.rs", "new x1");
            ("air/src/execution_step/value_types/jvaluable/cell_vec_resolved_call_result.rs", "new x1");
            ("air/src/execution_step/value_types/scalar/values.rs", "literal_tetraplet x1");
            ("air/src/execution_step/value_types/scalar/values.rs", "new x1")].

Definition C17_source_tie_stmt : Prop :=
  c17_source_agrees = true /\
  (* the model's counterparts of the lines above *)
  (forall p, literal_tetraplet p = {| tp_peer := p; tp_service := ""; tp_function := ""; tp_lens := "" |}) /\
  (forall t l, tp_lens (add_lens t l) = (tp_lens t ++ l)%string /\ origin_of (add_lens t l) = origin_of t) /\
  (forall t p, populate_tetraplet_with_lambda t (LValuePath p) = add_lens t (".$." ++ join_dot (map accessor_to_string p))) /\
  (forall t, populate_tetraplet_with_lambda t LFunctorLength = length_functor_tetraplet) /\
  (forall c, idx_lens c = index_lens c).
