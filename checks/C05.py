"""C05 -- each service call runs exactly once and its result is never lost.

Histories through the driver `ids06`: every call site has its own function name and passes the iterators
of its enclosing folds, every service result carries the id of the request it answers.  Oracles (Rust side,
written from the property text): after every run that returns new data every id ever handed to the host of
the running peer is accounted for exactly once in that peer's data (still pending, or recorded with the
result returned under it); a result handed back under a pending id is applied in that run; at quiescence
the invocation log agrees with the recorded states (oracles::c05_final).  Probed runs are also given to
the executor model (lock-step)."""
import ids_common

PID = "C05"
MODEL_TARGETS = ["model/IdsCases.vo"]
HARNESS_BINS = ["ids06"]
RULE = ("a case is one history (script, peers, schedule) of one particle, brought to quiescence; evaluations = runs of the real execute_air; "
        "scripts: airgen (seq/par/xor/folds over scalars and streams, canon, new; depth 3-5; 3 peers, some 1 peer) and chain scripts with many "
        "pending calls, call sites renamed to unique function names, fold iterators appended to the arguments; schedules: results returned "
        "late, in random subsets, together with new current data, particles delivered in random order, duplicated and re-delivered while "
        "requests are pending, idle runs; about a third of the runs with results also carry results under stale / never issued ids; the "
        "fixed histories of corpus/C05 (stream fold cursor hole of DESIGN 7-11; the par left-window slider defect fixed in /repo) are always included; distinct = distinct (script, schedule) with at least one "
        "service invocation")
PARTIAL = [
    "C05_full (history level: no call instance is issued twice) is proved ONLY for straight-line scripts on several peers (call with literal target/service/function and literal or plain-scalar arguments, ap of a literal or scalar, seq, xor, match, mismatch, fail, null, never; model/NetLin.v): "
    "C05_linear_at_most_once -- in every honest history the service invocations are a prefix of the calls of the sequential reading, in "
    "its order (each at most once, with its arguments), and a request is pending only for the next call, alone, at its addressed peer "
    "(the approximation invariant of DESIGN appendix B for that fragment); for par, folds, new, lenses, streams and variable targets "
    "C05_full stays a Definition covered by the history oracle only.  Proved for all scripts are the local facts: C05_not_rerequested_partial, "
    "C05_recorded_partial, C05_pending_kept_partial, C05_request_recorded_partial, C05_meet_keeps_result, C05_exec_frame_partial",
    "known genuine defect (DESIGN 7-11, also C13/C09): a value appended inside a stream fold can land below the fold cursor; the executed "
    "call of that iteration disappears from the peer's own data (known finding stream-fold-cursor-hole-loses-call)",
    "a forged Executed(Unused) state makes a peer skip a call (filed under C14); C05 is about honest histories",
]
ASSUMPTIONS = [
    "the host contract of air/README.md (data stored after every run, requests answered at most once each)",
    "a call instance is identified by (function name unique per call site, arguments including the fold iterators)",
]
KNOWN = {"stream-fold-cursor-hole-loses-call"}
CHECKS = {"model": "check_case"}


def gen_cases(rng, tier, escalate=False):
    mult = 4 if escalate else 1
    q = tier == "quick"
    cases = []          # the fixed histories (stream fold cursor hole, par left-window slider) are in corpus/C05
    for _ in range((24 if q else 240) * mult):
        cases.append(ids_common.generated_case(rng, tier, ["C05"], peers=3, streams=rng.random() < 0.6, p_extra=0.3, probe_max=3))
    for _ in range((6 if q else 60) * mult):
        cases.append(ids_common.generated_case(rng, tier, ["C05"], peers=1, streams=rng.random() < 0.5, p_extra=0.3, probe_max=3))
    for _ in range((8 if q else 60) * mult):
        cases.append(ids_common.sequence_case(rng, tier, ["C05"], probe_max=3))
    for _ in range((1 if q else 8) * mult):
        cases.append(ids_common.sequence_case(rng, tier, ["C05"], long=True, probe_max=3))
    return cases


def evaluate(cases, result, tier):
    ids_common.evaluate(cases, result, CHECKS, tag="C05", known_keys=KNOWN, property_id="C05")
