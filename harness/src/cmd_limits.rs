//! C22 / C21 / C02(routing): runs of `execute_air` under limit and version variants, reported as
//! terms of model/RunTop.v (`world N * list (limits * outcome N)`).

use crate::coqfmt as c;
use crate::sim::*;
use air_interpreter_data::{InterpreterData, InterpreterDataEnvelope};
use air_interpreter_interface::CallResultsRepr;
use air_interpreter_sede::FromSerialized;
use serde_json::Value as J;

const PREP: [&str; 10] = [
    "AIRParseError", "DataDeFailed", "EnvelopeDeFailed", "EnvelopeDeFailedWithVersions", "CallResultsDeFailed",
    "UnsupportedInterpreterVersion", "MalformedKeyPairData", "CidStoreVerificationError", "DataSignatureCheckError",
    "SizeLimitsExceded",
];

fn res_unit(e: Option<&str>) -> String {
    match e {
        None => "(ROk tt)".into(),
        Some(e) => format!("(RErr {})", e),
    }
}

pub fn version_term(v: &semver::Version) -> String {
    format!(
        "{{| v_major := {}; v_minor := {}; v_patch := {}; v_pre_nonempty := {} |}}",
        v.major, v.minor, v.patch, c::b(!v.pre.is_empty())
    )
}

fn env_stage(bytes: &[u8]) -> Result<(semver::Version, Vec<u8>), &'static str> {
    match InterpreterDataEnvelope::try_from_slice(bytes) {
        Ok(env) => Ok((env.versions.interpreter_version.clone(), env.inner_data.to_vec())),
        Err(_) => match InterpreterDataEnvelope::try_get_versions(bytes) {
            Ok(_) => Err("EnvelopeDeFailedWithVersions"),
            Err(_) => Err("EnvelopeDeFailed"),
        },
    }
}

pub struct World {
    pub term: String,
    pub result_sizes: Option<Vec<u64>>,
}

/// The stage results of one input, computed with the crates' public decoders; the two stages
/// that are private to `air` (verify, key pair) are read off the unlimited run's error code.
pub fn world_of(inp: &RunInput, unlimited: &RunOut) -> World {
    let prev_empty = inp.prev.is_empty();
    let (prev_env, prev_inner_bytes) = if prev_empty {
        (None, None)
    } else {
        match env_stage(&inp.prev) {
            Ok((_, inner)) => (None, Some(inner)),
            Err(e) => (Some(e), None),
        }
    };
    let (cur_env, cur_inner_bytes): (Result<semver::Version, &str>, Option<Vec<u8>>) = if inp.cur.is_empty() {
        (Ok(semver::Version::new(0, 0, 0)), None) // ignored by the model when cur_len = 0
    } else {
        match env_stage(&inp.cur) {
            Ok((v, inner)) => (Ok(v), Some(inner)),
            Err(e) => (Err(e), None),
        }
    };
    let inner_stage = |b: &Option<Vec<u8>>| -> Option<&'static str> {
        match b {
            None => None,
            Some(bytes) => match InterpreterData::try_from_slice(bytes) {
                Ok(_) => None,
                Err(_) => Some("DataDeFailed"),
            },
        }
    };
    let prev_inner = inner_stage(&prev_inner_bytes);
    let cur_inner = inner_stage(&cur_inner_bytes);
    let code = unlimited.code;
    let verify = if code == 8 { Some(PREP[7]) } else if code == 9 { Some(PREP[8]) } else { None };
    let keypair = if code == 7 { Some(PREP[6]) } else { None };
    let parse_air = match air_parser::parse(&inp.air) {
        Ok(_) => None,
        Err(_) => Some("AIRParseError"),
    };
    let cr_bytes = match &inp.call_results_raw {
        Some(b) => b.clone(),
        None => encode_call_results(&inp.call_results),
    };
    let sizes: Option<Vec<u64>> = match CallResultsRepr.deserialize(&cr_bytes) {
        Ok(m) => {
            let mut v: Vec<(String, u64)> = m.iter().map(|(k, r)| (k.clone(), r.result.len() as u64)).collect();
            v.sort();
            Some(v.into_iter().map(|x| x.1).collect())
        }
        Err(_) => None,
    };
    let cur_env_term = match &cur_env {
        Ok(v) => format!("(ROk {})", version_term(v)),
        Err(e) => format!("(RErr {})", e),
    };
    let cr_term = match &sizes {
        Some(v) => format!("(ROk {})", c::list(v.iter().map(c::n))),
        None => "(RErr CallResultsDeFailed)".into(),
    };
    let term = format!(
        "{{| w_air_len := {}; w_cur_len := {}; w_prev_empty := {}; w_prev_env := {}; w_cur_env := {}; \
         w_prev_inner := {}; w_cur_inner := {}; w_verify := {}; w_parse_air := {}; w_call_results := {}; \
         w_keypair := {}; w_rest := 0 |}}",
        inp.air.len(),
        inp.cur.len(),
        c::b(prev_empty),
        res_unit(prev_env),
        cur_env_term,
        res_unit(prev_inner),
        res_unit(cur_inner),
        res_unit(verify),
        res_unit(parse_air),
        cr_term,
        res_unit(keypair)
    );
    World { term, result_sizes: sizes }
}

pub fn limits_term(l: &Limits) -> String {
    format!("{{| l_air := {}; l_particle := {}; l_result := {}; l_hard := {} |}}", l.air, l.particle, l.result, c::b(l.hard))
}

pub fn flags_term(f: &[bool; 3]) -> String {
    format!("{{| f_air := {}; f_particle := {}; f_result := {} |}}", c::b(f[0]), c::b(f[1]), c::b(f[2]))
}

fn size_kind(msg: &str) -> &'static str {
    if msg.starts_with("air size:") {
        "(Some SzAir)"
    } else if msg.starts_with("Current_data particle size:") {
        "(Some SzParticle)"
    } else if msg.starts_with("Call result size") {
        "(Some SzCallResult)"
    } else {
        "None"
    }
}

/// Observation of a run as `outcome N`: `Failed e sub flags` only when the failure contract holds
/// (previous data byte for byte, no next peers, no requests); `Rest 0 flags` when the outcome is
/// the unlimited twin's outcome (everything but the flags); `Rest k flags`, k>0, otherwise.
pub fn outcome_term(inp: &RunInput, out: &RunOut, twin: &J) -> (String, String) {
    if out.panic.is_some() {
        return (format!("(Rest 7 {})", flags_term(&out.flags)), "panic".into());
    }
    let fl = flags_term(&out.flags);
    if (1..=10).contains(&out.code) {
        let e = PREP[(out.code - 1) as usize];
        let contract = out.data == inp.prev
            && out.next.is_empty()
            && out.requests.as_ref().map(|r| r.is_empty()).unwrap_or(false);
        if !contract {
            return (format!("(Rest 3 {})", fl), format!("prep-error-contract-broken:{}", e));
        }
        let sub = if out.code == 10 { size_kind(&out.msg) } else { "None" };
        return (format!("(Failed {} {} {})", e, sub, fl), format!("failed:{}", e));
    }
    let mut o = canon_outcome(out);
    o["flags"] = J::Null;
    if &o == twin {
        (format!("(Rest 0 {})", fl), "rest".into())
    } else {
        (format!("(Rest 1 {})", fl), "rest-differs".into())
    }
}

pub fn limit_variants(inp: &RunInput, sizes: &Option<Vec<u64>>, extra: &[Limits]) -> Vec<Limits> {
    let a = inp.air.len() as u64;
    let p = inp.cur.len() as u64;
    let r = sizes.as_ref().and_then(|v| v.iter().max().cloned()).unwrap_or(0);
    let around = |x: u64| -> Vec<u64> {
        let mut v = vec![x.saturating_sub(1), x, x.saturating_add(1), 0, u64::MAX];
        v.dedup();
        v
    };
    let mut out = vec![];
    for hard in [true, false] {
        for v in around(a) {
            out.push(Limits { air: v, particle: u64::MAX, result: u64::MAX, hard });
        }
        for v in around(p) {
            out.push(Limits { air: u64::MAX, particle: v, result: u64::MAX, hard });
        }
        for v in around(r) {
            out.push(Limits { air: u64::MAX, particle: u64::MAX, result: v, hard });
        }
        // all three at their exact sizes, and all three one below
        out.push(Limits { air: a, particle: p, result: r, hard });
        out.push(Limits { air: a.saturating_sub(1), particle: p.saturating_sub(1), result: r.saturating_sub(1), hard });
        out.push(Limits { air: a, particle: p.saturating_sub(1), result: r.saturating_sub(1), hard });
        out.push(Limits { air: a, particle: p, result: r.saturating_sub(1), hard });
    }
    out.extend_from_slice(extra);
    out
}

/// One probe: the input, its unlimited twin, every limit variant. Returns the Coq term
/// `(world, [(limits, outcome); ...])` and per-variant classes for the evidence.
pub fn probe(inp: &RunInput, extra: &[Limits]) -> (String, Vec<String>, J) {
    let mut unl = inp.clone();
    unl.limits = Limits::unlimited();
    let twin_out = run(&unl);
    let w = world_of(inp, &twin_out);
    let mut twin = canon_outcome(&twin_out);
    twin["flags"] = J::Null;
    let mut pairs = vec![];
    let mut classes = vec![];
    for l in limit_variants(inp, &w.result_sizes, extra) {
        let mut i2 = inp.clone();
        i2.limits = l;
        let o = run(&i2);
        let (t, cls) = outcome_term(&i2, &o, &twin);
        classes.push(format!("{}:{}", if l.hard { "hard" } else { "soft" }, cls));
        pairs.push(format!("({}, {})", limits_term(&l), t));
    }
    let info = serde_json::json!({
        "unlimited_code": twin_out.code,
        "air_len": inp.air.len(), "cur_len": inp.cur.len(), "result_sizes": w.result_sizes,
    });
    (format!("({}, {})", w.term, c::list(pairs)), classes, info)
}
