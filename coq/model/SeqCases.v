(* SeqCases.v -- one honest history of the REAL interpreter on several peers (harness/src/bin/seq16.rs)
   against the sequential reading of the script (model/SeqSem.v): the case type, the interpretation of the
   harness's service table as the service function, the correspondence check and the C16 oracle. *)
From Aqua Require Import Base Json Air SeqSem SeqFrag.
Open Scope N_scope.
Open Scope list_scope.

(* harness/src/sim.rs: Behaviour (the kinds the C16 generator uses) *)
Inductive behaviour :=
| BConst (v : json)
| BEcho (k : nat)
| BArgs
| BPeerTag
| BErr (code : Z) (v : json)
| BRaw (code : Z) (parsed : option json).

(* sim.rs: Services::call -- a deterministic function of (peer NAME, service, function, arguments) *)
Definition svc_of_table (peers : list (string * string)) (table : list (string * string * behaviour))
           (peer service fn : string) (args : list json) : answer :=
  let name := match assoc peers peer with Some n => n | None => "" end in
  match find (fun e => String.eqb (fst (fst e)) service && String.eqb (snd (fst e)) fn) table with
  | None => {| an_code := 0; an_value := Some (JStr (service ++ "." ++ fn)) |}
  | Some (_, b) =>
      match b with
      | BConst v => {| an_code := 0; an_value := Some v |}
      | BEcho k => {| an_code := 0; an_value := Some (nth k args JNull) |}
      | BArgs => {| an_code := 0; an_value := Some (JArr args) |}
      | BPeerTag => {| an_code := 0; an_value := Some (JStr (fn ++ "@" ++ name)) |}
      | BErr c v => {| an_code := c; an_value := Some v |}
      | BRaw c p => {| an_code := c; an_value := p |}
      end
  end%string.

Definition table_may_fail (table : list (string * string * behaviour)) (service fn : string) : bool :=
  match find (fun e => String.eqb (fst (fst e)) service && String.eqb (snd (fst e)) fn) table with
  | Some (_, BErr c _) => negb (c =? 0)%Z
  | Some (_, BRaw c p) => negb (c =? 0)%Z || match p with None => true | Some _ => false end
  | _ => false
  end.

(* one service invocation a host performed: what was asked, the run (step of the history) in which the
   interpreter issued the request, the run in which the answer was handed back, and the answer *)
Record obs_call := { oc_call : call_ev; oc_issued : N; oc_answered : N; oc_code : Z; oc_result : option json }.

Record scase := {
  sc_script : instr;
  sc_init : string; sc_timestamp : N; sc_ttl : N;
  sc_peers : list (string * string);                       (* peer id -> name *)
  sc_table : list (string * string * behaviour);
  sc_observed : list obs_call;                             (* every invocation of every host *)
  sc_drained : bool                                        (* at the end nothing is in flight or pending *)
}.
Definition case_t := scase.

Definition fuel : nat := 3000.

Definition reading (c : case_t) (known : call_ev -> bool) : outcome :=
  seq_eval (svc_of_table (sc_peers c) (sc_table c)) known (sc_init c) (sc_timestamp c) (sc_ttl c)
           fuel empty_env (sc_script c).
Definition sequential (c : case_t) : outcome := reading c everything_known.


Definition answer_eqb (a : answer) (code : Z) (r : option json) : bool :=
  (an_code a =? code)%Z &&
  ((negb (code =? 0)%Z) ||         (* the text of a failure is not part of the reading *)
   option_eqb json_eqb (an_value a) r).

(* ---- correspondence: the case is inside what the reference evaluator is defined for, and the Coq
        reading of the service table gives, for every invocation a host performed, the answer the host's
        service gave ---- *)
Definition check_fragment (c : case_t) : bool := in_fragment (table_may_fail (sc_table c)) (sc_script c).
Definition check_defined (c : case_t) : bool := match sequential c with Out _ _ _ => true | _ => false end.
Definition check_services (c : case_t) : bool :=
  forallb (fun o => answer_eqb (svc_of_table (sc_peers c) (sc_table c) (c_peer (oc_call o)) (c_service (oc_call o))
                                             (c_fn (oc_call o)) (c_args (oc_call o)))
                               (oc_code o) (oc_result o)) (sc_observed c).
Definition check_case (c : case_t) : bool := check_fragment c && check_defined c && check_services c.

(* ---- the property ---- *)
Definition observed (c : case_t) : list call_ev := map oc_call (sc_observed c).

(* (1) every invocation is one the sequential reading makes: same peer, service, function, argument values
       (as multisets: nothing is executed more often than the reading executes it) *)
Definition oracle_subset (c : case_t) : bool :=
  match sequential c with Out cs _ _ => sub_multiset (observed c) cs | _ => true end.

(* (2) in a drained history nothing the reading makes is missing -- where the interpreter promises progress.
       It does not in general: a `seq` goes on as soon as ONE branch of a par is complete, the first peer that
       reaches a later call forwards the particle to its target and records RequestSentBy; a peer that later
       learns the other branch's values finds that state and does not forward again, so a call whose arguments
       need those values can wait forever (the deliberate optimism of par the property text mentions).
       Progress is checked for scripts in which nothing runs after a par ([live_shape]: every par, and every
       fold whose body is a par, is in tail position): there a peer reaches a call only with everything the
       call can depend on. *)
Fixpoint no_par (i : instr) : bool :=
  match i with
  | IPar _ _ => false
  | ISeq a b | IXor a b => no_par a && no_par b
  | IMatch _ _ _ b | IMisMatch _ _ _ b | INew _ _ b _ => no_par b
  | IFoldScalar _ _ _ b l _ => no_par b && match l with Some x => no_par x | None => true end
  | _ => true
  end.
Fixpoint live_shape (i : instr) : bool :=
  match i with
  | IPar a b => live_shape a && live_shape b
  | ISeq a b => no_par a && live_shape b
  | IXor a b => live_shape a && live_shape b
  | IMatch _ _ _ b | IMisMatch _ _ _ b | INew _ _ b _ => live_shape b
  | IFoldScalar _ _ _ b l _ =>
      match b with
      | IPar x y => live_shape x && live_shape y && match l with Some li => live_shape li | None => true end
      | _ => no_par b && match l with Some li => no_par li | None => true end
      end
  | _ => true
  end.
Definition oracle_drained (c : case_t) : bool :=
  negb (sc_drained c) || negb (live_shape (sc_script c)) ||
  match sequential c with Out cs _ _ => sub_multiset cs (observed c) | _ => true end.
Definition progress_checked (c : case_t) : bool := sc_drained c && live_shape (sc_script c).

(* (3) no call is issued before the reading reaches it: the requests issued up to run s are calls the
       reading reaches when only the answers handed back up to run s are known *)
Definition ready_at (c : case_t) (s : N) : bool :=
  let answered := map oc_call (filter (fun o => oc_answered o <=? s) (sc_observed c)) in
  let issued := map oc_call (filter (fun o => oc_issued o <=? s) (sc_observed c)) in
  match reading c (known_in answered) with
  | Out cs _ _ => sub_multiset issued cs
  | _ => true
  end.
Definition oracle_order (c : case_t) : bool :=
  forallb (fun o => ready_at c (oc_issued o)) (sc_observed c).

Definition c16_oracle (c : case_t) : bool := oracle_subset c && oracle_drained c && oracle_order c.

(* how far the sequential reading got, for the evidence: 0 done, 1 stuck, 2 failed, 3 not defined *)
Definition reading_status (c : case_t) : N :=
  match sequential c with
  | Out _ _ Done | Out _ _ AtEnd => 0 | Out _ _ Stuck => 1 | Out _ _ (Failed _) => 2 | _ => 3
  end.
