(* KeepStreams.v -- C09_stores for the stage-2/3 executor: the stream / canon / map instructions of
   model/ExecStreams.v only ADD to the CID stores (hook_keeps cids_grow stream_instr), the farewell
   compactification does not touch them; hence the corollary for ExecStreams.run2 = run stream_instr
   finish_streams, the model the lock-step compares with the real interpreter.
   The case analysis follows proofs/ExecStreamsInv.v; the relation here is NOT preserved by an arbitrary
   set_cids (only by growth), which is why that file's generic theorem does not apply. *)
From Coq Require Import Lia.
From Aqua Require Import Base Json Air Trace Handler Values Scalars Lens Exec RunExec ExecStreams ExecCases KeepSpec.
From Aqua Require Import KeepProofs.
From Aqua Require Stream.
Open Scope N_scope.
Open Scope list_scope.

(* every context an outcome carries (also with an uncatchable error) has grown stores *)
Definition gall (x : ctx) (r : xres) : Prop := match r with XOk y | XErr _ y => cids_grow x y | _ => True end.
Definition gsat (x : ctx) (r : xres) : Prop := xres_sat cids_grow x r.

Lemma gall_gsat : forall x r, gall x r -> gsat x r.
Proof. intros x r H. destruct r as [y | [c | u] y | | |]; cbn in *; auto. Qed.

Lemma cg_refl : forall x, cids_grow x x.
Proof. intros x. apply cid_state_incl_refl. Qed.
Lemma cg_trans : forall x y z, cids_grow x y -> cids_grow y z -> cids_grow x z.
Proof. intros x y z. apply cid_state_incl_trans. Qed.
Lemma cg_same : forall x y, x_cids y = x_cids x -> cids_grow x y.
Proof. intros x y E. unfold cids_grow. rewrite E. apply cid_state_incl_refl. Qed.

Lemma xc_with_table : forall t x m, x_cids (with_table t x m) = x_cids x.
Proof. intros [] x m; reflexivity. Qed.
Lemma xc_put_in : forall t x n p s, x_cids (put_in t x n p s) = x_cids x.
Proof. intros t x n p s. unfold put_in. apply xc_with_table. Qed.
Lemma set_canon_value_frame : forall x name c y, set_canon_value x name c = POk y -> x_cids y = x_cids x.
Proof.
  intros x name c y H. unfold set_canon_value in H.
  destruct (Scalars.set_value canon_wp (x_canons x) name c) as [[m b] |]; inversion H; subst. reflexivity.
Qed.
Lemma set_canon_map_value_frame : forall x name c y, set_canon_map_value x name c = POk y -> x_cids y = x_cids x.
Proof.
  intros x name c y H. unfold set_canon_map_value in H.
  destruct (Scalars.set_value canon_map_wp _ name c) as [[m b] |]; inversion H; subst. reflexivity.
Qed.

(* x_cids of a context built by frame updates *)
Ltac xc :=
  repeat (first
    [ rewrite xc_record_cid | rewrite xc_set_errors | rewrite xc_with_table | rewrite xc_put_in
    | match goal with
      | H : set_canon_value ?z _ _ = POk ?y |- context [x_cids ?y] => rewrite (set_canon_value_frame _ _ _ _ H)
      | H : set_canon_map_value ?z _ _ = POk ?y |- context [x_cids ?y] => rewrite (set_canon_map_value_frame _ _ _ _ H)
      | H : set_scalar_value ?z _ _ = POk ?y |- context [x_cids ?y] => rewrite (proj1 (set_scalar_value_frame _ _ _ _ H))
      | H : add_stream_value ?z _ _ _ _ = POk ?y |- context [x_cids ?y] => rewrite (proj1 (add_stream_value_frame _ _ _ _ _ _ H))
      end
    | progress (unfold put_stream, all_fold_start, all_fold_end, all_next_before, all_next_after, with_canon_maps, with_streams,
                make_incomplete, flush_complete, call_end)
    | progress (cbn [x_cids set_scalars set_canons set_iterables set_next_peers set_last_error set_error
                     set_complete set_calls set_cids set_handler set_fold_counter set_ext]) ]);
  try reflexivity.

(* cids_grow x Y where Y is a chain of frame updates over a context z with cids_grow x z known (or z = x) *)
Ltac cg :=
  first
    [ apply cg_refl
    | apply cg_same; xc; fail
    | match goal with
      | H : cids_grow ?w ?z |- cids_grow ?x ?y =>
          apply (cg_trans x z); [apply (cg_trans x w); [clear H; cg | exact H] | apply cg_same; xc; fail]
      end ].

Lemma gall_trans : forall x y r, cids_grow x y -> gall y r -> gall x r.
Proof. intros x y r H Hr. destruct r as [z | e z | | |]; cbn in *; auto; eapply cg_trans; eassumption. Qed.
Lemma gsat_trans : forall x y r, cids_grow x y -> gsat y r -> gsat x r.
Proof. intros x y r H Hr. destruct r as [z | [c | u] z | | |]; cbn in *; auto; eapply cg_trans; eassumption. Qed.

(* destruct every scrutinee of the goal, innermost first; never a sub-instruction *)
Ltac dms :=
  match goal with
  | |- context [match ?d with _ => _ end] =>
      lazymatch d with
      | context [match _ with _ => _ end] => fail
      | _ => lazymatch type of d with
             | instr => fail
             | ctx => fail
             | _ => destruct d eqn:?
             end
      end
  end.
Ltac hyps :=
  repeat match goal with
         | H : (match ?d with _ => _ end) = POk _ |- _ => destruct d eqn:?; try discriminate H
         | H : POk _ = POk _ |- _ => inversion H; subst; clear H
         end.
Ltac crush :=
  unfold with_trace, with_handler, lift; cbn [gall gsat xres_sat fst snd trace_err];
  repeat (dms; cbn [gall gsat xres_sat fst snd trace_err]);
  hyps;
  first [exact I | discriminate | cg].

Lemma ga_exec_ap_stream : forall x a sv, gall x (exec_ap_stream x a sv).
Proof. intros. unfold exec_ap_stream. crush. Qed.
Lemma ga_exec_ap_map : forall x k a m, gall x (exec_ap_map x k a m).
Proof. intros. unfold exec_ap_map. crush. Qed.
Lemma ga_canon_epilog : forall k x values t c, gall x (canon_epilog k x values t c).
Proof. intros. unfold canon_epilog. crush. Qed.

Lemma track_canon_values_grows : forall vs cs, cid_state_incl cs (track_canon_values cs vs).
Proof.
  unfold track_canon_values. induction vs as [| v vs IH]; intros cs; cbn [fold_left]; [apply cid_state_incl_refl |].
  eapply cid_state_incl_trans; [| apply IH].
  repeat split; cbn; try apply cid_track_incl; apply cids_incl_refl.
Qed.

Lemma ga_create_canon_first_time : forall k tb x stream peer, gall x (create_canon_first_time k tb x stream peer).
Proof.
  intros k tb x stream peer. unfold create_canon_first_time.
  eapply gall_trans; [| apply ga_canon_epilog].
  unfold cids_grow. rewrite xc_record_cid. cbn [x_cids set_cids].
  apply (cid_state_incl_trans _ (track_canon_values (x_cids x) (canon_producer k tb x stream peer)));
    [apply track_canon_values_grows |].
  repeat split; cbn; try apply cid_track_incl; apply cids_incl_refl.
Qed.

Lemma ga_handle_canon_executed : forall k x p c, gall x (handle_canon_executed k x p c).
Proof.
  intros k x p c. unfold handle_canon_executed, lift.
  destruct (resolve_peer_id_to_string x p) as [peer | e | s | w]; cbn [gall]; try exact I; [| cg].
  destruct (negb (cid_mem c (cs_canon_results (x_cids x)))); cbn [gall]; [cg |].
  destruct c; cbn [gall]; try exact I.
  destruct (negb (cid_mem c (cs_tetraplets (x_cids x)))); cbn [gall]; [cg |].
  destruct c; cbn [gall]; try exact I.
  destruct (verify_canon _ _) as [u | e | s | w]; cbn [gall]; try exact I; [| cg].
  destruct (canon_values_by_cids _ _) as [vals | e | s | w]; cbn [gall]; try exact I; [| cg].
  eapply gall_trans; [| apply ga_canon_epilog]. cg.
Qed.

Lemma ga_run_compact_plan : forall x pl, gall x (run_compact_plan x pl).
Proof. intros. unfold run_compact_plan. crush. Qed.
Lemma ga_compactify_table : forall t x, gall x (compactify_table t x).
Proof.
  intros t x. unfold compactify_table. destruct (Stream.streams_compactify vagg va_pos _ (table_of t x)) as [m pl].
  eapply gall_trans; [| apply ga_run_compact_plan]. cg.
Qed.
Lemma ga_new_stream_epilog : forall t x name, gall x (new_stream_epilog t x name).
Proof.
  intros t x name. unfold new_stream_epilog.
  destruct (Stream.streams_meet_scope_end vagg va_pos (table_of t x) name) as [[[m b] pl] | e | s]; cbn [gall]; try exact I; try cg.
  eapply gall_trans; [| apply ga_run_compact_plan]. cg.
Qed.

Lemma ga_exec_canon_generic : forall k tb x p stream, gall x (exec_canon_generic k tb x p stream).
Proof.
  intros k tb x p stream. unfold exec_canon_generic, with_handler.
  destruct (meet_canon_start cid cid_eqb (x_handler x)) as [rh | e | s]; cbn [gall]; try exact I; [| cg].
  set (x0 := set_handler x (snd rh)). assert (H0 : cids_grow x x0) by (unfold x0; cg).
  destruct (fst rh) as [| r].
  - destruct (resolve_peer_id_to_string x0 p) as [peer | e | s | w]; cbn [gall]; try exact I.
    + destruct (negb (String.eqb (current_peer x0) peer)); cbn [gall].
      * unfold x0. cg.
      * eapply gall_trans; [exact H0 | apply ga_create_canon_first_time].
    + destruct (is_joinable e); cbn [gall]; unfold x0; cg.
  - destruct r as [sender | c].
    + eapply gall_trans; [exact H0 |]. unfold lift.
      destruct (resolve_peer_id_to_string x0 p) as [peer | e | s | w]; cbn [gall]; try exact I; [| cg].
      destruct (negb (String.eqb (current_peer x0) peer)); cbn [gall]; [cg | apply ga_create_canon_first_time].
    + eapply gall_trans; [exact H0 | apply ga_handle_canon_executed].
Qed.

Section WithRun.
  Variable run : instr -> ctx -> xres.
  Hypothesis Hrun : forall i x, gsat x (run i x).

  Ltac dmr :=
    match goal with
    | |- context [match run ?a ?z with _ => _ end] =>
        let H := fresh "HI" in
        pose proof (Hrun a z) as H; destruct (run a z) as [? | [? | ?] ? | | |] eqn:?; cbn [gsat xres_sat trace_err] in H
    | |- context [match new_stream_epilog ?t ?y ?n with _ => _ end] =>
        let H := fresh "HE" in
        pose proof (ga_new_stream_epilog t y n) as H; destruct (new_stream_epilog t y n) eqn:?; cbn [gall] in H
    | _ => dms
    end.
  Ltac crushr :=
    unfold with_trace, with_handler, lift; cbn [gall gsat xres_sat fst snd trace_err];
    repeat (dmr; cbn [gall gsat xres_sat fst snd trace_err]);
    hyps;
    first [exact I | discriminate | cg
          | eapply gsat_trans; [| apply gall_gsat; apply ga_new_stream_epilog]; cg
          | eapply gsat_trans; [| apply Hrun]; cg ].

  Lemma gs_exec_new_stream : forall t x sv body sp, gsat x (exec_new_stream t run x sv body sp).
  Proof. intros. unfold exec_new_stream. crushr. Qed.
  Lemma gs_exec_new_canon_map : forall x v body, gsat x (exec_new_canon_map run x v body).
  Proof. intros. unfold exec_new_canon_map. crushr. Qed.
  Lemma gs_fold_batch : forall x batch fold_id iter body last, gsat x (fold_batch run x batch fold_id iter body last).
  Proof. intros. unfold fold_batch. crushr. Qed.

  Lemma gs_execute_iterations : forall batches x fold_id iter body last observed,
    gsat x (fst (execute_iterations run x batches fold_id iter body last observed)).
  Proof.
    induction batches as [| b rest IH]; intros x fold_id iter body last observed; cbn [execute_iterations fst gsat xres_sat trace_err].
    - cg.
    - destruct b as [| v b']; [apply IH |].
      destruct (meet_iteration_start cid (x_handler x) fold_id (va_pos v)) as [h | e | s]; cbn [fst gsat xres_sat trace_err]; auto.
      pose proof (gs_fold_batch (set_handler x h) (v :: b') fold_id iter body last) as Hb.
      assert (Hafter : forall y, cids_grow x y ->
                gsat x (fst match meet_generation_end cid (x_handler y) fold_id with
                            | Err e => (XErr (trace_err e) y, observed)
                            | Crash _ => (XCrash "trace handler panic", observed)
                            | Ok h' =>
                                execute_iterations run (set_handler y h') rest fold_id iter body last
                                                   (observed || x_complete (set_handler y h'))
                            end)).
      { intros y Hy. destruct (meet_generation_end cid (x_handler y) fold_id) as [h' | e | s]; cbn [fst gsat xres_sat trace_err]; auto.
        eapply gsat_trans; [| apply IH]. cg. }
      destruct (fold_batch run (set_handler x h) (v :: b') fold_id iter body last) as [y | [c | u] y | | |];
        cbn [gsat xres_sat trace_err] in Hb; cbn [fst gsat xres_sat is_catchable trace_err]; auto.
      all: apply Hafter; cg.
  Qed.

  Lemma gs_fold_stream_loop : forall t n x st rc sv iter body last fold_id observed,
    gsat x (fst (fold_stream_loop t n run x st rc sv iter body last fold_id observed)).
  Proof.
    intros t n. induction n as [| n IH]; intros x st rc sv iter body last fold_id observed;
      destruct st as [batches |]; cbn [fold_stream_loop fst gsat xres_sat trace_err]; auto; try cg.
    pose proof (gs_execute_iterations batches x fold_id iter body last observed) as He.
    destruct (execute_iterations run x batches fold_id iter body last observed) as [r obs].
    destruct r as [y | [c | u] y | | |]; cbn [fst gsat xres_sat trace_err] in *; auto.
    destruct (get_in t y (v_name sv) (v_pos sv)) as [s |]; cbn [fst gsat xres_sat trace_err]; auto.
    destruct (Stream.met_iteration_end vagg rc s) as [[[st' rc'] s'] | e | c]; cbn [fst gsat xres_sat trace_err]; auto.
    eapply gsat_trans; [| apply IH]. cg.
  Qed.

  Lemma gs_exec_fold_stream : forall t x sv iter body last, gsat x (exec_fold_stream t run x sv iter body last).
  Proof.
    intros t x sv iter body last. unfold exec_fold_stream.
    destruct (get_in t x (v_name sv) (v_pos sv)) as [s |]; cbn [gsat xres_sat trace_err]; [| cg].
    unfold with_trace, with_handler.
    destruct (Handler.meet_fold_start cid _ _) as [h | e | st0]; cbn [gsat xres_sat trace_err]; auto.
    destruct (Stream.met_fold_start vagg Stream.rcursor_new s) as [[[st rc] s'] | e | c]; cbn [gsat xres_sat trace_err]; auto.
    match goal with |- context [fold_stream_loop t fold_rounds run ?z st rc sv iter body last ?f false] =>
      pose proof (gs_fold_stream_loop t fold_rounds z st rc sv iter body last f false) as Hl;
      destruct (fold_stream_loop t fold_rounds run z st rc sv iter body last f false) as [r obs] end.
    destruct r as [y | [c | u] y | | |]; cbn [fst gsat xres_sat trace_err] in *; auto; try cg.
    destruct (Handler.meet_fold_end cid _ _) as [h' | e | st1]; cbn [gsat xres_sat trace_err]; auto. cg.
  Qed.

  Lemma gs_exec_next_stream : forall x iter fs fold_id, gsat x (exec_next_stream run x iter fs fold_id).
  Proof.
    intros x iter fs fold_id. unfold exec_next_stream, with_trace, with_handler.
    destruct (meet_iteration_end cid (x_handler x) fold_id) as [h0 | e | s0]; cbn [gsat xres_sat trace_err]; auto.
    destruct (it_next (fs_iterable fs)) as [moved it'].
    destruct (negb moved).
    - destruct (meet_back_iterator cid _ fold_id) as [h1 | e | s1]; cbn [gsat xres_sat trace_err]; auto.
      destruct (fs_last fs) as [li |].
      + eapply gsat_trans; [| apply Hrun]. cg.
      + destruct (negb (fs_back_started fs)); cbn [gsat xres_sat trace_err]; cg.
    - destruct (it_peek it') as [item |]; cbn [gsat xres_sat trace_err]; auto.
      destruct (meet_iteration_start cid _ fold_id (it_pos item)) as [h2 | e | s2]; cbn [gsat xres_sat trace_err]; auto.
      repeat dmr; cbn [gsat xres_sat trace_err]; auto; try cg.
  Qed.

  Lemma gs_stream_instr : forall i x r, stream_instr run i x = Some r -> gsat x r.
  Proof.
    intros i x r. unfold stream_instr.
    destruct i; try discriminate;
      repeat match goal with |- context [match ?d with _ => _ end] => destruct d end; try discriminate;
      intros E; inversion E; subst;
      first [ apply gall_gsat; apply ga_exec_ap_stream | apply gall_gsat; apply ga_exec_ap_map
            | apply gall_gsat; apply ga_exec_canon_generic | apply gs_exec_fold_stream
            | apply gs_exec_new_stream | apply gs_exec_new_canon_map | apply gs_exec_next_stream ].
  Qed.
End WithRun.

(* the stage-2/3 hook only grows the stores *)
Theorem stream_instr_grows : hook_keeps cids_grow stream_instr.
Proof. intros run Hrun i x r E. exact (gs_stream_instr run Hrun i x r E). Qed.

Theorem finish_streams_grows : forall x x1, finish_streams x = inl x1 -> cids_grow x x1.
Proof.
  intros x x1 H. unfold finish_streams in H.
  pose proof (ga_compactify_table TStreams x) as H1.
  destruct (compactify_table TStreams x) as [y | [c | u] y | | |]; cbn [gall] in H1; try discriminate H.
  pose proof (ga_compactify_table TMaps y) as H2.
  destruct (compactify_table TMaps y) as [z | [c | u] z | | |]; cbn [gall] in H2; try discriminate H.
  inversion H; subst. eapply cg_trans; eassumption.
Qed.

(* C09_stores for the model the lock-step uses *)
Theorem stores_kept_run2 : forall fuel i code d next reqs signed,
  run2 fuel i = OutNewData code d next reqs signed ->
  cid_state_incl (d_cids (ri_prev i)) (d_cids d) /\ cid_state_incl (d_cids (ri_cur i)) (d_cids d).
Proof. exact (stores_kept stream_instr finish_streams stream_instr_grows finish_streams_grows). Qed.
