(* C19Cases.v -- one real run of `air::execute_air` (harness/src/bin/exec.rs, ExecCases.v) seen through
   property C19: the part of the observation the property talks about (next peers, call requests,
   the states marked as sent) compared with the executor model, and the run-local part of the
   property evaluated on the implementation's observation alone. *)
From Aqua Require Import Base Json Air Trace Handler Values Scalars Lens Exec RunExec ExecStreams ExecCases.
Open Scope N_scope.
Open Scope list_scope.

Definition is_sent_state (s : state cid) : bool :=
  match s with
  | SCall (RequestSentBy _) | SCanon (CanonRequestSentBy _) => true
  | _ => false
  end.
Definition sent_states (t : list (state cid)) : list (state cid) := filter is_sent_state t.

Definition is_mark_of (me : string) (s : state cid) : bool :=
  match s with
  | SCall (RequestSentBy (SPeer p)) | SCanon (CanonRequestSentBy p) => String.eqb p me
  | _ => false
  end.
Definition count_marks (me : string) (t : list (state cid)) : N := len_N (filter (is_mark_of me) t).

Fixpoint nodup_str (l : list string) : bool :=
  match l with [] => true | x :: r => negb (existsb (String.eqb x) r) && nodup_str r end.

(* model vs implementation on what C19 is about *)
Definition c19_check_case (c : case_t) : bool :=
  let o := ec_obs c in
  match model_outcome c with
  | OutUnsupported _ => true
  | OutFuel => false
  | OutCrash _ => eo_kind o =? 2
  | OutPrevData code => (eo_kind o =? 1) && (code =? eo_code o)%Z
  | OutNewData code d next reqs signed =>
      (eo_kind o =? 0) && (code =? eo_code o)%Z &&
      set_eq_str next (eo_next o) && (len_N next =? len_N (eo_next o)) &&
      list_eqb (pair_eqb N.eqb request_eqb) reqs (eo_requests o) &&
      trace_eqb cid cid_eqb (sent_states (d_trace d)) (sent_states (eo_trace o)) &&
      (len_N (d_trace d) =? len_N (eo_trace o))
  end.

(* the run-local part of the property on the implementation's observation *)
Definition c19_oracle (c : case_t) : bool :=
  let o := ec_obs c in
  let i := ec_input c in
  let me := rp_current_peer (ri_params i) in
  negb (existsb (String.eqb me) (eo_next o)) && nodup_str (eo_next o) &&
  (if (eo_kind o =? 0) &&
      (count_marks me (d_trace (ri_prev i)) + count_marks me (d_trace (ri_cur i)) <? count_marks me (eo_trace o))
   then match eo_next o with [] => false | _ => true end
   else true) &&
  (* a run that fails (previous data returned) or panics sends nothing and requests nothing *)
  (if eo_kind o =? 0 then true else match eo_next o, eo_requests o with [], [] => true | _, _ => false end).

(* counters for the evidence *)
Definition forwards (c : case_t) : bool := match eo_next (ec_obs c) with [] => true | _ => false end.   (* "failing" = runs that forward *)
Definition requests (c : case_t) : bool := match eo_requests (ec_obs c) with [] => true | _ => false end.
