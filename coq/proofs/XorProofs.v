(* XorProofs.v -- proofs of the C18 statements of model/XorSpec.v *)
From Coq Require Import Lia.
From Aqua Require Import Base Json Air Trace Handler Values Scalars Lens Exec RunExec ExecStreams XorSpec.
Open Scope N_scope.
Open Scope list_scope.

(* ------------------------------------------------------------------------------------------ *)
(* contexts that keep the :error: descriptor and the iterables of another one *)

Definition keeps (x y : ctx) : Prop :=
  x_error y = x_error x /\ x_error_can_set y = x_error_can_set x /\ x_iterables y = x_iterables x.

Lemma pres_refl x : keeps x x.
Proof. repeat split. Qed.
Lemma pres_trans x y z : keeps x y -> keeps y z -> keeps x z.
Proof. unfold keeps; intros (a & b & c) (d & e & f); repeat split; congruence. Qed.

Definition rkeeps (x : ctx) (r : xres) : Prop :=
  match r with XOk y | XErr _ y => keeps x y | _ => True end.
Definition pkeeps (x : ctx) (r : pres ctx) : Prop :=
  match r with POk y => keeps x y | _ => True end.

Lemma rkeeps_trans x y r : keeps x y -> rkeeps y r -> rkeeps x r.
Proof. destruct r; cbn; eauto using pres_trans. Qed.

Ltac pres_simple := unfold keeps; cbn; repeat split; reflexivity.

Lemma pres_set_scalars x m : keeps x (set_scalars x m). Proof. pres_simple. Qed.
Lemma pres_set_canons x m : keeps x (set_canons x m). Proof. pres_simple. Qed.
Lemma pres_set_next_peers x l : keeps x (set_next_peers x l). Proof. pres_simple. Qed.
Lemma pres_set_last_error x e b : keeps x (set_last_error x e b). Proof. pres_simple. Qed.
Lemma pres_set_complete x b : keeps x (set_complete x b). Proof. pres_simple. Qed.
Lemma pres_set_calls x a b c : keeps x (set_calls x a b c). Proof. pres_simple. Qed.
Lemma pres_set_cids x a b : keeps x (set_cids x a b). Proof. pres_simple. Qed.
Lemma pres_set_handler x h : keeps x (set_handler x h). Proof. pres_simple. Qed.
Lemma pres_set_fold_counter x n : keeps x (set_fold_counter x n). Proof. pres_simple. Qed.
Lemma pres_set_ext x e : keeps x (set_ext x e). Proof. pres_simple. Qed.
Lemma pres_with_streams x m : keeps x (with_streams x m). Proof. pres_simple. Qed.
Lemma pres_all_fold_start x : keeps x (all_fold_start x). Proof. pres_simple. Qed.
Lemma pres_all_fold_end x : keeps x (all_fold_end x). Proof. pres_simple. Qed.
Lemma pres_all_next_before x : keeps x (all_next_before x). Proof. pres_simple. Qed.
Lemma pres_all_next_after x : keeps x (all_next_after x). Proof. pres_simple. Qed.
Lemma pres_make_incomplete x : keeps x (make_incomplete x). Proof. pres_simple. Qed.
Lemma pres_flush_complete x : keeps x (flush_complete x). Proof. pres_simple. Qed.
Lemma pres_call_end x c : keeps x (call_end x c). Proof. pres_simple. Qed.
Lemma pres_record_cid x p c : keeps x (record_cid x p c).
Proof. unfold record_cid; destruct (String.eqb p (current_peer x)); pres_simple. Qed.
Lemma pres_track_service_result x v t a : keeps x (fst (track_service_result x v t a)).
Proof. pres_simple. Qed.
Lemma pres_maybe_set_prev_state x sd : keeps x (maybe_set_prev_state x sd).
Proof. destruct sd as [s [c|]]; cbn; [apply pres_call_end | apply pres_refl]. Qed.

Lemma pkeeps_set_scalar_value x n v : pkeeps x (set_scalar_value x n v).
Proof. unfold set_scalar_value. destruct (Scalars.set_value vagg (x_scalars x) n v) as [[m b]|e]; cbn; auto. pres_simple. Qed.

#[global] Hint Resolve pres_refl pres_set_scalars pres_set_canons pres_set_next_peers pres_set_last_error pres_set_complete
  pres_set_calls pres_set_cids pres_set_handler pres_set_fold_counter pres_set_ext pres_with_streams pres_all_fold_start pres_all_fold_end pres_all_next_before pres_all_next_after pres_make_incomplete pres_flush_complete
  pres_call_end pres_record_cid pres_maybe_set_prev_state : keeps.


Lemma pkeeps_add_stream_value x n v g p : pkeeps x (add_stream_value x n v g p).
Proof. unfold add_stream_value. destruct (Stream.streams_add_stream_value vagg (e_streams (x_ext x)) n v g p); cbn; auto with keeps. Qed.

Lemma pkeeps_bind {A} x (r : pres A) (k : A -> pres ctx) :
  (forall a, pkeeps x (k a)) -> pkeeps x (pbind r k).
Proof. destruct r; cbn; auto. Qed.

Lemma track_keeps x v t a x1 sc : track_service_result x v t a = (x1, sc) -> keeps x x1.
Proof. intros E. pose proof (pres_track_service_result x v t a) as H. rewrite E in H. exact H. Qed.

Lemma rkeeps_populate_from_service_result x result t pos ah out :
  rkeeps x (fst (populate_from_service_result x result t pos ah out)).
Proof.
  unfold populate_from_service_result. destruct out as [v|v|]; [ | |cbn; auto with keeps].
  - destruct (track_service_result x result t ah) as [x1 sc] eqn:E. apply track_keeps in E.
    pose proof (pkeeps_set_scalar_value x1 (v_name v) (VAService result t pos sc)) as H.
    destruct (set_scalar_value x1 (v_name v) (VAService result t pos sc)); cbn in *; auto.
    eapply pres_trans; [exact E|]. eapply pres_trans; [exact H|]. auto with keeps.
  - destruct (track_service_result x result t ah) as [x1 sc] eqn:E. apply track_keeps in E.
    pose proof (pkeeps_add_stream_value x1 (v_name v) (VAService result t pos sc) Stream.GNew (v_pos v)) as H.
    destruct (add_stream_value x1 (v_name v) (VAService result t pos sc) Stream.GNew (v_pos v)); cbn in *; auto.
    eapply pres_trans; [exact E|]. eapply pres_trans; [exact H|]. auto with keeps.
Qed.

Lemma rkeeps_update_state x t ah out ans : rkeeps x (update_state_with_service_result x t ah out ans).
Proof.
  unfold update_state_with_service_result.
  destruct (negb (sa_ret_code ans =? call_service_success)%Z).
  - destruct (track_service_result x (call_service_failed_value (sa_ret_code ans) (sa_text ans)) t ah) as [x1 sc] eqn:E.
    apply track_keeps in E. cbn.
    eapply pres_trans; [exact E|]. eapply pres_trans; [apply pres_record_cid | apply pres_call_end].
  - destruct (sa_parsed ans) as [result|].
    + pose proof (rkeeps_populate_from_service_result x result t (trace_pos_of x) ah out) as H.
      destruct (populate_from_service_result x result t (trace_pos_of x) ah out) as [r o]; cbn [fst] in H.
      destruct r; cbn in *; auto.
      destruct o; cbn; auto.
    + destruct (track_service_result x (call_service_failed_value 2147483647 "<msg:service result is not JSON>") t ah) as [x1 sc] eqn:E.
      apply track_keeps in E. cbn.
      eapply pres_trans; [exact E|]. eapply pres_trans; [apply pres_record_cid | apply pres_call_end].
Qed.

Lemma pkeeps_populate_from_data x v ah t pos src out : pkeeps x (populate_from_data x v ah t pos src out).
Proof.
  unfold populate_from_data. destruct out, v; cbn; auto with keeps.
  - apply pkeeps_bind; intros. apply pkeeps_bind; intros. apply pkeeps_set_scalar_value.
  - apply pkeeps_bind; intros. apply pkeeps_bind; intros. apply pkeeps_add_stream_value.
Qed.

Lemma rkeeps_handle_prev_state x met pos src t ah out : rkeeps x (fst (handle_prev_state x met pos src t ah out)).
Proof.
  unfold handle_prev_state. destruct met as [[p|p id]|v|fc].
  - destruct (String.eqb (tp_peer t) (current_peer x)); cbn; auto with keeps.
  - destruct (String.eqb p (current_peer x)).
    + destruct (results_take (x_call_results x) id) as [[ans|] rest]; cbn; auto with keeps.
      destruct ah; cbn [fst rkeeps]; auto with keeps. eapply rkeeps_trans; [apply pres_set_calls | apply rkeeps_update_state].
    + destruct (String.eqb (tp_peer t) (current_peer x)); cbn; auto with keeps.
  - destruct ah as [ah|]; [|cbn [fst rkeeps]; auto with keeps].
    pose proof (pkeeps_populate_from_data x v ah t pos src out) as H.
    destruct (populate_from_data x v ah t pos src out); cbn in *; auto with keeps.
    destruct v; (eapply pres_trans; [exact H|]); [eapply pres_trans; [apply pres_record_cid|] | eapply pres_trans; [apply pres_record_cid|] | ]; auto with keeps.
  - destruct (resolve_service_info x fc); cbn; auto with keeps.
    destruct ah; cbn; auto with keeps.
    destruct (verify_call c (t) (si_arg_hash a) (si_tetraplet a)); cbn; auto with keeps.
    destruct (si_value a); cbn; auto with keeps.
    destruct (obj_get "ret_code" kvs) as [[]|]; cbn; auto with keeps.
    destruct (obj_get "message" kvs) as [[]|]; cbn; auto with keeps.
    destruct ((-2147483648 <=? z)%Z && (z <=? 2147483647)%Z); cbn; auto with keeps.
    eapply pres_trans; [apply pres_make_incomplete|]. eapply pres_trans; [apply pres_record_cid | apply pres_call_end].
Qed.

Lemma rkeeps_with_handler {A} x (r : res A) k : (forall a, rkeeps x (k a)) -> rkeeps x (with_handler x r k).
Proof. destruct r; cbn; auto with keeps. Qed.

Lemma rkeeps_lift {A} x (r : pres A) k : (forall a, rkeeps x (k a)) -> rkeeps x (lift x r k).
Proof. destruct r; cbn; auto with keeps. Qed.

Lemma keeps_remote x0 t s :
  keeps x0 (call_end (make_incomplete (set_next_peers x0 (x_next_peers x0 ++ [tp_peer t]))) s).
Proof. unfold keeps; cbn; auto. Qed.

Lemma rkeeps_resolved_call_execute x t args out : rkeeps x (resolved_call_execute x t args out).
Proof.
  unfold resolved_call_execute.
  destruct (collect_args x args) as [[avs ats]|e|s|w]; cbn [rkeeps]; auto.
  - apply rkeeps_with_handler; intros rh.
    eapply rkeeps_trans; [apply (pres_set_handler x (snd rh))|].
    set (x0 := set_handler x (snd rh)).
    destruct (fst rh) as [|met pos src].
    + destruct (negb (String.eqb (tp_peer t) (current_peer x0))); cbn [rkeeps]; [apply keeps_remote|].
      destruct (4294967295 <=? x_lcid x0); cbn [rkeeps]; auto. unfold keeps; cbn; auto.
    + pose proof (rkeeps_handle_prev_state x0 met pos src t (Some (CArgs avs)) out) as H.
      destruct (handle_prev_state x0 met pos src t (Some (CArgs avs)) out) as [r sd]; cbn [fst] in H.
      destruct r as [x1|e x1|s| |w]; cbn [rkeeps] in *; auto.
      destruct sd as [[|] prev].
      * destruct (negb (String.eqb (tp_peer t) (current_peer x1))); cbn [rkeeps].
        { eapply pres_trans; [exact H | apply keeps_remote]. }
        destruct (4294967295 <=? x_lcid x1); cbn [rkeeps]; auto.
      * cbn [rkeeps]. eapply pres_trans; [exact H | apply pres_maybe_set_prev_state].
  - destruct (is_joinable e); cbn [rkeeps]; auto with keeps.
    apply rkeeps_with_handler; intros rh.
    eapply rkeeps_trans; [apply (pres_set_handler x (snd rh))|].
    set (x0 := set_handler x (snd rh)).
    destruct (fst rh) as [|met pos src].
    + destruct (negb (String.eqb (tp_peer t) (current_peer x0))); cbn [rkeeps]; [apply keeps_remote | apply pres_refl].
    + pose proof (rkeeps_handle_prev_state x0 met pos src t None out) as H.
      destruct (handle_prev_state x0 met pos src t None out) as [r sd]; cbn [fst] in H.
      destruct r as [x1|e' x1|s| |w]; cbn [rkeeps] in *; auto.
      destruct sd as [should prev].
      destruct (negb should); cbn [rkeeps].
      { eapply pres_trans; [exact H | apply pres_maybe_set_prev_state]. }
      destruct (negb (String.eqb (tp_peer t) (current_peer x1))); cbn [rkeeps].
      { eapply pres_trans; [exact H | apply keeps_remote]. }
      eapply pres_trans; [exact H | apply pres_maybe_set_prev_state].
Qed.

(* ------------------------------------------------------------------------------------------ *)
(* ExecutionCtx::set_errors *)

Lemma carries_from_exec_error c text peer t : carries (instr_error_from_exec_error (ECatch c) text peer t) c.
Proof. exists text, peer. reflexivity. Qed.

Lemma ctx_set_errors_catch x c text t use :
  let y := ctx_set_errors x (ECatch c) text t use in
  x_error_can_set y = false /\
  x_iterables y = x_iterables x /\
  (x_error_can_set x = true -> carries (x_error y) c) /\
  (x_error_can_set x = false -> x_error y = x_error x).
Proof.
  unfold ctx_set_errors.
  set (x1 := if x_last_error_can_set x && affects_last_error (ECatch c) then _ else x).
  assert (K : keeps x x1).
  { subst x1. destruct (x_last_error_can_set x && affects_last_error (ECatch c)); auto with keeps. }
  destruct K as (K1 & K2 & K3).
  cbn [affects_error is_catchable]. rewrite andb_true_r. rewrite K2.
  destruct (x_error_can_set x) eqn:F; cbn.
  - repeat split; auto; try discriminate. intros _. eexists _, _. reflexivity.
  - repeat split; auto; discriminate.
Qed.

Lemma ctx_set_errors_uncatch x u text t use :
  ctx_set_errors x (EUncatch u) text t use = disable_error x.
Proof.
  unfold ctx_set_errors. cbn [affects_last_error affects_error is_catchable].
  rewrite !andb_false_r. reflexivity.
Qed.

(* ------------------------------------------------------------------------------------------ *)
(* good contexts *)

Lemma good_keeps x y : keeps x y -> good_ctx x -> good_ctx y.
Proof.
  intros (E & F & I) (G1 & G2 & G3). unfold good_ctx, err_ok, iters_swallow_free in *.
  rewrite E, F, I. auto.
Qed.

Lemma check_no_error : check_error_object no_error_object = false.
Proof. reflexivity. Qed.

Lemma res_body r : res_ok r -> body_ok r.
Proof. destruct r as [y|[c|u] y|s| |w]; cbn; auto. intros (A & B & C); auto. Qed.

Lemma wrap_ok r text lp : body_ok r -> res_ok (wrap_errors r text lp).
Proof.
  destruct r as [y|[c|u] y|s| |w]; cbn [wrap_errors res_ok body_ok]; auto.
  intros (H & I).
  pose proof (ctx_set_errors_catch y c text None lp) as (A & B & C & D).
  repeat split; auto.
  - destruct (x_error_can_set y) eqn:F; auto.
    destruct H as [H|H]; [discriminate|]. rewrite D; auto.
  - unfold iters_swallow_free in *. rewrite B; auto.
Qed.

Lemma body_err_good x e : good_ctx x -> body_ok (XErr e x).
Proof. intros (A & B & C). destruct e; cbn; auto. Qed.

Lemma body_ok_keeps_err e y y' : keeps y y' -> body_ok (XErr e y) -> body_ok (XErr e y').
Proof.
  intros (E & F & I). destruct e; cbn; auto. unfold iters_swallow_free. rewrite E, F, I. auto.
Qed.

(* iterables *)
Lemma forallb_iter_put (P : fold_state -> bool) l n f :
  forallb (fun p => P (snd p)) l = true -> P f = true -> forallb (fun p => P (snd p)) (iter_put l n f) = true.
Proof.
  induction l as [|[k g] r IH]; cbn; intros H Hf.
  - rewrite Hf; reflexivity.
  - apply andb_true_iff in H as (H1 & H2). destruct (String.eqb k n); cbn; rewrite ?Hf, ?H1, ?H2; auto.
Qed.
Lemma forallb_iter_del (P : fold_state -> bool) l n :
  forallb (fun p => P (snd p)) l = true -> forallb (fun p => P (snd p)) (iter_del l n) = true.
Proof.
  unfold iter_del. induction l as [|[k g] r IH]; cbn; intros H; auto.
  apply andb_true_iff in H as (H1 & H2). destruct (negb (String.eqb k n)); cbn; rewrite ?H1; auto.
Qed.
Lemma forallb_iter_get (P : fold_state -> bool) l n f :
  forallb (fun p => P (snd p)) l = true -> iter_get l n = Some f -> P f = true.
Proof.
  induction l as [|[k g] r IH]; cbn; intros H E; [discriminate|].
  apply andb_true_iff in H as (H1 & H2). destruct (String.eqb k n); [inversion E; subst; auto | auto].
Qed.

(* ------------------------------------------------------------------------------------------ *)
(* the leaf instructions *)

Lemma exec_call_ok x text tr args out : good_ctx x -> res_ok (exec_call x text tr args out).
Proof.
  intros G. unfold exec_call.
  destruct (dop t <- resolve_triplet x tr; dop _ <- check_output_name x out; POk t) as [t|e|s|w]; cbn [res_ok]; auto.
  - pose proof (rkeeps_resolved_call_execute x t args out) as K.
    destruct (resolved_call_execute x t args out) as [y|e y|s| |w]; cbn [rkeeps res_ok] in *; auto.
    + eapply good_keeps; eauto.
    + destruct (is_joinable e).
      * cbn. eapply good_keeps; [|exact G]. eapply pres_trans; [exact K | apply pres_make_incomplete].
      * destruct e as [c|u]; cbn [res_ok]; auto.
        pose proof (good_keeps _ _ K G) as (G1 & G2 & G3).
        pose proof (ctx_set_errors_catch y c text (Some t) true) as (A & B & C & D).
        repeat split; auto. unfold iters_swallow_free in *. rewrite B; auto.
  - destruct (is_joinable e).
    + cbn. eapply good_keeps; [apply pres_make_incomplete | exact G].
    + destruct e as [c|u]; cbn [res_ok]; auto.
      destruct G as (G1 & G2 & G3).
      pose proof (ctx_set_errors_catch x c text None true) as (A & B & C & D).
      repeat split; auto. unfold iters_swallow_free in *. rewrite B; auto.
Qed.

Lemma exec_ap_ok x a r : good_ctx x -> body_ok (exec_ap x a r).
Proof.
  intros G. unfold exec_ap. destruct r as [v|v]; cbn [body_ok]; auto.
  destruct (apply_to_arg x a false) as [val|e|s|w]; cbn [body_ok]; auto.
  - pose proof (pkeeps_set_scalar_value x (v_name v) val) as K.
    destruct (set_scalar_value x (v_name v) val) as [y|e|s|w]; cbn in *; auto.
    + eapply good_keeps; eauto.
    + apply body_err_good; auto.
  - destruct (is_joinable e); [cbn; eapply good_keeps; [apply pres_make_incomplete | exact G] | apply body_err_good; auto].
Qed.

Lemma fail_with_error_object_ok x error t p : good_ctx x -> body_ok (fail_with_error_object x error t p).
Proof.
  intros G. unfold fail_with_error_object. apply body_err_good.
  eapply good_keeps; [|exact G]. eapply pres_trans; [apply pres_set_last_error | apply pres_make_incomplete].
Qed.

Lemma exec_fail_ok x text f : good_ctx x -> body_ok (exec_fail x text f).
Proof.
  intros G. unfold exec_fail.
  assert (FR : forall r : pres resolved, body_ok (lift x r (fun rr =>
      match snd (fst rr) with
      | t :: _ =>
          if check_error_object (fst (fst rr)) then fail_with_error_object x (fst (fst rr)) (Some t) (snd rr)
          else XErr (ECatch CInvalidErrorObjectError) x
      | [] => XCrash "tetraplet.remove(0) on an empty list"
      end))).
  { intros [rr|e|s|w]; cbn [lift body_ok]; auto; [|apply body_err_good; auto].
    destruct (snd (fst rr)); cbn [body_ok]; auto.
    destruct (check_error_object (fst (fst rr))); [apply fail_with_error_object_ok | apply body_err_good]; auto. }
  destruct f; try apply FR.
  - apply fail_with_error_object_ok; auto.
  - destruct (check_error_object (ie_error (x_last_error x))); [apply fail_with_error_object_ok | apply body_err_good]; auto.
  - destruct (check_error_object (ie_error (x_error x))) eqn:C; cbn [negb]; [|apply body_err_good; auto].
    unfold fail_with_error_object.
    destruct G as (G1 & G2 & G3). unfold err_ok in G2.
    destruct (ie_orig (x_error x)) as [o|] eqn:O.
    + cbn. split; auto.
    + congruence.
Qed.

(* ------------------------------------------------------------------------------------------ *)
(* Xor::execute in terms of the bookkeeping functions of XorSpec.v *)

Lemma exec_xor_unfold esi fuel l r x :
  Exec.exec esi (S fuel) (IXor l r) x =
  wrap_errors (match Exec.exec esi fuel l (flush_complete x) with
               | XErr (ECatch c) x1 => xor_after_right (Exec.exec esi fuel r (xor_right_entry c x1))
               | o => o
               end) "xor" false.
Proof.
  cbn [Exec.exec]. destruct (Exec.exec esi fuel l (flush_complete x)) as [x1|[c|u] x1|s| |w]; reflexivity.
Qed.

(* ------------------------------------------------------------------------------------------ *)
(* the main induction: par-free execution from a good context is faithful *)

Section Faithful.
  Variable esi : (instr -> ctx -> xres) -> instr -> ctx -> option xres.
  Hypothesis Hesi : esi_faithful esi.
  Notation exec := (Exec.exec esi).

  Lemma esi_body_ok run i x :
    faithful_run run -> swallow_free i = true -> good_ctx x ->
    body_ok (match esi run i x with Some r' => r' | None => XUnsupported "stream" end).
  Proof.
    intros R P G. destruct (esi run i x) as [r|] eqn:E; cbn; auto. eapply Hesi; eauto.
  Qed.

  Lemma good_right_entry c x1 :
    x_error_can_set x1 = false -> carries (x_error x1) c -> iters_swallow_free x1 = true ->
    good_ctx (xor_right_entry c x1).
  Proof. intros A B C. unfold good_ctx, err_ok, iters_swallow_free, xor_right_entry in *. cbn. auto. Qed.

  Lemma faithful_exec : forall fuel, faithful_run (exec fuel).
  Proof.
    induction fuel as [|fuel IH]; intros i x P G; [exact I|].
    destruct i.
    - (* call *) cbn [Exec.exec]. apply exec_call_ok; auto.
    - (* ap *) cbn [Exec.exec]. apply wrap_ok. destruct r; [apply exec_ap_ok; auto | apply esi_body_ok; auto].
    - (* ap map *) first [exact I | cbn [Exec.exec]; apply wrap_ok; apply esi_body_ok; auto].
    - (* canon *) first [exact I | cbn [Exec.exec]; apply wrap_ok; apply esi_body_ok; auto].
    - (* canon map *) first [exact I | cbn [Exec.exec]; apply wrap_ok; apply esi_body_ok; auto].
    - (* canon stream map scalar *) first [exact I | cbn [Exec.exec]; apply wrap_ok; apply esi_body_ok; auto].
    - (* seq *) cbn [Exec.exec]. apply wrap_ok. cbn [swallow_free] in P. apply andb_true_iff in P as (P1 & P2).
      pose proof (IH i1 (flush_complete x) P1 (good_keeps _ _ (pres_flush_complete x) G)) as H1.
      destruct (exec fuel i1 (flush_complete x)) as [x1|e x1|s| |w]; try exact I.
      + destruct (x_complete x1); [apply res_body, IH; auto | exact H1].
      + apply res_body; exact H1.
    - (* par *) discriminate.
    - (* xor *) rewrite exec_xor_unfold. apply wrap_ok. cbn [swallow_free] in P. apply andb_true_iff in P as (P1 & P2).
      pose proof (IH i1 (flush_complete x) P1 (good_keeps _ _ (pres_flush_complete x) G)) as H1.
      destruct (exec fuel i1 (flush_complete x)) as [x1|[c|u] x1|s| |w]; try exact I.
      + exact H1.
      + destruct H1 as (A & B & C).
        pose proof (IH i2 _ P2 (good_right_entry c x1 A B C)) as H2.
        destruct (exec fuel i2 (xor_right_entry c x1)) as [y|[c'|u'] y|s| |w]; try exact I.
        * destruct H2 as (G1 & G2 & G3). unfold xor_after_right, clear_error_if_needed. rewrite G1.
          cbn [body_ok]. unfold good_ctx, err_ok, iters_swallow_free in *. cbn. auto.
        * destruct H2 as (G1 & G2 & G3). unfold xor_after_right, clear_error_if_needed. rewrite G1. cbn. auto.
    - (* match *) cbn [Exec.exec]. apply wrap_ok. cbn [swallow_free] in P.
      destruct (dop lv <- resolve_value x l; dop rv <- resolve_value x r; POk (json_values_equal (fst (fst lv)) (fst (fst rv))))
        as [eq|e|s|w]; try exact I.
      + destruct (Bool.eqb eq true); [apply res_body, IH; auto | apply body_err_good; auto].
      + destruct (is_joinable e); [cbn; eapply good_keeps; [apply pres_make_incomplete | exact G] | apply body_err_good; auto].
    - (* mismatch *) cbn [Exec.exec]. apply wrap_ok. cbn [swallow_free] in P.
      destruct (dop lv <- resolve_value x l; dop rv <- resolve_value x r; POk (json_values_equal (fst (fst lv)) (fst (fst rv))))
        as [eq|e|s|w]; try exact I.
      + destruct (Bool.eqb eq false); [apply res_body, IH; auto | apply body_err_good; auto].
      + destruct (is_joinable e); [cbn; eapply good_keeps; [apply pres_make_incomplete | exact G] | apply body_err_good; auto].
    - (* fail *) cbn [Exec.exec]. apply wrap_ok. apply exec_fail_ok; auto.
    - (* fold scalar *) cbn [Exec.exec]. apply wrap_ok. cbn [swallow_free] in P. apply andb_true_iff in P as (P1 & P2).
      destruct (create_fold_iterable x it) as [[|itb]|e|s|w]; try exact I.
      + exact G.
      + set (x1 := all_fold_start x).
        assert (G1 : good_ctx x1) by (eapply good_keeps; [apply pres_all_fold_start | exact G]).
        destruct (iter_get (x_iterables x1) (v_name iter)); [exact I|].
        match goal with |- body_ok (match exec fuel i ?x2 with _ => _ end) => set (xx2 := x2) end.
        assert (G2 : good_ctx xx2).
        { destruct G1 as (A & B & C). unfold good_ctx, err_ok, iters_swallow_free in *. subst xx2. cbn [x_error_can_set x_error x_iterables set_iterables].
          repeat split; auto. apply forallb_iter_put; auto. unfold fs_swallow_free; cbn. rewrite P1, P2; reflexivity. }
        pose proof (IH i xx2 P1 G2) as H.
        destruct (exec fuel i xx2) as [y|[c|u] y|s| |w]; try exact I.
        * destruct H as (A & B & C). unfold good_ctx, err_ok, iters_swallow_free in *. cbn.
          repeat split; auto. apply forallb_iter_del; auto.
        * destruct H as (A & B & C). unfold iters_swallow_free in *. cbn. split; auto. apply forallb_iter_del; auto.
      + destruct (is_joinable e); [cbn; eapply good_keeps; [apply pres_make_incomplete | exact G] | apply body_err_good; auto].
    - (* fold stream *) discriminate.
    - discriminate.
    - (* never *) cbn [Exec.exec]. apply wrap_ok. cbn. eapply good_keeps; [apply pres_make_incomplete | exact G].
    - (* new *) cbn [Exec.exec]. apply wrap_ok. cbn [swallow_free] in P.
      destruct a; try exact I; try (apply esi_body_ok; auto; fail).
      + set (x1 := set_scalars x (Scalars.meet_new_start vagg (x_scalars x) (v_name v))).
        pose proof (IH i x1 P (good_keeps _ _ (pres_set_scalars x _) G)) as H.
        destruct (exec fuel i x1) as [y|e y|s| |w]; try exact I.
        * destruct (Scalars.meet_new_end vagg (x_scalars y) (v_name v)); cbn [lift].
          -- cbn. eapply good_keeps; [apply pres_set_scalars | exact H].
          -- apply body_err_good; exact H.
        * destruct (Scalars.meet_new_end vagg (x_scalars y) (v_name v)); [|apply res_body; exact H].
          eapply body_ok_keeps_err; [apply pres_set_scalars | apply res_body; exact H].
      + set (x1 := set_canons x (Scalars.meet_new_start canon_wp (x_canons x) (v_name v))).
        pose proof (IH i x1 P (good_keeps _ _ (pres_set_canons x _) G)) as H.
        destruct (exec fuel i x1) as [y|e y|s| |w]; try exact I.
        * destruct (Scalars.meet_new_end canon_wp (x_canons y) (v_name v)); cbn [lift].
          -- cbn. eapply good_keeps; [apply pres_set_canons | exact H].
          -- apply body_err_good; exact H.
        * destruct (Scalars.meet_new_end canon_wp (x_canons y) (v_name v)); [|apply res_body; exact H].
          eapply body_ok_keeps_err; [apply pres_set_canons | apply res_body; exact H].
    - (* next *) cbn [Exec.exec]. apply wrap_ok.
      destruct (iter_get (x_iterables x) (v_name iter)) as [fs|] eqn:E; [|exact I].
      pose proof G as (GA & GB & GC).
      pose proof (forallb_iter_get fs_swallow_free _ _ _ GC E) as PF. unfold fs_swallow_free in PF. apply andb_true_iff in PF as (PF1 & PF2).
      destruct (fs_type fs); [|apply esi_body_ok; auto].
      destruct (it_next (fs_iterable fs)) as [moved it'].
      destruct (negb moved).
      + destruct (fs_last fs) as [li|]; [|exact G].
        apply res_body, IH; [exact PF2 | eapply good_keeps; [apply pres_flush_complete | exact G]].
      + match goal with |- body_ok (match exec fuel _ ?x2 with _ => _ end) => set (xx2 := x2) end.
        assert (G2 : good_ctx xx2).
        { unfold good_ctx, err_ok, iters_swallow_free in *. subst xx2. cbn [x_error_can_set x_error x_iterables set_iterables set_scalars set_canons].
          repeat split; auto. apply forallb_iter_put; auto. unfold fs_swallow_free; cbn. rewrite PF1, PF2; reflexivity. }
        pose proof (IH (fs_body fs) xx2 PF1 G2) as H.
        destruct (exec fuel (fs_body fs) xx2) as [y|[c|u] y|s| |w]; try exact I.
        * change (x_iterables (all_next_after y)) with (x_iterables y).
          destruct (iter_get (x_iterables y) (v_name iter)) as [g|] eqn:E2; [|exact I].
          destruct H as (A & B & C).
          pose proof (forallb_iter_get fs_swallow_free _ _ _ C E2) as PG.
          unfold good_ctx, err_ok, iters_swallow_free in *. cbn.
          repeat split; auto. apply forallb_iter_put; auto.
        * destruct H as (A & B & C). unfold iters_swallow_free in *. cbn. auto.
    - (* null *) cbn [Exec.exec]. apply wrap_ok. exact G.
    - (* error *) exact I.
  Qed.
End Faithful.

(* ------------------------------------------------------------------------------------------ *)
(* the concrete stream instructions (ExecStreams.stream_instr) satisfy the hypothesis *)

Lemma rkeeps_body_ok x r : good_ctx x -> rkeeps x r -> body_ok r.
Proof.
  intros G K. destruct r as [y|e y|s| |w]; cbn [rkeeps body_ok] in *; auto.
  - eapply good_keeps; eauto.
  - apply body_err_good. eapply good_keeps; eauto.
Qed.

Lemma rkeeps_exec_ap_stream x a sv : rkeeps x (exec_ap_stream x a sv).
Proof.
  unfold exec_ap_stream. destruct (apply_to_arg x a true) as [v|e|s|w]; cbn [rkeeps]; auto.
  - apply rkeeps_with_handler; intros rh.
    eapply rkeeps_trans; [apply (pres_set_handler x (snd rh))|].
    set (x0 := set_handler x (snd rh)).
    match goal with |- context [add_stream_value x0 ?n ?v ?g ?p] =>
      pose proof (pkeeps_add_stream_value x0 n v g p) as K; destruct (add_stream_value x0 n v g p) end;
      cbn [rkeeps pkeeps] in *; auto with keeps.
  - destruct (is_joinable e); cbn [rkeeps]; auto with keeps.
Qed.

Lemma pres_with_canon_maps x m : keeps x (with_canon_maps x m). Proof. pres_simple. Qed.
Lemma pres_with_table t x m : keeps x (with_table t x m). Proof. destruct t; pres_simple. Qed.

Lemma pkeeps_set_canon_value x n c : pkeeps x (set_canon_value x n c).
Proof. unfold set_canon_value. destruct (Scalars.set_value canon_wp (x_canons x) n c) as [[m b]|e]; cbn; auto with keeps. Qed.
Lemma pkeeps_set_canon_map_value x n c : pkeeps x (set_canon_map_value x n c).
Proof.
  unfold set_canon_map_value. destruct (Scalars.set_value canon_map_wp (e_canon_maps (x_ext x)) n c) as [[m b]|e]; cbn [pkeeps]; auto.
  apply pres_with_canon_maps.
Qed.

Lemma rkeeps_lift_finish x (r : pres ctx) (f : ctx -> xres) :
  pkeeps x r -> (forall y, rkeeps y (f y)) -> rkeeps x (lift x r f).
Proof.
  intros K F. destruct r as [y|e|s|w]; cbn [lift rkeeps pkeeps] in *; auto with keeps.
  eapply rkeeps_trans; [exact K | apply F].
Qed.

Lemma rkeeps_canon_epilog k x vs t c : rkeeps x (canon_epilog k x vs t c).
Proof.
  unfold canon_epilog.
  assert (F : forall y, rkeeps y (XOk (set_handler y (meet_canon_end cid (x_handler y) (CanonExecuted c))))).
  { intros y. cbn. apply pres_set_handler. }
  destruct k.
  - apply rkeeps_lift_finish; [apply pkeeps_set_canon_value | exact F].
  - destruct (negb (kv_pairs_valid vs)); cbn [rkeeps]; [apply pres_refl|].
    apply rkeeps_lift_finish; [apply pkeeps_set_canon_map_value | exact F].
  - destruct vs; cbn [rkeeps]; [apply pres_refl|].
    apply rkeeps_lift_finish; [apply pkeeps_set_scalar_value | exact F].
Qed.

Lemma rkeeps_create_canon_first_time k tb x s p : rkeeps x (create_canon_first_time k tb x s p).
Proof.
  unfold create_canon_first_time.
  eapply rkeeps_trans; [|apply rkeeps_canon_epilog].
  eapply pres_trans; [apply pres_set_cids | apply pres_record_cid].
Qed.

Lemma rkeeps_handle_canon_executed k x p c : rkeeps x (handle_canon_executed k x p c).
Proof.
  unfold handle_canon_executed. apply rkeeps_lift; intros peer.
  destruct (negb (cid_mem c (cs_canon_results (x_cids x)))); cbn [rkeeps]; auto with keeps.
  destruct c; cbn [rkeeps]; auto.
  destruct (negb (cid_mem c (cs_tetraplets (x_cids x)))); cbn [rkeeps]; auto with keeps.
  destruct c; cbn [rkeeps]; auto.
  apply rkeeps_lift; intros _. apply rkeeps_lift; intros vs.
  eapply rkeeps_trans; [apply pres_record_cid | apply rkeeps_canon_epilog].
Qed.

Lemma rkeeps_exec_canon_generic k tb x p s : rkeeps x (exec_canon_generic k tb x p s).
Proof.
  unfold exec_canon_generic. apply rkeeps_with_handler; intros rh.
  eapply rkeeps_trans; [apply (pres_set_handler x (snd rh))|].
  set (x0 := set_handler x (snd rh)).
  destruct (fst rh) as [|[sender|cc]].
  - destruct (resolve_peer_id_to_string x0 p) as [peer|e|s0|w]; cbn [rkeeps]; auto.
    + destruct (negb (String.eqb (current_peer x0) peer)); [|apply rkeeps_create_canon_first_time].
      cbn [rkeeps]. unfold keeps; cbn; auto.
    + destruct (is_joinable e); cbn [rkeeps]; auto with keeps.
  - apply rkeeps_lift; intros peer.
    destruct (negb (String.eqb (current_peer x0) peer)); [|apply rkeeps_create_canon_first_time].
    cbn [rkeeps]. unfold keeps; cbn; auto.
  - apply rkeeps_handle_canon_executed.
Qed.

Lemma rkeeps_exec_ap_map x k a m : rkeeps x (exec_ap_map x k a m).
Proof.
  unfold exec_ap_map. destruct (apply_to_arg x a true) as [v|e|s|w]; cbn [rkeeps]; auto.
  - apply rkeeps_with_handler; intros rh.
    eapply rkeeps_trans; [apply (pres_set_handler x (snd rh))|].
    set (x0 := set_handler x (snd rh)).
    destruct (resolve_map_key x0 k) as [key|e|s|w]; cbn [rkeeps]; auto.
    + match goal with |- context [Stream.streams_add_stream_value ?a ?b ?c ?d ?e ?f] =>
        destruct (Stream.streams_add_stream_value a b c d e f) end; cbn [rkeeps]; auto with keeps.
      eapply pres_trans; [apply pres_with_table | apply pres_set_handler].
    + destruct (is_joinable e); cbn [rkeeps]; auto with keeps.
  - destruct (is_joinable e); cbn [rkeeps]; auto with keeps.
Qed.

Lemma rkeeps_run_compact_plan x pl : rkeeps x (run_compact_plan x pl).
Proof. unfold run_compact_plan. destruct (Stream.run_plan (update_generation cid) (x_handler x) pl); cbn; auto with keeps. Qed.

Lemma rkeeps_new_stream_epilog t x n : rkeeps x (new_stream_epilog t x n).
Proof.
  unfold new_stream_epilog.
  destruct (Stream.streams_meet_scope_end vagg va_pos (table_of t x) n) as [[[m o] pl]| |]; cbn [rkeeps]; auto with keeps.
  eapply rkeeps_trans; [apply pres_with_table | apply rkeeps_run_compact_plan].
Qed.

Lemma rkeeps_with_trace x r k : (forall y, keeps x y -> rkeeps y (k y)) -> rkeeps x (with_trace x r k).
Proof.
  intros H. unfold with_trace. apply rkeeps_with_handler. intros h.
  eapply rkeeps_trans; [apply (pres_set_handler x h) | apply H; apply pres_set_handler].
Qed.

Lemma body_ok_with_trace x r k : good_ctx x -> (forall y, good_ctx y -> body_ok (k y)) -> body_ok (with_trace x r k).
Proof.
  intros G H. unfold with_trace, with_handler. destruct r; [|exact I|exact I].
  apply H. eapply good_keeps; [apply pres_set_handler | exact G].
Qed.

Lemma exec_new_stream_ok t run x sv body sp :
  faithful_run run -> swallow_free body = true -> good_ctx x -> body_ok (exec_new_stream t run x sv body sp).
Proof.
  intros R P G. unfold exec_new_stream.
  match goal with |- context [run body ?z] => set (xx1 := z) end.
  pose proof (R body xx1 P (good_keeps _ _ (pres_with_table t x _) G)) as H.
  destruct (run body xx1) as [y|e y|s| |w]; try exact I.
  - apply rkeeps_body_ok with (x := y); auto. apply rkeeps_new_stream_epilog.
  - pose proof (rkeeps_new_stream_epilog t y (v_name sv)) as K.
    destruct (new_stream_epilog t y (v_name sv)) as [y'|e' y'|s| |w]; cbn [rkeeps] in K; try exact I.
    + eapply body_ok_keeps_err; [exact K | apply res_body; exact H].
    + eapply body_ok_keeps_err; [exact K | apply res_body; exact H].
Qed.

Lemma exec_new_canon_map_ok run x v body :
  faithful_run run -> swallow_free body = true -> good_ctx x -> body_ok (exec_new_canon_map run x v body).
Proof.
  intros R P G. unfold exec_new_canon_map.
  match goal with |- context [run body ?z] => set (xx1 := z) end.
  pose proof (R body xx1 P (good_keeps _ _ (pres_with_canon_maps x _) G)) as H.
  destruct (run body xx1) as [y|e y|s| |w]; try exact I.
  - destruct (Scalars.meet_new_end canon_map_wp (e_canon_maps (x_ext y)) (v_name v)); cbn [lift].
    + cbn [body_ok]. eapply good_keeps; [apply pres_with_canon_maps | exact H].
    + apply body_err_good; exact H.
  - destruct (Scalars.meet_new_end canon_map_wp (e_canon_maps (x_ext y)) (v_name v)); [|apply res_body; exact H].
    eapply body_ok_keeps_err; [apply pres_with_canon_maps | apply res_body; exact H].
Qed.

Lemma exec_next_stream_ok run x iter fs fold_id :
  faithful_run run -> good_ctx x -> iter_get (x_iterables x) (v_name iter) = Some fs ->
  body_ok (exec_next_stream run x iter fs fold_id).
Proof.
  intros R G EI.
  pose proof G as (GA & GB & GC).
  pose proof (forallb_iter_get fs_swallow_free _ _ _ GC EI) as PF. unfold fs_swallow_free in PF. apply andb_true_iff in PF as (PF1 & PF2).
  unfold exec_next_stream.
  apply body_ok_with_trace; auto. intros x0 G0.
  destruct (it_next (fs_iterable fs)) as [moved it'].
  destruct (negb moved).
  + apply body_ok_with_trace; auto. intros x1 G1.
    destruct (fs_last fs) as [li|].
    * apply res_body, R; [exact PF2 | eapply good_keeps; [apply pres_flush_complete | exact G1]].
    * destruct (negb (fs_back_started fs)); [|exact G1].
      destruct G1 as (A & B & C). unfold good_ctx, err_ok, iters_swallow_free in *. cbn.
      repeat split; auto. apply forallb_iter_put; auto. unfold fs_swallow_free; cbn. rewrite ?PF1, ?PF2; reflexivity.
  + destruct (it_peek it'); [|exact I].
    apply body_ok_with_trace.
    { destruct G0 as (A & B & C). unfold good_ctx, err_ok, iters_swallow_free in *. cbn.
      repeat split; auto. apply forallb_iter_put; auto. unfold fs_swallow_free; cbn. rewrite PF1, PF2; reflexivity. }
    intros x2 G2.
    match goal with |- context [run (fs_body fs) ?z] => set (xx3 := z) end.
    assert (G3 : good_ctx xx3) by (eapply good_keeps; [apply pres_all_next_before | exact G2]).
    pose proof (R (fs_body fs) xx3 PF1 G3) as H.
    destruct (run (fs_body fs) xx3) as [y|[c|u] y|s| |w]; try exact I.
    * change (x_iterables (all_next_after y)) with (x_iterables y).
      destruct (iter_get (x_iterables y) (v_name iter)) as [g|] eqn:E2; [|exact I].
      destruct H as (A & B & C).
      pose proof (forallb_iter_get fs_swallow_free _ _ _ C E2) as PG.
      apply body_ok_with_trace; [|intros; assumption].
      unfold good_ctx, err_ok, iters_swallow_free in *. cbn.
      repeat split; auto. apply forallb_iter_put; auto.
    * destruct H as (A & B & C). unfold iters_swallow_free in *. cbn. auto.
Qed.

Lemma stream_instr_faithful : esi_faithful stream_instr.
Proof.
  intros run R i x r P G E.
  destruct i; cbn [stream_instr] in E; try discriminate.
  - (* ap *) destruct r0; inversion E; subst. apply rkeeps_body_ok with (x := x); auto. apply rkeeps_exec_ap_stream.
  - (* ap map *) inversion E; subst. apply rkeeps_body_ok with (x := x); auto. apply rkeeps_exec_ap_map.
  - (* canon *) inversion E; subst. apply rkeeps_body_ok with (x := x); auto. apply rkeeps_exec_canon_generic.
  - (* canon map *) inversion E; subst. apply rkeeps_body_ok with (x := x); auto. apply rkeeps_exec_canon_generic.
  - (* canon stream map scalar *) inversion E; subst. apply rkeeps_body_ok with (x := x); auto. apply rkeeps_exec_canon_generic.
  - (* new *) cbn [swallow_free] in P.
    destruct a; inversion E; subst; clear E;
      first [apply exec_new_stream_ok; assumption | apply exec_new_canon_map_ok; assumption].
  - (* next *)
    destruct (iter_get (x_iterables x) (v_name iter)) as [fs|] eqn:EI; [|discriminate].
    destruct (fs_type fs) as [|fold_id] eqn:ET; inversion E; subst; clear E.
    apply exec_next_stream_ok; auto.
Qed.

(* ------------------------------------------------------------------------------------------ *)
(* the statements of XorSpec.v *)

Section Statements.
  Variable esi : (instr -> ctx -> xres) -> instr -> ctx -> option xres.
  Variable finish : ctx -> ctx + uncatchable.
  Notation exec := (Exec.exec esi).

  Lemma C18_catch_proof : C18_catch_stmt esi.
  Proof.
    intros fuel l r x.
    destruct (exec fuel l (flush_complete x)) as [x1|[c|u] x1|s| |w] eqn:E.
    - intros r'. rewrite exec_xor_unfold, E. reflexivity.
    - rewrite exec_xor_unfold, E. reflexivity.
    - intros r'. rewrite exec_xor_unfold, E. cbn [wrap_errors]. rewrite ctx_set_errors_uncatch. reflexivity.
    - intros r'. rewrite exec_xor_unfold, E. reflexivity.
    - intros r'. rewrite exec_xor_unfold, E. reflexivity.
    - intros r'. rewrite exec_xor_unfold, E. reflexivity.
  Qed.

  Lemma C18_right_entry_proof : C18_right_entry_stmt.
  Proof.
    intros c x1 x4. subst x4. unfold xor_right_entry.
    repeat (split; [reflexivity|]). split; eexists; reflexivity.
  Qed.

  Lemma carries_fields ie c :
    carries ie c ->
    exists kvs, ie_error ie = JObj kvs /\
                obj_get "error_code" kvs = Some (JInt (catchable_code c)) /\
                obj_get "message" kvs = Some (JStr (err_message (ECatch c))).
  Proof.
    intros (instruction & peer & H). rewrite H. unfold error_object. eexists. split; [reflexivity|].
    split; reflexivity.
  Qed.

  Lemma carries_b_sound ie c : carries ie c -> carries_b ie c = true.
  Proof.
    intros H. destruct (carries_fields ie c H) as (kvs & E & A & B). unfold carries_b. rewrite E, A, B.
    rewrite Z.eqb_refl, String.eqb_refl. reflexivity.
  Qed.

  Lemma C18_faithful_proof : C18_faithful_stmt esi.
  Proof. intros H fuel. apply faithful_exec; auto. Qed.

  Lemma C18_faithful_xor_proof : C18_faithful_xor_stmt esi.
  Proof.
    intros Hesi fuel l x c x1 P G E x4.
    pose proof (faithful_exec esi Hesi fuel l (flush_complete x) P (good_keeps _ _ (pres_flush_complete x) G)) as H.
    rewrite E in H. destruct H as (A & B & C).
    assert (B4 : carries (x_error x4) c) by exact B.
    split; [exact B4|]. split.
    - destruct B as (instruction & peer & B). exists instruction, peer. eexists.
      subst x4. unfold xor_right_entry. cbn. rewrite B. reflexivity.
    - apply carries_fields; exact B4.
  Qed.

  Lemma C18_good_ctx_initial_proof : C18_good_ctx_initial_stmt.
  Proof. intros inp. unfold good_ctx, err_ok, iters_swallow_free. cbn. auto. Qed.

  Lemma C18_uncaught_twin_proof : C18_uncaught_twin_stmt esi finish.
  Proof.
    intros fuel inp c x E. unfold run_error_message, run. rewrite E. split; [reflexivity|].
    destruct (finish x) as [x1|u]; [reflexivity | exists u; auto].
  Qed.

  Lemma C18_object_equals_twin_proof : C18_object_equals_twin_stmt esi finish.
  Proof.
    intros ie c H fuel inp x E.
    destruct (carries_fields ie c H) as (kvs & E1 & A & B).
    exists kvs. split; [exact E1|]. unfold run_error_message. rewrite E. split; [exact B|].
    intros code d nx rq sg R. unfold run in R. rewrite E in R.
    destruct (finish x); inversion R; subst. exact A.
  Qed.

  Lemma C18_propagation_proof : C18_propagation_stmt esi.
  Proof.
    intros fuel e y. unfold err_through. split; [|split; [|split; [|split]]].
    - intros a b x H. cbn [Exec.exec]. rewrite H. reflexivity.
    - intros a b x x1 H C H1. cbn [Exec.exec]. rewrite H, C, H1. reflexivity.
    - intros t lv rv b x eq H H0. split; intros Heq; subst eq; cbn [Exec.exec]; rewrite H; cbn [Bool.eqb]; rewrite H0; reflexivity.
    - intros t v b sp x H. cbn [Exec.exec]. rewrite H.
      destruct (Scalars.meet_new_end vagg (x_scalars y) (v_name v)); eexists; reflexivity.
    - intros t it iter b last sp x itb Hc Hg H. cbn [Exec.exec]. rewrite Hc, Hg, H. eexists; reflexivity.
  Qed.

  Lemma C18_uncatchable_never_caught_proof : C18_uncatchable_never_caught_stmt esi finish.
  Proof.
    intros fuel u y. split; [|split; [|split; [|split; [|split; [|split]]]]].
    - intros l r x H. rewrite exec_xor_unfold, H. cbn [wrap_errors]. rewrite ctx_set_errors_uncatch. reflexivity.
    - intros l r x c x1 H H1. rewrite exec_xor_unfold, H, H1. cbn [xor_after_right wrap_errors].
      rewrite ctx_set_errors_uncatch. reflexivity.
    - intros a b x h1 Hs H. unfold par_sub_complete in H. cbn [Exec.exec]. rewrite Hs. cbn [with_handler].
      rewrite H. cbn [is_catchable wrap_errors]. rewrite ctx_set_errors_uncatch. reflexivity.
    - intros a b x h1 y1 h2 Hs H Hm H1. unfold par_sub_complete in *. cbn [Exec.exec]. rewrite Hs. cbn [with_handler].
      rewrite H, Hm. rewrite H1. cbn [is_catchable wrap_errors]. rewrite ctx_set_errors_uncatch. reflexivity.
    - intros a b x h1 c y1 h2 Hs H Hm H1. unfold par_sub_complete in *. cbn [Exec.exec]. rewrite Hs. cbn [with_handler].
      rewrite H. cbn [is_catchable]. rewrite Hm. rewrite H1. cbn [is_catchable wrap_errors]. rewrite ctx_set_errors_uncatch. reflexivity.
    - intros x text lp. rewrite ctx_set_errors_uncatch. split; reflexivity.
    - intros inp H. unfold run. rewrite H. reflexivity.
  Qed.
End Statements.

(* ------------------------------------------------------------------------------------------ *)
(* witnesses (scripts as printed by the real parser through harness astdump) *)

Definition w_params : run_params := {| rp_init_peer := "A"; rp_current_peer := "A"; rp_timestamp := 0; rp_ttl := 0 |}.
Definition w_inp (s : instr) : run_input :=
  {| ri_script := s; ri_params := w_params; ri_prev := empty_data; ri_cur := empty_data; ri_results := [] |}.

Definition w_catch_call : instr :=
  ICall "call %init_peer_id% (""s18"" ""catch"") [:error:.$.error_code :error:.$.message :error: %last_error%] "
        {| t_peer := PInitPeerId; t_service := (SLiteral "s18"); t_function := (SLiteral "catch") |}
        [(VError (Some (LValuePath [(FieldAccessByName "error_code")]))); (VError (Some (LValuePath [(FieldAccessByName "message")])));
         (VError None); (VLastError None)] OutNone.
Definition w_match : instr := IMatch "match 1 2" (VNumber (NumInt 1%Z)) (VNumber (NumInt 2%Z)) INull.
Definition w_fail_a : instr := IFail "fail 1 ""a""" (FLiteral 1%Z "a").
(* (xor (match 1 2 (null)) (call %init_peer_id% ("s18" "catch") [:error:.$.error_code :error:.$.message :error: %last_error%])) *)
Definition w_caught : instr := IXor w_match w_catch_call.
(* (par (fail 1 "a") (match 1 2 (null))) *)
Definition w_par_left : instr := IPar w_fail_a w_match.
(* (par (fail 1 "a") (null)) *)
Definition w_par_pre : instr := IPar w_fail_a INull.
(* (seq (par (fail 1 "a") (null)) (xor (match 1 2 (null)) <catch>)) and its uncaught twin *)
Definition w_stale_par : instr := ISeq w_par_pre (IXor w_match w_catch_call).
Definition w_stale_par_twin : instr := ISeq w_par_pre w_match.
(* (par (seq (ap 1 $s) (fold $s i (fail 1 "a"))) (xor (match 1 2 (null)) <catch>)): no par branch fails, the stream fold swallows *)
Definition w_fold_swallow : instr :=
  ISeq (IAp "ap 1 $s" (ANumber (NumInt 1%Z)) (ApStream {| v_name := "$s"; v_pos := 16 |}))
       (IFoldStream "fold $s i" {| v_name := "$s"; v_pos := 26 |} {| v_name := "i"; v_pos := 29 |} w_fail_a None {| sp_left := 20; sp_right := 44 |}).
Definition w_stale_fold : instr := IPar w_fold_swallow (IXor w_match w_catch_call).
(* (xor (null) <catch>), (xor (call "other" ("s" "f") []) <catch>), (xor (seq (ap 1 x) (ap 2 x)) <catch>) *)
Definition w_ok_left : instr := IXor INull w_catch_call.
Definition w_wait_left : instr :=
  IXor (ICall "call ""other"" (""s"" ""f"") [] " {| t_peer := (PLiteral "other"); t_service := (SLiteral "s"); t_function := (SLiteral "f") |} [] OutNone)
       w_catch_call.
Definition w_shadow : instr :=
  ISeq (IAp "ap 1 x" (ANumber (NumInt 1%Z)) (ApScalar {| v_name := "x"; v_pos := 15 |}))
       (IAp "ap 2 x" (ANumber (NumInt 2%Z)) (ApScalar {| v_name := "x"; v_pos := 24 |})).
Definition w_uncatch_left : instr := IXor w_shadow w_catch_call.

(* the requests of an outcome *)
Definition out_requests (o : outcome) : list (N * request) :=
  match o with OutNewData _ _ _ rq _ => rq | _ => [] end.
Definition out_code (o : outcome) : option Z :=
  match o with OutNewData c _ _ _ _ | OutPrevData c => Some c | _ => None end.
Definition catch_args (o : outcome) : list (list json) :=
  map (fun p => rq_args (snd p)) (filter (fun p => String.eqb (rq_function (snd p)) "catch") (out_requests o)).

Section Refutations.
  Variable esi : (instr -> ctx -> xres) -> instr -> ctx -> option xres.

  Lemma C18_faithful_full_refuted : ~ C18_faithful_full esi.
  Proof.
    intros H.
    assert (E : exists x1, Exec.exec esi 3 w_par_left (flush_complete (initial_ctx (w_inp INull))) = XErr (ECatch CMatchValuesNotEqual) x1 /\
                           carries_b (x_error (xor_right_entry CMatchValuesNotEqual x1)) CMatchValuesNotEqual = false).
    { eexists. split; vm_compute; reflexivity. }
    destruct E as (x1 & E1 & E2).
    specialize (H 3%nat w_par_left (initial_ctx (w_inp INull)) CMatchValuesNotEqual x1 (C18_good_ctx_initial_proof _) E1).
    apply carries_b_sound in H. congruence.
  Qed.

  Lemma C18_faithful_any_entry_full_refuted : ~ C18_faithful_any_entry_full esi.
  Proof.
    intros H.
    assert (E : exists x x1, Exec.exec esi 3 w_par_pre (initial_ctx (w_inp INull)) = XOk x /\
                             Exec.exec esi 3 w_match (flush_complete x) = XErr (ECatch CMatchValuesNotEqual) x1 /\
                             carries_b (x_error (xor_right_entry CMatchValuesNotEqual x1)) CMatchValuesNotEqual = false).
    { eexists. eexists. split; [vm_compute; reflexivity|]. split; vm_compute; reflexivity. }
    destruct E as (x & x1 & E0 & E1 & E2).
    specialize (H 3%nat (w_inp INull) w_par_pre w_match x CMatchValuesNotEqual x1 E0 eq_refl E1).
    apply carries_b_sound in H. congruence.
  Qed.
End Refutations.

(* the same on whole runs of the complete model (run2): what the catch call is given *)
Lemma stale_par_run :
  catch_args (run2 10 (w_inp w_stale_par)) =
    [[JInt 10006; JStr "<msg:UserError>";
      error_object 10006 "<msg:UserError>" "fail 1 ""a""" None;
      error_object 1 "a" "fail 1 ""a""" (Some "A")]] /\
  out_code (run2 10 (w_inp w_stale_par_twin)) = Some 10001%Z.
Proof. split; vm_compute; reflexivity. Qed.

Lemma stale_fold_run :
  catch_args (run2 10 (w_inp w_stale_fold)) =
    [[JInt 10006; JStr "<msg:UserError>";
      error_object 10006 "<msg:UserError>" "fail 1 ""a""" None;
      error_object 1 "a" "fail 1 ""a""" (Some "A")]].
Proof. vm_compute. reflexivity. Qed.

Lemma C18_source_tie_proof : C18_source_tie_stmt.
Proof. unfold C18_source_tie_stmt. repeat split; vm_compute; reflexivity. Qed.

(* corollaries for the complete executor (stage 2) *)
Lemma faithful_exec2 : forall fuel, faithful_run (Exec.exec stream_instr fuel).
Proof. apply faithful_exec. exact stream_instr_faithful. Qed.
