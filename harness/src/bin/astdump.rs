//! astdump: script text per line (JSON string) -> {"coq": [instr term]} or {"parse_error": msg}
use std::io::BufRead;
fn main() {
    for line in std::io::stdin().lock().lines() {
        let line = match line { Ok(l) => l, Err(_) => break };
        if line.trim().is_empty() { continue; }
        let script: String = serde_json::from_str(&line).unwrap_or_default();
        match air_parser::parse(&script) {
            Ok(ast) => println!("{}", serde_json::json!({"coq": [aquah::ast2coq::instr(&ast)]})),
            Err(e) => println!("{}", serde_json::json!({"parse_error": e})),
        }
    }
}
