(* KeepSpec.v -- statements for C09 ("merging never forgets a result") and C04 ("honest executions
   never hit data-consistency errors"): the information order on executed states, the knowledge
   multiset of a trace, the driver protocol of the call/par fragment of the TraceHandler with the
   computable [windows_consumed] check, the data-consistency error set, and the executable oracles.

   Everything here is a definition over model/Trace.v, model/Handler.v, model/Exec.v, model/RunExec.v.
   Definitions only (proofs: proofs/KeepProofs.v). *)
From Aqua Require Import Base Json Air Trace Handler Values Scalars Lens Exec RunExec ExecCases.
Open Scope N_scope.
Open Scope list_scope.

(* ------------------------------------------------------------------------------------------ *)
(* results, identified by kind and content id (the observation of C09: harness/src/oracles.rs
   `knowledge` uses the same four classes) *)

Inductive rkind := KCall | KUnused | KFailed | KCanon.
Definition rkind_eqb (a b : rkind) : bool :=
  match a, b with KCall, KCall | KUnused, KUnused | KFailed, KFailed | KCanon, KCanon => true | _, _ => false end.

Section Order.
  Variable C : Type.
  Variable ceqb : C -> C -> bool.
  Notation state := (state C).
  Notation trace := (list state).

  Definition rkey := (rkind * C)%type.
  Definition rkey_eqb (a b : rkey) : bool := rkind_eqb (fst a) (fst b) && ceqb (snd a) (snd b).

  Definition call_key (c : call_result C) : option rkey :=
    match c with
    | RequestSentBy _ => None
    | Executed (VRScalar x) => Some (KCall, x)
    | Executed (VRStream x _) => Some (KCall, x)
    | Executed (VRUnused x) => Some (KUnused, x)
    | Failed x => Some (KFailed, x)
    end.
  Definition canon_key (c : canon_result C) : option rkey :=
    match c with CanonRequestSentBy _ => None | CanonExecuted x => Some (KCanon, x) end.
  Definition state_key (s : state) : option rkey :=
    match s with SCall c => call_key c | SCanon c => canon_key c | _ => None end.

  (* the executed multiset of a trace, as a list of keys *)
  Fixpoint knowledge (t : trace) : list rkey :=
    match t with
    | [] => []
    | s :: r => match state_key s with Some k => k :: knowledge r | None => knowledge r end
    end.
  Fixpoint kcount (k : rkey) (l : list rkey) : nat :=
    match l with [] => O | x :: r => if rkey_eqb k x then S (kcount k r) else kcount k r end.

  (* multiset inclusion; [a ∪max b ⊆ o] is [know_incl a o /\ know_incl b o] (max of the two counts) *)
  Definition know_incl (a o : list rkey) : Prop := forall k, (kcount k a <= kcount k o)%nat.
  Definition know_incl_b (a o : list rkey) : bool := forallb (fun k => Nat.leb (kcount k a) (kcount k o)) a.
  Definition keeps_both (p c o : trace) : Prop :=
    know_incl (knowledge p) (knowledge o) /\ know_incl (knowledge c) (knowledge o).
  Definition keeps_both_b (p c o : trace) : bool :=
    know_incl_b (knowledge p) (knowledge o) && know_incl_b (knowledge c) (knowledge o).

  (* ---- the information order (DESIGN Appendix A) ---- *)
  (* value references are compared by content id; the stream generation is a local numbering *)
  Definition vr_same (a b : value_ref C) : bool :=
    match a, b with
    | VRScalar x, VRScalar y => ceqb x y
    | VRStream x _, VRStream y _ => ceqb x y
    | VRUnused x, VRUnused y => ceqb x y
    | _, _ => false
    end.
  Definition call_le (a b : call_result C) : bool :=
    match a, b with
    | RequestSentBy _, _ => true
    | Executed v, Executed w => vr_same v w
    | Failed x, Failed y => ceqb x y
    | _, _ => false
    end.
  Definition canon_le (a b : canon_result C) : bool :=
    match a, b with
    | CanonRequestSentBy _, _ => true
    | CanonExecuted x, CanonExecuted y => ceqb x y
    | _, _ => false
    end.
  (* an ap state carries exactly one generation (a local numbering, not compared) *)
  Definition ap_le (a b : list N) : bool :=
    match a, b with [_], [_] => true | _, _ => false end.
  Definition state_le (a b : state) : bool :=
    match a, b with
    | SCall x, SCall y => call_le x y
    | SCanon x, SCanon y => canon_le x y
    | SAp x, SAp y => ap_le x y
    | _, _ => false
    end.
  (* an absent state approximates everything *)
  Definition ostate_le (o : option state) (f : state) : Prop :=
    match o with None => True | Some s => state_le s f = true end.

  (* the content-id comparison decides equality (for symbolic ids: Values.cid_eqb, proofs/KeepProofs.v) *)
  Definition ceqb_spec : Prop := forall a b, ceqb a b = true <-> a = b.

  (* ---- statements, state level ---- *)

  (* C09: the merged call result is an upper bound of both sides; results keep their content id *)
  Definition C09_call_join_stmt : Prop := ceqb_spec ->
    forall p c m sch, merge_call_results C ceqb p c = Ok (m, sch) ->
      call_le p m = true /\ call_le c m = true /\
      (forall k, call_key p = Some k \/ call_key c = Some k -> exists k', call_key m = Some k' /\ rkey_eqb k k' = true).
  Definition C09_canon_join_stmt : Prop := ceqb_spec ->
    forall p c m, merge_canon_results C ceqb p c = Ok m ->
      canon_le p m = true /\ canon_le c m = true /\
      (forall k, canon_key p = Some k \/ canon_key c = Some k -> exists k', canon_key m = Some k' /\ rkey_eqb k k' = true).

  (* C09 at the merger functions: whatever is popped from either slider is below the state the
     merger hands to the executor, and nothing is popped silently: when a merger returns at all,
     both popped states have the kind it merges (or are absent) *)
  Definition C09_merger_call_stmt : Prop := ceqb_spec ->
    forall k r k1, try_merge_next_state_as_call C ceqb k = Ok (r, k1) ->
      let '(p, c, k') := next_states C k in
      k_prev C k1 = k_prev C k' /\ k_cur C k1 = k_cur C k' /\ k_result C k1 = k_result C k' /\
      match r with
      | CallNotMet _ => p = None /\ c = None
      | CallMet _ m pos src =>
          (p <> None \/ c <> None) /\ ostate_le p (SCall m) /\ ostate_le c (SCall m) /\ pos = len_N (k_result C k)
      end.
  Definition C09_merger_canon_stmt : Prop := ceqb_spec ->
    forall k r k1, try_merge_next_state_as_canon C ceqb k = Ok (r, k1) ->
      let '(p, c, k') := next_states C k in
      k1 = k' /\
      match r with
      | CanonEmpty _ => p = None /\ c = None
      | CanonMet _ m => (p <> None \/ c <> None) /\ ostate_le p (SCanon m) /\ ostate_le c (SCanon m)
      end.
  Definition C09_merger_ap_stmt : Prop :=
    forall k r k1, try_merge_next_state_as_ap C k = Ok (r, k1) ->
      let '(p, c, k') := next_states C k in
      match r with
      | ApNotMet => p = None /\ c = None
      | ApMet g src =>
          (p <> None \/ c <> None) /\
          match c with None | Some (SAp _) => True | Some _ => False end /\
          match src with
          | PreviousData => p = Some (SAp [g])
          | CurrentData => p = None /\ c = Some (SAp [g])
          end
      end.

  (* C04: two states that approximate one full state merge without an error (no MergeError, no panic) *)
  Definition C04_call_compat_stmt : Prop := ceqb_spec ->
    forall p c f, call_le p f = true -> call_le c f = true ->
      exists m sch, merge_call_results C ceqb p c = Ok (m, sch) /\ call_le m f = true.
  Definition C04_canon_compat_stmt : Prop := ceqb_spec ->
    forall p c f, canon_le p f = true -> canon_le c f = true ->
      exists m, merge_canon_results C ceqb p c = Ok m /\ canon_le m f = true.
  Definition is_ok {A} (r : res A) : Prop := exists a, r = Ok a.
  Definition C04_merger_compat_stmt : Prop := ceqb_spec ->
    forall k f,
      let '(p, c, _) := next_states C k in
      ostate_le p f -> ostate_le c f ->
      match f with
      | SCall _ => is_ok (try_merge_next_state_as_call C ceqb k)
      | SCanon _ => is_ok (try_merge_next_state_as_canon C ceqb k)
      | SAp _ => is_ok (try_merge_next_state_as_ap C k)
      | _ => True
      end.

  (* ------------------------------------------------------------------------------------------ *)
  (* the driver protocol of the call/par fragment (DESIGN Appendix A):
       call := meet_call_start . [meet_call_end s]
       par  := meet_par_start . D_left . subgraph_end(Left) . D_right . subgraph_end(Right) *)
  Notation handler := (handler C).

  Inductive dtree :=
  | DCall (push : option (call_result C))
  | DPar (l r : list dtree).

  (* what [meet_call_end] may push after the merger answered [mr]: a result that was met is
     re-emitted with its content id (possibly upgraded from a pending request) *)
  Definition call_keeps (mr : merger_call_result C) (push : option (call_result C)) : bool :=
    match mr with
    | CallNotMet _ => true
    | CallMet _ m _ _ =>
        match push with
        | Some c => call_le m c
        | None => match call_key m with None => true | Some _ => false end
        end
    end.

  Definition both_consumed (h : handler) : bool :=
    (subtrace_len C (k_prev C (h_keeper C h)) =? 0) && (subtrace_len C (k_cur C (h_keeper C h)) =? 0).

  (* [drive strict ds h]: run the handler API as the driver trees say.  The answer is [None] when a
     pushed state does not keep what the merger met, or -- with [strict] -- when a par branch ends
     although one of the two sliders still has states in the branch's window (those states would be
     jumped over by update_ctx_states: the situation [windows_consumed] excludes). *)
  Fixpoint drive_tree (strict : bool) (d : dtree) (h : handler) {struct d} : option (res handler) :=
    match d with
    | DCall push =>
        match meet_call_start C ceqb h with
        | Ok (mr, h1) =>
            if call_keeps mr push then
              Some (Ok (match push with Some c => meet_call_end C h1 c | None => h1 end))
            else None
        | Err e => Some (Err e)
        | Crash s => Some (Crash s)
        end
    | DPar l r =>
        let fix drive_list (ds : list dtree) (h : handler) {struct ds} : option (res handler) :=
          match ds with
          | [] => Some (Ok h)
          | d :: rest =>
              match drive_tree strict d h with
              | Some (Ok h1) => drive_list rest h1
              | o => o
              end
          end in
        match meet_par_start C h with
        | Ok h1 =>
            match drive_list l h1 with
            | Some (Ok h2) =>
                if strict && negb (both_consumed h2) then None else
                match meet_par_subgraph_end C h2 SLeft with
                | Ok h3 =>
                    match drive_list r h3 with
                    | Some (Ok h4) =>
                        if strict && negb (both_consumed h4) then None else
                        Some (meet_par_subgraph_end C h4 SRight)
                    | o => o
                    end
                | Err e => Some (Err e)
                | Crash s => Some (Crash s)
                end
            | o => o
            end
        | Err e => Some (Err e)
        | Crash s => Some (Crash s)
        end
    end.
  Fixpoint drive (strict : bool) (ds : list dtree) (h : handler) {struct ds} : option (res handler) :=
    match ds with
    | [] => Some (Ok h)
    | d :: rest =>
        match drive_tree strict d h with
        | Some (Ok h1) => drive strict rest h1
        | o => o
        end
    end.

  (* the run of a driver forest reaches h' *)
  Definition driven (strict : bool) (ds : list dtree) (h h' : handler) : Prop :=
    drive strict ds h = Some (Ok h').

  (* windows_consumed: every par branch ended with both windows exhausted, and so did the run *)
  Definition windows_consumed (ds : list dtree) (h h' : handler) : Prop :=
    driven true ds h h' /\ both_consumed h' = true.
  Definition windows_consumed_b (ds : list dtree) (h : handler) : bool :=
    match drive true ds h with Some (Ok h') => both_consumed h' | _ => false end.

  (* the part of a slider's trace inside its current window *)
  Definition window (s : slider C) : trace :=
    firstn (N.to_nat (subtrace_len C s)) (skipn (N.to_nat (s_pos C s)) (s_trace C s)).
  Definition prev_window (h : handler) : trace := window (k_prev C (h_keeper C h)).
  Definition cur_window (h : handler) : trace := window (k_cur C (h_keeper C h)).
  (* what the run appended to the result trace *)
  Definition emitted (h h' : handler) : trace :=
    skipn (length (k_result C (h_keeper C h))) (k_result C (h_keeper C h')).

  (* slider sanity: the window lies inside the trace (true of every slider the handler builds from
     well-formed traces; the trace handler checks it whenever it moves a window) *)
  Definition slider_ok (s : slider C) : Prop :=
    s_seen C s <= s_len C s /\ s_pos C s + (s_len C s - s_seen C s) <= len_N (s_trace C s) /\
    len_N (s_trace C s) <= Handler.u32_max.        (* TraceLen is u32 in the code *)
  Definition handler_ok (h : handler) : Prop :=
    slider_ok (k_prev C (h_keeper C h)) /\ slider_ok (k_cur C (h_keeper C h)).

  (* C09, handler level: a driven run whose windows are consumed keeps every result of both windows *)
  Definition C09_handler_consumed_stmt : Prop := ceqb_spec ->
    forall ds h h', handler_ok h -> windows_consumed ds h h' ->
      keeps_both (prev_window h) (cur_window h) (emitted h h').
End Order.

Arguments DCall {C}. Arguments DPar {C}.

(* ------------------------------------------------------------------------------------------ *)
(* C09 over the executor *)

Definition cids_incl (a b : list cid) : Prop := forall c, cid_mem c a = true -> cid_mem c b = true.
Definition cid_state_incl (a b : cid_state) : Prop :=
  cids_incl (cs_values a) (cs_values b) /\ cids_incl (cs_tetraplets a) (cs_tetraplets b) /\
  cids_incl (cs_canon_elems a) (cs_canon_elems b) /\ cids_incl (cs_canon_results a) (cs_canon_results b) /\
  cids_incl (cs_services a) (cs_services b).
Definition cid_state_incl_b (a b : cid_state) : bool :=
  subset_cid (cs_values a) (cs_values b) && subset_cid (cs_tetraplets a) (cs_tetraplets b) &&
  subset_cid (cs_canon_elems a) (cs_canon_elems b) && subset_cid (cs_canon_results a) (cs_canon_results b) &&
  subset_cid (cs_services a) (cs_services b).

(* what a theorem about [exec] asks of the stage-2 hook for a relation R between contexts *)
Definition xres_sat (R : ctx -> ctx -> Prop) (x : ctx) (r : xres) : Prop :=
  match r with XOk y => R x y | XErr (ECatch _) y => R x y | _ => True end.
Definition stream_hook := (instr -> ctx -> xres) -> instr -> ctx -> option xres.
Definition hook_keeps (R : ctx -> ctx -> Prop) (E : stream_hook) : Prop :=
  forall run : instr -> ctx -> xres,
    (forall i x, xres_sat R x (run i x)) ->
    forall i x r, E run i x = Some r -> xres_sat R x r.

Definition cids_grow (x y : ctx) : Prop := cid_state_incl (x_cids x) (x_cids y).

(* the stage-1 situation: no stream instruction is executed (they answer XUnsupported) *)
Definition streams_off (E : stream_hook) : Prop := forall run i x, E run i x = None.

(* every run that returns new data *)
Definition C09_stores_stmt : Prop :=
  forall (E : stream_hook) (finish : ctx -> ctx + uncatchable),
    hook_keeps cids_grow E ->
    (forall x x1, finish x = inl x1 -> cids_grow x x1) ->
    forall fuel i code d next reqs signed,
      run E finish fuel i = OutNewData code d next reqs signed ->
      cid_state_incl (d_cids (ri_prev i)) (d_cids d) /\ cid_state_incl (d_cids (ri_cur i)) (d_cids d).

(* the whole property over the model (DESIGN section 6): kept as a definition *)
Definition C09_full : Prop :=
  forall (E : stream_hook) (finish : ctx -> ctx + uncatchable) fuel i code d next reqs signed,
    run E finish fuel i = OutNewData code d next reqs signed ->
    keeps_both cid cid_eqb (d_trace (ri_prev i)) (d_trace (ri_cur i)) (d_trace d).

(* the executor drives the handler by the call/par protocol and re-emits what the mergers met *)
Definition exec_driven (x y : ctx) : Prop :=
  exists ds, driven cid cid_eqb false ds (x_handler x) (x_handler y).
Definition C09_exec_driven_stmt : Prop :=
  forall (E : stream_hook), streams_off E ->
    forall fuel i x, xres_sat exec_driven x (exec E fuel i x).

(* what the farewell step may do to the result trace: renumber generations, nothing else *)
Definition finish_keeps_knowledge (finish : ctx -> ctx + uncatchable) : Prop :=
  forall x x1, finish x = inl x1 ->
    knowledge cid (result_trace cid (x_handler x1)) = knowledge cid (result_trace cid (x_handler x)).

(* C09_consumed_partial: a run of the executor (no stream instruction executed) that returns new data
   is a driven run of the handler; when the windows of that very run are consumed -- a computable
   check on the driver forest -- no result of the previous or of the current trace is forgotten *)
Definition C09_consumed_partial_stmt : Prop :=
  forall (E : stream_hook) (finish : ctx -> ctx + uncatchable), streams_off E -> finish_keeps_knowledge finish ->
    forall fuel i code d next reqs signed,
      len_N (d_trace (ri_prev i)) <= Handler.u32_max -> len_N (d_trace (ri_cur i)) <= Handler.u32_max ->
      run E finish fuel i = OutNewData code d next reqs signed ->
      exists ds,
        let h0 := handler_from cid (d_trace (ri_prev i)) (d_trace (ri_cur i)) in
        (exists h', driven cid cid_eqb false ds h0 h' /\
                    knowledge cid (d_trace d) = knowledge cid (k_result cid (h_keeper cid h'))) /\
        (windows_consumed_b cid cid_eqb ds h0 = true ->
         keeps_both cid cid_eqb (d_trace (ri_prev i)) (d_trace (ri_cur i)) (d_trace d)).

(* ------------------------------------------------------------------------------------------ *)
(* C04: the data-consistency errors of the property text *)

(* on the model's error type *)
Definition is_consistency_error (u : uncatchable) : bool :=
  match u with
  | UTraceError _                        (* trace-merge errors: everything the trace handler raises *)
  | UGenerationCompactificationError     (* generation errors *)
  | UStreamDontHaveSuchGeneration
  | UCallResultNotCorrespondToInstr      (* parameter mismatch *)
  | UInstructionParametersMismatch _
  | UValueForCidNotFound _ => true       (* CID lookup *)
  | _ => false
  end.
Definition c04_uncatchable_names : list string :=
  ["TraceError"; "GenerationCompactificationError"; "CallResultNotCorrespondToInstr"; "ValueForCidNotFound";
   "StreamDontHaveSuchGeneration"; "InstructionParametersMismatch"]%string.
(* signature / CID-store verification errors are raised by the preparation step *)
Definition c04_preparation_names : list string := ["CidStoreVerificationError"; "DataSignatureCheckError"]%string.
Definition c04_codes : list Z :=
  map (code_in preparation_error_variants preparation_error_start_id) c04_preparation_names ++
  map (code_in uncatchable_error_variants uncatchable_errors_start_id) c04_uncatchable_names.

(* the trace-merge error variants the model knows (Handler.v [herr]), in [herr_index] order, by
   the names of the Rust variants *)
Definition herr_names : list string :=
  ["SetSubtraceLenFailed"; "SetSubtraceLenAndPosFailed"; "NoElementAtPosition"; "NoStreamState";
   "IncompatibleExecutedStates"; "DifferentExecutedStateExpected"; "InvalidDstGenerations";
   "ValuesNotEqual"; "IncompatibleCallResults"; "IncompatibleState";
   "SubtraceLenOverflow"; "SeveralRecordsWithSamePos"; "FoldIncorrectSubtracesCount";
   "ParQueueIsEmpty"; "FoldFSMNotFound"; "ParLenOverflow"; "ParPosOverflow"; "ParLenUnderflow";
   "FoldPosOverflow"; "FoldLenUnderflow"]%string.

(* the oracle's code set is the GENERATED list (tools/genx_consistency.py) *)
Definition c04_generated_codes : list Z := map (fun e => snd e) c04_consistency_errors.
Definition code_is_consistency_error (code : Z) : bool := existsb (Z.eqb code) c04_generated_codes.

Definition C04_codes_tie_stmt : Prop :=
  c04_generated_codes = c04_codes /\
  map (fun e => snd (fst e)) c04_consistency_errors = (c04_preparation_names ++ c04_uncatchable_names) /\
  c04_trace_error_leaves = herr_names /\
  (forall u, is_consistency_error u = code_is_consistency_error (uncatchable_code u)).

(* C04 over the model: an honest history is a list of runs in which every previous data is what the
   same peer produced before and every current data was produced by some earlier run; kept as a
   definition (decided by the state-level theorems + exploration) *)
Record hstep := { hs_peer : string; hs_input : run_input; hs_out : outcome }.
Definition data_of_outcome (o : outcome) : option idata :=
  match o with OutNewData _ d _ _ _ => Some d | _ => None end.
Fixpoint last_data_of (p : string) (past : list hstep) (* newest first *) : idata :=
  match past with
  | [] => empty_data
  | s :: r => if String.eqb (hs_peer s) p
              then match hs_out s with OutNewData _ d _ _ _ => d | _ => last_data_of p r end
              else last_data_of p r
  end.
Fixpoint honest_history (E : stream_hook) (finish : ctx -> ctx + uncatchable) (fuel : nat) (script : instr)
         (steps : list hstep) (* newest first *) : Prop :=
  match steps with
  | [] => True
  | s :: past =>
      honest_history E finish fuel script past /\
      ri_script (hs_input s) = script /\
      rp_current_peer (ri_params (hs_input s)) = hs_peer s /\
      ri_prev (hs_input s) = last_data_of (hs_peer s) past /\
      (ri_cur (hs_input s) = empty_data \/
       exists q, In q past /\ data_of_outcome (hs_out q) = Some (ri_cur (hs_input s))) /\
      hs_out s = run E finish fuel (hs_input s)
  end.
Definition outcome_code (o : outcome) : option Z :=
  match o with OutNewData c _ _ _ _ | OutPrevData c => Some c | _ => None end.
Definition C04_full : Prop :=
  forall E finish fuel script steps, honest_history E finish fuel script steps ->
    forall s c, In s steps -> outcome_code (hs_out s) = Some c -> code_is_consistency_error c = false.

(* ------------------------------------------------------------------------------------------ *)
(* executable oracles on the IMPLEMENTATION's observation (ExecCases.case_t) *)

(* C04: the code of the run is not a data-consistency error *)
Definition c04_oracle (c : case_t) : bool := negb (code_is_consistency_error (eo_code (ec_obs c))).

(* C09: a run that returned new data kept every result of the previous and of the current trace,
   and its stores contain both input stores *)
Definition c09_oracle (c : case_t) : bool :=
  let o := ec_obs c in
  if eo_kind o =? 0 then
    keeps_both_b cid cid_eqb (d_trace (ri_prev (ec_input c))) (d_trace (ri_cur (ec_input c))) (eo_trace o)
  else true.
Definition c09_stores_oracle (c : case_t) : bool :=
  let o := ec_obs c in
  if eo_kind o =? 0 then
    cid_state_incl_b (d_cids (ri_prev (ec_input c))) (eo_cids o) && cid_state_incl_b (d_cids (ri_cur (ec_input c))) (eo_cids o)
  else true.
