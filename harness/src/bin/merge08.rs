//! merge08: C08 -- merge results do not depend on delivery order or grouping.
//!
//! A case is an honest history (script, peers, services, schedule).  The history is run and then
//! drained to quiescence; D = every distinct data produced on the way (final and intermediate
//! data of all peers).  Sub-multisets of D are then merged
//!   * at an observer (a fresh peer that no script mentions: empty previous data, no call results),
//!   * at a participant (previous data = its own final data),
//! in several orders (all permutations for at most 4 items, the permutations given by the case
//! beyond) and groupings (left fold; pairs merged at a second observer first, then folded), and the
//! results are compared as the property text says:
//!   knowledge (multiset of executed / failed call ids, unused value ids, executed canon ids) equal;
//!   scripts without streams: traces identical except for the sender inside pending states;
//!   with streams: additionally the multiset of states with senders, generations and fold lores erased.
//! Requests and next peers of the merging runs are ignored.
//!
//! input : {"script","peers","init","services","ops","stream_free": bool,
//!          "plans": [{"keys":[u32...], "take": n, "perms": [[u32...]...], "at": "observer"|"participant", "who": k}]}
//! output: {"coq": [], "classes": [...], "info": [...], "oracle_failures": [...], "runs": n, "merges": n}

use air_interpreter_data::*;
use aquah::oracles::{fail, knowledge, trace_of};
use aquah::sim::*;
use serde_json::json;
use serde_json::Value as J;
use std::collections::BTreeMap;
use std::io::BufRead;

fn is_prev_code(c: i64) -> bool {
    (1..=9999).contains(&c) || (20000..=29999).contains(&c)
}
fn is_new_code(c: i64) -> bool {
    c == 0 || (10000..=19999).contains(&c) || c == 30000
}

fn order_by_keys(n: usize, keys: &[u64]) -> Vec<usize> {
    let mut idx: Vec<usize> = (0..n).collect();
    idx.sort_by_key(|i| (keys.get(*i).cloned().unwrap_or(*i as u64), *i));
    idx
}

fn permutations(items: &[usize]) -> Vec<Vec<usize>> {
    if items.len() <= 1 {
        return vec![items.to_vec()];
    }
    let mut out = vec![];
    for i in 0..items.len() {
        let mut rest = items.to_vec();
        let x = rest.remove(i);
        for mut p in permutations(&rest) {
            p.insert(0, x);
            out.push(p);
        }
    }
    out
}

/// the trace with everything the property lets differ erased
fn erase_sender(t: &[ExecutedState]) -> Vec<J> {
    t.iter()
        .map(|s| match s {
            ExecutedState::Call(CallResult::RequestSentBy(_)) => json!("call-request-sent"),
            ExecutedState::Canon(CanonResult::RequestSentBy(_)) => json!("canon-request-sent"),
            other => sort_json(&serde_json::to_value(other).unwrap_or(J::Null)),
        })
        .collect()
}

/// the executed / failed states in trace order
fn results_only(t: &[ExecutedState]) -> Vec<J> {
    t.iter()
        .filter(|s| !matches!(s, ExecutedState::Call(CallResult::RequestSentBy(_)) | ExecutedState::Canon(CanonResult::RequestSentBy(_)) | ExecutedState::Par(_)))
        .map(|s| sort_json(&serde_json::to_value(s).unwrap_or(J::Null)))
        .collect()
}

/// multiset of states, senders / generations / fold lores / par sizes erased
fn weak_states(t: &[ExecutedState]) -> BTreeMap<String, usize> {
    let mut m = BTreeMap::new();
    for s in t {
        let k = match s {
            ExecutedState::Call(CallResult::RequestSentBy(_)) => "call-request-sent".to_string(),
            ExecutedState::Canon(CanonResult::RequestSentBy(_)) => "canon-request-sent".to_string(),
            ExecutedState::Call(CallResult::Executed(ValueRef::Scalar(c))) => format!("scalar:{}", c.get_inner()),
            ExecutedState::Call(CallResult::Executed(ValueRef::Stream { cid, .. })) => format!("stream:{}", cid.get_inner()),
            ExecutedState::Call(CallResult::Executed(ValueRef::Unused(c))) => format!("unused:{}", c.get_inner()),
            ExecutedState::Call(CallResult::Failed(c)) => format!("failed:{}", c.get_inner()),
            ExecutedState::Canon(CanonResult::Executed(c)) => format!("canon:{}", c.get_inner()),
            ExecutedState::Ap(_) => "ap".to_string(),
            ExecutedState::Par(_) => "par".to_string(),
            ExecutedState::Fold(_) => "fold".to_string(),
        };
        *m.entry(k).or_insert(0) += 1;
    }
    m
}

struct Merged {
    ok: bool,
    code: i64,
    msg: String,
    trace: Vec<ExecutedState>,
    data: Vec<u8>,
}

/// fold the data into `base` one after the other; stops at the first failing run
fn left_fold(base: &RunInput, start: &[u8], items: &[&Vec<u8>], runs: &mut usize) -> Merged {
    let mut prev = start.to_vec();
    for d in items {
        let mut i = base.clone();
        i.prev = prev.clone();
        i.cur = (*d).clone();
        let r = run(&i);
        *runs += 1;
        if r.panic.is_some() {
            return Merged { ok: false, code: -1, msg: format!("panic: {}", r.panic.unwrap_or_default()), trace: vec![], data: prev };
        }
        if is_prev_code(r.code) || !is_new_code(r.code) {
            return Merged { ok: false, code: r.code, msg: r.msg.chars().take(200).collect(), trace: vec![], data: prev };
        }
        prev = r.data;
    }
    let trace = trace_of(&prev).unwrap_or_default();
    Merged { ok: true, code: 0, msg: String::new(), trace, data: prev }
}

fn observer_input(net: &Net, name: &str) -> RunInput {
    let obs = Peer::new(name);
    RunInput {
        air: net.air.clone(),
        prev: vec![],
        cur: vec![],
        init_peer_id: net.hosts[net.init_peer].peer.id.clone(),
        current_peer_id: obs.id.clone(),
        secret: obs.secret.clone(),
        key_format: 0,
        particle_id: net.particle_id.clone(),
        timestamp: net.timestamp,
        ttl: net.ttl,
        limits: Limits::unlimited(),
        call_results: Default::default(),
        call_results_raw: None,
    }
}

fn run_case(case: &J) -> J {
    let peers: Vec<String> = case["peers"].as_array().map(|a| a.iter().filter_map(|x| x.as_str().map(String::from)).collect()).unwrap_or_default();
    let script = Net::instantiate(case["script"].as_str().unwrap_or("(null)"), &peers);
    let services_json = Net::instantiate(&case["services"].to_string(), &peers);
    let services = Services::from_json(&serde_json::from_str(&services_json).unwrap_or(J::Null));
    let init = case["init"].as_u64().unwrap_or(0) as usize;
    let ops = ops_from_json(&case["ops"]);
    let stream_free = case["stream_free"].as_bool().unwrap_or(false);
    if let Err(e) = air_parser::parse(&script) {
        return json!({"error": format!("script does not parse: {}", e.chars().take(300).collect::<String>())});
    }
    let mut net = Net::new(&script, &peers, init, services, case["particle_id"].as_str().unwrap_or("particle-1"));
    let mut all_ops = ops.clone();
    for _ in 0..60 {
        for p in 0..peers.len() {
            all_ops.push(Op::Return(p, 0));
        }
        all_ops.push(Op::Deliver(0, false));
    }
    // D: distinct produced data, in order of production
    let mut data: Vec<Vec<u8>> = vec![];
    let mut history_failed = false;
    let mut history: Vec<J> = vec![];
    for op in all_ops.iter() {
        let rec = match net.exec(op) { Some(r) => r, None => continue };
        if case["debug"].as_bool().unwrap_or(false) {
            history.push(json!({"op": format!("{:?}", op), "peer": rec.peer, "code": rec.out.code, "results": rec.input.call_results.keys().collect::<Vec<_>>(),
                "prev_len": trace_of(&rec.input.prev).map(|t| t.len()), "cur_len": trace_of(&rec.input.cur).map(|t| t.len()),
                "requests": rec.out.requests.as_ref().map(|r| r.keys().cloned().collect::<Vec<_>>()), "next": rec.out.next.len(),
                "data_index": data.iter().position(|d| d == &rec.out.data),
                "trace": serde_json::to_value(&trace_of(&rec.out.data).unwrap_or_default()).unwrap_or(J::Null)}));
        }
        if rec.out.panic.is_some() || is_prev_code(rec.out.code) {
            history_failed = true; // C01 / C04's business; the data of such a history are still honest data
        }
        if rec.out.panic.is_none() && is_new_code(rec.out.code) && !rec.out.data.is_empty() && !data.contains(&rec.out.data) {
            data.push(rec.out.data.clone());
        }
    }
    let quiescent = net.inflight.is_empty() && net.hosts.iter().all(|h| h.pending.is_empty());
    let mut failures: Vec<J> = vec![];
    let mut classes: Vec<String> = vec![];
    let mut infos: Vec<J> = vec![];
    let mut runs = 0usize;
    let mut merges = 0usize;
    let obs1 = observer_input(&net, "observer-peer");
    let obs2 = observer_input(&net, "observer-peer-2");
    let empty: Vec<u8> = vec![];

    for (pi, plan) in case["plans"].as_array().cloned().unwrap_or_default().iter().enumerate() {
        if data.is_empty() {
            break;
        }
        let keys: Vec<u64> = plan["keys"].as_array().map(|a| a.iter().map(|x| x.as_u64().unwrap_or(0)).collect()).unwrap_or_default();
        let take = plan["take"].as_u64().unwrap_or(0) as usize;
        let mut subset = order_by_keys(data.len(), &keys);
        if take > 0 && take < subset.len() {
            subset.truncate(take);
        }
        let orders: Vec<Vec<usize>> = if subset.len() <= 4 {
            permutations(&subset)
        } else {
            let mut v = vec![subset.clone()];
            let mut rev = subset.clone();
            rev.reverse();
            v.push(rev);
            for pk in plan["perms"].as_array().cloned().unwrap_or_default() {
                let pkeys: Vec<u64> = pk.as_array().map(|a| a.iter().map(|x| x.as_u64().unwrap_or(0)).collect()).unwrap_or_default();
                let o = order_by_keys(subset.len(), &pkeys);
                v.push(o.iter().map(|i| subset[*i]).collect());
            }
            v
        };
        let at_participant = plan["at"].as_str() == Some("participant");
        let who = plan["who"].as_u64().unwrap_or(0) as usize % peers.len().max(1);
        let (base, start): (RunInput, Vec<u8>) = if at_participant {
            (net.make_input(who, vec![], BTreeMap::new()), net.hosts[who].prev.clone())
        } else {
            (obs1.clone(), vec![])
        };
        let place = if at_participant { format!("participant {}", peers[who]) } else { "observer".to_string() };
        // every order as a left fold; the first two orders additionally with pairs merged at a second observer first
        let mut results: Vec<(String, Merged)> = vec![];
        for (oi, order) in orders.iter().enumerate() {
            let items: Vec<&Vec<u8>> = order.iter().map(|i| &data[*i]).collect();
            results.push((format!("fold{:?}", order), left_fold(&base, &start, &items, &mut runs)));
            merges += 1;
            if oi < 3 && order.len() >= 3 {
                // grouping: (d1 d2) (d3 d4) .. merged pairwise at the second observer, the results folded
                let mut pre: Vec<Vec<u8>> = vec![];
                let mut ok = true;
                for ch in items.chunks(2) {
                    let m = left_fold(&obs2, &empty, ch, &mut runs);
                    if !m.ok {
                        ok = false;
                        results.push((format!("pairs{:?}", order), m));
                        break;
                    }
                    pre.push(m.data);
                }
                if ok {
                    let refs: Vec<&Vec<u8>> = pre.iter().collect();
                    results.push((format!("pairs{:?}", order), left_fold(&base, &start, &refs, &mut runs)));
                }
                merges += 1;
                // grouping: the tail merged at the second observer first, then (d1, tail)
                let tail = left_fold(&obs2, &empty, &items[1..], &mut runs);
                if tail.ok {
                    let refs: Vec<&Vec<u8>> = vec![items[0], &tail.data];
                    results.push((format!("nested{:?}", order), left_fold(&base, &start, &refs, &mut runs)));
                } else {
                    results.push((format!("nested{:?}", order), tail));
                }
                merges += 1;
            }
        }
        // ---- the oracle ----
        let n_ok = results.iter().filter(|(_, m)| m.ok).count();
        let cls = if n_ok == results.len() { "all-merge" } else if n_ok == 0 { "none-merges" } else { "some-merge" };
        classes.push(format!("{}:{}:{}", if at_participant { "participant" } else { "observer" }, cls, subset.len().min(9)));
        let step = pi;
        if n_ok != results.len() && n_ok != 0 {
            let (bn, bad) = results.iter().find(|(_, m)| !m.ok).map(|(n, m)| (n.clone(), m)).unwrap();
            let (gn, _) = results.iter().find(|(_, m)| m.ok).unwrap();
            failures.push(fail("C08", step, format!("at the {}: plan {} fails (code {}: {}) while plan {} merges the same data", place, bn, bad.code, bad.msg, gn), "order-dependent-failure"));
        }
        // results that the merging peer itself creates while merging (a participant that now executes a
        // canon addressed to it) are execution, not merging: knowledge is compared on what the inputs carry
        let mut input_keys: std::collections::BTreeSet<String> = knowledge(&trace_of(&start).unwrap_or_default()).keys().cloned().collect();
        for i in subset.iter() {
            input_keys.extend(knowledge(&trace_of(&data[*i]).unwrap_or_default()).keys().cloned());
        }
        let restrict = |m: BTreeMap<String, usize>| -> BTreeMap<String, usize> { m.into_iter().filter(|(k, _)| input_keys.contains(k)).collect() };
        let weak = |t: &[ExecutedState]| -> BTreeMap<String, usize> {
            let mut out = BTreeMap::new();
            for (k, n) in weak_states(t) {
                let k2 = if k.starts_with("canon:") && !input_keys.contains(&k) { "canon:created-here".to_string() } else { k };
                *out.entry(k2).or_insert(0) += n;
            }
            out
        };
        let mut first: Option<&(String, Merged)> = None;
        let mut reported = [false; 3];
        for r in results.iter().filter(|(_, m)| m.ok) {
            let f = match first { None => { first = Some(r); continue } Some(f) => f };
            let (k1, k2) = (restrict(knowledge(&f.1.trace)), restrict(knowledge(&r.1.trace)));
            if k1 != k2 && !reported[0] {
                reported[0] = true;
                let only1: Vec<&String> = k1.iter().filter(|(k, n)| k2.get(*k).cloned().unwrap_or(0) < **n).map(|(k, _)| k).collect();
                let only2: Vec<&String> = k2.iter().filter(|(k, n)| k1.get(*k).cloned().unwrap_or(0) < **n).map(|(k, _)| k).collect();
                failures.push(fail("C08", step, format!("at the {}: knowledge differs between {} and {}: more in the first {:?}, more in the second {:?}", place, f.0, r.0, only1, only2), "knowledge-differs"));
            }
            // a grouping goes through the second observer, whose own pending requests become part of what it
            // hands on; at a participant (which may not emit such a state itself) only the results are compared then
            let through_observer = at_participant && (!f.0.starts_with("fold") || !r.0.starts_with("fold"));
            if stream_free && through_observer {
                if results_only(&f.1.trace) != results_only(&r.1.trace) && !reported[1] {
                    reported[1] = true;
                    failures.push(fail("C08", step, format!("at the {}: stream-free script, the executed / failed states differ between {} and {}", place, f.0, r.0), "trace-differs"));
                }
            } else if stream_free {
                if erase_sender(&f.1.trace) != erase_sender(&r.1.trace) && !reported[1] {
                    reported[1] = true;
                    failures.push(fail("C08", step, format!("at the {}: stream-free script, traces differ beyond senders between {} and {} ({} vs {} states)", place, f.0, r.0, f.1.trace.len(), r.1.trace.len()), "trace-differs"));
                }
            } else if through_observer {
                let strip = |m: BTreeMap<String, usize>| -> BTreeMap<String, usize> { m.into_iter().filter(|(k, _)| !k.ends_with("request-sent")).collect() };
                if strip(weak(&f.1.trace)) != strip(weak(&r.1.trace)) && k1 == k2 && !reported[2] {
                    reported[2] = true;
                    failures.push(fail("C08", step, format!("at the {}: the states other than pending requests differ in more than generation numbers / iteration order between {} and {}: {:?} vs {:?}", place, f.0, r.0, strip(weak(&f.1.trace)), strip(weak(&r.1.trace))), "states-differ"));
                }
            } else if weak(&f.1.trace) != weak(&r.1.trace) && k1 == k2 && !reported[2] {
                reported[2] = true;
                failures.push(fail("C08", step, format!("at the {}: traces differ in more than generation numbers / iteration order between {} and {}: {:?} vs {:?}", place, f.0, r.0, weak(&f.1.trace), weak(&r.1.trace)), "states-differ"));
            }
        }
        if case["debug"].as_bool().unwrap_or(false) {
            let dump: Vec<J> = results.iter().map(|(n, m)| json!({"plan": n, "ok": m.ok, "code": m.code, "msg": m.msg,
                "trace": serde_json::to_value(&m.trace).unwrap_or(J::Null)})).collect();
            let items: Vec<J> = subset.iter().map(|i| json!({"item": i, "trace": serde_json::to_value(&trace_of(&data[*i]).unwrap_or_default()).unwrap_or(J::Null)})).collect();
            infos.push(json!({"debug_plan": pi, "results": dump, "items": items,
                              "start": serde_json::to_value(&trace_of(&start).unwrap_or_default()).unwrap_or(J::Null)}));
        }
        infos.push(json!({"plan": pi, "at": place, "items": subset.len(), "orders": orders.len(), "results": results.len(), "merged": n_ok,
                          "trace_len": first.map(|f| f.1.trace.len()), "knowledge": first.map(|f| knowledge(&f.1.trace).values().sum::<usize>()),
                          "first_error": results.iter().find(|(_, m)| !m.ok).map(|(n, m)| format!("{}: {} {}", n, m.code, m.msg))}));
    }
    json!({"coq": [], "classes": classes, "info": infos, "oracle_failures": failures, "runs": net.step + runs, "merges": merges,
           "data_items": data.len(), "quiescent": quiescent, "history_failed": history_failed, "history": history})
}

fn main() {
    quiet_panics();
    for line in std::io::stdin().lock().lines() {
        let line = match line { Ok(l) => l, Err(_) => break };
        if line.trim().is_empty() { continue; }
        let case: J = serde_json::from_str(&line).unwrap_or(J::Null);
        let r = std::panic::catch_unwind(|| run_case(&case));
        match r {
            Ok(j) => println!("{}", j),
            Err(_) => println!("{}", json!({"error": "merge08 driver panicked"})),
        }
    }
}
