(* props/C09.v -- merging never forgets a result.
   Statements: model/KeepSpec.v; proofs: proofs/KeepProofs.v. *)
From Aqua Require Import Base Json Air Trace Handler Values Scalars Lens Exec RunExec ExecCases KeepSpec.
From Aqua Require Import ExecStreams KeepProofs KeepHandler KeepExec KeepStreams.
From Aqua Require SeqLocal NetLin NetLinCases NetLinProofs.
Open Scope N_scope.
Open Scope list_scope.

(* the whole property over the model (every run that returns new data keeps every executed / failed
   call result and every executed canon result of the previous and of the current data, as multisets
   by content id).  Kept as a definition: refuted outside the scalar fragment by the known finding
   stream-fold-cursor-hole (a recursive stream fold loses an iteration with its executed call). *)
Definition C09_full : Prop := KeepSpec.C09_full.

(* C09_stores: the CID stores of the produced data contain the stores of the previous and of the
   current data, for every run that returns new data, for every stage-2 hook that only grows the stores *)
Theorem C09_stores : C09_stores_stmt.
Proof. exact stores_kept. Qed.

(* ... in particular for the stage-2/3 executor (streams, canon, maps): its instructions and the farewell
   compactification only grow the stores, so the statement holds for run2, the model of the lock-step *)
Theorem C09_stores_stream_hook : hook_keeps cids_grow stream_instr.
Proof. exact stream_instr_grows. Qed.
Theorem C09_stores_run2 : forall fuel i code d next reqs signed,
  run2 fuel i = OutNewData code d next reqs signed ->
  cid_state_incl (d_cids (ri_prev i)) (d_cids d) /\ cid_state_incl (d_cids (ri_cur i)) (d_cids d).
Proof. exact stores_kept_run2. Qed.

(* C09_state_keep: the merged state is an upper bound of both sides in the information order; an
   Executed / Failed / CanonExecuted result present on either side comes back with the same content id *)
Theorem C09_state_keep_call : forall C ceqb, C09_call_join_stmt C ceqb.
Proof. exact (fun C ceqb H => call_join C ceqb H H). Qed.
Theorem C09_state_keep_canon : forall C ceqb, C09_canon_join_stmt C ceqb.
Proof. exact (fun C ceqb H => canon_join C ceqb H H). Qed.
(* at the merger functions: what is popped from either slider is below the state handed to the
   executor; a state of another kind is an error, never dropped *)
Theorem C09_state_keep_merger_call : forall C ceqb, C09_merger_call_stmt C ceqb.
Proof. exact (fun C ceqb H => merger_call C ceqb H H). Qed.
Theorem C09_state_keep_merger_canon : forall C ceqb, C09_merger_canon_stmt C ceqb.
Proof. exact (fun C ceqb H => merger_canon C ceqb H H). Qed.
Theorem C09_state_keep_merger_ap : forall C, C09_merger_ap_stmt C.
Proof. exact merger_ap. Qed.

(* C09_consumed_partial, handler level (any representation of content ids, any traces): a run of the
   TraceHandler API that follows the driver protocol of the call/par fragment (call := meet_call_start .
   [meet_call_end s], par := meet_par_start . D . subgraph_end(Left) . D . subgraph_end(Right)), re-emits what
   the call merger met, and whose windows are consumed (every par branch and the run end with both slider
   windows exhausted: [windows_consumed], computable as [windows_consumed_b]) keeps every result of the
   previous and of the current window in what it appends to the result trace.
   Hypotheses: handler_ok (the slider windows lie inside their traces, trace lengths fit u32). *)
Theorem C09_handler_consumed : forall C ceqb, C09_handler_consumed_stmt C ceqb.
Proof. exact (fun C ceqb H => handler_consumed C ceqb H H). Qed.

(* the executor drives the handler by that protocol: every state the call merger pops is re-emitted by
   the corresponding meet_call_end with its content id (possibly upgraded from a pending request), or the
   run fails (uncatchable error / panic).  For every stage-2 hook under the named hypothesis [streams_off]
   (no stream / canon / map instruction is executed): call, seq, par, xor, match, mismatch, fail, null, never,
   ap to scalars, new on scalars, folds over scalars; calls may write to streams. *)
Theorem C09_exec_driven : C09_exec_driven_stmt.
Proof. exact exec_is_driven. Qed.

(* C09_consumed_partial, executor level: a run that returns new data is a driven run of the handler on
   the two input traces; when the windows of that very run are consumed no result is forgotten.
   Hypotheses: streams_off E, finish_keeps_knowledge finish (the farewell step only renumbers generations),
   both input traces shorter than 2^32. *)
Theorem C09_consumed_partial : C09_consumed_partial_stmt.
Proof. exact consumed_partial. Qed.
(* the two hypotheses hold for the stage-1 hook with the real compactification of stream generations *)
Theorem C09_compactification_keeps : finish_keeps_knowledge finish_streams.
Proof. exact finish_streams_keeps_knowledge. Qed.
Theorem C09_stage1_hook : streams_off no_streams.
Proof. exact no_streams_off. Qed.

(* the executable oracles decide the statements they stand for *)
Theorem C09_oracle_sound : forall p c o,
  keeps_both_b cid cid_eqb p c o = true <-> keeps_both cid cid_eqb p c o.
Proof. exact (keeps_both_b_spec cid cid_eqb cid_ceqb_spec). Qed.
Theorem C09_union_max : forall p c o, keeps_both cid cid_eqb p c o <->
  forall k, (Nat.max (kcount cid cid_eqb k (knowledge cid p)) (kcount cid cid_eqb k (knowledge cid c))
             <= kcount cid cid_eqb k (knowledge cid o))%nat.
Proof. exact (keeps_both_max cid cid_eqb). Qed.
Theorem C09_stores_oracle_sound : forall a b, cid_state_incl_b a b = true <-> cid_state_incl a b.
Proof. exact cid_state_incl_b_spec. Qed.

(* non-vacuity *)
Example C09_join_upgrades_pending :
  merge_call_results string String.eqb (RequestSentBy (SPeer "A")) (Failed "c") = Ok (Failed "c", SchCurrent) /\
  merge_call_results string String.eqb (Executed (VRStream "c" 3)) (Executed (VRStream "c" 0)) = Ok (Executed (VRStream "c" 3), SchBoth).
Proof. vm_compute. split; reflexivity. Qed.
Example C09_oracle_detects_loss :
  keeps_both_b string String.eqb [SCall (Executed (VRScalar "a")); SCall (Executed (VRScalar "a"))] [] [SCall (Executed (VRScalar "a"))] = false /\
  keeps_both_b string String.eqb [SCall (Executed (VRScalar "a"))] [SCall (Executed (VRScalar "a")); SCall (Failed "b")]
                                 [SPar 1 1; SCall (Executed (VRScalar "a")); SCall (Failed "b")] = true.
Proof. vm_compute. split; reflexivity. Qed.

(* a par whose two branches each hold a result only one side knows: windows consumed, both results kept *)
Example C09_windows_consumed_nonvacuous :
  let prev := [SPar 1 1; SCall (Executed (VRScalar "a")); SCall (RequestSentBy (SPeer "B"))] in
  let cur := [SPar 1 1; SCall (RequestSentBy (SPeer "A")); SCall (Executed (VRScalar "b"))] in
  let ds := [DPar [DCall (Some (Executed (VRScalar "a")))] [DCall (Some (Executed (VRScalar "b")))]] in
  let h0 := handler_from string prev cur in
  handler_ok string h0 /\ windows_consumed_b string String.eqb ds h0 = true /\
  exists h', drive string String.eqb false ds h0 = Some (Ok h') /\
             k_result string (h_keeper string h') = [SPar 1 1; SCall (Executed (VRScalar "a")); SCall (Executed (VRScalar "b"))].
Proof.
  cbv zeta. split; [split; (split; [| split]); vm_compute; intro; discriminate |].
  split; [vm_compute; reflexivity |]. eexists. split; vm_compute; reflexivity.
Qed.
(* the hypothesis is needed: a run that leaves the left branch without visiting its state is still a
   driven run, its windows are not consumed, and the result of the left branch is gone *)
Example C09_windows_not_consumed_loses :
  let prev := [SPar 1 1; SCall (Executed (VRScalar "a")); SCall (Executed (VRScalar "b"))] in
  let ds := [DPar [] [DCall (Some (Executed (VRScalar "b")))]] in
  let h0 := handler_from string prev [] in
  windows_consumed_b string String.eqb ds h0 = false /\
  exists h', drive string String.eqb false ds h0 = Some (Ok h') /\
             keeps_both_b string String.eqb prev [] (k_result string (h_keeper string h')) = false.
Proof. cbv zeta. split; [vm_compute; reflexivity |]. eexists. split; vm_compute; reflexivity. Qed.

(* ---- history level, straight-line scripts on several peers (model/NetLin.v: the approximation invariant) ----
   In EVERY honest history of a straight-line script, across every step, the executed / failed states a host holds
   are a prefix of the full sequential trace that never shrinks: nothing is forgotten. *)
Theorem C09_linear_nothing_forgotten : forall svc init ts ttl,
    NetLin.lin_nothing_forgotten svc init ts ttl RunExec.run1 /\
    NetLin.lin_nothing_forgotten svc init ts ttl ExecStreams.run2.
Proof.
  intros. split; apply NetLinProofs.nothing_forgotten_gen; [apply NetLinProofs.run1_step | apply NetLinProofs.run2_step].
Qed.

Example C09_linear_nothing_forgotten_example :
  map (fun k => (NetLin.exlen (NetLinCases.nlx_host_trace (NetLinCases.nlx_history k) "A"),
                 NetLin.exlen (NetLinCases.nlx_host_trace (NetLinCases.nlx_history k) "B"))) (seq 0 11) =
  [(0, 0); (0, 0); (1, 0); (1, 1); (1, 2); (1, 3); (3, 3); (3, 3); (3, 3); (4, 3); (4, 3)]%nat.
Proof. vm_compute. reflexivity. Qed.

Print Assumptions C09_stores.
Print Assumptions C09_state_keep_call.
Print Assumptions C09_state_keep_canon.
Print Assumptions C09_state_keep_merger_call.
Print Assumptions C09_state_keep_merger_canon.
Print Assumptions C09_state_keep_merger_ap.
Print Assumptions C09_oracle_sound.
Print Assumptions C09_union_max.
Print Assumptions C09_stores_oracle_sound.
Print Assumptions C09_handler_consumed.
Print Assumptions C09_exec_driven.
Print Assumptions C09_consumed_partial.
Print Assumptions C09_compactification_keeps.
Print Assumptions C09_stage1_hook.
Print Assumptions C09_stores_stream_hook.
Print Assumptions C09_stores_run2.
Print Assumptions C09_linear_nothing_forgotten.
