(* props/C18.v -- xor catches exactly the catchable failures and reports them faithfully.
   Only pinned statements, [exact], non-vacuity examples and Print Assumptions.
   The statements ([..._stmt]) are defined in model/XorSpec.v over the executor model Exec.v /
   RunExec.v; [esi] stands for the stream instructions plugged into Exec.exec (every theorem holds
   for EVERY [esi]; C18_faithful needs the hypothesis [esi_faithful esi], discharged for the concrete
   ExecStreams.stream_instr by C18_stream_instr_faithful). *)
From Aqua Require Import Base Json Air Trace Handler Values Scalars Lens Exec RunExec ExecStreams XorSpec XorProofs.
Open Scope N_scope.
Open Scope list_scope.

(* 1. which branch runs: after a catchable failure of the left branch the right branch runs from
   [xor_right_entry c x1] (and the result is its result through clear_error_object_if_needed and the
   execute! wrapper); after success -- complete or still waiting --, an uncatchable error, a crash,
   the result is the left branch's for EVERY right branch (it does not run); an uncatchable error
   only has error setting disabled by the wrapper *)
Theorem C18_catch : forall esi, C18_catch_stmt esi.
Proof. exact C18_catch_proof. Qed.

(* what the right branch starts from: :error: = the object left by the failing instruction,
   %last_error% as the left branch left it, both settable again, everything else untouched *)
Theorem C18_right_entry : C18_right_entry_stmt.
Proof. exact C18_right_entry_proof. Qed.

(* 2. faithfulness, the invariant: from a good context (error setting enabled, :error: not a stale
   unmarked error, folds under way swallow-free) a swallow-free instruction (no par, no fold over a
   stream inside) either succeeds into a good context or fails catchably with :error: built from
   exactly that failure (code and message) and error setting disabled *)
Theorem C18_faithful : forall esi, C18_faithful_stmt esi.
Proof. exact C18_faithful_proof. Qed.

(* ... at an xor: the right branch sees error_code = code of the failure, message = its message *)
Theorem C18_faithful_xor : forall esi, C18_faithful_xor_stmt esi.
Proof. exact C18_faithful_xor_proof. Qed.

(* the hypothesis on the stream instructions holds for the concrete ones (ap into streams, canon,
   new on streams, next inside stream folds; the stream fold itself is excluded by swallow_free) *)
Theorem C18_stream_instr_faithful : esi_faithful stream_instr.
Proof. exact stream_instr_faithful. Qed.

Theorem C18_faithful_exec2 : forall fuel, faithful_run (exec stream_instr fuel).
Proof. exact faithful_exec2. Qed.

Theorem C18_good_ctx_initial : C18_good_ctx_initial_stmt.
Proof. exact C18_good_ctx_initial_proof. Qed.

(* the unrestricted readings are REFUTED (for every esi): (a) left branches that contain a par,
   (b) an xor met after a par one of whose branches failed (finding stale-error-after-swallow) *)
Theorem C18_faithful_full_refuted : forall esi, ~ C18_faithful_full esi.
Proof. exact C18_faithful_full_refuted. Qed.

Theorem C18_faithful_any_entry_full_refuted : forall esi, ~ C18_faithful_any_entry_full esi.
Proof. exact C18_faithful_any_entry_full_refuted. Qed.

(* 3. the uncaught twin: a run whose execution ends with the catchable c reports code_of c and the
   message of c (and the object of a catch branch carries exactly these two) *)
Theorem C18_uncaught_twin : forall esi finish, C18_uncaught_twin_stmt esi finish.
Proof. exact C18_uncaught_twin_proof. Qed.

Theorem C18_object_equals_twin : forall esi finish, C18_object_equals_twin_stmt esi finish.
Proof. exact C18_object_equals_twin_proof. Qed.

(* 4. errors propagate unchanged through seq, match/mismatch, new, fold; uncatchable errors also
   through xor (either branch) and par (either branch): never converted, never caught *)
Theorem C18_propagation : forall esi, C18_propagation_stmt esi.
Proof. exact C18_propagation_proof. Qed.

Theorem C18_uncatchable_never_caught : forall esi finish, C18_uncatchable_never_caught_stmt esi finish.
Proof. exact C18_uncatchable_never_caught_proof. Qed.

(* 5. the decisive source lines *)
Theorem C18_source_tie : C18_source_tie_stmt.
Proof. exact C18_source_tie_proof. Qed.

(* ---- non-vacuity ---- *)

(* (xor (match 1 2 (null)) (call %init_peer_id% ("s18" "catch") [:error:.$.error_code :error:.$.message :error: %last_error%])):
   the catch call is requested with the code/message of MatchValuesNotEqual, %last_error% untouched *)
Example C18_ex_caught :
  out_code (run2 10 (w_inp w_caught)) = Some 0%Z /\
  catch_args (run2 10 (w_inp w_caught)) =
    [[JInt 10001; JStr "<msg:MatchValuesNotEqual>";
      error_object 10001 "<msg:MatchValuesNotEqual>" "match 1 2" None; no_error_object]].
Proof. split; vm_compute; reflexivity. Qed.

(* its uncaught twin ends with the same code *)
Example C18_ex_uncaught : out_code (run2 10 (w_inp w_match)) = Some 10001%Z.
Proof. vm_compute. reflexivity. Qed.

(* the left branch of the example does fail catchably from a good context: C18_faithful_xor is not vacuous *)
Example C18_ex_left_fails :
  exists x1, exec stream_instr 5 w_match (flush_complete (initial_ctx (w_inp w_caught))) = XErr (ECatch CMatchValuesNotEqual) x1 /\
             swallow_free w_match = true /\
             carries_b (x_error (xor_right_entry CMatchValuesNotEqual x1)) CMatchValuesNotEqual = true.
Proof. eexists. split; [vm_compute; reflexivity|]. split; vm_compute; reflexivity. Qed.

(* successful / waiting / uncatchably failing left branches: no catch request *)
Example C18_ex_ok_left : catch_args (run2 10 (w_inp w_ok_left)) = [] /\ out_code (run2 10 (w_inp w_ok_left)) = Some 0%Z.
Proof. split; vm_compute; reflexivity. Qed.
Example C18_ex_wait_left : catch_args (run2 10 (w_inp w_wait_left)) = [] /\ out_code (run2 10 (w_inp w_wait_left)) = Some 0%Z.
Proof. split; vm_compute; reflexivity. Qed.
Example C18_ex_uncatchable_left : run2 10 (w_inp w_uncatch_left) = OutPrevData 20007%Z.
Proof. vm_compute. reflexivity. Qed.

(* the finding on whole runs of the model: after a par with a failed branch (resp. a stream fold that
   swallowed a failure) the catch branch is given the object of the EARLIER failure (code 10006,
   fail 1 "a") while the uncaught twin reports 10001 *)
Example C18_ex_stale_after_par :
  catch_args (run2 10 (w_inp w_stale_par)) =
    [[JInt 10006; JStr "<msg:UserError>"; error_object 10006 "<msg:UserError>" "fail 1 ""a""" None;
      error_object 1 "a" "fail 1 ""a""" (Some "A"%string)]] /\
  out_code (run2 10 (w_inp w_stale_par_twin)) = Some 10001%Z.
Proof. exact stale_par_run. Qed.
Example C18_ex_stale_after_stream_fold :
  catch_args (run2 10 (w_inp w_stale_fold)) =
    [[JInt 10006; JStr "<msg:UserError>"; error_object 10006 "<msg:UserError>" "fail 1 ""a""" None;
      error_object 1 "a" "fail 1 ""a""" (Some "A"%string)]].
Proof. exact stale_fold_run. Qed.

Print Assumptions C18_catch.
Print Assumptions C18_right_entry.
Print Assumptions C18_faithful.
Print Assumptions C18_faithful_xor.
Print Assumptions C18_stream_instr_faithful.
Print Assumptions C18_faithful_exec2.
Print Assumptions C18_good_ctx_initial.
Print Assumptions C18_faithful_full_refuted.
Print Assumptions C18_faithful_any_entry_full_refuted.
Print Assumptions C18_uncaught_twin.
Print Assumptions C18_object_equals_twin.
Print Assumptions C18_propagation.
Print Assumptions C18_uncatchable_never_caught.
Print Assumptions C18_source_tie.
