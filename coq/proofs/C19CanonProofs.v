(* C19CanonProofs.v -- proof of C19Canon.C19_canon_stmt. *)
From Coq Require Import Lia.
From Aqua Require Import Base Json Air Trace Handler Values Scalars Lens Exec RunExec ExecStreams CallSpec C19Canon ExecInv.
Open Scope N_scope.
Open Scope list_scope.

Lemma try_merge_next_state_as_canon_result k m k' :
  try_merge_next_state_as_canon cid cid_eqb k = Ok (m, k') -> k_result cid k' = k_result cid k.
Proof.
  unfold try_merge_next_state_as_canon.
  destruct (next_states cid k) as [[p c] k1] eqn:En. pose proof (next_states_result _ _ _ _ En) as Hn.
  destruct p as [[]|], c as [[]|]; try discriminate.
  - unfold Handler.bind. destruct (merge_canon_results cid cid_eqb c0 c); try discriminate.
    intros E; inversion E; subst. exact Hn.
  - intros E; inversion E; subst. exact Hn.
  - intros E; inversion E; subst. exact Hn.
  - intros E; inversion E; subst. exact Hn.
Qed.

Lemma meet_canon_start_result h m h' :
  meet_canon_start cid cid_eqb h = Ok (m, h') -> result_trace cid h' = result_trace cid h.
Proof.
  unfold meet_canon_start, Handler.bind.
  destruct (try_merge_next_state_as_canon cid cid_eqb (h_keeper cid h)) as [[m0 k0]| |] eqn:E; try discriminate.
  intros E2. inversion E2; subst. cbn [fst snd]. unfold result_trace. cbn [with_keeper h_keeper].
  apply (try_merge_next_state_as_canon_result _ _ _ E).
Qed.

Lemma tr_canon_end x c : tr (set_handler x (meet_canon_end cid (x_handler x) c)) = tr x ++ [SCanon c].
Proof. reflexivity. Qed.

Lemma hsame_set_canon_value x name c y : set_canon_value x name c = POk y -> hsame x y.
Proof.
  unfold set_canon_value. destruct (Scalars.set_value canon_wp (x_canons x) name c) as [[m b] |]; intros E; inversion E; subst.
  repeat split.
Qed.

Lemma hsame_set_canon_map_value x name c y : set_canon_map_value x name c = POk y -> hsame x y.
Proof.
  unfold set_canon_map_value. destruct (Scalars.set_value canon_map_wp _ name c) as [[m b] |]; intros E; inversion E; subst.
  repeat split.
Qed.

(* canon_epilog: a frame; on success it writes the executed state, on error nothing *)
Lemma canon_epilog_spec k x values t c y :
  outcome_ctx (canon_epilog k x values t c) = Some y ->
  frame x y /\ (tr y = tr x \/ tr y = tr x ++ [SCanon (CanonExecuted c)]).
Proof.
  assert (Hfin : forall x1, hsame x x1 ->
            frame x (set_handler x1 (meet_canon_end cid (x_handler x1) (CanonExecuted c))) /\
            (tr (set_handler x1 (meet_canon_end cid (x_handler x1) (CanonExecuted c))) = tr x \/
             tr (set_handler x1 (meet_canon_end cid (x_handler x1) (CanonExecuted c))) = tr x ++ [SCanon (CanonExecuted c)])).
  { intros x1 [F H]. split; [eapply frame_trans; [exact F | repeat split] |].
    right. rewrite tr_canon_end. unfold tr. rewrite H. reflexivity. }
  assert (Hsame : frame x x /\ (tr x = tr x \/ tr x = tr x ++ [SCanon (CanonExecuted c)])).
  { split; [apply frame_refl | left; reflexivity]. }
  unfold canon_epilog. destruct k as [name | name | name].
  - destruct (set_canon_value x name _) as [x1 | e | s | w] eqn:E;
      cbn [lift outcome_ctx]; try discriminate; intros Hy; inversion Hy; subst.
    + apply Hfin. apply (hsame_set_canon_value _ _ _ _ E).
    + exact Hsame.
  - destruct (negb (kv_pairs_valid values)); cbn [outcome_ctx].
    + intros Hy; inversion Hy; subst. exact Hsame.
    + destruct (set_canon_map_value x name _) as [x1 | e | s | w] eqn:E;
        cbn [lift outcome_ctx]; try discriminate; intros Hy; inversion Hy; subst.
      * apply Hfin. apply (hsame_set_canon_map_value _ _ _ _ E).
      * exact Hsame.
  - destruct values as [| v vs]; cbn [outcome_ctx].
    + intros Hy; inversion Hy; subst. exact Hsame.
    + destruct (set_scalar_value x name _) as [x1 | e | s | w] eqn:E;
        cbn [lift outcome_ctx]; try discriminate; intros Hy; inversion Hy; subst.
      * apply Hfin. apply (hsame_set_scalar_value _ _ _ _ E).
      * exact Hsame.
Qed.

Lemma create_canon_first_time_spec k tb x stream peer y :
  outcome_ctx (create_canon_first_time k tb x stream peer) = Some y ->
  frame x y /\ (tr y = tr x \/ exists c, tr y = tr x ++ [SCanon (CanonExecuted c)]).
Proof.
  unfold create_canon_first_time. intros Hy.
  match type of Hy with outcome_ctx (canon_epilog _ ?x1 _ _ ?rc) = _ =>
    assert (H1 : hsame x x1) by (eapply hsame_trans; [| apply hsame_record_cid]; repeat split);
    destruct (canon_epilog_spec _ _ _ _ _ _ Hy) as [F T]
  end.
  split; [eapply frame_trans; [apply H1 | exact F] |].
  rewrite (hsame_tr _ _ H1) in T. destruct T as [T | T]; [left; exact T | right; eexists; exact T].
Qed.

Lemma handle_canon_executed_spec k x p c y :
  outcome_ctx (handle_canon_executed k x p c) = Some y ->
  frame x y /\ (tr y = tr x \/ tr y = tr x ++ [SCanon (CanonExecuted c)]).
Proof.
  unfold handle_canon_executed.
  destruct (resolve_peer_id_to_string x p) as [peer | e | s | w]; cbn [lift outcome_ctx]; try discriminate.
  2: { intros Hy; inversion Hy; subst. split; [apply frame_refl | left; reflexivity]. }
  destruct (negb (cid_mem c (cs_canon_results (x_cids x)))); cbn [outcome_ctx].
  { intros Hy; inversion Hy; subst. split; [apply frame_refl | left; reflexivity]. }
  destruct c; cbn [outcome_ctx]; try discriminate.
  destruct (negb (cid_mem c (cs_tetraplets (x_cids x)))); cbn [outcome_ctx].
  { intros Hy; inversion Hy; subst. split; [apply frame_refl | left; reflexivity]. }
  destruct c; cbn [outcome_ctx]; try discriminate.
  destruct (verify_canon (canon_tetraplet peer) t); cbn [lift outcome_ctx]; try discriminate.
  2: { intros Hy; inversion Hy; subst. split; [apply frame_refl | left; reflexivity]. }
  destruct (canon_values_by_cids (x_cids x) values); cbn [lift outcome_ctx]; try discriminate.
  2: { intros Hy; inversion Hy; subst. split; [apply frame_refl | left; reflexivity]. }
  intros Hy. destruct (canon_epilog_spec _ _ _ _ _ _ Hy) as [F T].
  pose proof (hsame_record_cid x (tp_peer t) (CCanonResult (CTetraplet t) values)) as H1.
  split; [eapply frame_trans; [apply H1 | exact F] |].
  rewrite (hsame_tr _ _ H1) in T. exact T.
Qed.

Lemma app_one_neq' {A} (l : list A) a : l ++ [a] <> l.
Proof.
  intros E. assert (H : length (l ++ [a]) = length l) by (rewrite E; reflexivity).
  rewrite app_length in H. simpl in H. lia.
Qed.

(* a written state that is not new, or a canon result made at the designated peer *)
Definition ok_written (x : ctx) (p : peer_arg) (c : canon_result cid) : Prop :=
  match c with
  | CanonRequestSentBy _ => met_canon x c
  | CanonExecuted _ => met_canon x c \/ resolve_peer_id_to_string x p = POk (current_peer x)
  end.

Lemma canon_frame_case x p y :
  frame x y ->
  (tr y = tr x \/ exists c, tr y = tr x ++ [SCanon c] /\ ok_written x p c) ->
  canon_post x p y.
Proof.
  intros (F1 & F2 & F3 & F4 & F5) T.
  split; [exact F1 |]. split; [exact F2 |]. split; [exact F4 |]. split; [exact F5 |].
  split; [left; exact F3 |]. split.
  - intros s Ht Hn. exfalso. destruct T as [T | (c & T & Hc)]; rewrite T in Ht.
    + symmetry in Ht. apply (app_one_neq' _ _ Ht).
    + apply app_inv_head in Ht. inversion Ht; subst. apply Hn. exact Hc.
  - intros c0 Ht Hn. destruct T as [T | (c & T & Hc)]; rewrite T in Ht.
    + exfalso. symmetry in Ht. apply (app_one_neq' _ _ Ht).
    + apply app_inv_head in Ht. inversion Ht; subst. destruct Hc as [Hc | Hc]; [contradiction | exact Hc].
Qed.

Theorem C19_canon_proof : C19_canon_stmt.
Proof.
  intros k tb x p stream y.
  unfold exec_canon_generic.
  destruct (meet_canon_start cid cid_eqb (x_handler x)) as [[mr h] | e | s] eqn:Em; cbn [with_handler outcome_ctx]; try discriminate.
  2: { intros Hy; inversion Hy; subst. apply canon_frame_case; [apply frame_refl | left; reflexivity]. }
  cbn [fst snd]. pose proof (meet_canon_start_result _ _ _ Em) as Hr.
  set (x0 := set_handler x h).
  assert (F0 : frame x x0) by (repeat split).
  assert (T0 : tr x0 = tr x) by (unfold tr, x0; cbn [x_handler set_handler]; exact Hr).
  assert (Hres : resolve_peer_id_to_string x0 p = resolve_peer_id_to_string x p) by reflexivity.
  assert (Hfirst : forall peer, resolve_peer_id_to_string x p = POk peer -> peer = current_peer x ->
             outcome_ctx (create_canon_first_time k tb x0 stream peer) = Some y -> canon_post x p y).
  { intros peer Ep En Hy. destruct (create_canon_first_time_spec _ _ _ _ _ _ Hy) as [F T]. rewrite T0 in T.
    apply canon_frame_case; [apply (frame_trans _ _ _ F0 F) |].
    destruct T as [T | (c & T)]; [left; exact T | right; exists (CanonExecuted c); split; [exact T |]].
    right. rewrite Ep, En. reflexivity. }
  destruct mr as [| r].
  - (* nothing in the data: handle_unseen_canon *)
    rewrite Hres. destruct (resolve_peer_id_to_string x p) as [peer | e | s | w] eqn:Ep; cbn [outcome_ctx]; try discriminate.
    + destruct (negb (String.eqb (current_peer x0) peer)) eqn:En; cbn [outcome_ctx].
      * intros Hy; inversion Hy; subst. clear Hy.
        apply Bool.negb_true_iff in En. apply String.eqb_neq in En. change (current_peer x0) with (current_peer x) in En.
        match goal with |- canon_post _ _ ?yy => assert (Ty : tr yy = tr x ++ [SCanon (CanonRequestSentBy (current_peer x))]) end.
        { rewrite tr_canon_end. f_equal. exact T0. }
        split; [reflexivity |]. split; [reflexivity |]. split; [reflexivity |]. split; [reflexivity |].
        split; [right; exists peer; split; [exact Ep |]; split; [intros E; apply En; symmetry; exact E |]; split; [reflexivity | exact Ty] |].
        split.
        -- intros s0 Ht _. rewrite Ty in Ht. apply app_inv_head in Ht. inversion Ht; subst.
           split; [reflexivity |]. cbn. apply app_one_neq'.
        -- intros c Ht _. exfalso. rewrite Ty in Ht. apply app_inv_head in Ht. discriminate.
      * apply Bool.negb_false_iff in En. apply String.eqb_eq in En. change (current_peer x0) with (current_peer x) in En.
        apply (Hfirst peer eq_refl (eq_sym En)).
    + destruct (is_joinable e); cbn [outcome_ctx]; intros Hy; inversion Hy; subst;
        (apply canon_frame_case; [repeat split | left; exact T0]).
  - destruct r as [sender | c].
    + (* met: marked as sent by somebody *)
      assert (Hm : met_canon x (CanonRequestSentBy sender)) by (exists h; exact Em).
      rewrite Hres. destruct (resolve_peer_id_to_string x p) as [peer | e | s | w] eqn:Ep; cbn [lift outcome_ctx]; try discriminate.
      * destruct (negb (String.eqb (current_peer x0) peer)) eqn:En; cbn [outcome_ctx].
        -- intros Hy; inversion Hy; subst. clear Hy.
           apply canon_frame_case; [repeat split |].
           right. exists (CanonRequestSentBy sender). split; [rewrite tr_canon_end; f_equal; exact T0 | exact Hm].
        -- apply Bool.negb_false_iff in En. apply String.eqb_eq in En. change (current_peer x0) with (current_peer x) in En.
           apply (Hfirst peer eq_refl (eq_sym En)).
      * intros Hy; inversion Hy; subst. apply canon_frame_case; [exact F0 | left; exact T0].
    + (* met: executed *)
      assert (Hm : met_canon x (CanonExecuted c)) by (exists h; exact Em).
      intros Hy. destruct (handle_canon_executed_spec _ _ _ _ _ Hy) as [F T]. rewrite T0 in T.
      apply canon_frame_case; [apply (frame_trans _ _ _ F0 F) |].
      destruct T as [T | T]; [left; exact T | right; exists (CanonExecuted c); split; [exact T | left; exact Hm]].
Qed.
