(* Proofs about model/Lens.v (C24): lens selection agrees with plain JSON navigation.
   Everything is by case analysis on one accessor and structural induction on the path; no bound
   on values or paths. *)
From Coq Require Import Lia.
From Aqua Require Import Base Json Air Lens.
Open Scope N_scope.

(* ------------------------------------------------------------------------------------------ *)
(* source tie *)

Lemma lens_tables_ok :
  lambda_error_table_agrees = true /\ lambda_error_messages_agree = true /\ lens_accessor_types_agree = true.
Proof. vm_compute. repeat split. Qed.

Lemma C24_codes_holds : C24_codes_stmt.
Proof. vm_compute. reflexivity. Qed.

(* ------------------------------------------------------------------------------------------ *)
(* small facts *)

Lemma obj_get_find (f : string) (kvs : list (string * json)) :
  obj_get f kvs = option_map snd (find (fun kv => String.eqb (fst kv) f) kvs).
Proof.
  induction kvs as [|[k x] rest IH]; cbn [obj_get find fst]; [reflexivity|].
  rewrite (String.eqb_sym f k). destruct (String.eqb k f); [reflexivity | exact IH].
Qed.

Lemma z_to_u32_some (z : Z) (i : N) :
  z_to_u32 z = Some i -> (0 <= z)%Z /\ (z <= u32_max)%Z /\ i = Z.to_N z.
Proof.
  unfold z_to_u32. destruct (0 <=? z)%Z eqn:H0; destruct (z <=? u32_max)%Z eqn:H1; cbn [andb]; intros H; try discriminate.
  apply Z.leb_le in H0. apply Z.leb_le in H1. inversion H. auto.
Qed.

Lemma z_to_u32_in_range (z : Z) : (0 <= z)%Z -> (z <= u32_max)%Z -> z_to_u32 z = Some (Z.to_N z).
Proof.
  intros H0 H1. unfold z_to_u32. apply Z.leb_le in H0. apply Z.leb_le in H1. rewrite H0, H1. reflexivity.
Qed.

(* ------------------------------------------------------------------------------------------ *)
(* utils.rs against nav1 *)

Lemma try_idx_ok (v : json) (i : N) (r : json) :
  try_jvalue_with_idx v i = LamOk r <-> nav1 v (SIndex i) = Some r.
Proof.
  destruct v; cbn [try_jvalue_with_idx nav1]; try (split; intros H; discriminate).
  destruct (nth_N l i); split; intros H; inversion H; reflexivity.
Qed.

Lemma try_field_ok (v : json) (f : string) (r : json) :
  try_jvalue_with_field_name v f = LamOk r <-> nav1 v (SField f) = Some r.
Proof.
  destruct v; cbn [try_jvalue_with_field_name nav1]; try (split; intros H; discriminate).
  rewrite obj_get_find.
  destruct (find (fun kv => String.eqb (fst kv) f) kvs) as [[k x]|]; cbn [option_map snd];
    split; intros H; inversion H; reflexivity.
Qed.

Lemma select_by_jvalue_ok (v acc r : json) :
  select_by_jvalue v acc = LamOk r <-> exists s, step_of_json acc = Some s /\ nav1 v s = Some r.
Proof.
  destruct acc; cbn [select_by_jvalue step_of_json try_number_to_u32];
    try (split; [intros H; discriminate | intros (s & H & _); discriminate]).
  - (* JInt *)
    destruct (z_to_u32 z) as [i|]; cbn [option_map].
    + rewrite try_idx_ok. split.
      * intros H. exists (SIndex i). auto.
      * intros (s & Hs & Hn). inversion Hs. subst s. exact Hn.
    + split; [intros H; discriminate | intros (s & H & _); discriminate].
  - (* JStr *)
    rewrite try_field_ok. split.
    + intros H. exists (SField s). auto.
    + intros (s' & Hs & Hn). inversion Hs. subst s'. exact Hn.
Qed.

Lemma l2e_ok {A} (x : lam_res A) (r : A) : lambda_to_execution_error x = LOk r <-> x = LamOk r.
Proof. destruct x; cbn; split; intros H; inversion H; reflexivity. Qed.

Lemma l2e_catchable {A} (x : lam_res A) (c : catchable_error) :
  lambda_to_execution_error x = LCatchable c -> path_catchable c = true.
Proof. destruct x; cbn; intros H; inversion H. reflexivity. Qed.

Lemma l2e_no_crash {A} (x : lam_res A) (s : crash_site) : lambda_to_execution_error x <> LCrash s.
Proof. destruct x; cbn; discriminate. Qed.

Lemma get_value_ok (e : env) (name : string) (r : scalar_ref) : get_value e name = LOk r <-> e name = EnvRef r.
Proof. unfold get_value. destruct (e name); split; intros H; inversion H; reflexivity. Qed.

Lemma get_value_catchable (e : env) (name : string) (c : catchable_error) :
  get_value e name = LCatchable c -> path_catchable c = true.
Proof. unfold get_value. destruct (e name); intros H; inversion H; reflexivity. Qed.

Lemma get_value_no_crash (e : env) (name : string) (s : crash_site) : get_value e name <> LCrash s.
Proof. unfold get_value. destruct (e name); discriminate. Qed.

(* ------------------------------------------------------------------------------------------ *)
(* one accessor *)

Lemma apply_accessor_ok (e : env) (v : json) (a : accessor) (r : json) :
  apply_accessor e v a = LOk r <-> exists s, resolve e a = Some s /\ nav1 v s = Some r.
Proof.
  destruct a as [idx|f|sc|]; cbn [apply_accessor resolve].
  - rewrite l2e_ok, try_idx_ok. split.
    + intros H. exists (SIndex idx). auto.
    + intros (s & Hs & Hn). inversion Hs. subst s. exact Hn.
  - rewrite l2e_ok, try_field_ok. split.
    + intros H. exists (SField f). auto.
    + intros (s & Hs & Hn). inversion Hs. subst s. exact Hn.
  - unfold get_value. destruct (e sc) as [| |sr]; cbn [lbind].
    + split; [intros H; discriminate | intros (s & H & _); discriminate].
    + split; [intros H; discriminate | intros (s & H & _); discriminate].
    + rewrite l2e_ok. unfold select_by_scalar. apply select_by_jvalue_ok.
  - split; [intros H; discriminate | intros (s & H & _); discriminate].
Qed.

Lemma apply_accessor_catchable (e : env) (v : json) (a : accessor) (c : catchable_error) :
  apply_accessor e v a = LCatchable c -> path_catchable c = true.
Proof.
  destruct a as [idx|f|sc|]; cbn [apply_accessor].
  - apply l2e_catchable.
  - apply l2e_catchable.
  - destruct (get_value e sc) eqn:G; cbn [lbind].
    + apply l2e_catchable.
    + intros H. inversion H. subst c0. eapply get_value_catchable. exact G.
    + discriminate.
  - discriminate.
Qed.

Lemma apply_accessor_no_crash (e : env) (v : json) (a : accessor) (s : crash_site) :
  a <> AccessorError -> apply_accessor e v a <> LCrash s.
Proof.
  intros Ha. destruct a as [idx|f|sc|]; cbn [apply_accessor].
  - apply l2e_no_crash.
  - apply l2e_no_crash.
  - destruct (get_value e sc) eqn:G; cbn [lbind].
    + apply l2e_no_crash.
    + discriminate.
    + exfalso. eapply get_value_no_crash. exact G.
  - exfalso. apply Ha. reflexivity.
Qed.

Lemma path_parsed_cons (a : accessor) (rest : list accessor) :
  path_parsed (a :: rest) = true -> a <> AccessorError /\ path_parsed rest = true.
Proof.
  unfold path_parsed. cbn [forallb]. intros H. apply andb_true_iff in H. destruct H as [H1 H2].
  split; [|exact H2]. intros E. subst a. discriminate.
Qed.

(* ------------------------------------------------------------------------------------------ *)
(* scalars: selection = navigation *)

Lemma select_path_ok (e : env) (path : list accessor) :
  forall (v r : json),
    select_by_path_from_scalar e v path = LOk r <->
    exists ss, resolve_all e path = Some ss /\ nav v ss = Some r.
Proof.
  induction path as [|a rest IH]; intros v r; cbn [select_by_path_from_scalar resolve_all].
  - split.
    + intros H. inversion H. exists []. auto.
    + intros (ss & Hs & Hn). inversion Hs. subst ss. cbn in Hn. inversion Hn. reflexivity.
  - split.
    + intros H. destruct (apply_accessor e v a) as [v'| |] eqn:Ha; cbn [lbind] in H; try discriminate.
      apply apply_accessor_ok in Ha. destruct Ha as (s & Hs & Hn).
      apply IH in H. destruct H as (ss & Hss & Hnn).
      exists (s :: ss). rewrite Hs, Hss. split; [reflexivity|]. cbn [nav]. rewrite Hn. exact Hnn.
    + intros (ss & Hs & Hn).
      destruct (resolve e a) as [s|] eqn:Hr; [|discriminate].
      destruct (resolve_all e rest) as [ss'|] eqn:Hrr; [|discriminate].
      inversion Hs. subst ss. cbn [nav] in Hn.
      destruct (nav1 v s) as [v'|] eqn:Hn1; [|discriminate].
      assert (Ha : apply_accessor e v a = LOk v') by (apply apply_accessor_ok; exists s; auto).
      rewrite Ha. cbn [lbind]. apply IH. exists ss'. auto.
Qed.

Lemma C24_scalar_holds : C24_scalar_stmt.
Proof. intros e v path r. cbn [select_by_lambda_from_scalar]. apply select_path_ok. Qed.

Lemma select_path_catchable (e : env) (path : list accessor) :
  forall (v : json) (c : catchable_error),
    select_by_path_from_scalar e v path = LCatchable c -> path_catchable c = true.
Proof.
  induction path as [|a rest IH]; intros v c; cbn [select_by_path_from_scalar]; [discriminate|].
  destruct (apply_accessor e v a) as [v'|c'|] eqn:Ha; cbn [lbind].
  - apply IH.
  - intros H. inversion H. subst c'. eapply apply_accessor_catchable. exact Ha.
  - discriminate.
Qed.

Lemma select_path_no_crash (e : env) (path : list accessor) :
  forall (v : json) (s : crash_site),
    path_parsed path = true -> select_by_path_from_scalar e v path <> LCrash s.
Proof.
  induction path as [|a rest IH]; intros v s Hp; cbn [select_by_path_from_scalar]; [discriminate|].
  apply path_parsed_cons in Hp. destruct Hp as [Ha Hrest].
  destruct (apply_accessor e v a) as [v'|c'|s'] eqn:Hacc; cbn [lbind].
  - apply IH. exact Hrest.
  - discriminate.
  - exfalso. eapply apply_accessor_no_crash; eauto.
Qed.

Lemma C24_scalar_total_holds : C24_scalar_total_stmt.
Proof.
  intros e v path Hp. cbn [select_by_lambda_from_scalar].
  destruct (select_by_path_from_scalar e v path) as [r|c|s] eqn:Hsel.
  - apply select_path_ok. exact Hsel.
  - split.
    + eapply select_path_catchable. exact Hsel.
    + intros ss Hss. destruct (nav v ss) as [r|] eqn:Hn; [|reflexivity].
      assert (H : select_by_path_from_scalar e v path = LOk r) by (apply select_path_ok; exists ss; auto).
      rewrite H in Hsel. discriminate.
  - eapply select_path_no_crash; eauto.
Qed.

Lemma accessor_failure_reason (e : env) (v : json) (a : accessor) (c : catchable_error) :
  apply_accessor e v a = LCatchable c ->
  resolve e a = None \/ exists s, resolve e a = Some s /\ nav1 v s = None.
Proof.
  intros H. destruct (resolve e a) as [s|] eqn:Hr; [|left; reflexivity].
  right. exists s. split; [reflexivity|].
  destruct (nav1 v s) as [r|] eqn:Hn; [|reflexivity].
  assert (Ha : apply_accessor e v a = LOk r) by (apply apply_accessor_ok; exists s; auto).
  rewrite Ha in H. discriminate.
Qed.

Lemma C24_scalar_first_failure_holds : C24_scalar_first_failure_stmt.
Proof.
  intros e v path. revert v. cbn [select_by_lambda_from_scalar].
  induction path as [|a rest IH]; intros v c; cbn [select_by_path_from_scalar]; [discriminate|].
  destruct (apply_accessor e v a) as [v1|c1|s1] eqn:Ha; cbn [lbind]; intros H; try discriminate.
  - destruct (IH v1 c H) as (pre & a0 & post & ss & v' & Hpath & Hres & Hnav & Hacc & Hwhy).
    apply apply_accessor_ok in Ha. destruct Ha as (s & Hs & Hn).
    exists (a :: pre), a0, post, (s :: ss), v'. repeat split.
    + rewrite Hpath. reflexivity.
    + cbn [resolve_all]. rewrite Hs, Hres. reflexivity.
    + cbn [nav]. rewrite Hn. exact Hnav.
    + exact Hacc.
    + exact Hwhy.
  - inversion H. subst c1.
    exists [], a, rest, [], v. repeat split; try reflexivity; try exact Ha.
    eapply accessor_failure_reason. exact Ha.
Qed.

(* ------------------------------------------------------------------------------------------ *)
(* the u32 bound is invisible on values whose arrays fit 32 bits *)

Lemma nth_N_lt {A} (l : list A) : forall (i : N) (x : A), nth_N l i = Some x -> i < N.of_nat (length l).
Proof.
  induction l as [|y l IH]; intros i x H; cbn [nth_N] in H; [discriminate|].
  cbn [length]. destruct (i =? 0) eqn:E.
  - apply N.eqb_eq in E. subst i. lia.
  - apply N.eqb_neq in E. apply IH in H. lia.
Qed.

Lemma fit_arr_nth (l : list json) :
  forall (n : N) (x : json),
    (fix go (l : list json) := match l with [] => true | x :: r => arrays_fit_u32 x && go r end) l = true ->
    nth_N l n = Some x -> arrays_fit_u32 x = true.
Proof.
  induction l as [|y l IH]; intros n x Hfit Hn; cbn [nth_N] in Hn.
  - discriminate.
  - apply andb_true_iff in Hfit. destruct Hfit as [Hy Hl]. destruct (n =? 0).
    + inversion Hn. subst y. exact Hy.
    + eapply IH; eauto.
Qed.

Lemma fit_obj_find (kvs : list (string * json)) :
  forall (p : string * json -> bool) (kv : string * json),
    (fix go (l : list (string * json)) := match l with [] => true | (_, x) :: r => arrays_fit_u32 x && go r end) kvs = true ->
    find p kvs = Some kv -> arrays_fit_u32 (snd kv) = true.
Proof.
  induction kvs as [|[k y] kvs IH]; intros p kv Hfit Hf.
  - discriminate.
  - apply andb_true_iff in Hfit. destruct Hfit as [Hy Hl]. cbn [find] in Hf.
    destruct (p (k, y)).
    + inversion Hf. subst kv. exact Hy.
    + eapply IH; eauto.
Qed.

Lemma nav1_fit (v : json) (s : step) (r : json) :
  arrays_fit_u32 v = true -> nav1 v s = Some r -> arrays_fit_u32 r = true.
Proof.
  intros Hfit Hn. destruct s as [f|i]; destruct v; cbn [nav1] in Hn; try discriminate.
  - cbn [arrays_fit_u32] in Hfit.
    destruct (find (fun kv => String.eqb (fst kv) f) kvs) as [kv|] eqn:Hf; [|discriminate].
    cbn [option_map] in Hn. inversion Hn. subst r. eapply fit_obj_find; eauto.
  - cbn [arrays_fit_u32] in Hfit. apply andb_true_iff in Hfit. destruct Hfit as [_ Hl].
    eapply fit_arr_nth; eauto.
Qed.

Lemma step_narrow_to_wide (j : json) (s : step) : step_of_json j = Some s -> step_of_json_wide j = Some s.
Proof.
  destruct j; cbn [step_of_json step_of_json_wide]; try discriminate; [|auto].
  destruct (z_to_u32 z) as [i|] eqn:Hz; cbn [option_map]; [|discriminate].
  apply z_to_u32_some in Hz. destruct Hz as (H0 & _ & Hi). subst i.
  apply Z.leb_le in H0. rewrite H0. auto.
Qed.

Lemma step_wide_to_narrow (v j : json) (s : step) (r : json) :
  arrays_fit_u32 v = true -> step_of_json_wide j = Some s -> nav1 v s = Some r -> step_of_json j = Some s.
Proof.
  intros Hfit Hs Hn. destruct j; cbn [step_of_json step_of_json_wide] in *; try discriminate; [|exact Hs].
  destruct (0 <=? z)%Z eqn:H0; [|discriminate]. inversion Hs. subst s. apply Z.leb_le in H0.
  destruct v; cbn [nav1] in Hn; try discriminate.
  cbn [arrays_fit_u32] in Hfit. apply andb_true_iff in Hfit. destruct Hfit as [Hlen _].
  apply N.leb_le in Hlen.
  assert (Hlt : Z.to_N z < N.of_nat (length l)) by (eapply nth_N_lt; exact Hn).
  rewrite z_to_u32_in_range; [reflexivity | exact H0 | unfold u32_max; lia].
Qed.

Lemma apply_accessor_ok_wide (e : env) (v : json) (a : accessor) (r : json) :
  arrays_fit_u32 v = true ->
  (apply_accessor e v a = LOk r <-> exists s, resolve_wide e a = Some s /\ nav1 v s = Some r).
Proof.
  intros Hfit. rewrite apply_accessor_ok. split.
  - intros (s & Hs & Hn). exists s. split; [|exact Hn].
    destruct a as [idx|f|sc|]; cbn [resolve resolve_wide] in *; try exact Hs.
    destruct (e sc) as [| |sr]; try discriminate. apply step_narrow_to_wide. exact Hs.
  - intros (s & Hs & Hn). exists s. split; [|exact Hn].
    destruct a as [idx|f|sc|]; cbn [resolve resolve_wide] in *; try exact Hs.
    destruct (e sc) as [| |sr]; try discriminate. eapply step_wide_to_narrow; eauto.
Qed.

Lemma C24_scalar_wide_holds : C24_scalar_wide_stmt.
Proof.
  intros e v path. revert v. cbn [select_by_lambda_from_scalar].
  induction path as [|a rest IH]; intros v r Hfit; cbn [select_by_path_from_scalar resolve_all_wide].
  - split.
    + intros H. inversion H. exists []. auto.
    + intros (ss & Hs & Hn). inversion Hs. subst ss. cbn in Hn. inversion Hn. reflexivity.
  - split.
    + intros H. destruct (apply_accessor e v a) as [v'| |] eqn:Ha; cbn [lbind] in H; try discriminate.
      apply (apply_accessor_ok_wide e v a v' Hfit) in Ha. destruct Ha as (s & Hs & Hn).
      apply (IH v' r (nav1_fit _ _ _ Hfit Hn)) in H. destruct H as (ss & Hss & Hnn).
      exists (s :: ss). rewrite Hs, Hss. split; [reflexivity|]. cbn [nav]. rewrite Hn. exact Hnn.
    + intros (ss & Hs & Hn).
      destruct (resolve_wide e a) as [s|] eqn:Hr; [|discriminate].
      destruct (resolve_all_wide e rest) as [ss'|] eqn:Hrr; [|discriminate].
      inversion Hs. subst ss. cbn [nav] in Hn.
      destruct (nav1 v s) as [v'|] eqn:Hn1; [|discriminate].
      assert (Ha : apply_accessor e v a = LOk v') by (apply (apply_accessor_ok_wide e v a v' Hfit); exists s; auto).
      rewrite Ha. cbn [lbind]. apply (IH v' r (nav1_fit _ _ _ Hfit Hn1)). exists ss'. auto.
Qed.

(* ------------------------------------------------------------------------------------------ *)
(* .length *)

Lemma C24_length_holds : C24_length_stmt.
Proof.
  intros e v. repeat split.
  - intros l Hv. subst v. reflexivity.
  - intros Hv. destruct v; try reflexivity. exfalso. apply (Hv l). reflexivity.
Qed.

(* ------------------------------------------------------------------------------------------ *)
(* canon streams *)

Lemma try_jvalue_as_idx_ok (j : json) (i : N) :
  try_jvalue_as_idx j = LamOk i <-> step_of_json j = Some (SIndex i).
Proof.
  destruct j; cbn [try_jvalue_as_idx try_number_to_u32 step_of_json]; try (split; intros H; discriminate).
  destruct (z_to_u32 z) as [k|]; cbn [option_map]; split; intros H; inversion H; reflexivity.
Qed.

Lemma split_to_idx_ok (e : env) (a : accessor) (body : list accessor) (i : N) (b : list accessor) :
  split_to_idx e (a :: body) = LOk (i, b) <-> resolve e a = Some (SIndex i) /\ b = body.
Proof.
  destruct a as [idx|f|sc|]; cbn [split_to_idx resolve].
  - split.
    + intros H. inversion H. auto.
    + intros [H1 H2]. inversion H1. subst. reflexivity.
  - split; [intros H; discriminate | intros [H _]; discriminate].
  - unfold get_value. destruct (e sc) as [| |sr]; cbn [lbind].
    + split; [intros H; discriminate | intros [H _]; discriminate].
    + split; [intros H; discriminate | intros [H _]; discriminate].
    + unfold try_scalar_ref_as_idx.
      destruct (try_jvalue_as_idx (sr_result sr)) as [k|err] eqn:Ht; cbn [lambda_to_execution_error lbind].
      * apply try_jvalue_as_idx_ok in Ht. rewrite Ht. split.
        -- intros H. inversion H. auto.
        -- intros [H1 H2]. inversion H1. subst. reflexivity.
      * split; [intros H; discriminate|]. intros [H1 _].
        apply try_jvalue_as_idx_ok in H1. rewrite H1 in Ht. discriminate.
  - split; [intros H; discriminate | intros [H _]; discriminate].
Qed.

Lemma split_to_idx_catchable (e : env) (path : list accessor) (c : catchable_error) :
  split_to_idx e path = LCatchable c -> path_catchable c = true.
Proof.
  destruct path as [|a body]; cbn [split_to_idx]; [discriminate|].
  destruct a as [idx|f|sc|]; try discriminate.
  - intros H. inversion H. reflexivity.
  - destruct (get_value e sc) eqn:G; cbn [lbind].
    + destruct (try_scalar_ref_as_idx a) eqn:Ht; cbn [lambda_to_execution_error lbind]; [discriminate|].
      intros H. inversion H. reflexivity.
    + intros H. inversion H. subst c0. eapply get_value_catchable. exact G.
    + discriminate.
Qed.

Lemma split_to_idx_no_crash (e : env) (a : accessor) (body : list accessor) (s : crash_site) :
  a <> AccessorError -> split_to_idx e (a :: body) <> LCrash s.
Proof.
  intros Ha. destruct a as [idx|f|sc|]; cbn [split_to_idx]; try discriminate.
  - destruct (get_value e sc) eqn:G; cbn [lbind].
    + destruct (try_scalar_ref_as_idx a) eqn:Ht; cbn [lambda_to_execution_error lbind]; discriminate.
    + discriminate.
    + exfalso. eapply get_value_no_crash. exact G.
  - exfalso. apply Ha. reflexivity.
Qed.

Lemma stream_nth_ok (elems : list json) (i : N) (x : json) :
  stream_nth elems i = LOk x <-> nth_N elems i = Some x.
Proof.
  unfold stream_nth. destruct (nth_N elems i); split; intros H; inversion H; reflexivity.
Qed.

Lemma C24_canon_stream_first_holds : C24_canon_stream_first_stmt.
Proof.
  intros e elems a body r. cbn [select_by_lambda_from_stream select_by_lambda_from_scalar].
  unfold select_by_path_from_stream. split.
  - intros H. destruct (split_to_idx e (a :: body)) as [[i b]| |] eqn:Hs; cbn [lbind fst snd] in H; try discriminate.
    apply split_to_idx_ok in Hs. destruct Hs as [Hr Hb]. subst b.
    destruct (stream_nth elems i) as [x| |] eqn:Hn; cbn [lbind] in H; try discriminate.
    apply stream_nth_ok in Hn. exists i, x. auto.
  - intros (i & x & Hr & Hn & Hsel).
    assert (Hs : split_to_idx e (a :: body) = LOk (i, body)) by (apply split_to_idx_ok; auto).
    rewrite Hs. cbn [lbind fst snd].
    apply stream_nth_ok in Hn. rewrite Hn. cbn [lbind]. exact Hsel.
Qed.

Lemma select_stream_ok (e : env) (elems : list json) (a : accessor) (body : list accessor) (r : json) :
  select_by_path_from_stream e elems (a :: body) = LOk r <->
  exists ss, resolve_all e (a :: body) = Some ss /\ nav (JArr elems) ss = Some r.
Proof.
  pose proof (C24_canon_stream_first_holds e elems a body r) as F.
  cbn [select_by_lambda_from_stream select_by_lambda_from_scalar] in F. rewrite F. clear F. split.
  - intros (i & x & Hr & Hn & Hsel). apply select_path_ok in Hsel. destruct Hsel as (ss & Hss & Hnav).
    exists (SIndex i :: ss). cbn [resolve_all nav nav1]. rewrite Hr, Hss, Hn. auto.
  - intros (ss & Hs & Hnav). cbn [resolve_all] in Hs.
    destruct (resolve e a) as [s|] eqn:Hr; [|discriminate].
    destruct (resolve_all e body) as [ss'|] eqn:Hrr; [|discriminate].
    inversion Hs. subst ss. cbn [nav] in Hnav.
    destruct s as [f|i]; cbn [nav1] in Hnav; [discriminate|].
    destruct (nth_N elems i) as [x|] eqn:Hn; [|discriminate].
    exists i, x. repeat split; auto. apply select_path_ok. exists ss'. auto.
Qed.

Lemma C24_canon_stream_holds : C24_canon_stream_stmt.
Proof.
  intros e elems path r Hne. destruct path as [|a body]; [exfalso; apply Hne; reflexivity|].
  cbn [select_by_lambda_from_stream]. apply select_stream_ok.
Qed.

Lemma select_stream_catchable (e : env) (elems : list json) (path : list accessor) (c : catchable_error) :
  select_by_path_from_stream e elems path = LCatchable c -> path_catchable c = true.
Proof.
  unfold select_by_path_from_stream.
  destruct (split_to_idx e path) as [[i b]|c'|] eqn:Hs; cbn [lbind fst snd].
  - unfold stream_nth. destruct (nth_N elems i); cbn [lbind].
    + apply select_path_catchable.
    + intros H. inversion H. reflexivity.
  - intros H. inversion H. subst c'. eapply split_to_idx_catchable. exact Hs.
  - discriminate.
Qed.

Lemma split_to_idx_body (e : env) (a : accessor) (body : list accessor) (i : N) (b : list accessor) :
  split_to_idx e (a :: body) = LOk (i, b) -> b = body.
Proof. intros H. apply split_to_idx_ok in H. tauto. Qed.

Lemma select_stream_no_crash (e : env) (elems : list json) (a : accessor) (body : list accessor) (s : crash_site) :
  path_parsed (a :: body) = true -> select_by_path_from_stream e elems (a :: body) <> LCrash s.
Proof.
  intros Hp. apply path_parsed_cons in Hp. destruct Hp as [Ha Hbody].
  unfold select_by_path_from_stream.
  destruct (split_to_idx e (a :: body)) as [[i b]|c'|s'] eqn:Hs; cbn [lbind fst snd].
  - apply split_to_idx_body in Hs. subst b.
    unfold stream_nth. destruct (nth_N elems i); cbn [lbind]; [|discriminate].
    apply select_path_no_crash. exact Hbody.
  - discriminate.
  - exfalso. eapply split_to_idx_no_crash; eauto.
Qed.

Lemma C24_canon_stream_total_holds : C24_canon_stream_total_stmt.
Proof.
  intros e elems path Hp Hne. destruct path as [|a body]; [exfalso; apply Hne; reflexivity|].
  cbn [select_by_lambda_from_stream].
  destruct (select_by_path_from_stream e elems (a :: body)) as [r|c|s] eqn:Hsel.
  - apply select_stream_ok. exact Hsel.
  - split.
    + eapply select_stream_catchable. exact Hsel.
    + intros ss Hss. destruct (nav (JArr elems) ss) as [r|] eqn:Hn; [|reflexivity].
      assert (H : select_by_path_from_stream e elems (a :: body) = LOk r) by (apply select_stream_ok; exists ss; auto).
      rewrite H in Hsel. discriminate.
  - eapply select_stream_no_crash; eauto.
Qed.

(* ------------------------------------------------------------------------------------------ *)
(* canon maps *)

(* the special case `body.is_empty()` of select_by_path_from_canon_map_stream changes nothing for
   the value: it is the canon-stream selection on the key's group *)
Lemma canon_map_stream_is_stream (e : env) (g : list json) (path : list accessor) :
  select_by_path_from_canon_map_stream e g path = select_by_path_from_stream e g path.
Proof.
  unfold select_by_path_from_canon_map_stream, select_by_path_from_stream.
  destruct (split_to_idx e path) as [[i b]| |]; cbn [lbind fst snd]; try reflexivity.
  destruct (stream_nth g i); cbn [lbind]; try reflexivity.
  destruct b; reflexivity.
Qed.

Lemma canon_map_key_ok (e : env) (a : accessor) (k : map_key) :
  canon_map_key e a = LOk k <-> resolve_key e a = Some k.
Proof.
  destruct a as [idx|f|sc|]; cbn [canon_map_key resolve_key].
  - split; intros H; inversion H; reflexivity.
  - split; intros H; inversion H; reflexivity.
  - unfold get_value. destruct (e sc) as [| |sr]; cbn [lbind]; try (split; intros H; discriminate).
    destruct sr as [j|j]; cbn [try_scalar_ref_as_stream_map_key].
    + destruct (stream_map_key_from_value j); cbn [lambda_to_execution_error]; split; intros H; inversion H; reflexivity.
    + cbn [lambda_to_execution_error]. split; intros H; discriminate.
  - split; intros H; discriminate.
Qed.

Lemma canon_map_key_catchable (e : env) (a : accessor) (c : catchable_error) :
  canon_map_key e a = LCatchable c -> path_catchable c = true.
Proof.
  destruct a as [idx|f|sc|]; cbn [canon_map_key]; try discriminate.
  destruct (get_value e sc) eqn:G; cbn [lbind].
  - apply l2e_catchable.
  - intros H. inversion H. subst c0. eapply get_value_catchable. exact G.
  - discriminate.
Qed.

Lemma canon_map_key_no_crash (e : env) (a : accessor) (s : crash_site) :
  a <> AccessorError -> canon_map_key e a <> LCrash s.
Proof.
  intros Ha. destruct a as [idx|f|sc|]; cbn [canon_map_key]; try discriminate.
  - destruct (get_value e sc) eqn:G; cbn [lbind].
    + apply l2e_no_crash.
    + discriminate.
    + exfalso. eapply get_value_no_crash. exact G.
  - exfalso. apply Ha. reflexivity.
Qed.

Lemma C24_canon_map_holds : C24_canon_map_stmt.
Proof.
  intros e cm a body r. cbn [select_by_lambda_from_canon_map select_by_path_from_canon_map].
  destruct (canon_map_key e a) as [k|c|s] eqn:Hk; cbn [lbind].
  - apply canon_map_key_ok in Hk. unfold canon_map_index.
    destruct (key_group cm k) as [|x g] eqn:Hg.
    + (* absent key *)
      assert (E : (match body with [] => LOk (JArr []) | _ :: _ => LOk (JArr []) end : lres json) = LOk (JArr []))
        by (destruct body; reflexivity).
      split.
      * intros H. exists k. split; [exact Hk|]. rewrite Hg.
        destruct body; inversion H; reflexivity.
      * intros (k' & Hk' & Hm). rewrite Hk in Hk'. inversion Hk'. subst k'. rewrite Hg in Hm. subst r.
        destruct body; reflexivity.
    + destruct body as [|b bs].
      * split.
        -- intros H. inversion H. exists k. split; [exact Hk|]. rewrite Hg. exists []. auto.
        -- intros (k' & Hk' & Hm). rewrite Hk in Hk'. inversion Hk'. subst k'. rewrite Hg in Hm.
           destruct Hm as (ss & Hss & Hn). cbn in Hss. inversion Hss. subst ss. cbn in Hn. inversion Hn. reflexivity.
      * rewrite canon_map_stream_is_stream, select_stream_ok. split.
        -- intros H. exists k. split; [exact Hk|]. rewrite Hg. exact H.
        -- intros (k' & Hk' & Hm). rewrite Hk in Hk'. inversion Hk'. subst k'. rewrite Hg in Hm. exact Hm.
  - split; [intros H; discriminate|]. intros (k & Hk' & _).
    apply canon_map_key_ok in Hk'. rewrite Hk' in Hk. discriminate.
  - split; [intros H; discriminate|]. intros (k & Hk' & _).
    apply canon_map_key_ok in Hk'. rewrite Hk' in Hk. discriminate.
Qed.

Lemma C24_canon_map_partial_holds : C24_canon_map_partial_stmt.
Proof.
  intros e cm a body r Hside. rewrite (C24_canon_map_holds e cm a body r). split.
  - intros (k & Hk & Hm). destruct (key_group cm k) as [|x g] eqn:Hg.
    + destruct Hside as [Hb | Hpresent].
      * subst body r. exists k, []. rewrite Hg. auto.
      * exfalso. apply (Hpresent k Hk). exact Hg.
    + destruct Hm as (ss & Hss & Hn). exists k, ss. rewrite Hg. auto.
  - intros (k & ss & Hk & Hss & Hn). exists k. split; [exact Hk|].
    destruct (key_group cm k) as [|x g] eqn:Hg.
    + destruct Hside as [Hb | Hpresent].
      * subst body. cbn in Hss. inversion Hss. subst ss. cbn in Hn. inversion Hn. reflexivity.
      * exfalso. apply (Hpresent k Hk). exact Hg.
    + exists ss. auto.
Qed.

Lemma C24_canon_map_full_refuted : C24_canon_map_full_refuted_stmt.
Proof.
  exists (fun _ => EnvNotFound), [], (FieldAccessByName "nokey"), [ArrayAccess 0], (JArr []).
  split; [reflexivity|].
  intros (k & ss & Hk & Hss & Hn). cbn in Hss. inversion Hss. subst ss.
  cbn in Hk. inversion Hk. subst k. cbn in Hn. discriminate.
Qed.

Lemma C24_canon_map_not_full : ~ C24_canon_map_full.
Proof.
  intros F. destruct C24_canon_map_full_refuted as (e & cm & a & body & r & Hsel & Hno).
  apply Hno. apply F. exact Hsel.
Qed.

Lemma C24_canon_map_iterable_key_holds : C24_canon_map_iterable_key_stmt.
Proof.
  intros e cm s j body He.
  cbn [select_by_lambda_from_canon_map select_by_path_from_canon_map canon_map_key].
  unfold get_value. rewrite He. reflexivity.
Qed.

Lemma C24_canon_map_total_holds : C24_canon_map_total_stmt.
Proof.
  intros e cm path Hp Hne. destruct path as [|a body]; [exfalso; apply Hne; reflexivity|].
  pose proof (path_parsed_cons _ _ Hp) as [Ha Hbody].
  cbn [select_by_lambda_from_canon_map select_by_path_from_canon_map].
  destruct (canon_map_key e a) as [k|c|s] eqn:Hk; cbn [lbind].
  - destruct body as [|b bs]; destruct (canon_map_index cm k) as [g|]; try exact I.
    rewrite canon_map_stream_is_stream.
    destruct (select_by_path_from_stream e g (b :: bs)) as [r|c|s] eqn:Hsel.
    + exact I.
    + eapply select_stream_catchable. exact Hsel.
    + eapply select_stream_no_crash; eauto.
  - eapply canon_map_key_catchable. exact Hk.
  - eapply canon_map_key_no_crash; eauto.
Qed.
