(* props/C24.v -- lens selection agrees with plain JSON selection.
   Only pinned statements, [exact], non-vacuity examples and Print Assumptions.
   The statements ([..._stmt]) are defined in model/Lens.v next to the functions they talk about. *)
From Aqua Require Import Base Json Air Lens LensProofs.
Open Scope N_scope.

(* selection on a scalar succeeds with r iff the accessors resolve to steps ss and nav v ss = Some r
   -- for every environment, every JSON value and every path *)
Theorem C24_scalar :
  forall (e : env) (v : json) (path : list accessor) (r : json),
    select_by_lambda_from_scalar e v (LValuePath path) = LOk r <->
    exists ss, resolve_all e path = Some ss /\ nav v ss = Some r.
Proof. exact C24_scalar_holds. Qed.

(* it fails, with a catchable error of the lens family, exactly when navigation is impossible;
   no panic on a lens the parser produced *)
Theorem C24_scalar_total : C24_scalar_total_stmt.
Proof. exact C24_scalar_total_holds. Qed.

(* the error is the one of the first accessor that cannot be followed *)
Theorem C24_scalar_first_failure : C24_scalar_first_failure_stmt.
Proof. exact C24_scalar_first_failure_holds. Qed.

(* the u32 conversion of indices taken from scalars is invisible on values whose arrays fit 32 bits *)
Theorem C24_scalar_wide : C24_scalar_wide_stmt.
Proof. exact C24_scalar_wide_holds. Qed.

(* .length on scalars (arrays only), canon streams and canon maps *)
Theorem C24_length : C24_length_stmt.
Proof. exact C24_length_holds. Qed.

(* a canon stream is navigated as the array of its elements ... *)
Theorem C24_canon_stream : C24_canon_stream_stmt.
Proof. exact C24_canon_stream_holds. Qed.

(* ... the first accessor must give an index, the rest is applied to that element as to a scalar ... *)
Theorem C24_canon_stream_first : C24_canon_stream_first_stmt.
Proof. exact C24_canon_stream_first_holds. Qed.

(* ... and failures are catchable, exactly when navigation is impossible *)
Theorem C24_canon_stream_total : C24_canon_stream_total_stmt.
Proof. exact C24_canon_stream_total_holds. Qed.

(* canon maps as the code behaves: the first accessor selects a key group, navigated as an array;
   an absent key gives [] whatever follows *)
Theorem C24_canon_map : C24_canon_map_stmt.
Proof. exact C24_canon_map_holds. Qed.

Theorem C24_canon_map_total : C24_canon_map_total_stmt.
Proof. exact C24_canon_map_total_holds. Qed.

(* the reading "an absent key is an empty group, navigated like any other" holds when the key is
   present or nothing follows it ... *)
Theorem C24_canon_map_partial : C24_canon_map_partial_stmt.
Proof. exact C24_canon_map_partial_holds. Qed.

(* ... and is refuted in general: `#%m.$.nokey.[0]` on an empty map is `[]`, not an error *)
Theorem C24_canon_map_full_refuted : ~ C24_canon_map_full.
Proof. exact C24_canon_map_not_full. Qed.

(* a key held by a fold iterator is always refused *)
Theorem C24_canon_map_iterable_key : C24_canon_map_iterable_key_stmt.
Proof. exact C24_canon_map_iterable_key_holds. Qed.

(* the model's error enumeration, the message templates the harness relies on, the accepted
   accessor types and the error codes are the ones found in /repo's sources today *)
Theorem C24_source_tie :
  (lambda_error_table_agrees = true /\ lambda_error_messages_agree = true /\ lens_accessor_types_agree = true) /\
  C24_codes_stmt.
Proof. exact (conj lens_tables_ok C24_codes_holds). Qed.

(* ---- non-vacuity ---- *)
Definition C24_ex_value : json :=
  JObj [("a", JArr [JInt 1; JFloat "2.5"; JObj [("b", JNull)]]); ("c", JStr "x")]%string.
Definition C24_ex_env : env :=
  fun n => if String.eqb n "k" then EnvRef (SrValue (JInt 2))
           else if String.eqb n "f" then EnvRef (SrIterable (JStr "a"))
           else if String.eqb n "neg" then EnvRef (SrValue (JInt (-1)))
           else if String.eqb n "flt" then EnvRef (SrValue (JFloat "1.0"))
           else if String.eqb n "u" then EnvUninit
           else EnvNotFound.

(* a path through two scalars succeeds and is the navigation result; failures of every family occur *)
Example C24_nonvacuous_scalar :
  select_by_lambda_from_scalar C24_ex_env C24_ex_value
    (LValuePath [FieldAccessByScalar "f"; FieldAccessByScalar "k"; FieldAccessByName "b"]) = LOk JNull /\
  resolve_all C24_ex_env [FieldAccessByScalar "f"; FieldAccessByScalar "k"; FieldAccessByName "b"]
    = Some [SField "a"; SIndex 2; SField "b"] /\
  nav C24_ex_value [SField "a"; SIndex 2; SField "b"] = Some JNull /\
  select_by_lambda_from_scalar C24_ex_env C24_ex_value (LValuePath [FieldAccessByName "a"; ArrayAccess 3])
    = LCatchable (LambdaApplierError (ValueNotContainSuchArrayIdx (JArr [JInt 1; JFloat "2.5"; JObj [("b", JNull)]]) 3)) /\
  select_by_lambda_from_scalar C24_ex_env C24_ex_value (LValuePath [FieldAccessByName "a"; FieldAccessByScalar "neg"])
    = LCatchable (LambdaApplierError (IndexAccessNotU32 (JInt (-1)))) /\
  select_by_lambda_from_scalar C24_ex_env C24_ex_value (LValuePath [FieldAccessByName "a"; FieldAccessByScalar "flt"])
    = LCatchable (LambdaApplierError (IndexAccessNotU32 (JFloat "1.0"))) /\
  select_by_lambda_from_scalar C24_ex_env C24_ex_value (LValuePath [FieldAccessByName "c"; FieldAccessByName "d"])
    = LCatchable (LambdaApplierError (FieldAccessorNotMatchValue (JStr "x") "d")) /\
  select_by_lambda_from_scalar C24_ex_env C24_ex_value (LValuePath [FieldAccessByScalar "u"])
    = LCatchable (VariableWasNotInitializedAfterNew "u") /\
  select_by_lambda_from_scalar C24_ex_env C24_ex_value (LValuePath [FieldAccessByScalar "nope"])
    = LCatchable (VariableNotFound "nope") /\
  select_by_lambda_from_scalar C24_ex_env C24_ex_value LFunctorLength
    = LCatchable (LengthFunctorAppliedToNotArray C24_ex_value) /\
  select_by_lambda_from_scalar C24_ex_env (JArr [JNull; JNull]) LFunctorLength = LOk (JInt 2).
Proof. vm_compute. repeat split. Qed.

Example C24_nonvacuous_stream_and_map :
  select_by_lambda_from_stream C24_ex_env [JInt 7; C24_ex_value] (LValuePath [ArrayAccess 1; FieldAccessByName "c"]) = LOk (JStr "x") /\
  nav (JArr [JInt 7; C24_ex_value]) [SIndex 1; SField "c"] = Some (JStr "x") /\
  select_by_lambda_from_stream C24_ex_env [JInt 7] (LValuePath [FieldAccessByName "c"])
    = LCatchable (LambdaApplierError (FieldAccessorAppliedToStream "c")) /\
  select_by_lambda_from_stream C24_ex_env [JInt 7] (LValuePath [FieldAccessByScalar "k"])
    = LCatchable (LambdaApplierError (CanonStreamNotHaveEnoughValues 1 2)) /\
  select_by_lambda_from_canon_map C24_ex_env [(MKStr "x", JInt 1); (MKInt 2, JInt 5); (MKStr "x", C24_ex_value)]
    (LValuePath [FieldAccessByName "x"; ArrayAccess 1; FieldAccessByName "c"]) = LOk (JStr "x") /\
  select_by_lambda_from_canon_map C24_ex_env [(MKStr "x", JInt 1); (MKInt 2, JInt 5); (MKStr "x", C24_ex_value)]
    (LValuePath [FieldAccessByScalar "k"]) = LOk (JArr [JInt 5]) /\
  select_by_lambda_from_canon_map C24_ex_env [(MKStr "x", JInt 1)]
    (LValuePath [FieldAccessByName "y"; ArrayAccess 0; FieldAccessByName "zz"]) = LOk (JArr []) /\
  select_by_lambda_from_canon_map C24_ex_env [(MKStr "a", JInt 1)]
    (LValuePath [FieldAccessByScalar "f"]) = LCatchable (LambdaApplierError CanonStreamMapAccessorMustNotBeIterable).
Proof. vm_compute. repeat split. Qed.

Print Assumptions C24_scalar.
Print Assumptions C24_scalar_total.
Print Assumptions C24_scalar_first_failure.
Print Assumptions C24_scalar_wide.
Print Assumptions C24_length.
Print Assumptions C24_canon_stream.
Print Assumptions C24_canon_stream_first.
Print Assumptions C24_canon_stream_total.
Print Assumptions C24_canon_map.
Print Assumptions C24_canon_map_total.
Print Assumptions C24_canon_map_partial.
Print Assumptions C24_canon_map_full_refuted.
Print Assumptions C24_canon_map_iterable_key.
Print Assumptions C24_source_tie.
