(* WfCases.v -- the C10 oracle on what the implementation produced.
   (1) every output trace of every run of a generated history: harness/src/bin/wftrace.rs runs the real
       `air::execute_air` and prints the trace of every produced data ([wcase]; content ids replaced by
       numbers); the same oracle is defined on the cases of the `exec` driver ([oracle_wf], ExecCases.case_t);
   (2) the real TraceHandler driven through its public API by a driver forest of model/WfTrace.v
       (harness/src/bin/handler.rs, cases of HandlerCases.v). *)
From Aqua Require Import Base Trace Handler HandlerCases WfTrace.
Open Scope N_scope.
Open Scope list_scope.

(* ---- (1) histories ---- *)
Record wcase := { wc_kind : N;   (* 0 new data; 1 previous data returned; 2 panic; 3 empty data *)
                  wc_trace : list (state N) }.
Definition wproduced (c : wcase) : option (list (state N)) := if wc_kind c =? 0 then Some (wc_trace c) else None.
Definition w_wf (c : wcase) : bool := match wproduced c with Some t => wf_trace_b N t | None => true end.
(* the three clauses separately, to say which one failed *)
Definition w_struct (c : wcase) : bool := match wproduced c with Some t => wf_struct_b N t | None => true end.
Definition w_value_pos (c : wcase) : bool := match wproduced c with Some t => vp_ok_b N t | None => true end.
Definition w_no_stub (c : wcase) : bool := match wproduced c with Some t => no_stub_b N t | None => true end.
(* informative (not C10): the reader's grouping by generation tiles as well, value positions distinct *)
Definition w_reader (c : wcase) : bool := match wproduced c with Some t => reader_ok_b N t | None => true end.

(* ---- (2) the real TraceHandler driven by a driver forest ---- *)
Definition ops_vsel (id : N) (v : vsel) : hop := match v with VPos p => OpIterStartPos id p | VNth k => OpIterStartNth id k end.
Definition ops_call (c : call_drive string) : list hop :=
  match c with
  | CallAuto d up => [OpCallAuto d up]
  | CallRaw None => [OpCallStart]
  | CallRaw (Some st) => [OpCallStart; OpCallEnd st]
  end.
Definition ops_ap (a : ap_drive) : list hop :=
  match a with ApAuto d => [OpApAuto d] | ApRaw g => [OpApStart; OpApEnd g] end.
Definition ops_canon (c : canon_drive string) : list hop :=
  match c with
  | CanonAuto d up => [OpCanonAuto d up]
  | CanonRaw None => [OpCanonStart]
  | CanonRaw (Some st) => [OpCanonStart; OpCanonEnd st]
  end.

(* the meet_* call sequence of a driver forest, as ops of HandlerCases.v *)
Fixpoint ops_dt (d : dt string) : list hop :=
  match d with
  | DCall c => ops_call c
  | DAp a => ops_ap a
  | DCanon c => ops_canon c
  | DPar l r => [OpParStart] ++ ops_dts l ++ [OpParEnd true] ++ ops_dts r ++ [OpParEnd false]
  | DFold id gs => [OpFoldStart id] ++ ops_gens id gs ++ [OpFoldEnd id]
  | DGens us => map (fun pg => OpUpdateGen (fst pg) (snd pg)) us
  end
with ops_dts (ds : dts string) : list hop :=
  match ds with
  | DNil => []
  | DCons d r => ops_dt d ++ ops_dts r
  end
with ops_gens (id : N) (gs : gens string) : list hop :=
  match gs with
  | GNil => []
  | GCons v b r => [ops_vsel id v] ++ ops_body id b ++ [OpGenEnd id] ++ ops_gens id r
  end
with ops_body (id : N) (b : body string) : list hop :=
  match b with
  | BPlain ds => ops_dts ds
  | BHole ds hl after => ops_dts ds ++ ops_hole id hl ++ ops_dts after
  end
with ops_hole (id : N) (hl : hole string) : list hop :=
  match hl with
  | HNextMore v b back => [OpIterEnd id; ops_vsel id v] ++ ops_body id b ++ (if back then [OpBackIter id] else [])
  | HNextEnd last => [OpIterEnd id; OpBackIter id] ++ ops_dts last
  | HParL b r => [OpParStart] ++ ops_body id b ++ [OpParEnd true] ++ ops_dts r ++ [OpParEnd false]
  | HParR l b => [OpParStart] ++ ops_dts l ++ [OpParEnd true] ++ ops_body id b ++ [OpParEnd false]
  end.

Record wtcase := { wt_tree : dts string; wt_case : hcase }.

(* the handler model, run on the op sequence of the tree, against what the implementation did under the
   generator's op sequence (a difference between the two flattenings shows as a disagreement) *)
Definition wt_model (c : wtcase) : bool :=
  let k := wt_case c in
  check_case {| hc_prev := hc_prev k; hc_cur := hc_cur k; hc_ops := ops_dts (wt_tree c);
                hc_obs := hc_obs k; hc_result := hc_result k |}.
(* [drive] (the function the C10 theorems are about) against the implementation's result trace *)
Definition wt_drive (c : wtcase) : bool :=
  let k := wt_case c in
  match drive string String.eqb (wt_tree c) (handler_from string (hc_prev k) (hc_cur k)) with
  | Ok h => option_eqb (trace_eqb string String.eqb) (Some (result_trace string h)) (hc_result k)
  | _ => match hc_result k with None => true | Some _ => false end
  end.
(* C10 on the real result: par and fold structure whenever the drive succeeded ... *)
Definition wt_oracle_struct (c : wtcase) : bool :=
  match hc_result (wt_case c) with Some t => wf_struct_b string t | None => true end.
(* ... and the value_pos clause whenever every iteration was started at an earlier stream value entry *)
Definition wt_oracle_value_pos (c : wtcase) : bool :=
  let k := wt_case c in
  match drive_chk string String.eqb (wt_tree c) (handler_from string (hc_prev k) (hc_cur k)), hc_result k with
  | Ok _, Some t => vp_ok_b string t
  | _, _ => true
  end.
Definition wt_succeeded (c : wtcase) : bool := match hc_result (wt_case c) with Some _ => true | None => false end.
Definition wt_has_fold (c : wtcase) : bool :=
  match hc_result (wt_case c) with Some t => existsb (fun s => match s with SFold (_ :: _) => true | _ => false end) t | None => false end.

(* running a call sequence with [step] of HandlerCases.v, keeping the handler (the run stops at the first error) *)
Fixpoint exec_ops (ops : list hop) (h : hhandler) : option hhandler :=
  match ops with
  | [] => Some h
  | o :: r => match step h o with (_, Some h') => exec_ops r h' | (_, None) => None end
  end.
Definition res_to_option {A} (r : res A) : option A := match r with Ok a => Some a | _ => None end.
(* the flattening is faithful: the call sequence of a forest, run op by op, is [drive] *)
Definition C10_ops_tie_stmt : Prop :=
  forall ds h, exec_ops (ops_dts ds) h = res_to_option (drive string String.eqb ds h).
