"""C14 -- forged or replayed results from other peers are never accepted."""
import json
import re

import airgen
import vlib

PID = "C14"
MODEL_TARGETS = ["model/ForgeCases.vo"]
HARNESS_BINS = ["forge14"]
RULE = ("a generated history (script, 3 peers signing their own results, schedule) is run with the network simulator under a particle id "
        "and, with the same schedule, under another one; a case is ONE delivery of that history (sender = attacker, receiver = victim with "
        "its own previous data) whose real current data was decoded, edited structurally by one or two operations of the tamper catalogue "
        "(value under the same id / value with the id chain recomputed; tetraplet peer (to the attacker, to a third peer), service, function, "
        "tetraplet under the same id; argument hash recomputed / under the same id; result moved to another call position or into a pending "
        "slot; Failed<->Executed (both directions: one service returns an object shaped like a failure), Scalar<->Stream, result->Unused; "
        "Unused value / pending->Unused; signature swapped, taken from the attacker, made by the attacker over the victim's list, dropped; a pending canon presented as canonicalized by the attacker; signatures or the whole data of the other particle; state dropped / duplicated; canon "
        "tetraplet, canon value list, canon result under the same id; dangling id), optionally re-signed with the ATTACKER'S OWN key, "
        "re-encoded and run through the real execute_air at the victim; the `dependent` family (4 peers, calls over scalars only, one call "
        "whose argument comes from a par sibling unknown at the victim when the delivery arrives) is additionally judged by the victim's "
        "call requests: a request whose arguments differ from every request of that function in the honest history is a forged binding; "
        "distinct = different (sorted operation kinds, re-signed?, outcome class, model verdict class); every case is non-trivial "
        "(an operation that finds no target is skipped and counted)")
PARTIAL = ["C14_full is refuted twice (both reproduced on /repo): an Executed(Unused value_cid) state carries a value id only, is attributed to nobody "
           "and is accepted unsigned with any value (C14_refuted_unused, C14_unused_unchecked; known finding unsigned-unused-state-accepted); "
           "the KIND of a state is covered by no signature: Failed(c) rewritten to Executed(Scalar c) keeps every signature valid and passes "
           "verify_call, the victim binds the failure object as an ordinary value and skips its error branch (C14_kind_blind, C14_refuted_kind; "
           "known finding state-kind-not-signed)",
           "C14_use is proved for handle_prev_state / populate_context_from_data / the call instruction (exec_call) / handle_canon_executed and for "
           "the run outcome given the script's outcome (RunExec.run); that an uncatchable error of a nested instruction reaches the top of "
           "the script unchanged through seq/par/xor/fold/new is the executor's general error propagation (C02/C18), not re-proved here",
           "the correspondence compares the model's verdict of the verification step (preparation) with the real run; what the victim's new data "
           "contains after an accepted run is judged by the oracle in the driver (service log of the honest history), not by the executor model",
           "hash-map iteration orders: the verdict of the verification step does not depend on them (C15_order); which peer an error names is not compared",
           "an id named by the trace but missing from the stores: the model follows the sources through the translator flag "
           "forge_dangling_id_is_error (DataVerifierError::CidNotFound => DataSignatureCheckError since /repo a206dea; before that the "
           "`.expect(..)` panicked: FCrash, which the oracle counts as 'not accepted', the crash itself being C01's)"]
ASSUMPTIONS = ["rule (C) of the driver's oracle (dependent family only): in a script made of seq/par over calls with scalar outputs and deterministic "
               "services, the arguments of a call are the same in every run whose variables are bound to the results their owners produced for "
               "the instructions that define them (argued informally, not a theorem of the model)",
               "Ed25519 (fluence-keypair) is unforgeable and borsh((cids, salt)) is injective: signatures are the terms Sig signer cids salt of model/Sig.v "
               "(Dolev-Yao; the attacker hypothesis `dolev_yao owned produced sigs` is an explicit premise of C14_honest / C14_attribution)",
               "content ids: whether a content hashes to an id is a Section variable per store (the relation characterised by C25); collision "
               "resistance is the explicit premise `collision_free` of C14_binds / C14_tamper_store",
               "PublicKey::to_peer_id is injective on validated keys (a key is identified with its peer id, as in C15)",
               "the driver classifies real signature bytes by verifying them against candidate (signer, sorted cid list, salt) triples of the "
               "previous / tampered / honest current data under both particle ids; other bytes are GarbageSig",
               "the driver's hash check of store entries uses the sha2 and blake3 crates over serde_json::to_vec of the entry (not the interpreter's verify_value)",
               "services are deterministic functions of (peer, service, function, arguments): 'what q really produced' is q's host log"]

# weights: the catalogue of the property text first; the two gap operations and the crash probe are rarer
SINGLE = [("value_swap", 3), ("value_rewrite", 3), ("tetraplet_peer", 4), ("tetraplet_service", 2), ("tetraplet_function", 2),
          ("tetraplet_swap", 2), ("arghash_change", 3), ("arghash_swap", 2), ("relocate", 4), ("relocate_same", 5), ("kind_failed_executed", 3),
          ("kind_scalar_stream", 2), ("kind_to_unused", 2), ("unused_value", 2), ("unused_forge", 2), ("sig_swap", 3),
          ("sig_attacker_signs", 2), ("sig_drop", 2), ("particle_sigs", 3), ("replay_other_particle", 3), ("drop_state", 2), ("dup_state", 2),
          ("canon_tetraplet", 3), ("canon_usurp", 2), ("canon_values", 2), ("canon_swap", 1), ("cid_dangling", 1)]
KNOWN_KEYS = {"unsigned-unused-state-accepted", "state-kind-not-signed"}
# a successful result that has the shape of a CallServiceFailed object (for the Executed -> Failed rewrite)
SERVICES = airgen.DEFAULT_SERVICES + [["s", "lf", {"const": {"message": "looks like a failure", "ret_code": 7}}]]


def one_op(rng, own=False):
    kinds = [k for k, _ in SINGLE]
    weights = [w for _, w in SINGLE]
    op = {"kind": rng.choices(kinds, weights)[0], "sel": rng.randrange(64), "arg": rng.randrange(64)}
    if own:
        op["own"] = True
    return op


def gen_tampers(rng, n):
    out = []
    for _ in range(n):
        c = rng.random()
        if c < 0.16:
            # probes that pass the verification step (consistent chain, the attacker's own valid signature): only the
            # parameter check at the call / canon instruction stands between them and acceptance
            kind = rng.choice(["relocate_same", "relocate_same", "canon_usurp", "canon_usurp", "canon_tetraplet", "tetraplet_peer"])
            arg = rng.randrange(64) if kind == "relocate_same" else 12 * rng.randrange(5)      # arg = 0 mod 12: re-attributed to the attacker
            out.append({"delivery": rng.randrange(1 << 16), "ops": [{"kind": kind, "sel": rng.randrange(64), "arg": arg}], "resign": True})
            continue
        if c < 0.58:
            ops = [one_op(rng)]
        elif c < 0.92:
            ops = [one_op(rng), one_op(rng)]
        else:
            # control: the attacker edits its OWN result and re-signs (must be accepted), possibly together with a real forgery
            ops = [dict(rng.choice([{"kind": "value_rewrite"}, {"kind": "arghash_change"}, {"kind": "drop_state"}]), sel=rng.randrange(64), arg=rng.randrange(64), own=True)]
            if rng.random() < 0.4:
                ops.append(one_op(rng))
        out.append({"delivery": rng.randrange(1 << 16), "ops": ops, "resign": rng.random() < 0.6 or any(o.get("own") for o in ops)})
    return out


# scripts that put several calls of one peer with equal / different arguments next to each other, failing calls with
# output variables, calls without output and canons at a designated peer: the shapes the catalogue needs
def crafted_script(rng):
    peers = ["A", "B", "C"]
    p, q, r = rng.sample(peers, 3)
    parts = ['(call "@%s" ("s" "num") [] n0)' % p,
             '(call "@%s" ("s" "id") ["one"] a1)' % q,
             '(call "@%s" ("s" "id") ["two"] a2)' % q,
             '(xor (call "@%s" ("s" "fail") [a1] f1) (call "@%s" ("s" "tag") [] g1))' % (q, r),
             '(call "@%s" ("s" "tag") [])' % q,
             rng.choice(['(xor (call "@%s" ("s" "lf") [a2] l1) (null))', '(call "@%s" ("s" "lf") [a2] l1)']) % rng.choice([q, r]),
             '(call "@%s" ("s" "args") [a1 a2] $st)' % r,
             '(call "@%s" ("s" "id") [a2] $st)' % q]
    head, tail = parts[:3], parts[3:]
    rng.shuffle(tail)
    parts = head + tail
    if rng.random() < 0.75:
        # the canon after every append to $st, at q; then p and r run in turn, so that q's canon result travels p -> r as a
        # foreign result the receiver has not seen
        parts.append('(canon "@%s" $st #can1)' % q)
        parts.append('(call "@%s" ("s" "id") [#can1] c1)' % p)
        parts.append('(call "@%s" ("s" "id") [c1] c2)' % r)
    parts.append('(call "@%s" ("s" "tag") [])' % p)
    parts.append('(call "@%s" ("s" "id") [a1] z1)' % rng.choice(peers))
    s = parts[-1]
    for x in reversed(parts[:-1]):
        s = "(seq %s %s)" % (x, s)
    return s


# (added after the seeded change C14-unresolved-arguments-skip-hash-check was missed) a call whose argument comes from a par
# sibling that the victim has not seen: owner Q has two signed results of one function (other arguments), a relay M carries
# them to the victim P; moving Q's first result into the slot of the dependent call leaves every signature valid, only the
# argument-hash check at the instruction (arguments unresolved on P) stands between the forgery and acceptance
def dependent_script(rng):
    p, q, r, m = rng.sample(["A", "B", "C", "D"], 4)
    fn = rng.choice(["id", "args"])
    # R hands `acct` to Q itself (a call on a remote peer is recorded as sent without resolving its arguments, so P's own
    # request for the dependent call reaches Q before `acct` does): the honest history then runs to the end, and P's honest
    # request for `res` is known to the oracle (rule (C) of the driver: scalar_only)
    s = ('(par (seq (call "@%s" ("s" "tag") [] acct) (call "@%s" ("s" "id") [acct] fw)) '
         '(par (seq (call "@%s" ("s" "%s") ["guest"] g) (seq (call "@%s" ("s" "tag") [g] t2) (call "@%s" ("s" "id") [t2] fin))) '
         '(seq (call "@%s" ("s" "%s") [acct] ok) (call "@%s" ("s" "args") [ok] res))))') % (r, q, q, fn, m, p, q, fn, p)
    return s, "ABCD".index(p)


def dependent_tampers(rng, n):
    out = []
    for _ in range(n):
        ops = [{"kind": "relocate", "sel": rng.randrange(64), "arg": 2 * rng.randrange(32) + 1}]
        if rng.random() < 0.3:
            ops.append(one_op(rng))
        out.append({"delivery": rng.randrange(1 << 16), "ops": ops, "resign": rng.random() < 0.5})
    return out


def gen_cases(rng, tier, escalate=False):
    mult = 3 if escalate else 1
    n_gen = {"quick": 26, "thorough": 200}[tier] * mult
    n_craft = {"quick": 14, "thorough": 100}[tier] * mult
    per = {"quick": 16, "thorough": 24}[tier]
    cases = []
    peers = airgen.PEERS[:3]
    for k in range(n_gen):
        prof = airgen.Profile(peers=3, depth=rng.choice([3, 3, 4]), canon=rng.random() < 0.6, failing=True,
                              stream_folds=rng.random() < 0.3, folds=rng.random() < 0.5)
        script = airgen.gen_script(rng, prof)
        ops = airgen.gen_schedule(rng, n_ops=rng.choice([6, 10, 16]))
        cases.append({"gen": "airgen", "script": script, "peers": peers, "init": rng.randrange(3), "services": SERVICES,
                      "ops": ops, "particle_id": "particle-%d" % k, "tampers": gen_tampers(rng, per)})
    for k in range(n_craft):
        cases.append({"gen": "craft", "script": crafted_script(rng), "peers": peers, "init": rng.randrange(3),
                      "services": SERVICES, "ops": airgen.gen_schedule(rng, n_ops=rng.choice([0, 4, 8])),
                      "particle_id": "crafted-%d" % k, "tampers": gen_tampers(rng, per + 6)})
    for k in range({"quick": 6, "thorough": 40}[tier] * mult):
        script, init = dependent_script(rng)
        cases.append({"gen": "dependent", "script": script, "peers": airgen.PEERS[:4], "init": init, "services": SERVICES,
                      "ops": airgen.fifo_schedule(6), "particle_id": "dependent-%d" % k, "scalar_only": True, "tampers": dependent_tampers(rng, per + 16)})
    return cases


HEADER = "From Aqua Require Import Base RunTop Trace Values Sig Forge ForgeCases.\nOpen Scope N_scope.\nOpen Scope string_scope.\n"

_LIT = re.compile(r'"((?:[^"]|"")*)"')


def shorten(terms):
    """Peer ids (52 characters) and CIDs (59 characters) dominate Coq's parsing and comparison cost.  The model only
    compares these strings and sorts CIDs byte-wise, so every literal of 40 or more characters is replaced by an
    ORDER-PRESERVING short name ("s" + rank in the byte-wise sorted list of all long literals of the batch)."""
    lits = set()
    for t in terms:
        for m in _LIT.finditer(t):
            if len(m.group(1)) >= 40:
                lits.add(m.group(1))
    order = sorted(lits, key=lambda x: x.encode("utf-8"))
    width = max(4, len(str(len(order))))
    name = {l: "s%0*d" % (width, i) for i, l in enumerate(order)}
    return [_LIT.sub(lambda m: '"%s"' % name.get(m.group(1), m.group(1)), t) for t in terms]


def bump(d, k, n=1):
    d[k] = d.get(k, 0) + n


def evaluate(cases, result, tier):
    if not cases:
        return
    outs = vlib.harness_lines("forge14", [json.dumps(c) for c in cases])
    terms, owner = [], []
    dist = result["distribution"]
    for ci, o in enumerate(outs):
        if "error" in o:
            result["errors"].append(o["error"])
            continue
        gen = cases[ci].get("gen", "replay")
        bump(dist, "histories:" + gen)
        bump(dist, "honest-runs", o.get("runs", 0))
        bump(dist, "honest-service-invocations", o.get("invocations", 0))
        for why, n in o.get("skipped", {}).items():
            bump(dist, "skipped:" + why, n)
        if not o.get("aligned", True):
            bump(dist, "histories-not-aligned-across-particles")
        for ti, t in enumerate(o["coq"]):
            inf = o["info"][ti]
            terms.append(t)
            owner.append((ci, ti))
            result["evaluations"] += 1
            outcome = "panic" if inf["panic"] else ("accepted" if inf["accepted"] else "rejected:%d" % inf["code"])
            bump(dist, "outcome:" + outcome)
            for k in inf["kinds"]:
                bump(dist, "op:%s:%s" % (k, "accepted" if inf["accepted"] else "rejected"))
            bump(dist, "ops-per-case:%d" % len(inf["kinds"]))
            if inf["resigned"]:
                bump(dist, "re-signed-by-attacker")
            if inf["accepted"] and not inf["forged_present"]:
                bump(dist, "accepted-without-foreign-forgery(no-op/own/ignored)")
            if inf["compared_positions"]:
                bump(dist, "positions-compared-with-honest-run", inf["compared_positions"])
            if len(result["samples"]) < 3 and len(inf["kinds"]) == 2:
                result["samples"].append({"script": cases[ci].get("script"), "tamper": cases[ci]["tampers"][inf["tamper_index"]], "info": inf})
            # the history half of the oracle, evaluated by the driver on the implementation's outcome
            if not inf["oracle_ok"]:
                single = dict(cases[ci])
                single["tampers"] = [cases[ci]["tampers"][inf["tamper_index"]]]
                keys = list(inf.get("oracle_keys") or [])
                if inf.get("oracle_unexplained") or not keys:
                    keys = keys + [None]
                for key in keys:
                    if key is not None and key not in KNOWN_KEYS:
                        key = None
                    result["oracle_fail"].append({"case": single, "info": inf, "key": key,
                                                  "what": "the victim accepted a run whose new data holds a result of a peer other than the sender that this peer "
                                                          "never produced (or a rejected run did not return the previous data): " + "; ".join(inf["oracle_reasons"][:4])})
                    bump(dist, "oracle-fail:" + str(key))
    if not terms:
        return
    short = shorten(terms)
    checks = {"model": "check_case", "oracle": "c14_oracle"}
    fails, errs = vlib.coq_eval_cases("C14", HEADER, "case_t", checks, short, shard_size=60)
    if any("inconsistent assumptions" in e for e in errs):
        vlib.coq_make(MODEL_TARGETS)
        fails, errs = vlib.coq_eval_cases("C14", HEADER, "case_t", checks, short, shard_size=60)
    result["errors"].extend(errs)
    bad = set(fails["model"])
    for i, (ci, ti) in enumerate(owner):
        inf = outs[ci]["info"][ti]
        outcome = "panic" if inf["panic"] else ("accepted" if inf["accepted"] else "rejected:%d" % inf["code"])
        result["distinct"].add(json.dumps([sorted(inf["kinds"]), inf["resigned"], outcome, i in bad]))

    def single(ci, ti):
        c = dict(cases[ci])
        inf = outs[ci]["info"][ti]
        c["tampers"] = [cases[ci]["tampers"][inf["tamper_index"]]]
        return c, inf

    for i in fails["model"]:
        ci, ti = owner[i]
        c, inf = single(ci, ti)
        result["mismatch"].append({"case": c, "info": inf, "term": short[i][:6000],
                                   "what": "model/Forge.v forge_verify (CidInfo::verify + attribution + Sig.verification_step) disagrees with the real "
                                           "execute_air on the preparation verdict of this tampered data"})
    for i in fails["oracle"]:
        ci, ti = owner[i]
        c, inf = single(ci, ti)
        result["oracle_fail"].append({"case": c, "info": inf, "key": None, "term": short[i][:6000],
                                      "what": "c14_oracle is false: the run got past preparation although a store entry does not hash to its id, the trace "
                                              "names a missing id, or a peer other than the sender has no signature of its own over exactly the ids the "
                                              "trace attributes to it for this particle"})
