//! validate (C23): one JSON case per input line -> one JSON line
//!   {"coq": [<term of ValidatorCases.case_t>], "classes": [...], "info": [...]}.
//!
//! case = { "script": "<text>", "tag": "<generator tag>" }
//!
//! For the text it reports, in the concrete syntax of coq/model/ValidatorCases.v:
//!  * the verdict of the REAL `air_parser::parse` (Ok / Err / panic),
//!  * the unvalidated tree obtained through the public
//!    `AIRParser::new().parse(text, &mut errors, &mut validator, lexer)` path (the same call `parse`
//!    makes), the kinds of the recovery errors the grammar actions pushed,
//!  * the span of every instruction node (the spans the grammar actions hand to the validator's
//!    `met_*` callbacks; the tree keeps them only for fold/new), rebuilt from the REAL lexer's token
//!    stream: an instruction spans from its "(" (the one followed by an instruction keyword) to the
//!    matching ")";
//!  * the kinds of the validator's errors. `VariableValidator::finalize` is `pub(super)`, so they are
//!    decoded from the report `parse` returns: every label's message is an instance of one
//!    `#[error("...")]` template of parser/errors.rs (read at compile time from /repo); only variant
//!    NAMES are printed, message texts are never compared with the model.
//! Every call into the parser is wrapped in catch_unwind: a panic on any text is a C23 (totality) failure.

use aquah::coqfmt as c;
use aquah::sim::quiet_panics;
use air_parser::ast::Instruction;
use serde_json::Value as J;
use std::io::BufRead;
use std::panic::{catch_unwind, AssertUnwindSafe};

const ERRORS_RS: &str = include_str!("/repo/crates/air-lib/air-parser/src/parser/errors.rs");

const KEYWORDS: [&str; 14] = [
    "Call", "Canon", "Ap", "Seq", "Par", "Fail", "Fold", "Xor", "Never", "New", "Next", "Null", "Match", "MisMatch",
];

/// (variant name, literal pieces of its message template) for every ParserError variant with a
/// `#[error("...")]` attribute (the transparent LexerError wrapper has none).
fn templates() -> Vec<(String, Vec<String>)> {
    let mut out = vec![];
    let src = ERRORS_RS;
    let start = src.find("pub enum ParserError").expect("ParserError enum");
    let body = &src[start..];
    let end = body.find("\n}").expect("end of enum");
    let body = &body[..end];
    let mut rest = body;
    while let Some(i) = rest.find("#[error(") {
        rest = &rest[i + "#[error(".len()..];
        let t = rest.trim_start();
        if !t.starts_with('"') {
            continue; // #[error(transparent)]
        }
        let t = &t[1..];
        // the templates contain no escaped quotes
        let close = t.find('"').expect("closing quote of template");
        let tmpl = &t[..close];
        let after = &t[close..];
        let after = &after[after.find(")]").expect("end of attribute") + 2..];
        let name: String = after.trim_start().chars().take_while(|ch| ch.is_alphanumeric() || *ch == '_').collect();
        let mut pieces = vec![];
        let mut cur = String::new();
        let mut in_ph = false;
        for ch in tmpl.chars() {
            match ch {
                '{' => {
                    in_ph = true;
                    pieces.push(std::mem::take(&mut cur));
                }
                '}' => in_ph = false,
                _ if in_ph => {}
                _ => cur.push(ch),
            }
        }
        pieces.push(cur);
        out.push((name, pieces));
        rest = after;
    }
    out
}

/// number of instances of the template in the report text
fn count_instances(report: &str, pieces: &[String]) -> usize {
    let first = &pieces[0];
    if first.is_empty() {
        return 0;
    }
    let mut n = 0;
    let mut from = 0;
    while let Some(i) = report[from..].find(first.as_str()) {
        let mut pos = from + i + first.len();
        let mut ok = true;
        for p in &pieces[1..] {
            // a placeholder: a run of characters without whitespace and quotes
            let tail = &report[pos..];
            let run: usize = tail.chars().take_while(|ch| !ch.is_whitespace() && *ch != '\'' && *ch != '"').map(|ch| ch.len_utf8()).sum();
            pos += run;
            if report[pos..].starts_with(p.as_str()) {
                pos += p.len();
            } else {
                ok = false;
                break;
            }
        }
        if ok {
            n += 1;
            from = pos;
        } else {
            from = from + i + first.len();
        }
    }
    n
}

/// first identifier of a Debug rendering ("User { error: UndefinedVariable {..." -> "User")
fn head_ident(s: &str) -> String {
    s.chars().take_while(|ch| ch.is_alphanumeric() || *ch == '_').collect()
}

/// kind of a lalrpop ParseError from its Debug text: the variant, and for User errors the ParserError
/// variant (and the LexerError variant below it)
fn parse_error_kind(dbg: &str) -> String {
    let h = head_ident(dbg);
    if h == "User" {
        if let Some(i) = dbg.find("error: ") {
            let inner = &dbg[i + 7..];
            let v = head_ident(inner);
            if v == "LexerError" {
                let l = head_ident(&inner[v.len()..].trim_start_matches('('));
                return format!("User/LexerError/{}", l);
            }
            return format!("User/{}", v);
        }
    }
    h
}

/// spans of the instructions of the text in closing (= post-) order, from the real lexer
fn instruction_spans(script: &str) -> Option<Vec<(usize, usize)>> {
    let mut stack: Vec<(usize, bool)> = vec![];
    let mut spans = vec![];
    let mut just_opened = false;
    for item in air_parser::AIRLexer::new(script) {
        let (l, tok, r) = match item {
            Ok(x) => x,
            Err(_) => return None,
        };
        let l: usize = l.into();
        let r: usize = r.into();
        let d = format!("{:?}", tok);
        if d == "OpenRoundBracket" {
            stack.push((l, false));
            just_opened = true;
            continue;
        }
        if just_opened && KEYWORDS.contains(&d.as_str()) {
            if let Some(top) = stack.last_mut() {
                top.1 = true;
            }
        }
        just_opened = false;
        if d == "CloseRoundBracket" {
            let (open, is_instr) = stack.pop()?;
            if is_instr {
                spans.push((open, r));
            }
        }
    }
    if stack.is_empty() {
        Some(spans)
    } else {
        None
    }
}

/// number of variable tokens the real lexer sees (up to its first error)
fn var_tokens(script: &str) -> usize {
    let mut n = 0;
    for item in air_parser::AIRLexer::new(script) {
        match item {
            Ok((_, tok, _)) => {
                let d = format!("{:?}", tok);
                if d.starts_with("Scalar") || d.starts_with("Stream") || d.starts_with("CanonStream") {
                    n += 1;
                }
            }
            Err(_) => break,
        }
    }
    n
}

fn span_term(s: (usize, usize)) -> String {
    format!("{{| sp_left := {}; sp_right := {} |}}", s.0, s.1)
}

/// the span tree of coq/model/Validator.v (post-order consumption of the span list)
fn stree(i: &Instruction<'_>, it: &mut std::vec::IntoIter<(usize, usize)>) -> Option<String> {
    use Instruction::*;
    let kids: Vec<&Instruction<'_>> = match i {
        Seq(x) => vec![&x.0, &x.1],
        Par(x) => vec![&x.0, &x.1],
        Xor(x) => vec![&x.0, &x.1],
        Match(x) => vec![&x.instruction],
        MisMatch(x) => vec![&x.instruction],
        New(x) => vec![&x.instruction],
        FoldScalar(x) => match &x.last_instruction {
            Some(l) => vec![&x.instruction, &**l],
            None => vec![&x.instruction],
        },
        FoldStream(x) => match &x.last_instruction {
            Some(l) => vec![&x.instruction, &**l],
            None => vec![&x.instruction],
        },
        FoldStreamMap(x) => match &x.last_instruction {
            Some(l) => vec![&x.instruction, &**l],
            None => vec![&x.instruction],
        },
        Error => return None,
        _ => vec![],
    };
    let mut ks = vec![];
    for k in kids {
        ks.push(stree(k, it)?);
    }
    let own = span_term(it.next()?);
    Some(match ks.len() {
        0 => format!("(S0 {})", own),
        1 => format!("(S1 {} {})", own, ks[0]),
        _ => format!("(S2 {} {} {})", own, ks[0], ks[1]),
    })
}

fn count_nodes(i: &Instruction<'_>) -> usize {
    use Instruction::*;
    match i {
        Seq(x) => 1 + count_nodes(&x.0) + count_nodes(&x.1),
        Par(x) => 1 + count_nodes(&x.0) + count_nodes(&x.1),
        Xor(x) => 1 + count_nodes(&x.0) + count_nodes(&x.1),
        Match(x) => 1 + count_nodes(&x.instruction),
        MisMatch(x) => 1 + count_nodes(&x.instruction),
        New(x) => 1 + count_nodes(&x.instruction),
        FoldScalar(x) => 1 + count_nodes(&x.instruction) + x.last_instruction.as_ref().map(|l| count_nodes(l)).unwrap_or(0),
        FoldStream(x) => 1 + count_nodes(&x.instruction) + x.last_instruction.as_ref().map(|l| count_nodes(l)).unwrap_or(0),
        FoldStreamMap(x) => 1 + count_nodes(&x.instruction) + x.last_instruction.as_ref().map(|l| count_nodes(l)).unwrap_or(0),
        _ => 1,
    }
}

struct Raw {
    /// Some(term of (instr * stree)) when the LR driver returned a tree, pushed no recovery error, and the spans were rebuilt
    tree: Option<String>,
    /// printed tree whenever the LR driver returned one
    tree_print: Option<String>,
    lr_ok: bool,
    lr_error: Option<String>,
    grammar_errors: Vec<String>,
    nodes: usize,
    span_problem: bool,
}

fn raw_parse(parser: &air_parser::AIRParser, script: &str) -> Raw {
    let mut errors = Vec::new();
    let lexer = air_parser::AIRLexer::new(script);
    let mut validator = air_parser::VariableValidator::new();
    let result = parser.parse(script, &mut errors, &mut validator, lexer);
    let grammar_errors: Vec<String> = errors.iter().map(|e| parse_error_kind(&format!("{:?}", e.error))).collect();
    match result {
        Ok(t) => {
            let printed = aquah::ast2coq::instr(&t);
            let mut tree = None;
            let mut span_problem = false;
            if grammar_errors.is_empty() {
                let n = count_nodes(&t);
                match instruction_spans(script) {
                    Some(sp) if sp.len() == n => {
                        let mut it = sp.into_iter();
                        match stree(&t, &mut it) {
                            Some(st) => tree = Some(format!("({}, {})", printed, st)),
                            None => span_problem = true,
                        }
                    }
                    _ => span_problem = true,
                }
            }
            Raw { tree, tree_print: Some(printed), lr_ok: true, lr_error: None, grammar_errors, nodes: count_nodes(&t), span_problem }
        }
        Err(e) => Raw {
            tree: None,
            tree_print: None,
            lr_ok: false,
            lr_error: Some(parse_error_kind(&format!("{:?}", e))),
            grammar_errors,
            nodes: 0,
            span_problem: false,
        },
    }
}

fn run_case(parser: &air_parser::AIRParser, tmpls: &[(String, Vec<String>)], case: &J) -> J {
    let script = case["script"].as_str().unwrap_or("").to_string();
    let tag = case["tag"].as_str().unwrap_or("").to_string();
    if case["light"].as_bool().unwrap_or(false) {
        // deep-nesting probe (run in a child process of its own): only the real parse, no printing of the tree
        // (the printers of this harness are recursive); "forget": the tree is leaked instead of dropped
        let forget = case["forget"].as_bool().unwrap_or(false);
        let r = catch_unwind(AssertUnwindSafe(|| match air_parser::parse(&script) {
            Ok(t) => {
                if forget {
                    std::mem::forget(t);
                } else {
                    drop(t);
                }
                true
            }
            Err(_) => false,
        }));
        let verdict = match r {
            Ok(true) => "accepted",
            Ok(false) => "rejected",
            Err(_) => "panic",
        };
        return serde_json::json!({"coq": [], "classes": [], "info": [{"tag": tag, "verdict": verdict, "panic": r.is_err()}]});
    }

    // 1. the real parse (verdict, report text)
    let verdict = catch_unwind(AssertUnwindSafe(|| match air_parser::parse(&script) {
        Ok(t) => (true, Some(aquah::ast2coq::instr(&t)), String::new()),
        Err(e) => (false, None, e),
    }));
    // 2. the same parser call without the final filter
    let raw = catch_unwind(AssertUnwindSafe(|| raw_parse(parser, &script)));

    let panicked = verdict.is_err() || raw.is_err();
    let (parse_ok, parse_tree, report) = verdict.unwrap_or((false, None, String::new()));
    let raw = raw.unwrap_or(Raw { tree: None, tree_print: None, lr_ok: false, lr_error: Some("panic".into()), grammar_errors: vec![], nodes: 0, span_problem: false });

    // validator error kinds (decoded only when nothing else contributed labels to the report)
    let mut vkinds: Vec<String> = vec![];
    let validator_only = raw.lr_ok && raw.grammar_errors.is_empty() && !parse_ok && !panicked;
    if validator_only {
        for (name, pieces) in tmpls {
            for _ in 0..count_instances(&report, pieces) {
                vkinds.push(name.clone());
            }
        }
        vkinds.sort();
    }
    let same_tree = match (&parse_tree, &raw.tree_print) {
        (Some(a), Some(b)) => a == b,
        (None, _) => true,
        (Some(_), None) => false,
    };
    // for an accepted script the tree handed to the model must be the one `parse` returned
    let tree_term = c::opt(raw.tree.clone());
    let term = format!(
        "{{| c_panic := {}; c_parse_ok := {}; c_tree := {}; c_same_tree := {}; c_grammar_errors := {}; c_lr_ok := {}; c_verrors := {} |}}",
        c::b(panicked),
        c::b(parse_ok),
        tree_term,
        c::b(same_tree),
        raw.grammar_errors.len(),
        c::b(raw.lr_ok),
        c::list(vkinds.iter().map(|k| format!("K{}", k)))
    );
    let verdict_class = if panicked {
        "panic".to_string()
    } else if parse_ok {
        "accepted".to_string()
    } else if !raw.lr_ok {
        format!("rejected/lr:{}", raw.lr_error.clone().unwrap_or_default())
    } else if !raw.grammar_errors.is_empty() {
        "rejected/recovered-syntax-error".to_string()
    } else {
        "rejected/validator".to_string()
    };
    let mut classes = vec![format!("verdict/{}", verdict_class), format!("gen/{}/{}", tag, if parse_ok { "accepted" } else if panicked { "panic" } else { "rejected" })];
    for k in &vkinds {
        classes.push(format!("verror/{}", k));
    }
    for k in &raw.grammar_errors {
        classes.push(format!("syntax/{}", k));
    }
    if raw.span_problem {
        classes.push("spans-not-rebuilt".to_string());
    }
    let info = serde_json::json!({
        "tag": tag, "verdict": verdict_class, "verrors": vkinds, "grammar_errors": raw.grammar_errors, "lr_error": raw.lr_error,
        "panic_message": if panicked { J::String(LAST_PANIC.lock().map(|g| g.clone()).unwrap_or_default()) } else { J::Null },
        "var_tokens": catch_unwind(AssertUnwindSafe(|| var_tokens(&script))).unwrap_or(0),
        "nodes": raw.nodes, "has_tree": raw.tree.is_some(), "span_problem": raw.span_problem, "panic": panicked,
        "report": if case["want_report"].as_bool().unwrap_or(false) { J::String(report.clone()) } else { J::Null },
    });
    serde_json::json!({"coq": [term], "classes": classes, "info": [info]})
}

static LAST_PANIC: std::sync::Mutex<String> = std::sync::Mutex::new(String::new());

fn main() {
    quiet_panics();
    // keep the message and location of the last panic (reported in "info", never compared)
    std::panic::set_hook(Box::new(|pi| {
        let msg = if let Some(s) = pi.payload().downcast_ref::<&str>() {
            s.to_string()
        } else if let Some(s) = pi.payload().downcast_ref::<String>() {
            s.clone()
        } else {
            "<non-string panic payload>".to_string()
        };
        let loc = pi.location().map(|l| format!("{}:{}", l.file(), l.line())).unwrap_or_default();
        if let Ok(mut g) = LAST_PANIC.lock() {
            *g = format!("{} at {}", msg, loc);
        }
    }));
    let tmpls = templates();
    if std::env::args().any(|a| a == "--templates") {
        println!("{}", serde_json::json!(tmpls));
        return;
    }
    let parser = air_parser::AIRParser::new();
    let stdin = std::io::stdin();
    for line in stdin.lock().lines() {
        let line = match line {
            Ok(l) => l,
            Err(_) => break,
        };
        if line.trim().is_empty() {
            continue;
        }
        let case: J = match serde_json::from_str(&line) {
            Ok(c) => c,
            Err(e) => {
                println!("{}", serde_json::json!({"error": format!("bad case: {e}")}));
                continue;
            }
        };
        println!("{}", run_case(&parser, &tmpls, &case));
    }
}
