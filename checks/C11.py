"""C11 -- a canonicalized stream is fixed once and identical everywhere.

Histories of the REAL interpreter (harness/src/bin/canon11.rs): several peers append to a stream (call
results and `ap`) in par, one designated peer (literal, variable or lens-selected) canonicalizes it, values
are appended afterwards, the canon value is handed to services on every peer; canon inside folds (one per
iteration), `new`-scoped streams, canon in both branches of a par, stream maps (canon_map,
canon_stream_map_scalar, also in the model); every delivery order for small scripts, random schedules with duplicates and
re-deliveries beyond; forked worlds and forged states for the refusals the property relies on.

Oracles (from the property text, on the implementation's data only):
  (a) one executed result per canon position across ALL data of a history -- by index where the script's
      canon instructions are sequentially ordered, and by merging every produced data at an observer peer
      (positions of two traces correspond by walking the script); an honest peer never refuses honest data
      with the canon merger's error;
  (b) the canon values (and tetraplets) handed to the observer services are equal on all peers, per canon
      instruction and iteration;
  (c) the content of a result = the stream values the designated peer knew in front of the canon state when
      it created it, in its order (generation, then insertion), values and tetraplets;
  (d) a result is created only by a run on the peer its tetraplet names (Rust) / with an empty service,
      function and lens, never re-created by a peer that already holds one (Coq, c11_run_oracle);
  (f) two different executed results for one canon instruction presented to one peer are refused;
  (g) a result executed by a peer the instruction does not designate is refused.
Correspondence: every run that involves a canon state is evaluated by the executor model
(ExecStreams.exec_canon ...) and compared on the C11 projection (CanonCases.check_case_c11)."""
import json
import os
import sys

sys.path.insert(0, os.path.join(os.path.dirname(os.path.abspath(__file__)), "..", "lib"))
import airgen  # noqa: E402
import canon11gen as cg  # noqa: E402
import vlib  # noqa: E402

PID = "C11"
MODEL_TARGETS = ["model/CanonCases.vo"]
HARNESS_BINS = ["canon11"]
RULE = ("an evaluation is one run of the real execute_air inside a generated history (explore: every delivery order of a small "
        "script, depth-first, falling back to random walks above the path budget; history: one random schedule with duplicates, "
        "re-deliveries and idle runs; fork/forge: two worlds + the runs that present both to one peer); distinct non-trivial = "
        "distinct (script, peer, previous data, current data, call results) runs in which a canon state is met or written "
        "(the runs given to the model), plus distinct (script, delivery order) histories in which a canon result was created")
PARTIAL = [
    "C11_full (history level: in every honest history no two data hold different executed results for one canon position) is a "
    "Definition, not a theorem: proved are the per-run statements for ALL contexts/data (C11_reuse, C11_first, C11_only_designated, "
    "C11_unique) and the two-run lemma C11_two_runs (designated peer executes; any later run on any peer that is handed that state "
    "binds exactly the designated peer's values); what is missing is the network invariant that the state handed to a later run at "
    "that script position IS the designated peer's state (positions of different data correspond, stores are unions): decided by "
    "the history oracles (a)-(d) on explored delivery orders",
    "stream maps (canon_map, canon_stream_map_scalar): the theorems and the lock-step cover them (exec_canon_generic); oracle (c) "
    "(content = what the designated peer knew) is evaluated for streams only, maps are covered by (a), (b), (d)",
    "oracle (c) reads the designated peer's knowledge off its own produced trace (stream states in front of the canon state, by "
    "generation then position) and applies to the structured script families only (one canonicalized stream instance per script)",
    "trace positions of canon values are not part of a content id: a re-used canon stream carries position 0 for every element "
    "(get_canon_value_by_cid: fake position); C11_first states the decoded content as `map forget_pos values`",
]
ASSUMPTIONS = [
    "content ids are symbolic terms (collision-free hashing): two results are the same id iff tetraplet, values, tetraplets of values and provenances are equal",
    "the host follows air/README.md (stores the returned data, feeds it back as prev_data); in fork/forge cases this is deliberately broken "
    "for the designated peer (two worlds) to present the refusal paths with really signed data",
    "services are deterministic functions of (peer, service, function, arguments)",
]
HEADER = ("From Aqua Require Import Base Json Air Trace Handler Values Scalars Lens Exec RunExec ExecStreams ExecCases CanonCases.\n"
          "Open Scope N_scope.\nOpen Scope list_scope.\n")


def canon_profile():
    return airgen.Profile(peers=3, depth=4, folds=True, stream_folds=True, failing=True, match=False, lenses=True,
                          var_targets=True, par_weight=4, xor_weight=1)


def airgen_canon_script(rng):
    """a random well-scoped script that contains at least one canon instruction"""
    for _ in range(40):
        s = airgen.gen_script(rng, canon_profile())
        if "(canon " in s:
            return s
    return '(seq (call "@A" ("s" "tag") [] $s1) (canon "@B" $s1 #canon1))'


def gen_cases(rng, tier, escalate=False):
    thorough = tier == "thorough"
    k = (4 if thorough else 1) * (3 if escalate else 1)
    cases = []

    def add(c, **kw):
        c = dict(c)
        c.setdefault("mode", "history")
        c.setdefault("init", 0)
        c["seed"] = rng.randrange(1 << 30)
        c.update(kw)
        cases.append(c)

    # every delivery order of small scripts (3 peers)
    for _ in range(10 * k):
        add(cg.struct_script(rng, 3, "tiny"), mode="explore", max_paths=1500 if thorough else 60, max_depth=18, max_terms=4)
    for _ in range(6 * k):
        add(cg.struct_script(rng, 3, "small"), mode="explore", max_paths=600 if thorough else 40, max_depth=26, max_terms=3)
    for _ in range(3 * k):
        add(cg.fold_script(rng, 3), mode="explore", max_paths=400 if thorough else 30, max_depth=30, max_terms=3)
    for _ in range(3 * k):
        add(cg.map_script(rng, 3), mode="explore", max_paths=400 if thorough else 30, max_depth=26, max_terms=3)
    # random schedules with duplicates and re-deliveries
    for _ in range(40 * k):
        sz = rng.choice(["small", "small", "big"])
        np_ = rng.choice([3, 3, 4])
        add(cg.struct_script(rng, np_, sz), ops=cg.random_schedule(rng, rng.choice([10, 20, 30]), np_), max_terms=2)
    for _ in range(20 * k):
        np_ = rng.choice([3, 4])
        add(cg.fold_script(rng, np_), ops=cg.random_schedule(rng, rng.choice([15, 30]), np_), max_terms=2)
    for _ in range(10 * k):
        add(cg.scoped_fold_script(rng, 3), ops=cg.random_schedule(rng, rng.choice([15, 30]), 3), max_terms=2)
    for _ in range(10 * k):
        add(cg.par_canons_script(rng, 3), ops=cg.random_schedule(rng, rng.choice([15, 30]), 3), max_terms=2)
    for _ in range(20 * k):
        add(cg.map_script(rng, 3), ops=cg.random_schedule(rng, rng.choice([15, 30]), 3), max_terms=2)
    for _ in range(30 * k):
        add({"script": airgen_canon_script(rng), "peers": airgen.PEERS[:3], "services": airgen.DEFAULT_SERVICES,
             "seq_canons": False, "expect_c": False, "family": "airgen"},
            ops=airgen.gen_schedule(rng, n_ops=rng.choice([8, 14, 24])), max_terms=2)
    # refusals
    for _ in range(12 * k):
        c = cg.fork_case(rng, 3)
        n = len(c["peers"])
        cross = []
        for p in range(n):
            cross.append({"peer": p, "prev": ["a", p], "cur": ["b", p], "script": "a"})
            cross.append({"peer": p, "prev": ["b", p], "cur": ["a", (p + 1) % n], "script": "a"})
        add(c, ops=airgen.fifo_schedule(12), ops_b=cg.random_schedule(rng, 20, n, dup=0.0, redeliver=0.0, idle=0.0), cross=cross, max_terms=3)
    for _ in range(12 * k):
        c = cg.forge_case(rng, 3)
        n = len(c["peers"])
        # B's script given A's data (a result of a peer B's script does not designate) ...
        cross = [{"peer": p, "prev": ["none", 0], "cur": ["a", h], "script": "b"} for p in range(n) for h in range(n)]
        # ... and a peer holding A's data given B's data, under either script (two results, two executors)
        cross += [{"peer": p, "prev": ["a", h], "cur": ["b", (h + d) % n], "script": sc} for p in range(n) for h in range(n)
                  for d in (0, 1) for sc in ("a", "b")]
        add(c, ops=airgen.fifo_schedule(10), ops_b=airgen.fifo_schedule(10), cross=cross, max_terms=5)
    return cases


HARNESS_KEYS = ("mode", "script", "script_b", "peers", "init", "services", "ops", "ops_b", "cross", "seq_canons", "expect_c",
                "model", "max_terms", "max_paths", "max_depth", "designated", "seed")


def evaluate(cases, result, tier):
    if not cases:
        return
    outs = vlib.harness_lines("canon11", [json.dumps({k: c[k] for k in HARNESS_KEYS if k in c}) for c in cases], timeout=2400)
    dist = result["distribution"]
    terms, owner = [], []

    def bump(k, n=1):
        dist[k] = dist.get(k, 0) + n

    for ci, o in enumerate(outs):
        c = cases[ci]
        if "error" in o:
            result["errors"].append("%s: %s" % (c.get("family"), o["error"][:400]))
            continue
        fam = c.get("family", "replay")
        bump("cases/%s/%s" % (c.get("mode", "history"), fam))
        bump("runs/%s" % c.get("mode", "history"), int(o.get("runs", 0)))
        result["evaluations"] += int(o.get("runs", 0))
        bump("service invocations", int(o.get("invocations", 0)))
        for k, v in (o.get("stats") or {}).items():
            bump(k, int(v))
        if c.get("mode") == "explore":
            bump("delivery orders explored", int(o.get("paths", 0)))
            bump("explore: exhaustive" if o.get("exhaustive") else "explore: path budget reached (random walks)")
        if c.get("mode") in ("fork", "forge"):
            bump("%s: refusal cases presented" % c["mode"], int(o.get("presented", 0)))
            bump("%s: refused" % c["mode"], int(o.get("rejected", 0)))
            for kk, vv in (o.get("refusal_codes") or {}).items():
                bump("refusals/" + kk, int(vv))
        if o.get("quiescent"):
            bump("histories that reached quiescence")
        if int((o.get("stats") or {}).get("canon results created", 0)) > 0:
            result["distinct"].add(json.dumps([c["script"], c.get("ops"), c.get("mode")]))
        for cl in o["classes"]:
            bump("model runs/" + cl)
        scripts = [o["script_term"], o.get("script_term_b") or o["script_term"]]
        for ti, t in enumerate(o["coq"]):
            which = o["term_script"][ti] if ti < len(o.get("term_script", [])) else 0
            terms.append("(let script := %s in %s)" % (scripts[which], t))
            owner.append((ci, ti))
            result["distinct"].add(str(hash(t)))
        for f in o.get("oracle_failures", []):
            result["oracle_fail"].append({"case": dict(c), "detail": f, "key": f.get("key"),
                                          "what": "C11 oracle false on the implementation: %s" % f.get("what", "")})
        if len(result["samples"]) < 3 and o["coq"] and ci % 5 == 0:
            result["samples"].append({"case": {k: c[k] for k in ("mode", "script", "peers", "family") if k in c}, "stats": o.get("stats"),
                                      "first_term": o["coq"][0][:600]})
    if not terms:
        return
    fails, errs = vlib.coq_eval_cases("C11", HEADER, "case_t",
                                      {"model": "check_case_c11", "oracle_run": "c11_run_oracle", "supported": "supported_c11"},
                                      terms, shard_size=max(20, -(-len(terms) // vlib.NPROC)), timeout=1800)
    result["errors"].extend(errs)
    bump("model runs: compared", len(terms) - len(fails.get("supported", [])))
    bump("model runs: unsupported by the model (not compared)", len(fails.get("supported", [])))
    for i in fails.get("model", []):
        ci, ti = owner[i]
        info = outs[ci]["info"][ti] if ti < len(outs[ci]["info"]) else {}
        result["mismatch"].append({"case": dict(cases[ci]), "term_index": ti, "info": info,
                                   "what": "the executor model (check_case_c11) disagrees with the implementation on this run"})
    for i in fails.get("oracle_run", []):
        ci, ti = owner[i]
        info = outs[ci]["info"][ti] if ti < len(outs[ci]["info"]) else {}
        result["oracle_fail"].append({"case": dict(cases[ci]), "term_index": ti, "info": info, "key": None,
                                      "what": "c11_run_oracle (Coq) is false on the implementation's observation: a canon result was created "
                                              "by a peer it does not name, or a result held in the previous data is gone from the produced data"})
