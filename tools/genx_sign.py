"""Translator piece for C03 (produced data is signed / closed / versioned): the facts of the Rust
sources that model/SignSpec.v and the proofs of C03 rely on, re-read on every run.

    produced_version / produced_version_pre   the `version` of air/Cargo.toml (= env!("CARGO_PKG_VERSION") of the
                                              crate that compiles farewell_step/outcome.rs), as a triple + "has a pre-release part"
    outcome_version_is_pkg_version            outcome.rs passes semver::Version::parse(env!("CARGO_PKG_VERSION")) to
                                              InterpreterDataEnvelope::from_execution_result, and interpreter_versions.rs
                                              defines INTERPRETER_VERSION from the same env!
    sign_salt_is_particle_id                  runner.rs: `let salt = params.particle_id.clone()`, used by verify(..) and
                                              sign_produced_cids(..); context.rs RunParameters: `salt: run_parameters.particle_id...`;
                                              outcome.rs sign_result signs with `exec_ctx.run_parameters.salt`
    sign_after_execution                      runner.rs: sign_produced_cids comes after air.execute(..);
                                              outcome.rs populate_outcome_from_contexts: compactify_streams, then sign_result,
                                              then from_execution_result (trace and stores are final when the signature is made)
    signature_put_under_own_key               signing_step.rs / outcome.rs: signature_store.put(keypair.public(), signature)
    tracker_registers_current_peer_only       trackers.rs register: `if peer == *self.current_peer_id { self.cids.push(..) }`
    record_cid_sites                          per function: number of record_call_cid / record_canon_cid calls and whether each
                                              of them precedes the function's meet_call_end (call states) -- the pairing
                                              "state attributed to a peer <-> CID recorded for that peer" the invariant rests on
    record_peer_args                          the first argument of every record_*_cid call, in source order
    track_service_result_inserts              cid_state.rs track_service_result: value_tracker, tetraplet_tracker,
                                              service_result_agg_tracker are all written
    cid_info_verify_refs                      cid_info.rs: the store-to-store references CidInfo::verify checks, in order
    attribution_reads                         verification.rs collect_peers_cids_from_trace: which store / field gives the peer

model/SignSpec.v proves [sign_table_agrees = true] by computation, so a change of any of these
breaks an obligation of C03."""
import re

import gen_model
from gen_model import TranslationError, coq_list, coq_str, read, strip_comments
from genx_sig import fn_body

CARGO = "air/Cargo.toml"
OUTCOME = "air/src/farewell_step/outcome.rs"
VERSIONS = "air/src/preparation_step/interpreter_versions.rs"
RUNNER = "air/src/runner.rs"
CONTEXT = "air/src/execution_step/execution_context/context.rs"
SIGNING = "air/src/signing_step.rs"
TRACKERS = "crates/air-lib/interpreter-signatures/src/trackers.rs"
PREV = "air/src/execution_step/instructions/call/prev_result_handler.rs"
SETTER = "air/src/execution_step/instructions/call/call_result_setter.rs"
CANON = "air/src/execution_step/instructions/canon_utils/mod.rs"
CIDSTATE = "air/src/execution_step/execution_context/cid_state.rs"
CIDINFO = "crates/air-lib/interpreter-data/src/cid_info.rs"
VERIF = "crates/air-lib/interpreter-data/src/interpreter_data/verification.rs"


def coq_bool(b):
    return "true" if b else "false"


def package_version():
    src = read(CARGO)
    m = re.search(r"^\[package\](.*?)(?=^\[|\Z)", src, flags=re.S | re.M)
    if not m:
        raise TranslationError("[package] section not found in " + CARGO)
    v = re.search(r'^\s*version\s*=\s*"([^"]+)"', m.group(1), flags=re.M)
    if not v:
        raise TranslationError("package version not found in " + CARGO)
    mm = re.fullmatch(r"(\d+)\.(\d+)\.(\d+)(-[0-9A-Za-z.-]+)?(\+[0-9A-Za-z.-]+)?", v.group(1))
    if not mm:
        raise TranslationError("package version %r is not a semver version" % v.group(1))
    return (int(mm.group(1)), int(mm.group(2)), int(mm.group(3))), mm.group(4) is not None


def order(src, rel, *needles):
    """positions of the needles (regexes) in src must be strictly increasing"""
    pos = -1
    for n in needles:
        m = re.compile(n, flags=re.S).search(src, pos + 1)
        if not m:
            return False
        pos = m.start()
    return True


def functions_of(src):
    """top-level-ish `fn name` bodies of a file: name -> body text (first definition wins)"""
    out = {}
    for m in re.finditer(r"\bfn\s+([a-z_][a-z0-9_]*)\b", src):
        name = m.group(1)
        if name in out:
            continue
        # skip the signature up to the body's opening brace: the first `{` at parenthesis depth 0
        i, par = m.end(), 0
        while i < len(src):
            ch = src[i]
            if ch in "(<[" and not (ch == "<" and src[i - 1] == "-"):
                par += 1 if ch == "(" else 0
            elif ch == ")":
                par -= 1
            elif ch == ";" and par == 0:
                i = -1
                break
            elif ch == "{" and par == 0:
                break
            i += 1
        if i < 0 or i >= len(src):
            continue
        depth, j = 1, i + 1
        while j < len(src) and depth > 0:
            depth += {"{": 1, "}": -1}.get(src[j], 0)
            j += 1
        out[name] = src[i:j]
    return out


def record_sites():
    rows, peers = [], []
    for rel in (PREV, SETTER, CANON):
        src = strip_comments(read(rel))
        fns = functions_of(src)
        for name, body in fns.items():
            # nested closures/functions are not expected in these files; count direct calls only
            calls = [m for m in re.finditer(r"\.record_(call|canon)_cid\(\s*([^,]+),", body)]
            if not calls:
                continue
            ends = [m.start() for m in re.finditer(r"\.meet_call_end\(", body)]
            # every record precedes the next meet_call_end of the same function, when the function emits the state itself
            before_end = all(any(e > c.start() for e in ends) for c in calls) if ends else True
            rows.append((name, len(calls), len(ends), before_end))
            for c in calls:
                peers.append((name, re.sub(r"\s+", "", c.group(2))))
    if not rows:
        raise TranslationError("no record_call_cid / record_canon_cid call found")
    return rows, peers


def generate():
    out = []
    w = out.append
    w("(* ---- tools/genx_sign.py (C03) ---- *)")
    (a, b, c), pre = package_version()
    w("Definition produced_version : N * N * N := (%d%%N, %d%%N, %d%%N)." % (a, b, c))
    w("Definition produced_version_pre : bool := %s." % coq_bool(pre))

    osrc = strip_comments(read(OUTCOME))
    vsrc = strip_comments(read(VERSIONS))
    pop = fn_body(osrc, "populate_outcome_from_contexts", OUTCOME)
    ok_v = bool(re.search(r"from_execution_result\((?:[^;]*?)semver::Version::parse\(env!\(\"CARGO_PKG_VERSION\"\)\)", pop, flags=re.S)) and \
        bool(re.search(r"INTERPRETER_VERSION\s*:[^=]*=\s*Lazy::new\(\|\|\s*semver::Version::from_str\(env!\(\"CARGO_PKG_VERSION\"\)\)", vsrc, flags=re.S))
    w("Definition outcome_version_is_pkg_version : bool := %s." % coq_bool(ok_v))

    rsrc = strip_comments(read(RUNNER))
    csrc = strip_comments(read(CONTEXT))
    sign_result = fn_body(osrc, "sign_result", OUTCOME)
    salt_ok = (bool(re.search(r"let\s+salt\s*=\s*params\.particle_id\.clone\(\)\s*;", rsrc))
               and bool(re.search(r"verify\(\s*&prev_data\s*,\s*&current_data\s*,\s*&salt\s*\)", rsrc))
               and bool(re.search(r"sign_produced_cids\(\s*&mut\s+exec_ctx\.peer_cid_tracker\s*,\s*&mut\s+exec_ctx\.signature_store\s*,\s*&salt\s*,", rsrc))
               and bool(re.search(r"\bsalt\s*:\s*run_parameters\.particle_id\.as_str\(\)\.into\(\)", csrc))
               and bool(re.search(r"\.peer_cid_tracker\s*\.gen_signature\(\s*&exec_ctx\.run_parameters\.salt\s*,\s*keypair\s*\)", sign_result)))
    w("Definition sign_salt_is_particle_id : bool := %s." % coq_bool(salt_ok))

    after = (order(rsrc, RUNNER, r"air\.execute\(\s*&mut\s+exec_ctx", r"sign_produced_cids\(", r"farewell::from_success_result\(")
             and order(pop, OUTCOME, r"compactify_streams\(", r"sign_result\(", r"from_execution_result\(")
             and len(re.findall(r"sign_result\(", pop)) == 1)
    w("Definition sign_after_execution : bool := %s." % coq_bool(after))

    ssrc = strip_comments(read(SIGNING))
    put_ok = (bool(re.search(r"let\s+public_key\s*=\s*keypair\.public\(\)\s*;\s*signature_store\.put\(\s*public_key\s*,\s*signature\s*\)", ssrc))
              and bool(re.search(r"let\s+current_pubkey\s*=\s*keypair\.public\(\)\s*;\s*exec_ctx\.signature_store\.put\(\s*current_pubkey\s*,\s*current_signature\s*\)", sign_result)))
    w("Definition signature_put_under_own_key : bool := %s." % coq_bool(put_ok))

    tsrc = strip_comments(read(TRACKERS))
    reg = fn_body(tsrc, "register", TRACKERS)
    reg_ok = bool(re.search(r"if\s+peer\s*==\s*\*self\.current_peer_id\s*\{\s*self\.cids\.push\(\s*cid\.get_inner\(\)\s*\)\s*;?\s*\}", reg)) and \
        "else" not in reg
    gen = fn_body(tsrc, "gen_signature", TRACKERS)
    reg_ok = reg_ok and bool(re.search(r"sign_cids\(\s*self\.cids\.clone\(\)\s*,\s*salt\s*,", gen))
    w("Definition tracker_registers_current_peer_only : bool := %s." % coq_bool(reg_ok))

    rows, peers = record_sites()
    w("Definition record_cid_sites : list (string * N * N * bool) := %s." % coq_list(
        ["(%s, %d%%N, %d%%N, %s)" % (coq_str(n), k, e, coq_bool(bf)) for n, k, e, bf in rows]))
    w("Definition record_peer_args : list (string * string) := %s." % coq_list(
        ["(%s, %s)" % (coq_str(n), coq_str(p)) for n, p in peers]))

    cs = strip_comments(read(CIDSTATE))
    tsr = fn_body(cs, "track_service_result", CIDSTATE)
    ins = re.findall(r"self\s*\.\s*(\w+_tracker)\s*\.\s*(track_raw_value|track_value)\(", tsr)
    if not ins:
        raise TranslationError("track_service_result writes no tracker")
    w("Definition track_service_result_inserts : list string := %s." % coq_list([coq_str(t) for t, _ in ins]))

    ci = strip_comments(read(CIDINFO))
    refs = []
    for fn in ("verify_service_result_store", "verify_canon_result_store"):
        body = fn_body(ci, fn, CIDINFO)
        for m in re.finditer(r"self\s*\.\s*(\w+_store)\s*\.\s*check_reference\(\s*(\w+)\s*,\s*&?\s*([\w.]+)\s*\)", body):
            refs.append("%s:%s<-%s" % (fn, m.group(1), m.group(3)))
    ver = fn_body(ci, "verify", CIDINFO)
    calls = re.findall(r"self\.(verify_\w+)\(\)\?", ver)
    if not refs or not calls:
        raise TranslationError("CidInfo::verify: reference checks not found")
    w("Definition cid_info_verify_calls : list string := %s." % coq_list([coq_str(x) for x in calls]))
    w("Definition cid_info_verify_refs : list string := %s." % coq_list([coq_str(x) for x in refs]))

    vs = strip_comments(read(VERIF))
    col = fn_body(vs, "collect_peers_cids_from_trace", VERIF)
    reads = []
    for m in re.finditer(r"ExecutedState::(\w+)\(([^)]*\)?)\)\s*=>|\.\s*(\w+_store)\s*\.get\(\s*&?([\w.]+)\s*\)|let\s+peer_pk\s*=\s*(\w+)\.peer_pk|try_push_cid\(\s*grouped_cids\s*,\s*peer_pk\s*,\s*(\w+)\s*\)", col):
        if m.group(1):
            reads.append("state:" + m.group(1) + ":" + re.sub(r"\s+", "", m.group(2)))
        elif m.group(3):
            reads.append("get:%s:%s" % (m.group(3), m.group(4)))
        elif m.group(5):
            reads.append("peer:" + m.group(5))
        else:
            reads.append("push:" + m.group(6))
    if not reads:
        raise TranslationError("collect_peers_cids_from_trace: nothing recognised")
    w("Definition attribution_reads : list string := %s." % coq_list([coq_str(x) for x in reads]))
    # CallResult::get_cid: which call results carry a service-result CID
    impls = strip_comments(read("crates/air-lib/interpreter-data/src/executed_state/impls.rs"))
    arms = []
    for fn_owner, pat in (("CallResult", r"impl\s+CallResult\s*\{"), ("ValueRef", r"impl\s+ValueRef\s*\{")):
        m = re.search(pat, impls)
        if not m:
            raise TranslationError("impl %s not found" % fn_owner)
        body = fn_body(impls[m.start():], "get_cid", "executed_state/impls.rs")
        for a in re.finditer(r"(\w+)::(\w+)\s*(?:\([^)]*\)|\{[^}]*\})?\s*=>\s*(None|Some\(\w+\)|\w+\.get_cid\(\))", body):
            arms.append("%s::%s=>%s" % (a.group(1), a.group(2), "None" if a.group(3) == "None" else ("Some" if a.group(3).startswith("Some") else "inner")))
    w("Definition get_cid_arms : list string := %s." % coq_list([coq_str(x) for x in arms]))
    w("")
    return out
