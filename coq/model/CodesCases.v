(* CodesCases.v -- C02 correspondence: one real run of `air::execute_air` (harness/src/bin/codes02.rs)
   against the routing model of model/CodesSpec.v, and the property oracle evaluated on the
   implementation's observation alone.

   The world's stage results come from the crates' public decoders applied to the run's input
   (harness/src/cmd_limits.rs world_of); what the executor did ([exec_class]) is read off the
   return code of the run; bytes are tokens (the harness compares the real bytes). *)
From Aqua Require Import Base Json Air Trace Handler Values Scalars Lens Exec RunExec RunTop CodesSpec.
Open Scope N_scope.
Open Scope list_scope.

Inductive exec_class :=
| XcOk (leftover : bool)        (* execution succeeded; call results were left over *)
| XcCatchable (idx : N)         (* uncaught catchable error, variant number idx *)
| XcUncatchable (idx : N)       (* uncatchable error (or a failing sign_produced_cids), variant number idx *)
| XcOther (code : Z).           (* none of the documented outcomes *)

Record cobs := {
  co_panic : bool;
  co_code : Z;
  co_eq_prev : bool;       (* data = previous data, byte for byte *)
  co_empty : bool;
  co_decodable : bool;     (* non-empty and decodes as envelope + data *)
  co_next : N;
  co_reqs : option N;      (* None: the call request bytes do not decode *)
  co_flags : flags
}.

Record ccase := { cc_world : world exec_class; cc_limits : limits; cc_prev_empty : bool; cc_obs : cobs }.
Definition case_t := ccase.

Definition prev_token (c : ccase) : bytes := if cc_prev_empty c then [] else [7].
Definition new_token : bytes := [1].

Definition nthZ (names : list string) (start : Z) (i : N) : option Z :=
  if i <? N.of_nat (length names) then Some (start + Z.of_N i)%Z else None.

(* farewell of a run whose executor behaved as [x]: the functions of CodesSpec *)
Definition class_rest (prev : bytes) (x : exec_class) (fl : flags) : full_outcome :=
  let new code := FOut {| r_code := code; r_data := new_token; r_next := []; r_reqs := []; r_flags := fl |} in
  match x with
  | XcOk false => new interpreter_success
  | XcOk true => new farewell_error_code
  | XcCatchable i =>
      match nthZ catchable_error_variants catchable_errors_start_id i with
      | Some code => new code | None => FUnsupported "catchable code outside the enum" end
  | XcUncatchable i =>
      match nthZ uncatchable_error_variants uncatchable_errors_start_id i with
      | Some code => FOut (from_uncatchable_error prev code fl) | None => FUnsupported "uncatchable code outside the enum" end
  | XcOther _ => FUnsupported "undocumented code"
  end.

Definition model_outcome (c : ccase) : full_outcome :=
  route (class_rest (prev_token c)) (cc_limits c) (cc_world c) (prev_token c).

Definition bytes_eqb (a b : bytes) : bool := list_eqb N.eqb a b.

(* correspondence: same code, same flags, same data relation (previous bytes + nothing else, or new data) *)
Definition check_case (c : ccase) : bool :=
  let o := cc_obs c in
  if co_panic o then true else          (* C01's business; counted by the harness *)
  match model_outcome c with
  | FOut r =>
      (r_code r =? co_code o)%Z && flags_eqb (r_flags r) (co_flags o) &&
      (if bytes_eqb (r_data r) new_token
       then negb (co_empty o) && co_decodable o
       else co_eq_prev o && (co_next o =? 0) && match co_reqs o with Some 0 => true | _ => false end)
  | _ => false
  end.

(* the property, on the implementation's observation only *)
Definition c02_oracle (c : ccase) : bool :=
  let o := cc_obs c in
  if co_panic o then true else
  if fail_code (co_code o) then
    co_eq_prev o && (co_next o =? 0) && match co_reqs o with Some 0 => true | _ => false end
  else if ok_code (co_code o) then negb (co_empty o) && co_decodable o
  else false.
