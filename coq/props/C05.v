(* props/C05.v -- each service call runs exactly once and its result is never lost.
   Only pinned statements, [exact], non-vacuity examples and Print Assumptions.
   Statements in model/IdsSpec.v.  The history-level reading ([C05_full]) is not proved: it is the
   subject of the history oracle of checks/C05.py; proved here is everything one call does. *)
From Aqua Require Import Base Json Air Trace Handler Values Scalars Lens Exec RunExec ExecStreams CallSpec IdsSpec ExecInv IdsProofs.
From Aqua Require SeqLocal NetLin NetLinCases NetLinProofs.
Open Scope N_scope.
Open Scope list_scope.

(* a call that meets Executed, Failed or its own peer's RequestSentBy(me, _) issues no request *)
Theorem C05_not_rerequested_partial : C05_not_rerequested_stmt.
Proof. exact C05_not_rerequested_holds. Qed.

(* a result handed back under the id of the pending state is removed from the map and becomes the
   Executed / Failed state appended to the result trace (or the whole run is void) *)
Theorem C05_recorded_partial : C05_recorded_stmt.
Proof. exact C05_recorded_holds. Qed.
Theorem C05_meet_keeps_result : C05_meet_keeps_result_stmt.
Proof. exact C05_meet_keeps_result_holds. Qed.

(* without a result the pending state is written back unchanged, nothing is issued, the subgraph is incomplete *)
Theorem C05_pending_kept_partial : C05_pending_kept_stmt.
Proof. exact C05_pending_kept_holds. Qed.

(* whenever a request is issued the state RequestSentBy(me, id) carrying that very id is what the call
   leaves in the trace, and the request names the service and function of the call *)
Theorem C05_request_recorded_partial : C05_request_recorded_stmt.
Proof. exact C05_request_recorded_holds. Qed.

(* over a whole run the requests are only appended and results only removed (C06_fresh_exec, C06_routing_exec) *)
Theorem C05_exec_frame_partial : C06_fresh_exec_stmt /\ C06_routing_exec_stmt.
Proof. split; [exact C06_fresh_exec_holds | exact C06_routing_exec_holds]. Qed.

(* ---- non-vacuity: the three runs of (par (call A f) (call A g)) ---- *)
Example C05_ex_requested_once :
  map (fun r => rq_function (snd r)) (out_requests ex_first_out) = ["f"; "g"] /\
  out_requests ex_second_out = [] /\ out_requests ex_third_out = [].
Proof. vm_compute. repeat split; reflexivity. Qed.
Example C05_ex_recorded :
  out_trace ex_third_out = [SPar 1 1; SCall (Executed (VRUnused (CValue (JStr "six")))); SCall (Executed (VRUnused (CValue (JStr "seven"))))].
Proof. vm_compute. reflexivity. Qed.

(* ---- history level, straight-line scripts on several peers (model/NetLin.v: the approximation invariant) ----
   In EVERY honest history of a straight-line script the service invocations are a PREFIX of the calls of the
   sequential reading, in its order: every call is invoked at most once, with the reading's arguments; and a request
   is pending at a host only for the NEXT call of the reading, alone, at the peer it is addressed to. *)
Theorem C05_linear_at_most_once : forall svc init ts ttl,
    (NetLin.lin_log_is_prefix svc init ts ttl RunExec.run1 /\ NetLin.lin_pending_is_next svc init ts ttl RunExec.run1) /\
    (NetLin.lin_log_is_prefix svc init ts ttl ExecStreams.run2 /\ NetLin.lin_pending_is_next svc init ts ttl ExecStreams.run2).
Proof.
  intros. split; (split; [apply NetLinProofs.log_is_prefix_gen | apply NetLinProofs.pending_is_next_gen]);
    first [apply NetLinProofs.run1_step | apply NetLinProofs.run2_step].
Qed.

Example C05_linear_at_most_once_example :
  match NetLinCases.nlx_full with
  | Some F => SeqLocal.n_log (NetLinCases.nlx_history 10) = NetLin.o_calls F /\ length (NetLin.o_calls F) = 4%nat
  | None => False
  end.
Proof. vm_compute. split; reflexivity. Qed.

Print Assumptions C05_not_rerequested_partial.
Print Assumptions C05_recorded_partial.
Print Assumptions C05_meet_keeps_result.
Print Assumptions C05_pending_kept_partial.
Print Assumptions C05_request_recorded_partial.
Print Assumptions C05_exec_frame_partial.
Print Assumptions C05_linear_at_most_once.
