(* WireCases.v -- executable comparison functions for the generated case files of C27:
   the model of Wire.v against what the real crates did ([check_case]) and the property itself
   evaluated on the implementation's observations only ([c27_oracle]). *)
From Aqua Require Import Base Wire.
Open Scope list_scope.
Open Scope N_scope.

(* byte strings travel as hexadecimal text *)
Definition hexval (a : ascii) : N :=
  let n := N_of_ascii a in
  if (48 <=? n) && (n <=? 57) then n - 48
  else if (97 <=? n) && (n <=? 102) then n - 87
  else if (65 <=? n) && (n <=? 70) then n - 55
  else 0.
Fixpoint unhex (s : string) : list N :=
  match s with
  | String a (String b r) => (16 * hexval a + hexval b) :: unhex r
  | _ => []
  end.

Definition unhexs (l : list string) : list N := flat_map unhex l.

(* long runs of one byte are written as [rep n b] *)
Definition rep (n b : N) : list N := repeat b (N.to_nat n).

(* content check of byte strings that are not printed: length and a polynomial hash *)
Definition bhash (l : list N) : N := fold_left (fun h b => (h * 257 + b + 1) mod 4294967291) l 0.

(* what the real decode of a call map said *)
Inductive mf_obs :=
| MfOkSame                      (* decoded, equal to the value that was encoded *)
| MfOkDifferent                 (* decoded to something else: a misread *)
| MfErrCodec (c : N)
| MfErrVarint (e : varint_error)
| MfErrFormat.

Inductive tag_kind :=
| TagCanonical (c : N)          (* the tag is the real encoder's tag of codec c *)
| TagRaw (canon : list N).      (* arbitrary tag bytes; [canon] = real encoder's tag of the expected codec *)

(* corruption of the inner data of an envelope (then re-serialized by the real code) *)
Inductive corruption := CFlip (i bit : N) | CTruncate (k : N) | CBytes (b : list N).
(* mutation of the serialized envelope itself *)
Inductive env_mut := MCut (k : N) | MJunk (j : list N) | MFlip (pos bit : N).

Definition ver_obs : Type := option (string * string).
Definition full_obs : Type := option (string * string * N * N).      (* versions, inner length, inner hash *)

Inductive case_t :=
| WVarint (n : N) (enc rest : list N) (dec : varint_result)
    (* real tag of codec n, and the real parse of enc ++ rest *)
| WVarintRaw (bs : list N) (dec : varint_result) (reenc : list N)
    (* real parse of arbitrary bytes; reenc = real tag of the parsed number ([] on error) *)
| WMulti (codec tag_len : N) (bytes : list N) (obs : mf_obs) (tags : list (tag_kind * list N * mf_obs))
    (* Repr.serialize of a map = bytes (its first tag_len bytes are the tag), obs = Repr.deserialize bytes;
       tags: the same payload under another tag, and what Repr.deserialize said *)
| WEnv (dv iv : string) (inner_len : N) (real : list N) (same : bool)
       (vers : list (corruption * list N * ver_obs))
       (raws : list (env_mut * ver_obs * full_obs))
    (* real = envelope {dv, iv, inner}.serialize() where inner = the last inner_len bytes of real;
       same = try_from_slice(real) gives the three parts back;
       vers: the envelope serialized with corrupted inner data (the bytes in front of the inner data are
             listed), and what try_get_versions said;
       raws: real itself cut / extended / bit-flipped, what try_get_versions and try_from_slice said *)
| WDataRT (kind : string) (same : bool).
    (* InterpreterData / envelope of a real run re-encoded and decoded: equal after canonicalisation *)

Definition verr_eqb (a b : varint_error) : bool :=
  match a, b with
  | VInsufficient, VInsufficient | VOverflow, VOverflow | VNotMinimal, VNotMinimal => true
  | _, _ => false
  end.
Definition vres_eqb (a b : varint_result) : bool :=
  match a, b with
  | VOk n r, VOk m s => (n =? m) && bytes_eqb r s
  | VErr e, VErr f => verr_eqb e f
  | _, _ => false
  end.
Definition obs_eqb (a b : mf_obs) : bool :=
  match a, b with
  | MfOkSame, MfOkSame | MfOkDifferent, MfOkDifferent | MfErrFormat, MfErrFormat => true
  | MfErrCodec c, MfErrCodec d => c =? d
  | MfErrVarint e, MfErrVarint f => verr_eqb e f
  | _, _ => false
  end.
Definition opt_bytes_eqb (a b : option (list N)) : bool := option_eqb bytes_eqb a b.

(* the inner format is abstract: it accepts exactly the payload the real format produced *)
Definition dec_for (payload : list N) (p : list N) : option unit :=
  if bytes_eqb p payload then Some tt else None.

Definition model_vs_obs (m : decode_result unit) (obs : mf_obs) : bool :=
  match m with
  | MOk _ => obs_eqb obs MfOkSame
  | MErr (DCodec c) => obs_eqb obs (MfErrCodec c)
  | MErr (DVarInt e) => obs_eqb obs (MfErrVarint e)
  | MErr DFormat =>
      (* the varint consumed something else than the tag: the rest is not the original payload and
         the model has no opinion on what the inner format makes of it *)
      obs_eqb obs MfErrFormat || obs_eqb obs MfOkDifferent
  end.

Definition ver_obs_ok (m : env_res (string * string)) (obs : ver_obs) : bool :=
  match m, obs with
  | EOk (a, b), Some (c, d) => String.eqb a c && String.eqb b d
  | EErr, None => true
  | EUnsupported, _ => true
  | _, _ => false
  end.
Definition full_obs_ok (m : env_res (string * string * list N)) (obs : full_obs) : bool :=
  match m, obs with
  | EOk (a, b, i), Some (c, d, len, h) => String.eqb a c && String.eqb b d && (lenN i =? len) && (bhash i =? h)
  | EErr, None => true
  | EUnsupported, _ => true
  | _, _ => false
  end.

Definition id_ver (s : string) : string := s.
Definition some_ver (s : string) : option string := Some s.

Definition lastn (n : N) (l : list N) : list N := skipn (length l - N.to_nat n) l.

Fixpoint flip_at (pos : nat) (bit : N) (l : list N) : list N :=
  match l, pos with
  | [], _ => []
  | b :: r, O => N.lxor b (2 ^ bit) :: r
  | b :: r, S p => b :: flip_at p bit r
  end.

Definition corrupt (inner : list N) (c : corruption) : list N :=
  match c with
  | CFlip i bit => flip_at (N.to_nat i) bit inner
  | CTruncate k => firstn (N.to_nat k) inner
  | CBytes b => b
  end.

Definition mutate (real : list N) (m : env_mut) : list N :=
  match m with
  | MCut k => firstn (N.to_nat k) real
  | MJunk j => real ++ j
  | MFlip pos bit => flip_at (N.to_nat pos) bit real
  end.

(* correspondence: model = implementation *)
Definition check_case (c : case_t) : bool :=
  match c with
  | WVarint n enc rest dec =>
      opt_bytes_eqb (varint_encode_u32 n) (Some enc) && vres_eqb (varint_decode_u32 (enc ++ rest)) dec
  | WVarintRaw bs dec reenc =>
      vres_eqb (varint_decode_u32 bs) dec &&
      match dec with VOk n _ => opt_bytes_eqb (varint_encode_u32 n) (Some reenc) | VErr _ => true end
  | WMulti codec tag_len bytes obs tags =>
      let payload := skipn (N.to_nat tag_len) bytes in
      opt_bytes_eqb (encode_multiformat unit (fun _ => Some payload) codec tt) (Some bytes) &&
      model_vs_obs (decode_multiformat unit (dec_for payload) codec bytes) obs &&
      forallb (fun t => match t with (_, tag, o) =>
                 model_vs_obs (decode_multiformat unit (dec_for payload) codec (tag ++ payload)) o end) tags
  | WEnv dv iv inner_len real same vers raws =>
      let inner := lastn inner_len real in
      opt_bytes_eqb (envelope_serialize string id_ver dv iv inner) (Some real) &&
      full_obs_ok (envelope_try_from_slice string some_ver real) (Some (dv, iv, inner_len, bhash inner)) && same &&
      forallb (fun v => match v with (cr, prefix, o) =>
                 let bad := corrupt inner cr in
                 opt_bytes_eqb (envelope_serialize string id_ver dv iv bad) (Some (prefix ++ bad)) &&
                 ver_obs_ok (try_get_versions string some_ver (prefix ++ bad)) o end) vers &&
      forallb (fun r => match r with (m, vo, fo) =>
                 let b := mutate real m in
                 ver_obs_ok (try_get_versions string some_ver b) vo &&
                 full_obs_ok (envelope_try_from_slice string some_ver b) fo end) raws
  | WDataRT _ same => same
  end.

(* the property on the implementation's observations:
   - what was encoded decodes to exactly that;
   - a payload under the tag of another codec fails with the codec error; nothing is ever misread;
     a raw tag is accepted only if it is the tag the encoder writes for the expected codec;
   - the versions of an envelope are readable whatever its inner data is. *)
Definition tag_oracle (expected : N) (t : tag_kind * list N * mf_obs) : bool :=
  match t with
  | (TagCanonical c', _, obs) => if c' =? expected then obs_eqb obs MfOkSame else obs_eqb obs (MfErrCodec c')
  | (TagRaw canon, tag, obs) =>
      negb (obs_eqb obs MfOkDifferent) && (negb (obs_eqb obs MfOkSame) || bytes_eqb tag canon)
  end.

Definition c27_oracle (c : case_t) : bool :=
  match c with
  | WVarint n enc rest dec => vres_eqb dec (VOk n rest)
  | WVarintRaw bs dec reenc =>
      match dec with VOk n rest => bytes_eqb bs (reenc ++ rest) | VErr _ => true end
  | WMulti codec _ _ obs tags => obs_eqb obs MfOkSame && forallb (tag_oracle codec) tags
  | WEnv dv iv _ _ same vers _ =>
      same &&
      forallb (fun v => match v with
                        | (_, _, Some (a, b)) => String.eqb a dv && String.eqb b iv
                        | (_, _, None) => false
                        end) vers
  | WDataRT _ same => same
  end.
