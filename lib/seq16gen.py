"""Generator of AIR scripts of the C16 fragment F (coq/model/SeqFrag.v: in_fragment) over 3-5 peers.

Every script it produces is meant to satisfy `in_fragment` (Coq re-checks each one: `check_fragment`):
  * calls, seq, par, xor, match/mismatch, fail (literal), null, never, ap to scalars, lenses, new on
    scalars, folds over scalars / lens results / iterators in the four `next` shapes, last instruction;
  * an instruction that can fail (failing service, lens, variable target, match, fail, fold over a scalar,
    read of a `new` variable) only where an xor catches it with no par in between -- otherwise it is
    wrapped into `(xor X handler)` on the spot;
  * names are fresh everywhere except for `new x` scopes re-declaring a visible scalar;
  * par branches never read what the sibling defines.
Service results are deterministic functions of (peer, service, function, arguments): `tag` answers
"tag@<peer>", `args` answers its arguments, `id` its first argument -- so a value taken from the wrong
scope, a wrong iteration value or a wrong executing peer shows up in later arguments.
All randomness comes from the `random.Random` passed in."""

PEERS = ["A", "B", "C", "D", "E"]

SERVICES = [
    ["s", "id", {"echo": 0}],
    ["s", "arr", {"const": ["a", "b", "c"]}],
    ["s", "arr1", {"const": ["a"]}],
    ["s", "aa", {"const": ["a", "a"]}],
    ["s", "arr2", {"const": [["x", "y"], ["z"]]}],
    ["s", "obj", {"const": {"f": "v", "n": 7, "l": ["p", "q"], "o": {"k": "w"}, "p": "@B", "ps": ["@C", "@A"], "i": 1}}],
    ["s", "num", {"const": 1}],
    ["s", "float", {"const": 1.5}],
    ["s", "yes", {"const": True}],
    ["s", "nil", {"const": None}],
    ["s", "one", {"const": "a"}],
    ["s", "args", {"args": 1}],
    ["s", "tag", {"peertag": 1}],
    ["s", "fail", {"err": [1, "boom"]}],
    ["s", "fail2", {"err": [42, {"why": "bad"}]}],
    ["s", "empty", {"const": []}],
    ["s", "peer_b", {"const": "@B"}],
    ["s", "peer_c", {"const": "@C"}],
    ["s", "peers", {"const": ["@A", "@B", "@C"]}],
]

# function -> kind of the result
RESULT_KIND = {"id": "any", "arr": "arr", "arr1": "arr", "aa": "arr", "arr2": "arr2", "obj": "obj", "num": "num", "float": "float",
               "yes": "bool", "nil": "nil", "one": "str", "args": "args", "tag": "str", "empty": "empty", "peer_b": "peer",
               "peer_c": "peer", "peers": "peers"}
ELEM_KIND = {"arr": "str", "arr2": "arr", "peers": "peer", "args": "any", "empty": "any"}


class Gen:
    def __init__(self, rng, peers=3, depth=4, never=0.03, tail_par=False):
        self.r = rng
        self.tail_par = tail_par      # par (and folds whose body is a par) only where nothing runs afterwards
        self.peers = PEERS[:peers]
        self.depth = depth
        self.n = 0
        self.never = never
        self.stats = {}

    def count(self, k):
        self.stats[k] = self.stats.get(k, 0) + 1

    def fresh(self, prefix="v"):
        self.n += 1
        return "%s%d" % (prefix, self.n)

    @staticmethod
    def copy(sc):
        return {"vars": dict(sc["vars"]), "iters": dict(sc["iters"]), "news": set(sc["news"])}

    def names(self, sc, kinds=None):
        out = [n for n, k in sc["vars"].items() if kinds is None or k in kinds]
        out += [n for n, k in sc["iters"].items() if kinds is None or k in kinds]
        return out

    def peer_lit(self):
        return '"@%s"' % self.r.choice(self.peers)

    # ---- operands: (text, can_fail) ----
    def target(self, sc, allow_fallible):
        r = self.r
        if allow_fallible and r.random() < 0.3:
            c = []
            for n in self.names(sc, ("peer",)):
                c.append(n)
            for n in self.names(sc, ("obj",)):
                c += [n + ".$.p", n + ".$.ps.[0]", n + ".$.ps.[1]"]
            for n in self.names(sc, ("peers",)):
                c += [n + ".$.[0]", n + ".$.[1]", n + ".$.[2]"]
            if c:
                self.count("variable target")
                return r.choice(c), True
        if r.random() < 0.08:
            return "%init_peer_id%", False
        return self.peer_lit(), False

    def arg(self, sc, allow_fallible):
        r = self.r
        opts = [('"lit"', False, 2), ("1", False, 1), ("true", False, 1), ("[]", False, 1), ("%init_peer_id%", False, 1)]
        for n, k in list(sc["vars"].items()) + list(sc["iters"].items()):
            opts.append((n, n in sc["news"], 5))
            if not allow_fallible:
                continue
            if k == "obj":
                opts += [(n + ".$.f", True, 2), (n + ".$.l.[0]", True, 2), (n + ".$.o.k", True, 1), (n + ".$.l.length", True, 1),
                         (n + ".$.ps", True, 1)]
                idx = self.names(sc, ("num",))
                if idx:
                    opts.append((n + ".$.l.[%s]" % r.choice(idx), True, 2))
            if k in ("arr", "peers", "arr2", "args"):
                opts += [(n + ".$.[0]", True, 2), (n + ".$.length", True, 1)]
            if k == "arr2":
                opts.append((n + ".$.[1].[0]", True, 1))
        opts = [o for o in opts if allow_fallible or not o[1]]
        t, f, _ = r.choices(opts, [o[2] for o in opts])[0]
        return t, f

    def args(self, sc, allow_fallible, at_least=0):
        k = max(at_least, self.r.choice([0, 1, 1, 2, 3]))
        fall = False
        out = []
        for _ in range(k):
            t, f = self.arg(sc, allow_fallible)
            out.append(t)
            fall = fall or f
        return "[" + " ".join(out) + "]", fall

    def handler(self, sc):
        """right branch of an xor that is added on the spot: cannot fail itself"""
        if self.r.random() < 0.6:
            return self.call(sc, False, bind=False)
        return "(null)"

    def guard(self, text, fallible, caught, sc):
        if fallible and not caught:
            self.count("wrapped in xor")
            return "(xor %s %s)" % (text, self.handler(sc))
        return text

    def call(self, sc, caught, fn=None, bind=True, out=None):
        """a call; wrapped into an xor when it can fail and nothing catches it"""
        r = self.r
        allow = caught or r.random() < 0.35
        if fn is None:
            fns = ["id", "arr", "arr1", "aa", "arr2", "obj", "num", "float", "yes", "nil", "one", "args", "args", "tag", "tag", "tag",
                   "empty", "peer_b", "peer_c", "peers"]
            if allow:
                fns += ["fail", "fail2"]
            fn = r.choice(fns)
        tgt, f1 = self.target(sc, allow)
        argl, f2 = self.args(sc, allow, at_least=1 if fn == "id" else 0)
        fallible = f1 or f2 or fn in ("fail", "fail2")
        outs = ""
        kind = RESULT_KIND.get(fn, "any")
        if out is not None:
            outs = " " + out
            sc["vars"][out] = kind
        elif bind and fn not in ("fail", "fail2") and r.random() < 0.7:
            name = self.fresh("v")
            outs = " " + name
            # the name becomes visible only after the instruction (it is bound below, after the guard)
            text = '(call %s ("s" "%s") %s%s)' % (tgt, fn, argl, outs)
            res = self.guard(text, fallible, caught, sc)
            sc["vars"][name] = kind
            self.count("call")
            return res
        self.count("call")
        if fn in ("fail", "fail2"):
            self.count("failing service")
        return self.guard('(call %s ("s" "%s") %s%s)' % (tgt, fn, argl, outs), fallible, caught, sc)

    def leaf(self, sc, caught):
        r = self.r
        x = r.random()
        if x < 0.78:
            return self.call(sc, caught)
        if x < 0.84:
            return "(null)"
        if x < 0.84 + self.never:
            self.count("never")
            return "(never)"
        # ap
        srcs = [('"k"', False), ("7", False), ("[]", False)]
        for n in self.names(sc):
            srcs.append((n, n in sc["news"]))
            k = sc["vars"].get(n, sc["iters"].get(n))
            if k == "obj":
                srcs.append((n + ".$.l", True))
            if k == "arr2":
                srcs.append((n + ".$.[0]", True))
        t, f = r.choice(srcs)
        name = self.fresh("v")
        kind = "any"
        base = t.split(".")[0]
        if t == base:
            kind = sc["vars"].get(t, sc["iters"].get(t, "str" if t.startswith('"') else "any"))
        elif t.endswith(".$.l") or t.endswith(".$.[0]"):
            kind = "arr"
        res = self.guard("(ap %s %s)" % (t, name), f, caught, sc)
        sc["vars"][name] = kind
        self.count("ap")
        return res

    def failing(self, sc, d):
        """something that fails (used as the left branch of an xor), possibly after some work"""
        r = self.r
        k = r.choice(["svc", "svc", "fail", "match", "lens", "target"])
        pre = self.leaf(sc, True) if r.random() < 0.5 else None
        if k == "svc":
            x = self.call(sc, True, fn=r.choice(["fail", "fail2"]))
        elif k == "fail":
            x = '(fail %d "user error")' % r.choice([1, 7, 1337])
            self.count("fail")
        elif k == "match":
            x = '(match "a" "b" (null))'
            self.count("match")
        elif k == "lens":
            objs = self.names(sc, ("obj",))
            if objs:
                x = '(call %s ("s" "id") [%s.$.nonexistent])' % (self.peer_lit(), r.choice(objs))
                self.count("lens failure")
            else:
                x = '(fail 9 "no obj")'
        else:
            nums = self.names(sc, ("num", "obj", "arr"))
            if nums:
                x = '(call %s ("s" "tag") [])' % r.choice(nums)      # a target that is not a string
                self.count("non-string target")
            else:
                x = '(mismatch 1 1 (null))'
        if pre:
            return "(seq %s %s)" % (pre, x)
        return x

    def instr(self, sc, d, caught, tail=True):
        r = self.r
        if d <= 0:
            return self.leaf(sc, caught)
        par_ok = tail or not self.tail_par
        opts = [("seq", 7), ("par", 3 if par_ok else 0), ("xor", 3), ("leaf", 3), ("fold", 2), ("new", 1.5), ("match", 2)]
        k = r.choices([o[0] for o in opts], [o[1] for o in opts])[0]
        if k == "leaf":
            return self.leaf(sc, caught)
        if k == "seq":
            a = self.instr(sc, d - 1, caught, False)
            b = self.instr(sc, d - 1, caught, tail)
            return "(seq %s %s)" % (a, b)
        if k == "par":
            self.count("par")
            sa, sb = self.copy(sc), self.copy(sc)
            a = self.instr(sa, d - 1, False, tail)
            b = self.instr(sb, d - 1, False, tail)
            for src in (sa, sb):
                for n, kk in src["vars"].items():
                    sc["vars"].setdefault(n, kk)
            return "(par %s %s)" % (a, b)
        if k == "xor":
            self.count("xor")
            inner = self.copy(sc)
            if r.random() < 0.6:
                left = self.failing(inner, d - 1)
            else:
                left = self.instr(inner, d - 1, True, tail)
            rsc = self.copy(sc)
            right = self.instr(rsc, d - 1, caught, tail)
            # what the left branch defined may or may not exist afterwards; sometimes it is used anyway
            # (the reading is then stuck on it exactly when the left branch failed before defining it)
            if r.random() < 0.25:
                for n, kk in inner["vars"].items():
                    sc["vars"].setdefault(n, kk)
            return "(xor %s %s)" % (left, right)
        if k == "fold":
            return self.fold(sc, d, caught, tail)
        if k == "new":
            self.count("new")
            vis = [n for n in sc["vars"] if n not in sc["news"]]
            if vis and r.random() < 0.65:
                v = r.choice(vis)
                self.count("new shadows a visible scalar")
            else:
                v = self.fresh("v")
            inner = self.copy(sc)
            inner["vars"][v] = "any"
            inner["news"].add(v)
            pre = ""
            if r.random() < 0.3:
                # read before it is set: a failure of its own kind
                pre = "(xor %s %s) " % ('(call %s ("s" "args") [%s])' % (self.peer_lit(), v), self.handler(self.copy(inner)))
                self.count("read of an unset new variable")
            # v stays in `news` for the whole body: a read of v counts as fallible there (SeqFrag.value_fallible)
            first = '(call %s ("s" "tag") [] %s)' % (self.peer_lit(), v)
            inner["vars"][v] = "str"
            body = self.instr(inner, d - 1, caught, tail)
            for n, kk in inner["vars"].items():
                if n != v:
                    sc["vars"].setdefault(n, kk)
            text = "(new %s (seq %s(seq %s %s)))" % (v, pre, first, body) if pre else "(new %s (seq %s %s))" % (v, first, body)
            if v in sc["vars"] and r.random() < 0.6 and (not self.tail_par or not tail or "(par" not in text):
                # the outer value is back after the scope
                self.count("read of a shadowed scalar after its new")
                return "(seq %s (call %s (\"s\" \"args\") [%s]))" % (text, self.peer_lit(), v)
            return text
        if k == "match":
            self.count("match")
            xs = self.names(sc)
            lits = ['"a"', '"b"', "1", "true", "false", "[]", "1.5", "%init_peer_id%", '"tag@A"', '"tag@B"']
            typed = self.names(sc, ("num", "float", "bool", "empty", "nil", "str", "peer"))
            a = r.choice(typed) if typed and r.random() < 0.6 else (r.choice(xs) if xs and r.random() < 0.85 else r.choice(lits))
            ka = sc["vars"].get(a, sc["iters"].get(a))
            same = {"num": ["1", "2"], "float": ["1.5", "1"], "bool": ["true", "false"], "empty": ["[]"], "str": ['"a"', '"tag@A"', '"x"'],
                    "peer": [self.peer_lit()], "any": ['"a"', "1"], "nil": ["[]", '"a"']}.get(ka, lits)
            b = r.choice(same + [a] + xs[:3]) if r.random() < 0.8 else r.choice(lits)
            if a in sc["news"] or b in sc["news"]:
                pass
            kw = r.choice(["match", "match", "mismatch"])
            inner = self.copy(sc)
            body = self.instr(inner, d - 1, True, tail)
            m = "(%s %s %s %s)" % (kw, a, b, body)
            if caught and r.random() < 0.5:
                return m
            hsc = self.copy(sc)
            return "(xor %s %s)" % (m, self.instr(hsc, max(d - 2, 0), caught, tail))
        return self.leaf(sc, caught)

    def fold(self, sc, d, caught, tail=True):
        r = self.r
        self.count("fold")
        cands = []
        for n, k in list(sc["vars"].items()) + list(sc["iters"].items()):
            if n in sc["news"]:
                continue
            if k in ("arr", "arr2", "peers", "args", "empty"):
                cands.append((n, ELEM_KIND[k]))
            if k == "obj":
                cands += [(n + ".$.l", "str"), (n + ".$.ps", "peer")]
            if k == "arr2":
                cands.append((n + ".$.[0]", "str"))
        pre = ""
        if not cands or r.random() < 0.3:
            fn = r.choice(["arr", "arr", "arr1", "aa", "arr2", "peers", "empty"])
            name = self.fresh("v")
            pre = '(call %s ("s" "%s") [] %s)' % (self.peer_lit(), fn, name)
            sc["vars"][name] = RESULT_KIND[fn]
            cands = [(name, ELEM_KIND[RESULT_KIND[fn]])]
        if r.random() < 0.05:
            src, ek = "[]", "any"
        else:
            src, ek = r.choice(cands)
        it = self.fresh("i")
        inner = self.copy(sc)
        inner["iters"][it] = ek
        shape = r.choice(["seq", "seq", "par", "seq_first", "par_first"] if (tail or not self.tail_par) else ["seq", "seq", "seq_first"])
        self.count("fold shape " + shape)
        in_par = shape.startswith("par")
        body_caught = False if in_par else True      # the fold itself is placed under an xor below when needed
        outer = self.copy(inner)        # what the last instruction may read: not what the body defines
        body = self.instr(inner, d - 1, body_caught, tail and in_par)
        b = {"seq": "(seq %s (next %s))", "par": "(par %s (next %s))"}.get(shape)
        if b:
            b = b % (body, it)
        elif shape == "seq_first":
            b = "(seq (next %s) %s)" % (it, body)
        else:
            b = "(par (next %s) %s)" % (it, body)
        last = ""
        if r.random() < 0.25:
            self.count("fold with last instruction")
            last = " " + self.call(self.copy(inner if shape == "seq" else outer), body_caught, bind=False)
        f = "(fold %s %s %s%s)" % (src, it, b, last)
        if src == "[]" and in_par:
            text = f                   # cannot fail at all
        elif caught:
            text = f
        else:
            self.count("wrapped in xor")
            text = "(xor %s %s)" % (f, self.handler(self.copy(sc)))
        return "(seq %s %s)" % (pre, text) if pre else text

    def script(self):
        sc = {"vars": {}, "iters": {}, "news": set()}
        return self.instr(sc, self.depth, False)


def gen_script(rng, peers=3, depth=4, never=0.03, tail_par=False):
    g = Gen(rng, peers, depth, never, tail_par)
    return g.script(), g.stats


def gen_par_skeleton(rng, peers=3, depth=3):
    """Small scripts made of par and seq over infallible calls (so inside F without any xor), many of them at the
    init peer (peer 0): a call that follows a par and needs both branches' values is forwarded with unresolved
    arguments, which makes the par subtraces of different peers differ in size -- the shapes the par state machine
    of the trace handler has to line up.  Meant for exhaustive exploration of delivery orders."""
    names = [0]
    ps = PEERS[:peers]

    def call(vis, join=None):
        names[0] += 1
        v = "v%d" % names[0]
        tgt = '"@%s"' % (ps[0] if rng.random() < 0.45 else rng.choice(ps))
        fn = rng.choice(["tag", "tag", "args", "arr", "num"])
        k = rng.choice([0, 1, 2]) if vis else 0
        al = [rng.choice(vis) for _ in range(k)]
        if join and rng.random() < 0.6:
            al = list(join)[:4]            # a join: one argument from every branch of the par just before
        lens = False
        if al and rng.random() < 0.5:
            # a lens on a value that another peer may not have yet: such a call is forwarded while the value is
            # unknown and fails (no such field) once it is known; under an xor
            al[rng.randrange(len(al))] += rng.choice([".$.length", ".$.nope", ".$.nope", ".$.[0]"])
            lens = True
        text = '(call %s ("s" "%s") [%s] %s)' % (tgt, fn, " ".join(al), v)
        return ("(xor %s (null))" % text if lens else text), v

    def node(vis, d, join=None):
        """returns (text, names defined)"""
        if d <= 0 or rng.random() < 0.2:
            t, v = call(vis, join)
            return t, [v]
        if rng.random() < 0.6:
            a, da = node(list(vis), d - 1)
            b, db = node(list(vis), d - 1)
            return "(par %s %s)" % (a, b), da + db
        a, da = node(list(vis), d - 1)
        b, db = node(vis + da, d - 1 if rng.random() < 0.5 else 0, da if a.startswith("(par") else None)
        return "(seq %s %s)" % (a, b), da + db

    t, _ = node([], depth)
    return t, {"par skeleton": 1}


def gen_join_template(rng, peers=3):
    """(par (seq (par X Y) Z) W) and relatives: Z joins the values of both branches of the inner par (directly or
    through a lens that may fail once the value is known), W is independent work, often at the init peer (peer 0).
    While one of the values is unknown Z is forwarded with unresolved arguments; the peers' par subtraces then
    differ in size."""
    ps = PEERS[:peers]

    def peer(init_bias):
        return '"@%s"' % (ps[0] if rng.random() < init_bias else rng.choice(ps))

    def src(v):
        fn = rng.choice(["args", "arr", "tag", "obj", "num"])
        return '(call %s ("s" "%s") [] %s)' % (peer(0.15), fn, v)

    def operand(v):
        x = rng.random()
        if x < 0.45:
            return v, False
        return v + rng.choice([".$.length", ".$.nope", ".$.[0]", ".$.f"]), True

    a1, l1 = operand("v1")
    a2, l2 = operand("v2")
    z = '(call %s ("s" "%s") [%s %s] v3)' % (peer(0.6), rng.choice(["num", "args", "tag"]), a1, a2)
    if l1 or l2:
        z = "(xor %s %s)" % (z, rng.choice(["(null)", '(call %s ("s" "tag") [] v4)' % peer(0.5)]))
    left = "(seq (par %s %s) %s)" % (src("v1"), src("v2"), z)
    if rng.random() < 0.3:
        left = "(seq %s (call %s (\"s\" \"args\") [v1] v5))" % (left, peer(0.4))
    w = '(call %s ("s" "tag") [] v7)' % peer(0.6)
    if rng.random() < 0.3:
        w = "(new v7 %s)" % w
    elif rng.random() < 0.3:
        w = "(seq %s (call %s (\"s\" \"args\") [v7] v8))" % (w, peer(0.4))
    shape = rng.choice(["LW", "LW", "WL", "L", "seqLW"])
    t = {"LW": "(par %s %s)" % (left, w), "WL": "(par %s %s)" % (w, left), "L": left, "seqLW": "(seq %s %s)" % (left, w)}[shape]
    return t, {"join after par template": 1}


def gen_scope_template(rng, peers=3):
    """(added after the seeded change C16-new-epilog-skipped-on-error was missed) a `new x` whose body FAILS and is caught
    by an xor OUTSIDE the new; the handler and the rest of the script then read x: they must see the OUTER x (or wait
    when there is none), never the value the failed body gave to the inner x."""
    ps = PEERS[:peers]

    def peer():
        return '"@%s"' % rng.choice(ps)

    outer = rng.random() < 0.7
    fail = rng.choice(['(call %s ("s" "fail") [x])' % peer(), '(match x "zzz" (null))', '(fail 7 "user error")',
                       '(call %s ("s" "fail2") [])' % peer()])
    inner = '(seq (call %s ("s" "tag") [] x) %s)' % (peer(), fail)
    body = "(new x %s)" % inner
    if rng.random() < 0.3:
        body = "(seq (call %s (\"s\" \"num\") [] n1) %s)" % (peer(), body)
    handler = '(call %s ("s" "args") [%s] h1)' % (peer(), "x" if outer else '"lit"')
    after = '(call %s ("s" "args") [x] a1)' % peer() if outer else '(call %s ("s" "tag") [] a1)' % peer()
    t = "(seq (xor %s %s) %s)" % (body, handler, after)
    if outer:
        t = '(seq (call %s ("s" "obj") [] x) %s)' % (peer(), t)
    return t, {"new scope left by a caught failure": 1}


def gen_schedule(rng, n_ops=30, dup=0.1, redeliver=0.05, batch=0.3):
    """Random schedule (same operations as lib/airgen.py): deliveries, duplicates, re-deliveries, answers to all
    or to a subset of the pending requests of a peer."""
    ops = [["start"]]
    for _ in range(n_ops):
        x = rng.random()
        if x < 0.45:
            ops.append(["d", rng.randrange(8)])
        elif x < 0.45 + dup:
            ops.append(["dup", rng.randrange(8)])
        elif x < 0.45 + dup + redeliver:
            ops.append(["re", rng.randrange(8)])
        else:
            mask = 0 if rng.random() > batch else rng.randrange(1, 16)
            ops.append(["r", rng.randrange(5), mask])
    return ops
