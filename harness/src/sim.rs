//! Native driver of `air::execute_air` (what `NativeAirRunner` of the repository's own test
//! utilities does), peers with deterministic Ed25519 keys, decoding of outcomes, a table of
//! deterministic services and a small network simulator.

use air_interpreter_interface::{CallRequestsRepr, CallResults, CallResultsRepr, CallServiceResult, RunParameters};
use air_interpreter_sede::{FromSerialized, ToSerialized};
use fluence_keypair::KeyFormat;
use serde_json::Value as J;
use std::collections::BTreeMap;

#[derive(Clone)]
pub struct Peer {
    pub name: String,
    pub id: String,
    pub secret: Vec<u8>,
}

pub fn secret_of(name: &str) -> Vec<u8> {
    // deterministic 32 bytes from the name (FNV-1a stream)
    let mut h: u64 = 0xcbf29ce484222325;
    for b in name.bytes() {
        h ^= b as u64;
        h = h.wrapping_mul(0x100000001b3);
    }
    let mut out = Vec::with_capacity(32);
    for i in 0..32u64 {
        h ^= i + 0x9e37;
        h = h.wrapping_mul(0x100000001b3);
        out.push((h >> 24) as u8);
    }
    out
}

impl Peer {
    pub fn new(name: &str) -> Peer {
        let secret = secret_of(name);
        let kp = fluence_keypair::KeyPair::from_secret_key(secret.clone(), KeyFormat::Ed25519).expect("key");
        let id = kp.public().to_peer_id().to_string();
        Peer { name: name.to_string(), id, secret }
    }
}

#[derive(Clone, Copy, Debug)]
pub struct Limits {
    pub air: u64,
    pub particle: u64,
    pub result: u64,
    pub hard: bool,
}

impl Limits {
    pub fn unlimited() -> Limits {
        Limits { air: u64::MAX, particle: u64::MAX, result: u64::MAX, hard: false }
    }
}

#[derive(Clone)]
pub struct RunInput {
    pub air: String,
    pub prev: Vec<u8>,
    pub cur: Vec<u8>,
    pub init_peer_id: String,
    pub current_peer_id: String,
    pub secret: Vec<u8>,
    pub key_format: u8,
    pub particle_id: String,
    pub timestamp: u64,
    pub ttl: u32,
    pub limits: Limits,
    /// request id -> (ret_code, result string)
    pub call_results: BTreeMap<u32, (i32, String)>,
    /// raw bytes override for the call results (malformed-input probes)
    pub call_results_raw: Option<Vec<u8>>,
}

#[derive(Clone, Debug)]
pub struct Req {
    pub service: String,
    pub function: String,
    pub args: Vec<J>,
    pub tetraplets: J,
}

#[derive(Clone, Debug)]
pub struct RunOut {
    pub panic: Option<String>,
    pub code: i64,
    pub msg: String,
    pub data: Vec<u8>,
    pub next: Vec<String>,
    pub requests_raw: Vec<u8>,
    pub requests: Option<BTreeMap<u32, Req>>,
    pub flags: [bool; 3],
}

pub fn encode_call_results(m: &BTreeMap<u32, (i32, String)>) -> Vec<u8> {
    let mut cr = CallResults::new();
    for (k, (rc, res)) in m {
        cr.insert(k.to_string(), CallServiceResult { ret_code: *rc, result: res.clone() });
    }
    let ser = CallResultsRepr.serialize(&cr).expect("call results serialize");
    ser.into()
}

pub fn decode_requests(raw: &[u8]) -> Option<BTreeMap<u32, Req>> {
    use air_interpreter_interface::{CallArgumentsRepr, TetrapletsRepr};
    let reqs = CallRequestsRepr.deserialize(raw).ok()?;
    let mut out = BTreeMap::new();
    for (id, p) in reqs {
        let args: Vec<J> = CallArgumentsRepr.deserialize(&p.arguments).ok()?;
        let tets: Vec<Vec<polyplets::SecurityTetraplet>> = TetrapletsRepr.deserialize(&p.tetraplets).ok()?;
        let tj = serde_json::to_value(&tets).ok()?;
        out.insert(id, Req { service: p.service_id, function: p.function_name, args, tetraplets: tj });
    }
    Some(out)
}

pub fn run(inp: &RunInput) -> RunOut {
    let params = RunParameters {
        init_peer_id: inp.init_peer_id.clone(),
        current_peer_id: inp.current_peer_id.clone(),
        timestamp: inp.timestamp,
        ttl: inp.ttl,
        key_format: inp.key_format,
        secret_key_bytes: inp.secret.clone(),
        particle_id: inp.particle_id.clone(),
        air_size_limit: inp.limits.air,
        particle_size_limit: inp.limits.particle,
        call_result_size_limit: inp.limits.result,
        hard_limit_enabled: inp.limits.hard,
    };
    let cr_bytes = match &inp.call_results_raw {
        Some(b) => b.clone(),
        None => encode_call_results(&inp.call_results),
    };
    let air = inp.air.clone();
    let prev = inp.prev.clone();
    let cur = inp.cur.clone();
    let r = std::panic::catch_unwind(move || air::execute_air(air, prev, cur, params, cr_bytes.into()));
    match r {
        Ok(o) => {
            let requests = decode_requests(&o.call_requests);
            RunOut {
                panic: None,
                code: o.ret_code,
                msg: o.error_message,
                data: o.data,
                next: o.next_peer_pks,
                requests_raw: o.call_requests,
                requests,
                flags: [o.air_size_limit_exceeded, o.particle_size_limit_exceeded, o.call_result_size_limit_exceeded],
            }
        }
        Err(e) => {
            let m = if let Some(s) = e.downcast_ref::<&str>() {
                s.to_string()
            } else if let Some(s) = e.downcast_ref::<String>() {
                s.clone()
            } else {
                "panic".to_string()
            };
            RunOut {
                panic: Some(m),
                code: -1,
                msg: String::new(),
                data: vec![],
                next: vec![],
                requests_raw: vec![],
                requests: None,
                flags: [false; 3],
            }
        }
    }
}

pub fn quiet_panics() {
    std::panic::set_hook(Box::new(|_| {}));
}

// ------------------------------------------------------------------------------------------
// services: deterministic functions of (peer name, service, function, arguments)

#[derive(Clone, Debug)]
pub enum Behaviour {
    Const(J),
    Echo(usize),
    Args,
    PeerTag,
    Err(i32, J),
    Raw(i32, String),
    /// table from the first argument (rendered) to a result; default otherwise
    Map(BTreeMap<String, J>, J),
}

pub fn behaviour_from_json(j: &J) -> Behaviour {
    if let Some(v) = j.get("const") {
        Behaviour::Const(v.clone())
    } else if let Some(k) = j.get("echo") {
        Behaviour::Echo(k.as_u64().unwrap_or(0) as usize)
    } else if j.get("args").is_some() {
        Behaviour::Args
    } else if j.get("peertag").is_some() {
        Behaviour::PeerTag
    } else if let Some(e) = j.get("err") {
        Behaviour::Err(e[0].as_i64().unwrap_or(1) as i32, e[1].clone())
    } else if let Some(e) = j.get("raw") {
        Behaviour::Raw(e[0].as_i64().unwrap_or(0) as i32, e[1].as_str().unwrap_or("").to_string())
    } else if let Some(e) = j.get("map") {
        let mut m = BTreeMap::new();
        if let Some(o) = e[0].as_object() {
            for (k, v) in o {
                m.insert(k.clone(), v.clone());
            }
        }
        Behaviour::Map(m, e[1].clone())
    } else {
        Behaviour::Const(J::Null)
    }
}

#[derive(Clone, Default)]
pub struct Services {
    pub table: BTreeMap<(String, String), Behaviour>,
}

impl Services {
    pub fn from_json(j: &J) -> Services {
        let mut table = BTreeMap::new();
        if let Some(a) = j.as_array() {
            for e in a {
                let svc = e[0].as_str().unwrap_or("").to_string();
                let f = e[1].as_str().unwrap_or("").to_string();
                table.insert((svc, f), behaviour_from_json(&e[2]));
            }
        }
        Services { table }
    }

    pub fn call(&self, peer: &str, req: &Req) -> (i32, String) {
        let b = self.table.get(&(req.service.clone(), req.function.clone()));
        match b {
            None => (0, J::String(format!("{}.{}", req.service, req.function)).to_string()),
            Some(Behaviour::Const(v)) => (0, v.to_string()),
            Some(Behaviour::Echo(k)) => (0, req.args.get(*k).cloned().unwrap_or(J::Null).to_string()),
            Some(Behaviour::Args) => (0, J::Array(req.args.clone()).to_string()),
            Some(Behaviour::PeerTag) => (0, J::String(format!("{}@{}", req.function, peer)).to_string()),
            Some(Behaviour::Err(c, v)) => (*c, v.to_string()),
            Some(Behaviour::Raw(c, s)) => (*c, s.clone()),
            Some(Behaviour::Map(m, d)) => {
                let k = req.args.get(0).map(|a| match a { J::String(s) => s.clone(), o => o.to_string() }).unwrap_or_default();
                (0, m.get(&k).unwrap_or(d).to_string())
            }
        }
    }
}

// ------------------------------------------------------------------------------------------
// network simulator

pub struct Host {
    pub peer: Peer,
    pub prev: Vec<u8>,
    /// requests handed to the host and not yet answered: id -> request
    pub pending: BTreeMap<u32, Req>,
    /// every invocation the host performed, in order
    pub log: Vec<(u32, Req, (i32, String))>,
    pub runs: usize,
}

#[derive(Clone)]
pub struct Message {
    pub to: usize,
    pub from: usize,
    pub data: Vec<u8>,
}

pub struct Net {
    pub air: String,
    pub particle_id: String,
    pub init_peer: usize,
    pub hosts: Vec<Host>,
    pub inflight: Vec<Message>,
    pub delivered: Vec<Message>,
    pub services: Services,
    pub timestamp: u64,
    pub ttl: u32,
    pub limits: Limits,
    pub step: usize,
}

pub struct StepRecord {
    pub step: usize,
    pub peer: usize,
    pub input: RunInput,
    pub out: RunOut,
}

#[derive(Clone, Debug)]
pub enum Op {
    /// deliver in-flight message number k (mod count); keep = leave a copy in flight (duplication)
    Deliver(usize, bool),
    /// hand back results to peer p for the pending ids selected by mask (bit i = i-th pending id)
    Return(usize, u64),
    /// re-deliver an already delivered message
    Redeliver(usize),
    /// run peer p with empty current data and no results
    Idle(usize),
    /// start: run the init peer with empty data
    Start,
}

pub fn ops_from_json(j: &J) -> Vec<Op> {
    let mut v = vec![];
    if let Some(a) = j.as_array() {
        for e in a {
            let k = e[0].as_str().unwrap_or("");
            let n1 = e.get(1).and_then(|x| x.as_u64()).unwrap_or(0);
            let n2 = e.get(2).and_then(|x| x.as_u64()).unwrap_or(0);
            v.push(match k {
                "d" => Op::Deliver(n1 as usize, false),
                "dup" => Op::Deliver(n1 as usize, true),
                "r" => Op::Return(n1 as usize, n2),
                "re" => Op::Redeliver(n1 as usize),
                "idle" => Op::Idle(n1 as usize),
                _ => Op::Start,
            });
        }
    }
    v
}

impl Net {
    pub fn new(air: &str, peers: &[String], init_peer: usize, services: Services, particle_id: &str) -> Net {
        let hosts = peers
            .iter()
            .map(|n| Host { peer: Peer::new(n), prev: vec![], pending: BTreeMap::new(), log: vec![], runs: 0 })
            .collect();
        Net {
            air: air.to_string(),
            particle_id: particle_id.to_string(),
            init_peer,
            hosts,
            inflight: vec![],
            delivered: vec![],
            services,
            timestamp: 1700000000,
            ttl: 3600,
            limits: Limits::unlimited(),
            step: 0,
        }
    }

    /// Replace `@name` in a script by the peer id of peer `name`.
    pub fn instantiate(script: &str, peers: &[String]) -> String {
        let mut s = script.to_string();
        // longest names first so that @AB is not clobbered by @A
        let mut ps: Vec<&String> = peers.iter().collect();
        ps.sort_by_key(|p| std::cmp::Reverse(p.len()));
        for p in ps {
            s = s.replace(&format!("@{}", p), &Peer::new(p).id);
        }
        s
    }

    pub fn peer_index_by_id(&self, id: &str) -> Option<usize> {
        self.hosts.iter().position(|h| h.peer.id == id)
    }

    pub fn make_input(&self, p: usize, cur: Vec<u8>, results: BTreeMap<u32, (i32, String)>) -> RunInput {
        let h = &self.hosts[p];
        RunInput {
            air: self.air.clone(),
            prev: h.prev.clone(),
            cur,
            init_peer_id: self.hosts[self.init_peer].peer.id.clone(),
            current_peer_id: h.peer.id.clone(),
            secret: h.peer.secret.clone(),
            key_format: 0,
            particle_id: self.particle_id.clone(),
            timestamp: self.timestamp,
            ttl: self.ttl,
            limits: self.limits,
            call_results: results,
            call_results_raw: None,
        }
    }

    /// The host contract of air/README.md: store the returned data, queue requests, send the
    /// particle to the next peers.
    pub fn apply(&mut self, p: usize, out: &RunOut) {
        if out.panic.is_some() {
            return;
        }
        self.hosts[p].prev = out.data.clone();
        self.hosts[p].runs += 1;
        if let Some(reqs) = &out.requests {
            for (id, r) in reqs {
                self.hosts[p].pending.insert(*id, r.clone());
            }
        }
        // the interpreter dedups next peers through a HashSet, so their order differs between processes:
        // deliver in a canonical order to keep histories replayable
        let mut next_sorted: Vec<&String> = out.next.iter().collect();
        next_sorted.sort();
        for n in next_sorted {
            if let Some(q) = self.peer_index_by_id(n) {
                self.inflight.push(Message { to: q, from: p, data: out.data.clone() });
            }
        }
    }

    /// Execute one schedule operation. Returns None when the operation is not applicable.
    pub fn exec(&mut self, op: &Op) -> Option<StepRecord> {
        let (p, cur, results) = match op {
            Op::Start => (self.init_peer, vec![], BTreeMap::new()),
            Op::Idle(p) => (*p % self.hosts.len(), vec![], BTreeMap::new()),
            Op::Deliver(k, keep) => {
                if self.inflight.is_empty() {
                    return None;
                }
                let i = *k % self.inflight.len();
                let m = if *keep { self.inflight[i].clone() } else { self.inflight.remove(i) };
                self.delivered.push(m.clone());
                (m.to, m.data, BTreeMap::new())
            }
            Op::Redeliver(k) => {
                if self.delivered.is_empty() {
                    return None;
                }
                let m = self.delivered[*k % self.delivered.len()].clone();
                (m.to, m.data, BTreeMap::new())
            }
            Op::Return(p, mask) => {
                let p = *p % self.hosts.len();
                if self.hosts[p].pending.is_empty() {
                    return None;
                }
                let ids: Vec<u32> = self.hosts[p].pending.keys().cloned().collect();
                let mut res = BTreeMap::new();
                for (i, id) in ids.iter().enumerate() {
                    if (mask >> (i % 64)) & 1 == 1 || *mask == 0 {
                        let req = self.hosts[p].pending.remove(id).unwrap();
                        let name = self.hosts[p].peer.name.clone();
                        let r = self.services.call(&name, &req);
                        self.hosts[p].log.push((*id, req, r.clone()));
                        res.insert(*id, r);
                    }
                }
                (p, vec![], res)
            }
        };
        let input = self.make_input(p, cur, results);
        let out = run(&input);
        self.apply(p, &out);
        let rec = StepRecord { step: self.step, peer: p, input, out };
        self.step += 1;
        Some(rec)
    }

    /// Run everything to quiescence in FIFO order (deliver oldest, answer all pending at once).
    pub fn drain(&mut self, max_steps: usize) -> Vec<StepRecord> {
        let mut recs = vec![];
        for _ in 0..max_steps {
            let mut progressed = false;
            for p in 0..self.hosts.len() {
                if !self.hosts[p].pending.is_empty() {
                    if let Some(r) = self.exec(&Op::Return(p, 0)) {
                        recs.push(r);
                        progressed = true;
                    }
                }
            }
            if !self.inflight.is_empty() {
                if let Some(r) = self.exec(&Op::Deliver(0, false)) {
                    recs.push(r);
                    progressed = true;
                }
            }
            if !progressed {
                break;
            }
        }
        recs
    }
}

// ------------------------------------------------------------------------------------------
// canonical (order-free) view of produced data

pub struct Decoded {
    pub data_version: String,
    pub interpreter_version: semver::Version,
    pub data: air_interpreter_data::InterpreterData,
}

pub fn decode_data(bytes: &[u8]) -> Result<Decoded, String> {
    use air_interpreter_data::{InterpreterData, InterpreterDataEnvelope};
    if bytes.is_empty() {
        return Err("empty".into());
    }
    let env = InterpreterDataEnvelope::try_from_slice(bytes).map_err(|e| format!("envelope: {e}"))?;
    let data = InterpreterData::try_from_slice(&env.inner_data).map_err(|e| format!("data: {e}"))?;
    Ok(Decoded {
        data_version: env.versions.data_version.to_string(),
        interpreter_version: env.versions.interpreter_version.clone(),
        data,
    })
}

pub fn sort_json(j: &J) -> J {
    match j {
        J::Array(a) => J::Array(a.iter().map(sort_json).collect()),
        J::Object(o) => {
            let mut keys: Vec<&String> = o.keys().collect();
            keys.sort();
            let mut m = serde_json::Map::new();
            for k in keys {
                m.insert(k.clone(), sort_json(&o[k]));
            }
            J::Object(m)
        }
        x => x.clone(),
    }
}

fn store_to_json<V: serde::Serialize>(s: &air_interpreter_data::CidStore<V>) -> J {
    let mut items: Vec<(String, J)> = s
        .iter()
        .map(|(c, v)| (c.get_inner().to_string(), sort_json(&serde_json::to_value(&**v).unwrap_or(J::Null))))
        .collect();
    items.sort_by(|a, b| a.0.cmp(&b.0));
    J::Array(items.into_iter().map(|(c, v)| J::Array(vec![J::String(c), v])).collect())
}

pub fn canon_data(bytes: &[u8]) -> Option<J> {
    let d = decode_data(bytes).ok()?;
    let trace = serde_json::to_value(&d.data.trace).ok()?;
    let ci = &d.data.cid_info;
    let mut sigs: Vec<(String, String)> = d
        .data
        .signatures
        .iter()
        .map(|(pk, sg)| (pk.to_peer_id().unwrap_or_default(), format!("{:?}", sg)))
        .collect();
    sigs.sort();
    Some(serde_json::json!({
        "data_version": d.data_version,
        "interpreter_version": d.interpreter_version.to_string(),
        "trace": sort_json(&trace),
        "lcid": d.data.last_call_request_id,
        "values": store_to_json(&ci.value_store),
        "tetraplets": store_to_json(&ci.tetraplet_store),
        "canon_elements": store_to_json(&ci.canon_element_store),
        "canon_results": store_to_json(&ci.canon_result_store),
        "service_results": store_to_json(&ci.service_result_store),
        "signatures": sigs,
    }))
}

pub fn requests_json(r: &Option<BTreeMap<u32, Req>>) -> J {
    match r {
        None => J::Null,
        Some(m) => J::Array(
            m.iter()
                .map(|(id, q)| serde_json::json!([id, q.service, q.function, q.args, sort_json(&q.tetraplets)]))
                .collect(),
        ),
    }
}

/// Everything observable of an outcome except the byte order of maps inside the data.
pub fn canon_outcome(o: &RunOut) -> J {
    let mut next = o.next.clone();
    next.sort();
    serde_json::json!({
        "panic": o.panic,
        "code": o.code,
        "msg": o.msg,
        "data": canon_data(&o.data).unwrap_or_else(|| J::String(hex(&o.data))),
        "next": next,
        "requests": requests_json(&o.requests),
        "flags": o.flags,
    })
}

pub fn hex(b: &[u8]) -> String {
    let mut s = String::with_capacity(b.len() * 2);
    for x in b {
        s.push_str(&format!("{:02x}", x));
    }
    s
}

pub fn unhex(s: &str) -> Vec<u8> {
    (0..s.len() / 2).filter_map(|i| u8::from_str_radix(&s[2 * i..2 * i + 2], 16).ok()).collect()
}
