(* Values.v -- tetraplets, symbolic content ids, provenance, value aggregates.

   Mirrors: marine_call_parameters::SecurityTetraplet, air_interpreter_cid::CID<T> (symbolically:
   a content id IS the content it was computed from -- the collision-resistance assumption of
   DESIGN section 5 made structural), interpreter-data Provenance / ServiceResultCidAggregate /
   CanonCidAggregate / CanonResultCidAggregate, air value_types/scalar.rs ValueAggregate.
   Definitions only. *)
From Aqua Require Import Base Json.
Open Scope N_scope.
Open Scope list_scope.

(* decimal rendering of positions / indices (u32, u64) *)
Fixpoint N_digits (fuel : nat) (n : N) (acc : string) : string :=
  match fuel with
  | O => acc
  | S f => let acc' := String (ascii_of_N (48 + n mod 10)) acc in
           if n / 10 =? 0 then acc' else N_digits f (n / 10) acc'
  end.
Definition N_to_string (n : N) : string := N_digits 40 n "".

Record tetraplet := { tp_peer : string; tp_service : string; tp_function : string; tp_lens : string }.
Definition tetraplet_eqb (a b : tetraplet) : bool :=
  String.eqb (tp_peer a) (tp_peer b) && String.eqb (tp_service a) (tp_service b) &&
  String.eqb (tp_function a) (tp_function b) && String.eqb (tp_lens a) (tp_lens b).
Definition literal_tetraplet (init_peer : string) : tetraplet :=            (* SecurityTetraplet::literal_tetraplet *)
  {| tp_peer := init_peer; tp_service := ""; tp_function := ""; tp_lens := "" |}.
Definition add_lens (t : tetraplet) (l : string) : tetraplet :=             (* add_lens: push_str *)
  {| tp_peer := tp_peer t; tp_service := tp_service t; tp_function := tp_function t; tp_lens := tp_lens t ++ l |}%string.

(* content ids *)
Inductive cid :=
| CValue (j : json)                                   (* CID<JValue> / CID<RawValue>: value_to_json_cid *)
| CTetraplet (t : tetraplet)                          (* CID<SecurityTetraplet> *)
| CArgs (args : list json)                            (* the call argument hash *)
| CService (value arg_hash tetraplet : cid)           (* CID<ServiceResultCidAggregate> *)
| CCanonElem (value tetraplet : cid) (prov : option (bool * cid))
                                                      (* CID<CanonCidAggregate>; prov: None literal,
                                                         Some (true, c) service result, Some (false, c) canon *)
| CCanonResult (tetraplet : cid) (values : list cid)  (* CID<CanonResultCidAggregate> *)
| COpaque (s : string).                               (* an id whose content is not known (dangling / foreign) *)

Fixpoint cid_eqb (a b : cid) {struct a} : bool :=
  match a, b with
  | CValue x, CValue y => json_eqb x y
  | CTetraplet x, CTetraplet y => tetraplet_eqb x y
  | CArgs x, CArgs y => list_eqb json_eqb x y
  | CService a1 a2 a3, CService b1 b2 b3 => cid_eqb a1 b1 && cid_eqb a2 b2 && cid_eqb a3 b3
  | CCanonElem a1 a2 ap, CCanonElem b1 b2 bp =>
      cid_eqb a1 b1 && cid_eqb a2 b2 &&
      match ap, bp with
      | None, None => true
      | Some (k, c), Some (k', c') => Bool.eqb k k' && cid_eqb c c'
      | _, _ => false
      end
  | CCanonResult t vs, CCanonResult t' vs' =>
      cid_eqb t t' &&
      (fix go (l l' : list cid) : bool :=
         match l, l' with
         | [], [] => true
         | x :: r, y :: r' => cid_eqb x y && go r r'
         | _, _ => false
         end) vs vs'
  | COpaque x, COpaque y => String.eqb x y
  | _, _ => false
  end.

Inductive provenance := ProvLiteral | ProvService (c : cid) | ProvCanon (c : cid).
Definition prov_to_opt (p : provenance) : option (bool * cid) :=
  match p with ProvLiteral => None | ProvService c => Some (true, c) | ProvCanon c => Some (false, c) end.
Definition prov_of_opt (p : option (bool * cid)) : provenance :=
  match p with None => ProvLiteral | Some (true, c) => ProvService c | Some (false, c) => ProvCanon c end.

(* ValueAggregate *)
Inductive vagg :=
| VALiteral (result : json) (init_peer : string) (pos : N)
| VAService (result : json) (t : tetraplet) (pos : N) (c : cid)
| VACanon (result : json) (peer lens : string) (pos : N) (c : cid).

Definition va_result (v : vagg) : json :=
  match v with VALiteral r _ _ | VAService r _ _ _ | VACanon r _ _ _ _ => r end.
Definition va_tetraplet (v : vagg) : tetraplet :=
  match v with
  | VALiteral _ p _ => literal_tetraplet p
  | VAService _ t _ _ => t
  | VACanon _ p l _ _ => {| tp_peer := p; tp_service := ""; tp_function := ""; tp_lens := l |}
  end.
Definition va_pos (v : vagg) : N :=
  match v with VALiteral _ _ p | VAService _ _ p _ | VACanon _ _ _ p _ => p end.
Definition va_provenance (v : vagg) : provenance :=
  match v with VALiteral _ _ _ => ProvLiteral | VAService _ _ _ c => ProvService c | VACanon _ _ _ _ c => ProvCanon c end.
Definition va_set_pos (v : vagg) (p : N) : vagg :=
  match v with
  | VALiteral r i _ => VALiteral r i p
  | VAService r t _ c => VAService r t p c
  | VACanon r pe l _ c => VACanon r pe l p c
  end.
(* ValueAggregate::new *)
Definition va_new (result : json) (t : tetraplet) (pos : N) (p : provenance) : vagg :=
  match p with
  | ProvLiteral => VALiteral result (tp_peer t) pos
  | ProvService c => VAService result t pos c
  | ProvCanon c => VACanon result (tp_peer t) (tp_lens t) pos c
  end.

(* CallServiceFailed::to_value : {"message": .., "ret_code": ..} *)
Definition call_service_failed_value (ret_code : Z) (message : string) : json :=
  JObj [("message"%string, JStr message); ("ret_code"%string, JInt ret_code)].
