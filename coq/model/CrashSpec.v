(* CrashSpec.v -- C01: the statements (see props/C01.v for what is proved and DESIGN 6 C01).
   Definitions only. *)
From Aqua Require Import Base Json Air Trace Handler HandlerCases Values Scalars Lens Stream Exec CrashCases Catalogue.
Open Scope N_scope.
Open Scope list_scope.

(* ---- the whole property, as far as the model can say it ---- *)
(* no run of the executor model, whatever the script tree, the previous / current traces, the stores and the
   call results are, ends in a crash outcome; fuel exhaustion is not an outcome of the real interpreter *)
Definition C01_exec_no_crash_stmt (hook : (instr -> ctx -> xres) -> instr -> ctx -> option xres) : Prop :=
  forall fuel i x s, exec hook fuel i x <> XCrash s.
(* C01_full: no crash outcome of the trace handler, of the executor and of the stream component on any input,
   allocation proportional to the input.  Proved parts: the theorems of props/C01.v; the executor-wide
   statement stays open (PARTIAL of checks/C01.py). *)
Definition C01_handler_full_stmt : Prop :=
  forall (prev cur : htrace) (ops : list hop), run_site (handler_from string prev cur) ops = None.

(* ---- trace handler: all traces, all sequences of API calls ---- *)
Definition C01_handler_no_crash_except_stmt : Prop :=
  forall (prev cur : htrace) (ops : list hop) s,
    run_site (handler_from string prev cur) ops = Some s -> In s [SiteCtorQueueCurrent; SiteTrackerLen].

Definition C01_handler_sites_unreachable_stmt : Prop :=
  forall (prev cur : htrace) (ops : list hop) s,
    In s [SitePosPlusLen; SiteRemainder; SitePosMinusOne; SiteApGenerationIndex; SiteParBuilderTrack;
          SiteInserterIndex; SiteTraverseBack; SiteResultLen] ->
    run_site (handler_from string prev cur) ops <> Some s.

(* the handler-level full statement is refuted by protocol misuse only: with EMPTY traces *)
Definition C01_handler_full_refuted_stmt : Prop :=
  exists ops s, run_site (handler_from string [] []) ops = Some s.

(* apply_op (what the theorems quantify over) is HandlerCases.step (what the lock-step validates) *)
Definition C01_apply_op_is_step_stmt : Prop :=
  forall (h : hhandler) (o : hop),
    match apply_op h o, HandlerCases.step h o with
    | Ok h', (ob, Some h'') => h' = h'' /\ ob <> ObsCrash /\ (forall e, ob <> ObsErr e)
    | Err e, (ob, None) => ob = ObsErr (herr_index e)
    | Crash _, (ob, None) => ob = ObsCrash
    | _, _ => False
    end.

(* ---- sliders (trace_slider.rs), for every slider: positions and lengths are arbitrary numbers ---- *)
Definition res_is_crash {A} (r : res A) : bool := match r with Crash _ => true | _ => false end.
Definition C01_slider_total_stmt : Prop :=
  forall (C : Type) (s : slider C) (p l : N),
    res_is_crash (set_position_and_len C s p l) = false /\
    res_is_crash (set_subtrace_len C s l) = false /\
    res_is_crash (try_get_generation C s p) = false.

(* ---- streams ---- *)
(* rows allocated by one add_value: bounded by a constant of the source (STREAM_MAX_SIZE), for every stream and
   every generation (the generation is a 32-bit field of ONE trace state: not proportional to the input) *)
Definition C01_alloc_stmt : Prop :=
  forall (V : Type) (s s' : Stream.stream V) (v : V) (g : Stream.generation),
    Stream.stream_add_value V s v g = Stream.SOk s' -> Stream.stream_grow_rows V s g <= stream_max_size.
(* what the unguarded matrix operation allocates: up to generation + 1 rows, and that many for an empty matrix *)
Definition C01_alloc_matrix_stmt : Prop :=
  forall (V : Type),
    (forall (m : Stream.matrix V) g, Stream.matrix_grow_rows V m g <= g + 1) /\
    (forall g, Stream.matrix_grow_rows V (Stream.matrix_new V) g = g + 1).
Definition C01_stream_add_total_stmt : Prop :=
  forall (V : Type) (s : Stream.stream V) (v : V) (g : Stream.generation),
    Stream.stream_add_value V s v g <> Stream.SCrash Stream.SiteGenCheckedAddOne /\
    (forall n, stream_max_size <= n ->
       Stream.stream_add_value V s v (Stream.GCurrent n) = Stream.SErr Stream.StreamSizeLimitExceeded /\
       Stream.stream_add_value V s v (Stream.GPrevious n) = Stream.SErr Stream.StreamSizeLimitExceeded).

(* ---- executor: the sites repaired by the fix: commits ---- *)
Definition pres_is_crash {A} (r : pres A) : bool := match r with PCrash _ => true | _ => false end.
Definition xres_is_crash (r : xres) : bool := match r with XCrash _ => true | _ => false end.
Definition C01_exec_repaired_stmt : Prop :=
  (forall x name, pres_is_crash (scalars_get_value x name) = false) /\
  (forall x c, pres_is_crash (resolve_service_info x c) = false) /\
  (forall x met pos src t out, xres_is_crash (fst (handle_prev_state x met pos src t None out)) = false).

(* ---- iterables: peek is defined on what the fold instructions build and keep moving ---- *)
Definition it_wf (i : iterable) : Prop :=
  it_cursor i < it_len i /\
  match i with
  | ItResolvedCall v _ l => exists arr, va_result v = JArr arr /\ l = len_N arr
  | _ => True
  end.
Definition C01_iterable_peek_stmt : Prop :=
  (forall i, it_wf i -> it_peek i <> None) /\
  (forall i b i', it_wf i -> it_next i = (b, i') -> it_wf i') /\
  (forall i b i', it_wf i -> it_prev i = (b, i') -> it_wf i') /\
  (forall v name i, from_value v name = POk (FoldOver i) -> it_wf i) /\
  (forall j t p l i, from_jvalue j t p l = POk (FoldOver i) -> it_wf i).
