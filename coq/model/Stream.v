(* Stream.v -- ValuesMatrix, NewValuesMatrix, Stream, Generation, compactify, RecursiveStreamCursor,
   Streams (descriptors, scopes).

   Mirrors air/src/execution_step/value_types/stream/{values_matrix,stream_definition,recursive_stream}.rs,
   air/src/execution_step/execution_context/streams_variables.rs (+ stream_descriptor.rs) and
   crates/air-lib/interpreter-data/src/generation_idx.rs.  Every function names the Rust function it
   mirrors.  `&mut self` is state passing; a Rust panic is the outcome [SCrash site].

   REPRESENTATION (see Stream.README).  `TiVec<GenerationIdx, Vec<T>>` is a vector of rows that
   `add_value_to_generation` pads with empty rows up to an attacker-chosen 32-bit generation.  The model
   keeps the vector SPARSELY: the number of rows [m_len] and the association list [m_cells] of the rows
   that received a value, sorted by row index.  No list whose length depends on a generation number is
   ever built.  The padded vector is [matrix_rows] (specification only; proofs/StreamProofs.v shows that
   the sparse operations are the padded ones).
   Definitions only. *)
From Coq Require Permutation Sorted.
From Aqua Require Import Base.
Open Scope N_scope.
Open Scope list_scope.

Definition gen_u32_max : N := 4294967295.
(* usize::MAX of stream_descriptor.rs `global` (64-bit host; any value above the script length is equivalent) *)
Definition usize_max : N := 18446744073709551615.

(* errors returned (not panics) by this component *)
Inductive stream_err :=
| StreamSizeLimitExceeded.                  (* UncatchableError::StreamSizeLimitExceeded *)

(* panic sites of this component (C01 catalogue) *)
Inductive stream_site :=
| SiteGenCheckedAddOne       (* values_matrix.rs:77  generation_idx.checked_add(1).unwrap() *)
| SiteGenIdxFromUsize        (* generation_idx.rs:77 `value as u32` (values_matrix.rs:53, :134): narrowing *)
| SiteCompactifyStartIdx     (* stream_definition.rs:126 start_idx.checked_add(..).unwrap() *)
| SiteCompactifyPosition     (* stream_definition.rs:142 start_idx.checked_add(position.into()).unwrap() *)
| SiteScopeEndNoStream       (* streams_variables.rs:104 self.streams.get_mut(&name).unwrap() *)
| SiteScopeEndNoDescriptor.  (* streams_variables.rs:106 stream_descriptors.pop().unwrap() *)

Inductive sres (A : Type) := SOk (a : A) | SErr (e : stream_err) | SCrash (s : stream_site).
Arguments SOk {A} a. Arguments SErr {A} e. Arguments SCrash {A} s.

Definition sbind {A B} (r : sres A) (f : A -> sres B) : sres B :=
  match r with SOk a => f a | SErr e => SErr e | SCrash s => SCrash s end.

(* stream_definition.rs: enum Generation *)
Inductive generation := GPrevious (g : N) | GCurrent (g : N) | GNew.
(* air_trace_handler::merger::ValueSource *)
Inductive stream_value_source := SrcPreviousData | SrcCurrentData.

(* Generation::from_data (and from_met_result = from_data (value_source, generation)) *)
Definition generation_from_data (src : stream_value_source) (g : N) : generation :=
  match src with SrcPreviousData => GPrevious g | SrcCurrentData => GCurrent g end.
Definition generation_from_met_result (src : stream_value_source) (g : N) : generation :=
  generation_from_data src g.
(* Generation::new *)
Definition generation_new : generation := GNew.

(* generation_idx.rs From<usize> for GenerationIdx: `value as u32`.  By the convention of DESIGN §2 a
   narrowing that loses bits is a crash outcome (the real code truncates silently; both need >= 2^32
   rows, i.e. ~96 GiB of Vec headers). *)
Definition gen_idx_from_usize (n : N) : sres N :=
  if n <=? gen_u32_max then SOk n else SCrash SiteGenIdxFromUsize.

(* iterator helpers over N counters (never [N.to_nat] of a data-dependent number) *)
Fixpoint skipN {A} (k : N) (l : list A) : list A :=
  match l with
  | [] => []
  | x :: t => if k =? 0 then l else skipN (k - 1) t
  end.
Fixpoint firstN {A} (k : N) (l : list A) : list A :=
  match l with
  | [] => []
  | x :: t => if k =? 0 then [] else x :: firstN (k - 1) t
  end.
Definition is_nil {A} (l : list A) : bool := match l with [] => true | _ => false end.
Definition lenN {A} (l : list A) : N := N.of_nat (length l).

Section Stream.
  Variable V : Type.
  Variable pos_of : V -> N.          (* ValueAggregate::get_trace_pos *)

  Local Notation "'dos' x <- r ; k" := (sbind r (fun x => k))
    (at level 200, x pattern, r at level 100, k at level 200, right associativity).

  (* ================= values_matrix.rs: ValuesMatrix ================= *)
  Definition cells := list (N * list V).
  Record matrix := {
    m_len : N;            (* self.values.len(): number of rows, empty ones included *)
    m_cells : cells;      (* rows that hold values, by increasing row index *)
    m_size : N }.         (* self.size *)

  (* ValuesMatrix::new / Default *)
  Definition matrix_new : matrix := {| m_len := 0; m_cells := []; m_size := 0 |}.

  (* self.values[i] (the empty row when no cell is recorded) *)
  Fixpoint cells_get (c : cells) (i : N) : list V :=
    match c with
    | [] => []
    | (j, r) :: t => if j =? i then r else cells_get t i
    end.
  (* self.values[g].push(v) on the sparse rows: sorted insertion *)
  Fixpoint cells_add (c : cells) (g : N) (v : V) : cells :=
    match c with
    | [] => [(g, [v])]
    | (j, r) :: t =>
        if g <? j then (g, [v]) :: c
        else if g =? j then (j, r ++ [v]) :: t
        else (j, r) :: cells_add t g v
    end.
  Definition row_nonempty (r : list V) : bool := negb (is_nil r).
  (* the rows that pass `.filter(|generation| !generation.is_empty())`, in vector order *)
  Definition nonempty_rows (m : matrix) : list (list V) := filter row_nonempty (map snd (m_cells m)).

  (* ValuesMatrix::add_value_to_generation.  Rows allocated by `resize`: [matrix_grow_rows]. *)
  Definition matrix_grow_rows (m : matrix) (g : N) : N :=
    if m_len m <=? g then g + 1 - m_len m else 0.
  Definition add_value_to_generation (m : matrix) (v : V) (g : N) : sres matrix :=
    if m_len m <=? g then
      if gen_u32_max <=? g then SCrash SiteGenCheckedAddOne          (* checked_add(1).unwrap() *)
      else SOk {| m_len := g + 1; m_cells := cells_add (m_cells m) g v; m_size := m_size m + 1 |}
    else SOk {| m_len := m_len m; m_cells := cells_add (m_cells m) g v; m_size := m_size m + 1 |}.

  (* ValuesMatrix::remove_empty_generations: retain the non-empty rows (they are renumbered densely) *)
  Fixpoint renumber (i : N) (rows : list (list V)) : cells :=
    match rows with
    | [] => []
    | r :: t => (i, r) :: renumber (i + 1) t
    end.
  Definition remove_empty_generations (m : matrix) : matrix :=
    let rows := nonempty_rows m in
    {| m_len := lenN rows; m_cells := renumber 0 rows; m_size := m_size m |}.

  (* ValuesMatrix::generations_count: self.values.len().into() -- counts ALL rows, empty ones too *)
  Definition generations_count (m : matrix) : sres N := gen_idx_from_usize (m_len m).

  (* ValuesMatrix::iter *)
  Definition matrix_iter (m : matrix) : list V := concat (map snd (m_cells m)).

  (* ValuesMatrix::slice_iter: filter non-empty rows FIRST, then skip `skip` of THOSE *)
  Definition matrix_slice_iter (m : matrix) (skip : N) : list (list V) := skipN skip (nonempty_rows m).

  (* ValuesMatrix::get_size *)
  Definition matrix_get_size (m : matrix) : N := m_size m.

  (* ================= values_matrix.rs: NewValuesMatrix (newtype around ValuesMatrix) ================= *)
  (* NewValuesMatrix::add_new_empty_generation: self.0.values.push(vec![]) *)
  Definition new_add_new_empty_generation (m : matrix) : matrix :=
    {| m_len := m_len m + 1; m_cells := m_cells m; m_size := m_size m |}.

  (* NewValuesMatrix::remove_last_generation: self.0.values.pop() (size is NOT adjusted by the code) *)
  Definition new_remove_last_generation (m : matrix) : matrix :=
    if m_len m =? 0 then m
    else {| m_len := m_len m - 1;
            m_cells := filter (fun c => negb (fst c =? m_len m - 1)) (m_cells m);
            m_size := m_size m |}.

  (* NewValuesMatrix::last_non_empty_generation_idx (despite its name: index of the LAST ROW) *)
  Definition new_last_non_empty_generation_idx (m : matrix) : sres N :=
    if m_len m =? 0 then SOk 0 else gen_idx_from_usize (m_len m - 1).

  (* NewValuesMatrix::last_generation_is_empty *)
  Definition new_last_generation_is_empty (m : matrix) : sres bool :=
    if m_len m =? 0 then SOk true
    else dos i <- new_last_non_empty_generation_idx m; SOk (is_nil (cells_get (m_cells m) i)).

  (* NewValuesMatrix::add_to_last_generation *)
  Definition new_add_to_last_generation (m : matrix) (v : V) : sres matrix :=
    dos i <- new_last_non_empty_generation_idx m; add_value_to_generation m v i.

  (* ================= stream_definition.rs: Stream ================= *)
  Record stream := { s_prev : matrix; s_cur : matrix; s_new : matrix }.
  (* recursive_stream.rs: StreamCursor *)
  Record stream_cursor := { c_prev : N; c_cur : N; c_new : N }.

  (* Stream::new / Default *)
  Definition stream_new : stream := {| s_prev := matrix_new; s_cur := matrix_new; s_new := matrix_new |}.

  (* Stream::iter *)
  Definition stream_iter (s : stream) : list V :=
    matrix_iter (s_prev s) ++ matrix_iter (s_cur s) ++ matrix_iter (s_new s).

  (* Stream::slice_iter *)
  Definition stream_slice_iter (s : stream) (c : stream_cursor) : list (list V) :=
    matrix_slice_iter (s_prev s) (c_prev c) ++ matrix_slice_iter (s_cur s) (c_cur c)
    ++ matrix_slice_iter (s_new s) (c_new c).

  (* Stream::cursor *)
  Definition stream_get_cursor (s : stream) : sres stream_cursor :=
    dos p <- generations_count (s_prev s);
    dos c <- generations_count (s_cur s);
    dos n <- generations_count (s_new s);
    SOk {| c_prev := p; c_cur := c; c_new := n |}.

  (* Stream::check_stream_size_limit *)
  Definition stream_size (s : stream) : N :=
    matrix_get_size (s_prev s) + matrix_get_size (s_cur s) + matrix_get_size (s_new s).
  Definition check_stream_size_limit (s : stream) : sres unit :=
    if stream_max_size <=? stream_size s then SErr StreamSizeLimitExceeded else SOk tt.

  (* Stream::add_value, its first statement (fix: C01-stream-generation-resize):
       match generation { Previous(g) | Current(g) if g >= STREAM_MAX_SIZE => return Err(StreamSizeLimitExceeded), _ => {} }
     a stream holds fewer than STREAM_MAX_SIZE values and the generations of honest data are dense, so a
     bigger index can only come from corrupted data; it is refused before the matrix is touched *)
  Definition generation_in_range (g : generation) : bool :=
    match g with
    | GPrevious n => n <? stream_max_size
    | GCurrent n => n <? stream_max_size
    | GNew => true
    end.

  (* Stream::add_value: the generation guard, then insert, THEN check `cumulative_size >= STREAM_MAX_SIZE`
     (on that error the value is already in the stream; the error is uncatchable, the run ends) *)
  Definition stream_add_value (s : stream) (v : V) (g : generation) : sres stream :=
    if negb (generation_in_range g) then SErr StreamSizeLimitExceeded else
    dos s1 <- match g with
              | GPrevious pg => dos m <- add_value_to_generation (s_prev s) v pg;
                                SOk {| s_prev := m; s_cur := s_cur s; s_new := s_new s |}
              | GCurrent cg => dos m <- add_value_to_generation (s_cur s) v cg;
                               SOk {| s_prev := s_prev s; s_cur := m; s_new := s_new s |}
              | GNew => dos m <- new_add_to_last_generation (s_new s) v;
                        SOk {| s_prev := s_prev s; s_cur := s_cur s; s_new := m |}
              end;
    dos _ <- check_stream_size_limit s1;
    SOk s1.

  (* no Rust counterpart (Stream has no is_empty): derived helper for callers *)
  Definition stream_is_empty (s : stream) : bool := is_nil (stream_iter s).

  (* rows a call of add_value makes `resize` allocate (ghost measure for C01) *)
  Definition stream_grow_rows (s : stream) (g : generation) : N :=
    match g with
    | GPrevious pg => matrix_grow_rows (s_prev s) pg
    | GCurrent cg => matrix_grow_rows (s_cur s) cg
    | GNew => if m_len (s_new s) =? 0 then 1 else 0
    end.

  (* ---- Stream::compactify ---- *)
  (* what compactify does to the trace handler, in the code's order: the calls
     trace_ctx.update_generation(trace_pos, generation), possibly cut short by a panic *)
  Record compact_plan := {
    cp_updates : list (N * N);            (* (value.get_trace_pos(), new generation) *)
    cp_crash : option stream_site }.      (* panic reached after those updates *)

  (* Stream::update_generations: enumerate the slices; generation = start_idx + position *)
  Fixpoint update_generations (rows : list (list V)) (start position : N) : compact_plan :=
    match rows with
    | [] => {| cp_updates := []; cp_crash := None |}
    | r :: t =>
        if gen_u32_max <? position then {| cp_updates := []; cp_crash := Some SiteGenIdxFromUsize |}
        else if gen_u32_max <? start + position then {| cp_updates := []; cp_crash := Some SiteCompactifyPosition |}
        else let rest := update_generations t start (position + 1) in
             {| cp_updates := map (fun v => (pos_of v, start + position)) r ++ cp_updates rest;
                cp_crash := cp_crash rest |}
    end.

  Definition plan_seq (a : compact_plan) (b : unit -> compact_plan) : compact_plan :=
    match cp_crash a with
    | Some _ => a
    | None => let b' := b tt in {| cp_updates := cp_updates a ++ cp_updates b'; cp_crash := cp_crash b' |}
    end.
  Definition plan_crash (s : stream_site) : compact_plan := {| cp_updates := []; cp_crash := Some s |}.
  Definition plan_of_count (r : sres N) (k : N -> compact_plan) : compact_plan :=
    match r with SOk n => k n | SErr _ => plan_crash SiteGenIdxFromUsize | SCrash s => plan_crash s end.

  (* Stream::compactify: the stream after remove_empty_generations ×3 and the plan *)
  Definition stream_compactify (s : stream) : stream * compact_plan :=
    let p := remove_empty_generations (s_prev s) in
    let c := remove_empty_generations (s_cur s) in
    let n := remove_empty_generations (s_new s) in
    let s' := {| s_prev := p; s_cur := c; s_new := n |} in
    (s',
     plan_seq (update_generations (matrix_slice_iter p 0) 0 0) (fun _ =>
     plan_of_count (generations_count p) (fun pc =>
     plan_seq (update_generations (matrix_slice_iter c 0) pc 0) (fun _ =>
     plan_of_count (generations_count c) (fun cc =>
     if gen_u32_max <? pc + cc then plan_crash SiteCompactifyStartIdx
     else update_generations (matrix_slice_iter n 0) (pc + cc) 0))))).

  (* running a plan against a trace handler: `upd` is TraceHandler::update_generation; the first
     error stops everything (UncatchableError::GenerationCompactificationError(e)) *)
  Inductive compact_res (H E : Type) :=
  | CompactOk (h : H)
  | CompactErr (e : E)
  | CompactCrash (s : stream_site).
  Arguments CompactOk {H E} h. Arguments CompactErr {H E} e. Arguments CompactCrash {H E} s.

  Fixpoint apply_updates {H E} (upd : H -> N -> N -> H + E) (h : H) (ups : list (N * N)) : H + E :=
    match ups with
    | [] => inl h
    | (p, g) :: t => match upd h p g with inl h' => apply_updates upd h' t | inr e => inr e end
    end.
  Definition run_plan {H E} (upd : H -> N -> N -> H + E) (h : H) (pl : compact_plan) : compact_res H E :=
    match apply_updates upd h (cp_updates pl) with
    | inr e => CompactErr e
    | inl h' => match cp_crash pl with Some s => CompactCrash s | None => CompactOk h' end
    end.

  (* ================= recursive_stream.rs ================= *)
  (* StreamCursor::empty *)
  Definition cursor_empty : stream_cursor := {| c_prev := 0; c_cur := 0; c_new := 0 |}.

  (* RecursiveCursorState: a batch per generation, Vec<IterableValue> *)
  Inductive cursor_state := Continue (batches : list (list V)) | Exhausted.
  (* RecursiveCursorState::from_iterable_values *)
  Definition from_iterable_values (b : list (list V)) : cursor_state :=
    if is_nil b then Exhausted else Continue b.
  (* RecursiveCursorState::should_continue *)
  Definition should_continue (st : cursor_state) : bool :=
    match st with Continue _ => true | Exhausted => false end.
  Definition batches_of (st : cursor_state) : list (list V) :=
    match st with Continue b => b | Exhausted => [] end.

  (* RecursiveStreamCursor { cursor }; RecursiveStreamCursor::new *)
  Definition rcursor := stream_cursor.
  Definition rcursor_new : rcursor := cursor_empty.

  (* RecursiveStreamCursor::cursor_state *)
  Definition cursor_state_of (rc : rcursor) (s : stream) : cursor_state :=
    from_iterable_values (stream_slice_iter s rc).

  Definition with_new (s : stream) (m : matrix) : stream :=
    {| s_prev := s_prev s; s_cur := s_cur s; s_new := m |}.

  (* RecursiveStreamCursor::met_fold_start *)
  Definition met_fold_start (rc : rcursor) (s : stream) : sres (cursor_state * rcursor * stream) :=
    let st := cursor_state_of rc s in
    dos rc' <- stream_get_cursor s;
    if should_continue st then SOk (st, rc', with_new s (new_add_new_empty_generation (s_new s)))
    else SOk (st, rc', s).

  (* recursive_stream.rs: remove_last_generation_if_empty *)
  Definition remove_last_generation_if_empty (s : stream) : sres stream :=
    dos e <- new_last_generation_is_empty (s_new s);
    SOk (if e then with_new s (new_remove_last_generation (s_new s)) else s).

  (* RecursiveStreamCursor::met_iteration_end *)
  Definition met_iteration_end (rc : rcursor) (s : stream) : sres (cursor_state * rcursor * stream) :=
    let st := cursor_state_of rc s in
    dos s1 <- remove_last_generation_if_empty s;
    dos rc' <- stream_get_cursor s1;
    SOk (st, rc', with_new s1 (new_add_new_empty_generation (s_new s1))).

  (* ---- the state machine met_fold_start · (append* · met_iteration_end)* as an op sequence ---- *)
  Inductive fold_op := OAdd (v : V) (g : generation) | OIterEnd.

  (* runs the ops after met_fold_start; collects the cursor states handed out by each OIterEnd *)
  Fixpoint run_ops (rc : rcursor) (s : stream) (ops : list fold_op)
    : sres (list cursor_state * rcursor * stream) :=
    match ops with
    | [] => SOk ([], rc, s)
    | OAdd v g :: t => dos s1 <- stream_add_value s v g; run_ops rc s1 t
    | OIterEnd :: t =>
        dos r <- met_iteration_end rc s;
        let '(st, rc1, s1) := r in
        dos r2 <- run_ops rc1 s1 t;
        let '(sts, rc2, s2) := r2 in
        SOk (st :: sts, rc2, s2)
    end.
  (* a whole fold: fresh cursor, met_fold_start, then the ops *)
  Definition run_fold (s : stream) (ops : list fold_op) : sres (list cursor_state * rcursor * stream) :=
    dos r <- met_fold_start rcursor_new s;
    let '(st, rc1, s1) := r in
    dos r2 <- run_ops rc1 s1 ops;
    let '(sts, rc2, s2) := r2 in
    SOk (st :: sts, rc2, s2).
  (* every value handed out, in order *)
  Definition handed_out (sts : list cursor_state) : list V := concat (concat (map batches_of sts)).

  (* ---- the hypothesis of cursor_once, as a computable predicate on (stream, op sequence) ---- *)
  (* no hole: every row of the vector holds a value *)
  Definition matrix_dense (m : matrix) : bool := lenN (nonempty_rows m) =? m_len m.
  Definition stream_dense (s : stream) : bool :=
    matrix_dense (s_prev s) && matrix_dense (s_cur s) && matrix_dense (s_new s).
  (* an append does not land below the cursor *)
  Definition add_above_cursor (rc : rcursor) (g : generation) : bool :=
    match g with
    | GPrevious pg => c_prev rc <=? pg
    | GCurrent cg => c_cur rc <=? cg
    | GNew => true
    end.
  (* checked along the run:
     (1) the stream has no empty row when the fold starts;
     (2) every append to previous/current lands at or above the cursor (appends to `new` always do);
     (3) at every met_iteration_end, once the trailing empty `new` generation is dropped, no matrix
         has an empty row (an append that jumps over a generation index leaves such a hole).
     [ops_safe] is (2)+(3). *)
  Fixpoint ops_safe (rc : rcursor) (s : stream) (ops : list fold_op) : bool :=
    match ops with
    | [] => true
    | OAdd v g :: t =>
        add_above_cursor rc g &&
        match stream_add_value s v g with SOk s1 => ops_safe rc s1 t | _ => true end
    | OIterEnd :: t =>
        match remove_last_generation_if_empty s with SOk s0 => stream_dense s0 | _ => true end &&
        match met_iteration_end rc s with SOk (_, rc1, s1) => ops_safe rc1 s1 t | _ => true end
    end.
  Definition cursor_hyp (s : stream) (ops : list fold_op) : bool :=
    stream_dense s &&
    match met_fold_start rcursor_new s with SOk (_, rc1, s1) => ops_safe rc1 s1 ops | _ => true end.

  (* number of Continue answers *)
  Definition count_continue (sts : list cursor_state) : N :=
    lenN (filter should_continue sts).

  (* ================= specification-only views ================= *)
  (* the padded vector `self.values` (specification only: its length is m_len) *)
  Fixpoint pad_rows (c : cells) (i : N) (n : nat) : list (list V) :=
    match n with O => [] | S k => cells_get c i :: pad_rows c (i + 1) k end.
  Definition matrix_rows (m : matrix) : list (list V) := pad_rows (m_cells m) 0 (N.to_nat (m_len m)).

  (* well-formed sparse matrix: indices strictly increasing and below m_len, recorded rows non-empty,
     size counter exact *)
  Fixpoint cells_sorted (lo : N) (c : cells) : Prop :=
    match c with [] => True | (j, r) :: t => lo <= j /\ r <> [] /\ cells_sorted (j + 1) t end.
  Definition cells_below (c : cells) (n : N) : Prop := forall j r, In (j, r) c -> j < n.
  Definition wf_matrix (m : matrix) : Prop :=
    cells_sorted 0 (m_cells m) /\ cells_below (m_cells m) (m_len m) /\ m_size m = lenN (matrix_iter m).
  Definition wf_stream (s : stream) : Prop :=
    wf_matrix (s_prev s) /\ wf_matrix (s_cur s) /\ wf_matrix (s_new s).

  (* a stream built by successful add_value calls *)
  Fixpoint add_all (s : stream) (l : list (V * generation)) : sres stream :=
    match l with
    | [] => SOk s
    | (v, g) :: t => dos s1 <- stream_add_value s v g; add_all s1 t
    end.

  (* values of a matrix with their generation (row index), in iteration order *)
  Definition cells_tagged (c : cells) : list (N * V) :=
    concat (map (fun c => map (fun v => (fst c, v)) (snd c)) c).
  Definition matrix_tagged (m : matrix) : list (N * V) := cells_tagged (m_cells m).

  (* ================= statements ================= *)

  (* C13: exact contents of a stream built by add_value: one entry per append, counter exact *)
  Definition C13_stream_exact_stmt : Prop :=
    forall l s, add_all stream_new l = SOk s ->
      Permutation.Permutation (stream_iter s) (map fst l) /\
      stream_size s = lenN (stream_iter s) /\ stream_size s = lenN l /\ stream_size s < stream_max_size /\
      wf_stream s.
  (* one step, from any well-formed stream; the add that makes the size reach STREAM_MAX_SIZE fails *)
  Definition C13_add_value_stmt : Prop :=
    forall s v g, wf_stream s ->
      match stream_add_value s v g with
      | SOk s1 => stream_size s1 = stream_size s + 1 /\ stream_size s1 < stream_max_size /\
                  Permutation.Permutation (stream_iter s1) (v :: stream_iter s) /\ wf_stream s1
      | SErr StreamSizeLimitExceeded => stream_max_size <= stream_size s + 1 \/ generation_in_range g = false
      | SCrash _ => True
      end.

  (* C12: iteration order: previous, current, new; inside a source by generation, then insertion order *)
  Definition gen_le (a b : N * V) : Prop := fst a <= fst b.
  Definition is_prev_gen (g : N) (x : V * generation) : bool :=
    match snd x with GPrevious h => h =? g | _ => false end.
  Definition is_cur_gen (g : N) (x : V * generation) : bool :=
    match snd x with GCurrent h => h =? g | _ => false end.
  Definition is_new_gen (x : V * generation) : bool :=
    match snd x with GNew => true | _ => false end.
  Definition C12_iter_order_stmt : Prop :=
    forall l s, add_all stream_new l = SOk s ->
      stream_iter s = map snd (matrix_tagged (s_prev s)) ++ map snd (matrix_tagged (s_cur s))
                      ++ map snd (matrix_tagged (s_new s)) /\
      Sorted.StronglySorted gen_le (matrix_tagged (s_prev s)) /\
      Sorted.StronglySorted gen_le (matrix_tagged (s_cur s)) /\
      Sorted.StronglySorted gen_le (matrix_tagged (s_new s)) /\
      (* insertion order inside one generation of previous / current; `new` in insertion order *)
      (forall g, map snd (filter (fun x => fst x =? g) (matrix_tagged (s_prev s))) = map fst (filter (is_prev_gen g) l)) /\
      (forall g, map snd (filter (fun x => fst x =? g) (matrix_tagged (s_cur s))) = map fst (filter (is_cur_gen g) l)) /\
      map snd (matrix_tagged (s_new s)) = map fst (filter is_new_gen l).

  (* C12: compaction.  [compact_tagged s] lists (value, source, old generation, new generation) *)
  Inductive source := FromPrev | FromCur | FromNew.
  Definition source_rank (x : source) : N := match x with FromPrev => 0 | FromCur => 1 | FromNew => 2 end.
  Definition tagged4 := (V * source * N * N)%type.
  Fixpoint retag_cells (src : source) (c : cells) (next : N) : list tagged4 :=
    match c with
    | [] => []
    | (j, r) :: t =>
        if row_nonempty r then map (fun v => (v, src, j, next)) r ++ retag_cells src t (next + 1)
        else retag_cells src t next
    end.
  Definition count_nonempty (m : matrix) : N := lenN (nonempty_rows m).
  Definition compact_tagged (s : stream) : list tagged4 :=
    let np := count_nonempty (s_prev s) in
    let nc := count_nonempty (s_cur s) in
    retag_cells FromPrev (m_cells (s_prev s)) 0 ++ retag_cells FromCur (m_cells (s_cur s)) np
    ++ retag_cells FromNew (m_cells (s_new s)) (np + nc).
  Definition t_val (x : tagged4) : V := fst (fst (fst x)).
  Definition t_src (x : tagged4) : source := snd (fst (fst x)).
  Definition t_old (x : tagged4) : N := snd (fst x).
  Definition t_new (x : tagged4) : N := snd x.
  Definition count_all (s : stream) : N :=
    count_nonempty (s_prev s) + count_nonempty (s_cur s) + count_nonempty (s_new s).

  Definition C12_compactify_order_stmt : Prop :=
    forall s, wf_stream s -> count_all s <= gen_u32_max ->
      let T := compact_tagged s in
      cp_crash (snd (stream_compactify s)) = None /\
      (* the updates are exactly the values of the stream, in iteration order, with their new numbers *)
      cp_updates (snd (stream_compactify s)) = map (fun x => (pos_of (t_val x), t_new x)) T /\
      map t_val T = stream_iter s /\
      (* the compacted stream holds the same values in the same order and has no empty generation *)
      stream_iter (fst (stream_compactify s)) = stream_iter s /\
      wf_stream (fst (stream_compactify s)) /\ stream_dense (fst (stream_compactify s)) = true /\
      (* dense from 0 *)
      (forall g, g < count_all s <-> exists x, In x T /\ t_new x = g) /\
      (* previous before current before new *)
      (forall x y, In x T -> In y T -> source_rank (t_src x) < source_rank (t_src y) -> t_new x < t_new y) /\
      (* strictly monotone (hence injective on generations) inside a source *)
      (forall x y, In x T -> In y T -> t_src x = t_src y ->
                   (t_old x < t_old y <-> t_new x < t_new y) /\ (t_old x = t_old y <-> t_new x = t_new y)).

  (* the tagging is the stream: (v, FromPrev, g, _) is in [compact_tagged s] exactly for the values
     added under GPrevious g, etc. *)
  Definition C12_tagged_sources_stmt : Prop :=
    forall l s, add_all stream_new l = SOk s ->
      forall v g, (In (v, GPrevious g) l <-> exists g', In (v, FromPrev, g, g') (compact_tagged s)) /\
                  (In (v, GCurrent g) l <-> exists g', In (v, FromCur, g, g') (compact_tagged s)).

  (* C12 run pair at the stream level.  Run 1 ends with compactify: value x gets generation
     [t_new x].  Run 2 loads it under `Previous (t_new x)` (Generation::from_data PreviousData; values
     met in the other peer's data under Current, own new ones under New), and compactifies again:
     the generation order of the values already seen is preserved, strictly, and everything the peer
     had before stays in front of everything it learns in run 2. *)
  Definition C12_run_pair_stmt : Prop :=
    forall s1 s2, wf_stream s1 -> wf_stream s2 ->
      forall x y x' y', In x (compact_tagged s1) -> In y (compact_tagged s1) ->
      In x' (compact_tagged s2) -> In y' (compact_tagged s2) ->
      t_src x' = t_src y' -> t_old x' = t_new x -> t_old y' = t_new y ->
      (t_new x < t_new y <-> t_new x' < t_new y') /\ (t_new x = t_new y <-> t_new x' = t_new y').
  Definition C12_seen_before_new_stmt : Prop :=
    forall s2 x' y', wf_stream s2 -> In x' (compact_tagged s2) -> In y' (compact_tagged s2) ->
      t_src x' = FromPrev -> t_src y' <> FromPrev -> t_new x' < t_new y'.

  (* C13: the cursor hands out every value exactly once, under [cursor_hyp] *)
  Definition ends_with_iter_end (ops : list fold_op) : Prop :=
    ops = [] \/ exists ops0, ops = ops0 ++ [OIterEnd].
  Definition C13_cursor_once_stmt : Prop :=
    forall s ops sts rc s', wf_stream s -> cursor_hyp s ops = true ->
      run_fold s ops = SOk (sts, rc, s') ->
      (* handed out so far + still pending = the stream, as multisets: nothing twice, nothing lost *)
      Permutation.Permutation (handed_out sts ++ concat (stream_slice_iter s' rc)) (stream_iter s') /\
      (* right after a met_fold_start / met_iteration_end nothing is pending: all handed out once;
         in particular when that call answered Exhausted *)
      (ends_with_iter_end ops -> Permutation.Permutation (handed_out sts) (stream_iter s')).

  (* the unconditional statement (no hypothesis on the ops): refuted *)
  Definition C13_cursor_once_full : Prop :=
    forall s ops sts rc s', wf_stream s -> ends_with_iter_end ops ->
      run_fold s ops = SOk (sts, rc, s') ->
      Permutation.Permutation (handed_out sts) (stream_iter s').

  (* C13: termination of the `while let Continue` loop: at most STREAM_MAX_SIZE Continue answers *)
  Definition C13_cursor_terminates_stmt : Prop :=
    forall s ops sts rc s', wf_stream s ->
      run_fold s ops = SOk (sts, rc, s') -> count_continue sts <= stream_max_size.

  (* ================= streams_variables.rs: Streams ================= *)
  Record span := { sp_left : N; sp_right : N }.
  (* air-parser span.rs: Span::contains_position (strict on both sides) *)
  Definition contains_position (sp : span) (p : N) : bool := (sp_left sp <? p) && (p <? sp_right sp).

  (* stream_descriptor.rs: StreamDescriptor, global, restricted *)
  Record descriptor := { d_span : span; d_stream : stream }.
  Definition descriptor_global (s : stream) : descriptor :=
    {| d_span := {| sp_left := 0; sp_right := usize_max |}; d_stream := s |}.
  Definition descriptor_restricted (s : stream) (sp : span) : descriptor := {| d_span := sp; d_stream := s |}.

  (* HashMap<String, Vec<StreamDescriptor>> as an association list with unique keys *)
  Definition streams := list (string * list descriptor).
  Definition streams_new : streams := [].     (* Streams::new *)

  Fixpoint map_get (m : streams) (name : string) : option (list descriptor) :=
    match m with [] => None | (k, d) :: t => if String.eqb k name then Some d else map_get t name end.
  Fixpoint map_remove (m : streams) (name : string) : streams :=
    match m with [] => [] | (k, d) :: t => if String.eqb k name then map_remove t name else (k, d) :: map_remove t name end.
  (* HashMap::insert: replaces the value of an existing key *)
  Fixpoint map_insert (m : streams) (name : string) (d : list descriptor) : streams :=
    match m with
    | [] => [(name, d)]
    | (k, d0) :: t => if String.eqb k name then (k, d) :: t else (k, d0) :: map_insert t name d
    end.
  Definition streams_keys (m : streams) : list string := map fst m.

  (* stream_descriptor.rs: find_closest -- the LAST descriptor whose span contains the position.
     Works on the reversed vector; returns the index in the reversed vector too. *)
  Fixpoint find_closest_rev (rev_ds : list descriptor) (p : N) : option descriptor :=
    match rev_ds with
    | [] => None
    | d :: t => if contains_position (d_span d) p then Some d else find_closest_rev t p
    end.
  Definition find_closest (ds : list descriptor) (p : N) : option stream :=
    option_map d_stream (find_closest_rev (rev ds) p).
  (* find_closest_mut followed by a write: replace the stream of that descriptor *)
  Fixpoint update_closest_rev (rev_ds : list descriptor) (p : N) (s : stream) : list descriptor :=
    match rev_ds with
    | [] => []
    | d :: t => if contains_position (d_span d) p then {| d_span := d_span d; d_stream := s |} :: t
                else d :: update_closest_rev t p s
    end.
  Definition update_closest (ds : list descriptor) (p : N) (s : stream) : list descriptor :=
    rev (update_closest_rev (rev ds) p s).

  (* Streams::get / get_mut *)
  Definition streams_get (m : streams) (name : string) (p : N) : option stream :=
    match map_get m name with Some ds => find_closest ds p | None => None end.
  (* write back through get_mut *)
  Definition streams_set (m : streams) (name : string) (p : N) (s : stream) : streams :=
    match map_get m name with
    | Some ds => map_insert m name (update_closest ds p s)
    | None => m
    end.

  (* Streams::add_stream_value.  When no descriptor matches, `self.streams.insert(name, vec![global])`
     REPLACES whatever descriptors the name had (reachable only with a position outside every span). *)
  Definition streams_add_stream_value (m : streams) (name : string) (v : V) (g : generation) (p : N)
    : sres streams :=
    match streams_get m name p with
    | Some s => dos s1 <- stream_add_value s v g; SOk (streams_set m name p s1)
    | None => dos s1 <- stream_add_value stream_new v g; SOk (map_insert m name [descriptor_global s1])
    end.

  (* Streams::meet_scope_start *)
  Definition streams_meet_scope_start (m : streams) (name : string) (sp : span) : streams :=
    let d := descriptor_restricted stream_new sp in
    match map_get m name with
    | Some ds => map_insert m name (ds ++ [d])
    | None => map_insert m name [d]
    end.

  (* Streams::meet_scope_end: pop the innermost descriptor of the name, drop the key when none is
     left, compactify the popped stream against the trace (the stream itself is discarded: what
     survives of a restricted stream is the renumbered generations in the trace). *)
  Definition streams_meet_scope_end (m : streams) (name : string) : sres (streams * stream * compact_plan) :=
    match map_get m name with
    | None => SCrash SiteScopeEndNoStream
    | Some ds =>
        match rev ds with
        | [] => SCrash SiteScopeEndNoDescriptor
        | last :: rest_rev =>
            let m1 := if is_nil rest_rev then map_remove m name else map_insert m name (rev rest_rev) in
            let '(s', pl) := stream_compactify (d_stream last) in
            SOk (m1, s', pl)
        end
    end.

  (* Streams::compactify: every descriptor of every name, names in the HashMap's iteration order
     [order] (must be a permutation of [streams_keys m]); descriptors of a name in vector order.
     The plans are concatenated; a crash cuts the rest (errors of update_generation cut at run_plan). *)
  Fixpoint descriptors_compactify (ds : list descriptor) : list descriptor * compact_plan :=
    match ds with
    | [] => ([], {| cp_updates := []; cp_crash := None |})
    | d :: t =>
        let '(s', pl) := stream_compactify (d_stream d) in
        let '(t', plt) := descriptors_compactify t in
        ({| d_span := d_span d; d_stream := s' |} :: t', plan_seq pl (fun _ => plt))
    end.
  Fixpoint streams_compactify (order : list string) (m : streams) : streams * compact_plan :=
    match order with
    | [] => (m, {| cp_updates := []; cp_crash := None |})
    | name :: t =>
        match map_get m name with
        | None => streams_compactify t m
        | Some ds =>
            let '(ds', pl) := descriptors_compactify ds in
            let '(m', plt) := streams_compactify t (map_insert m name ds') in
            (m', plan_seq pl (fun _ => plt))
        end
    end.

  (* C13 at the Streams level: a value added through add_stream_value is in the stream that get
     returns for the same name and position (a global descriptor spans (0, usize::MAX) exclusive, so
     position 0 -- never the position of a variable in a parsed script -- is excluded) *)
  Definition C13_streams_add_get_stmt : Prop :=
    forall m name v g p m', 0 < p -> p < usize_max -> streams_add_stream_value m name v g p = SOk m' ->
      exists s', streams_get m' name p = Some s' /\
        match streams_get m name p with
        | Some s => stream_add_value s v g = SOk s'
        | None => stream_add_value stream_new v g = SOk s'
        end.
End Stream.

Arguments CompactOk {H E} h. Arguments CompactErr {H E} e. Arguments CompactCrash {H E} s.
Arguments Continue {V}. Arguments Exhausted {V}.
Arguments OAdd {V}. Arguments OIterEnd {V}.
Arguments m_len {V}. Arguments m_cells {V}. Arguments m_size {V}.
Arguments s_prev {V}. Arguments s_cur {V}. Arguments s_new {V}.
Arguments d_span {V}. Arguments d_stream {V}.
