(* CallSpec.v -- specification vocabulary for the call instruction of the executor model
   (model/Exec.v): context relations preserved by execution, the effect of one resolved call on
   the bookkeeping fields of the context (requests, last call request id, next peers, supplied
   call results, run parameters) and on the result trace, and the statements of property C19.

   Rust: air/src/execution_step/instructions/call/{resolved_call.rs, call_result_setter.rs,
   prev_result_handler.rs}, farewell_step/outcome.rs (dedup).
   Definitions only; the proofs are in proofs/ExecInv.v (generic induction principle over [exec])
   and proofs/C19Proofs.v. *)
From Aqua Require Import Base Json Air Trace Handler Values Scalars Lens Exec RunExec.
Open Scope N_scope.
Open Scope list_scope.

(* ------------------------------------------------------------------------------------------ *)
(* relations between the context before and after an execution *)

(* every context an outcome carries (Ok or Err) is R-related to the start context *)
Definition res_sat (R : ctx -> ctx -> Prop) (x : ctx) (r : xres) : Prop :=
  match r with XOk y | XErr _ y => R x y | _ => True end.
Definition pres_sat (R : ctx -> ctx -> Prop) (x : ctx) (r : pres ctx) : Prop :=
  match r with POk y => R x y | _ => True end.

(* the context carried by an outcome *)
Definition outcome_ctx (r : xres) : option ctx :=
  match r with XOk y | XErr _ y => Some y | _ => None end.

(* the stage-2 hook of Exec.v (stream / canon instructions) *)
Definition stream_hook := (instr -> ctx -> xres) -> instr -> ctx -> option xres.

(* "if [run] preserves R then the stream instructions built on [run] preserve R": the shape every
   theorem about [exec] asks of the hook *)
Definition hook_preserves (R : ctx -> ctx -> Prop) (h : stream_hook) : Prop :=
  forall run : instr -> ctx -> xres,
    (forall i x, res_sat R x (run i x)) ->
    forall i x r, h run i x = Some r -> res_sat R x r.

(* a frame step: nothing the host sees about calls changes *)
Definition frame (x y : ctx) : Prop :=
  x_requests y = x_requests x /\ x_lcid y = x_lcid x /\ x_next_peers y = x_next_peers x /\
  x_call_results y = x_call_results x /\ x_params y = x_params x.

(* R is preserved by the primitive context updates of Exec.v that are frames *)
Record frame_invariant (R : ctx -> ctx -> Prop) : Prop := {
  fi_refl : forall x, R x x;
  fi_trans : forall x y z, R x y -> R y z -> R x z;
  fi_set_scalars : forall x m, R x (set_scalars x m);
  fi_set_canons : forall x m, R x (set_canons x m);
  fi_set_iterables : forall x l, R x (set_iterables x l);
  fi_set_last_error : forall x e b, R x (set_last_error x e b);
  fi_set_error : forall x e b, R x (set_error x e b);
  fi_set_complete : forall x b, R x (set_complete x b);
  fi_set_handler : forall x h, R x (set_handler x h);
  fi_set_cids : forall x c t, R x (set_cids x c t);
  fi_set_fold_counter : forall x n, R x (set_fold_counter x n);
  fi_set_ext : forall x e, R x (set_ext x e)
}.

(* ... and by the three updates of the call instruction that are not frames *)
Record exec_invariant (R : ctx -> ctx -> Prop) : Prop := {
  ei_frame : frame_invariant R;
  (* handle_prev_state: a supplied call result is consumed (call_results.remove) *)
  ei_take : forall x id ans rest,
      results_take (x_call_results x) id = (Some ans, rest) ->
      R x (set_calls x (x_lcid x) rest (x_requests x));
  (* handle_remote_call: the target peer, which is not the current peer, is pushed *)
  ei_forward : forall x p,
      String.eqb p (current_peer x) = false ->
      R x (set_next_peers x (x_next_peers x ++ [p]));
  (* ResolvedCall::execute: next_call_request_id + call_requests.insert *)
  ei_request : forall x rq,
      (4294967295 <=? x_lcid x) = false ->
      R x (set_calls x (x_lcid x + 1) (x_call_results x) (x_requests x ++ [(x_lcid x + 1, rq)]))
}.

(* ------------------------------------------------------------------------------------------ *)
(* what one resolved call does *)

Definition tr (x : ctx) : list (state cid) := result_trace cid (x_handler x).

Inductive call_effect :=
| CEFrame                                  (* nothing about calls changes *)
| CEResult (id : N) (ans : service_answer) (* the result supplied under [id] is consumed *)
| CEForward                                (* handle_remote_call *)
| CERequest (id : N) (rq : request).       (* a call request is issued to the host *)

(* the state found in the previous/current data for this call position *)
Definition met_state (x : ctx) (c : call_result cid) : Prop :=
  exists pos src h, meet_call_start cid cid_eqb (x_handler x) = Ok (CallMet cid c pos src, h).

(* bookkeeping fields *)
Definition call_fields (x : ctx) (t : tetraplet) (eff : call_effect) (y : ctx) : Prop :=
  x_params y = x_params x /\
  match eff with
  | CEFrame =>
      x_requests y = x_requests x /\ x_lcid y = x_lcid x /\ x_next_peers y = x_next_peers x /\
      x_call_results y = x_call_results x
  | CEResult id ans =>
      met_state x (RequestSentBy (SPeerCall (current_peer x) id)) /\
      results_take (x_call_results x) id = (Some ans, x_call_results y) /\
      x_requests y = x_requests x /\ x_lcid y = x_lcid x /\ x_next_peers y = x_next_peers x
  | CEForward =>
      String.eqb (tp_peer t) (current_peer x) = false /\
      x_next_peers y = x_next_peers x ++ [tp_peer t] /\
      x_requests y = x_requests x /\ x_lcid y = x_lcid x /\ x_call_results y = x_call_results x
  | CERequest id rq =>
      String.eqb (tp_peer t) (current_peer x) = true /\
      id = x_lcid x + 1 /\ x_lcid x < 4294967295 /\ x_lcid y = id /\
      x_requests y = x_requests x ++ [(id, rq)] /\
      rq_service rq = tp_service t /\ rq_function rq = tp_function t /\
      x_next_peers y = x_next_peers x /\ x_call_results y = x_call_results x
  end.

(* the state written to the result trace *)
Definition call_emission (x : ctx) (eff : call_effect) (y : ctx) : Prop :=
  match eff with
  | CEFrame =>
      (* nothing (an error before the state is written) or the met state again *)
      tr y = tr x \/ exists c, met_state x c /\ tr y = tr x ++ [SCall c]
  | CEResult _ _ =>
      tr y = tr x \/ exists c, tr y = tr x ++ [SCall c] /\
                               match c with RequestSentBy _ => False | _ => True end
  | CEForward => tr y = tr x ++ [SCall (RequestSentBy (SPeer (current_peer x)))]
  | CERequest id _ => tr y = tr x ++ [SCall (RequestSentBy (SPeerCall (current_peer x) id))]
  end.

Definition call_step (x : ctx) (t : tetraplet) (y : ctx) : Prop :=
  exists eff, call_fields x t eff y /\ call_emission x eff y.

(* ------------------------------------------------------------------------------------------ *)
(* C19: calls run only where addressed; the particle is forwarded exactly where needed *)

(* what execution may do to the requests and the next peers: requests are only appended, and
   every peer appended to the next peers differs from the current peer *)
Definition c19_rel (x y : ctx) : Prop :=
  x_params y = x_params x /\
  (exists added, x_requests y = x_requests x ++ added) /\
  (exists sent, x_next_peers y = x_next_peers x ++ sent /\ Forall (fun q => q <> current_peer x) sent).

(* 1. a request is added only by a call whose resolved target is the current peer *)
Definition C19_requests_local_stmt : Prop :=
  (* a resolved call addressed to another peer leaves the requests and the request counter alone *)
  (forall x t args out y,
      outcome_ctx (resolved_call_execute x t args out) = Some y ->
      tp_peer t <> current_peer x ->
      x_requests y = x_requests x /\ x_lcid y = x_lcid x) /\
  (* a call instruction that changes the requests resolves to the current peer and appends exactly
     one request: service and function of the resolved triplet under the next request id *)
  (forall x text tr_ args out y,
      outcome_ctx (exec_call x text tr_ args out) = Some y ->
      x_requests y <> x_requests x ->
      exists t rq, resolve_triplet x tr_ = POk t /\ tp_peer t = current_peer x /\
                   x_requests y = x_requests x ++ [(x_lcid x + 1, rq)] /\
                   rq_service rq = tp_service t /\ rq_function rq = tp_function t) /\
  (* whole executions change the requests only by appending *)
  (forall hook, hook_preserves c19_rel hook ->
      forall fuel i x y, outcome_ctx (exec hook fuel i x) = Some y ->
      exists added, x_requests y = x_requests x ++ added).

(* 2. next peers: everything execution appends differs from the current peer; the outcome's list
   is duplicate-free, excludes the current peer, and keeps every peer that was pushed *)
Definition finish_keeps_next (finish : ctx -> ctx + uncatchable) : Prop :=
  forall x x1, finish x = inl x1 -> x_next_peers x1 = x_next_peers x.

Definition C19_next_peers_not_self_stmt : Prop :=
  (forall hook, hook_preserves c19_rel hook ->
      forall fuel i x y, outcome_ctx (exec hook fuel i x) = Some y ->
      exists sent, x_next_peers y = x_next_peers x ++ sent /\ Forall (fun q => q <> current_peer x) sent) /\
  (forall l, NoDup (dedup l []) /\ forall q, In q (dedup l []) <-> In q l) /\
  (forall hook finish, hook_preserves c19_rel hook -> finish_keeps_next finish ->
      forall fuel i code d next reqs signed,
        run hook finish fuel i = OutNewData code d next reqs signed ->
        NoDup next /\ ~ In (rp_current_peer (ri_params i)) next).

(* 3. a resolved call writes a NEW state RequestSentBy(PeerId p) -- one that is not the state met in
   the previous/current data -- exactly when it pushes its target, which is not the current peer,
   to the next peers; then p is the current peer *)
Definition C19_marked_forwarded_stmt : Prop :=
  forall x t args out y,
    outcome_ctx (resolved_call_execute x t args out) = Some y ->
    (forall p, tr y = tr x ++ [SCall (RequestSentBy (SPeer p))] ->
               ~ met_state x (RequestSentBy (SPeer p)) ->
               p = current_peer x /\ tp_peer t <> current_peer x /\
               x_next_peers y = x_next_peers x ++ [tp_peer t]) /\
    (x_next_peers y <> x_next_peers x ->
               tp_peer t <> current_peer x /\ x_next_peers y = x_next_peers x ++ [tp_peer t] /\
               tr y = tr x ++ [SCall (RequestSentBy (SPeer (current_peer x)))]).

(* 5. source tie: the decisive source lines, re-read by tools/genx_calls.py on every run *)
Definition str_cmp (c : cmp_op) (a b : string) : option bool :=
  match c with CmpNe => Some (negb (String.eqb a b)) | CmpEq => Some (String.eqb a b) | _ => None end.
Definition guard_eqb (a b : string * cmp_op * string) : bool :=
  String.eqb (fst (fst a)) (fst (fst b)) && cmp_op_eqb (snd (fst a)) (snd (fst b)) && String.eqb (snd a) (snd b).

Definition c19_source_agrees : bool :=
  (* resolved_call.rs: `if tetraplet.peer_pk != current_peer_id { handle_remote_call(..); return Ok(()) }`
     before the request is inserted *)
  guard_eqb c19_call_remote_guard ("tetraplet.peer_pk", CmpNe, "exec_ctx.run_parameters.current_peer_id") &&
  list_eqb String.eqb c19_call_remote_block ["handle_remote_call(tetraplet.peer_pk.clone(), exec_ctx, trace_ctx)"; "return Ok(())"] &&
  c19_request_insert_after_guard &&
  (* call_result_setter.rs: handle_remote_call *)
  list_eqb String.eqb c19_handle_remote_call
           ["exec_ctx.next_peer_pks.push(peer_pk)"; "exec_ctx.make_subgraph_incomplete()";
            "CallResult::sent_peer_id(exec_ctx.run_parameters.current_peer_id.clone())";
            "trace_ctx.meet_call_end(new_call_result)"] &&
  (* prev_result_handler.rs: the two RequestSentBy arms *)
  guard_eqb c19_prev_own_request_guard ("peer_id", CmpEq, "exec_ctx.run_parameters.current_peer_id") &&
  guard_eqb c19_prev_sent_is_current_peer ("tetraplet.peer_pk", CmpEq, "exec_ctx.run_parameters.current_peer_id") &&
  list_eqb String.eqb c19_prev_sent_arms ["can_execute_now"; "cant_execute_now"] &&
  (* canon_utils/mod.rs *)
  guard_eqb c19_canon_unseen_guard ("exec_ctx.run_parameters.current_peer_id", CmpNe, "peer_id") &&
  list_eqb String.eqb c19_canon_unseen_block
           ["exec_ctx.make_subgraph_incomplete()"; "exec_ctx.next_peer_pks.push(peer_id)";
            "CanonResult::request_sent_by(exec_ctx.run_parameters.current_peer_id.clone())";
            "trace_ctx.meet_canon_end(canon_result)"; "Ok(())"] &&
  guard_eqb c19_canon_sent_guard ("exec_ctx.run_parameters.current_peer_id", CmpNe, "peer_id") &&
  (* the only places that push a next peer *)
  list_eqb (pair_eqb String.eqb String.eqb) c19_next_peer_push_sites
           [("air/src/execution_step/instructions/call/call_result_setter.rs", "peer_pk");
            ("air/src/execution_step/instructions/canon_utils/mod.rs", "peer_id")] &&
  (* farewell_step/outcome.rs *)
  String.eqb c19_outcome_next_peers "dedup(exec_ctx.next_peer_pks)" &&
  list_eqb String.eqb c19_dedup_body ["use std::collections::HashSet"; "let set: HashSet<_> = vec.drain(..).collect()";
                                          "set.into_iter().collect()"].

Definition C19_source_tie_stmt : Prop :=
  c19_source_agrees = true /\
  (* the operator of the source guard, read as a function on peer ids, is the model's test *)
  (forall a b, str_cmp (snd (fst c19_call_remote_guard)) a b = Some (negb (String.eqb a b))) /\
  (forall x t args out y,
      outcome_ctx (resolved_call_execute x t args out) = Some y ->
      x_next_peers y <> x_next_peers x ->
      str_cmp (snd (fst c19_call_remote_guard)) (tp_peer t) (current_peer x) = Some true).

(* ------------------------------------------------------------------------------------------ *)
(* 4. the history-level statement (quiescence); not proved here: see checks/C19.py PARTIAL *)

Section History.
  Variable hook : stream_hook.
  Variable finish : ctx -> ctx + uncatchable.
  Variable fuel : nat.
  Variable script : instr.
  Variable init : string.                                   (* the init peer *)
  Variable timestamp ttl : N.
  Variable service : string -> request -> service_answer.   (* the host of a peer answers a request *)

  Record host := { ho_peer : string; ho_prev : idata; ho_pending : list (N * request) }.
  Record net := { n_hosts : list host; n_inflight : list (string * idata) (* addressee, data *); n_clean : bool }.

  Inductive hop :=
  | HStart                              (* the init peer runs on empty data *)
  | HDeliver (k : nat) (keep : bool)    (* deliver in-flight message k (keep: a duplicate stays in flight) *)
  | HReturn (p : string).               (* the host of p answers all its pending requests *)

  Definition params_of (p : string) : run_params :=
    {| rp_init_peer := init; rp_current_peer := p; rp_timestamp := timestamp; rp_ttl := ttl |}.

  Definition run_at (h : host) (cur : idata) (results : list (N * service_answer)) : outcome :=
    run hook finish fuel {| ri_script := script; ri_params := params_of (ho_peer h); ri_prev := ho_prev h;
                            ri_cur := cur; ri_results := results |}.

  (* the host contract: store the data, queue the requests, send the data to the next peers *)
  Definition apply_outcome (n : net) (p : string) (rest : list (N * request)) (o : outcome) : net :=
    match o with
    | OutNewData code d next reqs _ =>
        {| n_hosts := map (fun h => if String.eqb (ho_peer h) p
                                    then {| ho_peer := p; ho_prev := d; ho_pending := rest ++ reqs |} else h) (n_hosts n);
           n_inflight := n_inflight n ++ map (fun q => (q, d)) next;
           n_clean := n_clean n |}
    | _ => {| n_hosts := n_hosts n; n_inflight := n_inflight n; n_clean := false |}   (* a failed run: not a clean history *)
    end.

  Definition find_host (n : net) (p : string) : option host :=
    find (fun h => String.eqb (ho_peer h) p) (n_hosts n).

  Definition step (n : net) (o : hop) : net :=
    match o with
    | HStart => match find_host n init with
                | Some h => apply_outcome n init (ho_pending h) (run_at h empty_data [])
                | None => n end
    | HDeliver k keep =>
        match nth_error (n_inflight n) k with
        | Some (q, d) =>
            let n1 := if keep then n
                      else {| n_hosts := n_hosts n; n_inflight := firstn k (n_inflight n) ++ skipn (S k) (n_inflight n);
                              n_clean := n_clean n |} in
            match find_host n1 q with
            | Some h => apply_outcome n1 q (ho_pending h) (run_at h d [])
            | None => n1                      (* addressed to nobody: dropped *)
            end
        | None => n end
    | HReturn p =>
        match find_host n p with
        | Some h => apply_outcome n p [] (run_at h empty_data (map (fun ir => (fst ir, service p (snd ir))) (ho_pending h)))
        | None => n end
    end.

  Definition start_net (peers : list string) : net :=
    {| n_hosts := map (fun p => {| ho_peer := p; ho_prev := empty_data; ho_pending := [] |}) peers;
       n_inflight := []; n_clean := true |}.

  Definition quiescent (n : net) : Prop :=
    n_clean n = true /\ n_inflight n = [] /\ forall h, In h (n_hosts n) -> ho_pending h = [].

  (* all peers' final data merged at an observer that is addressed by nothing *)
  Definition merge_at (observer : string) (acc : option idata) (d : idata) : option idata :=
    match acc with
    | None => None
    | Some a => match run hook finish fuel {| ri_script := script; ri_params := params_of observer; ri_prev := a;
                                              ri_cur := d; ri_results := [] |} with
                | OutNewData _ m _ _ _ => Some m
                | _ => None end
    end.
  Definition merged (observer : string) (n : net) : option idata :=
    fold_left (merge_at observer) (map ho_prev (n_hosts n)) (Some empty_data).

  (* states marked as sent by a peer of the network other than q (the observer's own marks are not the history's) *)
  Definition marks_of_others (q observer : string) (t : list (state cid)) : nat :=
    length (filter (fun s => match s with
                             | SCall (RequestSentBy (SPeer p)) | SCanon (CanonRequestSentBy p) =>
                                 negb (String.eqb p q) && negb (String.eqb p observer)
                             | _ => false end) t).

  (* once every particle and call result has been delivered, no call or canon that some peer of the
     network can execute remains marked as sent: given everything that is known (the merge of all
     final data), no peer takes over a mark left by another peer *)
  Definition C19_quiescent_for (peers : list string) (observer : string) : Prop :=
    forall ops, let n := fold_left step ops (start_net peers) in
      quiescent n ->
      forall m, merged observer n = Some m ->
      forall h, In h (n_hosts n) ->
      forall code d next reqs signed, run_at h m [] = OutNewData code d next reqs signed ->
        marks_of_others (ho_peer h) observer (d_trace d) = marks_of_others (ho_peer h) observer (d_trace m).

  (* the same as a function: None when the history is not quiescent / cannot be merged *)
  Definition quiescent_b (n : net) : bool :=
    n_clean n && match n_inflight n with [] => true | _ => false end &&
    forallb (fun h => match ho_pending h with [] => true | _ => false end) (n_hosts n).
  Definition C19_quiescent_check (peers : list string) (observer : string) (ops : list hop) : option bool :=
    let n := fold_left step ops (start_net peers) in
    if negb (quiescent_b n) then None else
    match merged observer n with
    | None => None
    | Some m =>
        Some (forallb (fun h => match run_at h m [] with
                                | OutNewData _ d _ _ _ =>
                                    Nat.eqb (marks_of_others (ho_peer h) observer (d_trace d))
                                            (marks_of_others (ho_peer h) observer (d_trace m))
                                | _ => true
                                end) (n_hosts n))
    end.
End History.

Definition C19_full (hook : stream_hook) (finish : ctx -> ctx + uncatchable) : Prop :=
  forall fuel script init timestamp ttl service peers observer,
    ~ In observer peers -> In init peers ->
    C19_quiescent_for hook finish fuel script init timestamp ttl service peers observer.
