(* SeqSem.v -- the SEQUENTIAL READING of an AIR script of the fragment F (property C16).

   F: call, seq, par, xor, match/mismatch, fail (literal), null, never, ap to scalars, lenses,
   new on scalars, folds over scalar values / lens results with next and a last instruction.
   Outside F (answered [OutsideFragment]): streams, stream maps, canon, %last_error% and :error:
   (both excluded: the error object carries the message, the instruction text and the executing peer,
   none of which the sequential reading knows about), fail with a variable.

   The reading is big-step and has COMPLETE KNOWLEDGE: a call is executed at once, at the peer it is
   addressed to, by the deterministic service function [svc]; there is no trace, no slider, no merging,
   no "join" behaviour, no peer that executes.  It is written from docs/AIR.md and the instruction
   sources, independently of model/Exec.v (which it does not import):

     seq a b    b runs after a, unless a did not complete (it is stuck on a never or on a variable nobody
                defines) or failed
     par a b    both run (left, then right); complete when one of them is; fails when both fail
     xor a b    b runs iff a failed (a catchable failure; there is no other kind in F)
     match      compares two JSON values; the body runs iff equal (mismatch: iff different), else failure
     new x      x is undefined inside, the outer x comes back afterwards
     fold       unrolls over the array; what an iteration defines is local to it; `next` runs the body
                for the following element, or the last instruction after the final one
     call       resolve peer, service, function, then the arguments left to right; ask [svc]; a non-zero
                return code or a result that is not JSON is a failure; the result goes to the output scalar

   The only generalisation over the plain reading is [known]: a call for which [known] is false is
   recorded but not answered (the evaluation is stuck there).  With [known = fun _ => true] this is the
   sequential reading; with the set of calls answered so far it says which calls are READY -- used by
   the ordering oracle of C16 and by the key lemma of the single-peer theorem.
   Definitions only. *)
From Aqua Require Import Base Json Air.
From Aqua Require Lens.          (* only the plain JSON navigation: Lens.nav1, Lens.step_of_json *)
Open Scope N_scope.
Open Scope list_scope.

Record answer := { an_code : Z; an_value : option json }.      (* return code; the result when it is JSON *)
Record call_ev := { c_peer : string; c_service : string; c_fn : string; c_args : list json }.

Definition call_eqb (a b : call_ev) : bool :=
  String.eqb (c_peer a) (c_peer b) && String.eqb (c_service a) (c_service b) &&
  String.eqb (c_fn a) (c_fn b) && list_eqb json_eqb (c_args a) (c_args b).

Inductive failure :=
| FService (code : Z) | FNotJson | FMatch | FMismatch | FUser (code : Z)
| FLens | FNotArray | FTriplet | FUninit.

Inductive rres (A : Type) := ROk (a : A) | RStuck | RFail (w : failure) | ROutside (what : string).
Arguments ROk {A} a. Arguments RStuck {A}. Arguments RFail {A} w. Arguments ROutside {A} what.
Definition rbind {A B} (r : rres A) (f : A -> rres B) : rres B :=
  match r with ROk a => f a | RStuck => RStuck | RFail w => RFail w | ROutside s => ROutside s end.

(* Done: completed.  AtEnd: a `next` after the final element with no last instruction -- it completes
   nothing by itself (a par does not count it as a completed branch), everything else reads it as Done.
   Stuck: waits forever (never, a variable nobody defines, a call that is not answered). *)
Inductive status := Done | AtEnd | Stuck | Failed (w : failure).
Definition normalize (s : status) : status := match s with AtEnd => Done | x => x end.
Definition is_done (s : status) : bool := match s with Done => true | _ => false end.

(* variables: name -> value, None = declared by `new` and not set yet *)
Definition vars_t := list (string * option json).
(* a running fold: the elements from the current one on, body, last instruction, the variables at its start *)
Record iter_state := { is_rest : list json; is_body : instr; is_last : option instr; is_vars : vars_t }.
Record env := { vars : vars_t; iters : list (string * iter_state) }.
Definition empty_env : env := {| vars := []; iters := [] |}.

Inductive outcome :=
| Out (calls : list call_ev) (e : env) (st : status)
| OutOfFuel
| OutsideFragment (what : string).

Fixpoint assoc {A} (l : list (string * A)) (n : string) : option A :=
  match l with [] => None | (m, x) :: r => if String.eqb m n then Some x else assoc r n end.
Fixpoint set_var (vs : vars_t) (n : string) (j : json) : vars_t :=
  match vs with
  | [] => [(n, Some j)]
  | (m, x) :: r => if String.eqb m n then (m, Some j) :: r else (m, x) :: set_var r n j
  end.
Fixpoint remove_first (vs : vars_t) (n : string) : vars_t :=
  match vs with [] => [] | (m, x) :: r => if String.eqb m n then r else (m, x) :: remove_first r n end.
Fixpoint set_iter (l : list (string * iter_state)) (n : string) (s : iter_state) : list (string * iter_state) :=
  match l with
  | [] => []
  | (m, x) :: r => if String.eqb m n then (m, s) :: r else (m, x) :: set_iter r n s
  end.

Definition with_vars (e : env) (vs : vars_t) : env := {| vars := vs; iters := iters e |}.
Definition bind_var (e : env) (n : string) (j : json) : env := with_vars e (set_var (vars e) n j).

(* a name is a fold iterator (its value is the current element) or a scalar *)
Definition lookup (e : env) (n : string) : rres json :=
  match assoc (iters e) n with
  | Some it => match is_rest it with x :: _ => ROk x | [] => RStuck end
  | None =>
      match assoc (vars e) n with
      | Some (Some j) => ROk j
      | Some None => RFail FUninit
      | None => RStuck
      end
  end.

(* lenses: plain navigation, accessor by accessor; `.[x]` takes the step from the scalar x *)
Definition accessor_step (e : env) (a : accessor) : rres Lens.step :=
  match a with
  | ArrayAccess i => ROk (Lens.SIndex i)
  | FieldAccessByName f => ROk (Lens.SField f)
  | FieldAccessByScalar s =>
      rbind (lookup e s) (fun j => match Lens.step_of_json j with Some st => ROk st | None => RFail FLens end)
  | AccessorError => ROutside "lens that did not parse"
  end.
Fixpoint select (e : env) (v : json) (path : list accessor) : rres json :=
  match path with
  | [] => ROk v
  | a :: rest =>
      rbind (accessor_step e a) (fun st =>
        match Lens.nav1 v st with Some v' => select e v' rest | None => RFail FLens end)
  end.
Definition apply_lens (e : env) (v : json) (l : lambda) : rres json :=
  match l with
  | LValuePath p => select e v p
  | LFunctorLength => match v with JArr xs => ROk (JInt (Z.of_nat (length xs))) | _ => RFail FLens end
  end.
Definition lookup_l (e : env) (v : var_l) : rres json :=
  rbind (lookup e (vl_name v)) (fun j => apply_lens e j (vl_lambda v)).

Definition json_of_number (n : number) : json := match n with NumInt z => JInt z | NumFloat r => JFloat r end.
Definition as_string (r : rres json) : rres string :=
  rbind r (fun j => match j with JStr s => ROk s | _ => RFail FTriplet end).
Definition as_array (r : rres json) : rres (list json) :=
  rbind r (fun j => match j with JArr l => ROk l | _ => RFail FNotArray end).

Section SeqSem.
  Variable svc : string -> string -> string -> list json -> answer.     (* peer, service, function, arguments *)
  Variable known : call_ev -> bool.
  Variable init_peer : string.
  Variable timestamp ttl : N.

  Definition resolve_value (e : env) (v : value) : rres json :=
    match v with
    | VInitPeerId => ROk (JStr init_peer)
    | VTimestamp => ROk (JInt (Z.of_N timestamp))
    | VTTL => ROk (JInt (Z.of_N ttl))
    | VLiteral s => ROk (JStr s)
    | VNumber n => ROk (json_of_number n)
    | VBoolean b => ROk (JBool b)
    | VEmptyArray => ROk (JArr [])
    | VScalar x => lookup e (v_name x)
    | VScalarL x => lookup_l e x
    | VError _ => ROutside ":error:"
    | VLastError _ => ROutside "%last_error%"
    | VCanon _ | VCanonL _ | VCanonMap _ | VCanonMapL _ => ROutside "canon"
    end.

  (* arguments: left to right, the first one that is not available decides *)
  Fixpoint resolve_args (e : env) (l : list value) : rres (list json) :=
    match l with
    | [] => ROk []
    | a :: r => rbind (resolve_value e a) (fun j => rbind (resolve_args e r) (fun js => ROk (j :: js)))
    end.

  Definition resolve_peer (e : env) (p : peer_arg) : rres string :=
    match p with
    | PInitPeerId => ROk init_peer
    | PLiteral s => ROk s
    | PScalar x => as_string (lookup e (v_name x))
    | PScalarL x => as_string (lookup_l e x)
    | PCanonL _ | PCanonMapL _ => ROutside "canon"
    end.
  Definition resolve_str (e : env) (p : string_arg) : rres string :=
    match p with
    | SLiteral s => ROk s
    | SScalar x => as_string (lookup e (v_name x))
    | SScalarL x => as_string (lookup_l e x)
    | SCanonL _ | SCanonMapL _ => ROutside "canon"
    end.

  Definition resolve_ap (e : env) (a : ap_arg) : rres json :=
    match a with
    | AInitPeerId => ROk (JStr init_peer)
    | ATimestamp => ROk (JInt (Z.of_N timestamp))
    | ATTL => ROk (JInt (Z.of_N ttl))
    | ALiteral s => ROk (JStr s)
    | ANumber n => ROk (json_of_number n)
    | ABoolean b => ROk (JBool b)
    | AEmptyArray => ROk (JArr [])
    | AScalar x => lookup e (v_name x)
    | AScalarL x => lookup_l e x
    | AError _ => ROutside ":error:"
    | ALastError _ => ROutside "%last_error%"
    | ACanon _ | ACanonL _ | ACanonMap _ | ACanonMapL _ => ROutside "canon"
    end.

  Definition resolve_iterable (e : env) (it : fold_iterable) : rres (list json) :=
    match it with
    | FIScalar x => as_array (lookup e (v_name x))
    | FIScalarL x => as_array (lookup_l e x)
    | FIEmptyArray => ROk []
    | FICanon _ | FICanonMap _ | FICanonMapL _ => ROutside "canon"
    end.

  (* an instruction that could not even start *)
  Definition early {A} (e : env) (r : rres A) (k : A -> outcome) : outcome :=
    match r with
    | ROk a => k a
    | RStuck => Out [] e Stuck
    | RFail w => Out [] e (Failed w)
    | ROutside s => OutsideFragment s
    end.

  (* [k] continues an evaluation: the calls made so far are kept in front *)
  Definition andthen (o : outcome) (k : list call_ev -> env -> status -> outcome) : outcome :=
    match o with Out cs e st => k cs e st | x => x end.
  Definition more (cs : list call_ev) (o : outcome) (f : env -> status -> env * status) : outcome :=
    match o with Out cs' e st => let '(e', st') := f e st in Out (cs ++ cs') e' st' | x => x end.

  (* one level of the evaluation; [ev] evaluates the sub-instructions *)
  Definition seq_step (ev : env -> instr -> outcome) (e : env) (i : instr) : outcome :=
    match i with
    | INull => Out [] e Done
    | INever => Out [] e Stuck
    | ICall _ t args out =>
        early e (resolve_peer e (t_peer t)) (fun p =>
        early e (resolve_str e (t_service t)) (fun s =>
        early e (resolve_str e (t_function t)) (fun f =>
        early e (resolve_args e args) (fun vs =>
          let c := {| c_peer := p; c_service := s; c_fn := f; c_args := vs |} in
          if negb (known c) then Out [c] e Stuck else
          let a := svc p s f vs in
          if negb (an_code a =? 0)%Z then Out [c] e (Failed (FService (an_code a))) else
          match an_value a with
          | None => Out [c] e (Failed FNotJson)
          | Some r =>
              match out with
              | OutScalar x => Out [c] (bind_var e (v_name x) r) Done
              | OutNone => Out [c] e Done
              | OutStream _ => OutsideFragment "stream"
              end
          end))))
    | IAp _ a r =>
        match r with
        | ApScalar x => early e (resolve_ap e a) (fun j => Out [] (bind_var e (v_name x) j) Done)
        | ApStream _ => OutsideFragment "stream"
        end
    | ISeq a b =>
        andthen (ev e a) (fun cs e1 st =>
          match st with
          | Done | AtEnd => more cs (ev e1 b) (fun e2 st2 => (e2, normalize st2))
          | _ => Out cs e1 st
          end)
    | IXor a b =>
        andthen (ev e a) (fun cs e1 st =>
          match st with
          | Failed _ => more cs (ev e1 b) (fun e2 st2 => (e2, normalize st2))
          | _ => Out cs e1 (normalize st)
          end)
    | IPar a b =>
        andthen (ev e a) (fun cs e1 st1 =>
          more cs (ev e1 b) (fun e2 st2 =>
            (e2, match st1, st2 with
                 | Failed _, Failed w => Failed w
                 | _, _ => if is_done st1 || is_done st2 then Done else Stuck
                 end)))
    | IMatch _ l r body | IMisMatch _ l r body =>
        let want := match i with IMatch _ _ _ _ => true | _ => false end in
        early e (resolve_value e l) (fun lv =>
        early e (resolve_value e r) (fun rv =>
          if Bool.eqb (json_eqb lv rv) want then more [] (ev e body) (fun e1 st => (e1, normalize st))
          else Out [] e (Failed (if want then FMatch else FMismatch))))
    | IFail _ f =>
        match f with
        | FLiteral code _ => Out [] e (Failed (FUser code))
        | _ => OutsideFragment "fail with a variable or an error object"
        end
    | INew _ a body _ =>
        match a with
        | NScalar x =>
            more [] (ev (with_vars e ((v_name x, None) :: vars e)) body)
                 (fun e1 st => (with_vars e1 (remove_first (vars e1) (v_name x)), normalize st))
        | _ => OutsideFragment "new on a stream"
        end
    | IFoldScalar _ it iter body last _ =>
        early e (resolve_iterable e it) (fun xs =>
          match xs with
          | [] => Out [] e Done
          | _ =>
              let st := {| is_rest := xs; is_body := body; is_last := last; is_vars := vars e |} in
              more [] (ev {| vars := vars e; iters := (v_name iter, st) :: iters e |} body)
                   (fun _ s => (e, normalize s))           (* what the iterations define is local to them *)
          end)
    | INext _ iter =>
        match assoc (iters e) (v_name iter) with
        | None => OutsideFragment "next outside of its fold"
        | Some st =>
            match is_rest st with
            | _ :: ((_ :: _) as rest) =>
                let st' := {| is_rest := rest; is_body := is_body st; is_last := is_last st; is_vars := is_vars st |} in
                more [] (ev {| vars := is_vars st; iters := set_iter (iters e) (v_name iter) st' |} (is_body st))
                     (fun _ s => (e, s))
            | _ =>
                match is_last st with
                | Some li => more [] (ev e li) (fun e1 s => (e1, normalize s))
                | None => Out [] e AtEnd
                end
            end
        end
    | ICanon _ _ _ _ | ICanonMap _ _ _ _ | ICanonStreamMapScalar _ _ _ _ => OutsideFragment "canon"
    | IApMap _ _ _ _ | IFoldStreamMap _ _ _ _ _ _ => OutsideFragment "stream map"
    | IFoldStream _ _ _ _ _ _ => OutsideFragment "stream"
    | IError => OutsideFragment "parse error node"
    end.

  Fixpoint seq_eval (fuel : nat) : env -> instr -> outcome :=
    match fuel with
    | O => fun _ _ => OutOfFuel
    | S fuel' => seq_step (seq_eval fuel')
    end.

  Definition calls_of (o : outcome) : list call_ev := match o with Out cs _ _ => cs | _ => [] end.
End SeqSem.

Definition everything_known : call_ev -> bool := fun _ => true.

(* multisets of calls (executable), used by the statements and the oracle of C16 *)
Fixpoint remove_call (x : call_ev) (l : list call_ev) : option (list call_ev) :=
  match l with
  | [] => None
  | y :: r => if call_eqb x y then Some r else option_map (cons y) (remove_call x r)
  end.
Fixpoint sub_multiset (a b : list call_ev) : bool :=
  match a with
  | [] => true
  | x :: r => match remove_call x b with Some b' => sub_multiset r b' | None => false end
  end.
Definition known_in (l : list call_ev) : call_ev -> bool := fun c => existsb (call_eqb c) l.

(* statements about the reading itself (proved in proofs/SeqProofs.v) *)
(* more fuel, same result once the evaluation has an answer *)
Definition C16_reading_fuel_monotone_stmt : Prop :=
  forall svc known p ts ttl (f f' : nat) e i,
    (f <= f')%nat -> seq_eval svc known p ts ttl f e i <> OutOfFuel ->
    seq_eval svc known p ts ttl f' e i = seq_eval svc known p ts ttl f e i.
(* the calls (the whole outcome) are a function of the script and of the services *)
Definition C16_reading_function_of_services_stmt : Prop :=
  forall svc svc' known known' p ts ttl,
    (forall a b c d, svc a b c d = svc' a b c d) -> (forall c, known c = known' c) ->
    forall f e i, seq_eval svc known p ts ttl f e i = seq_eval svc' known' p ts ttl f e i.
