"""Translator piece for C01: the catalogue of panic-capable sites.

Scans the NON-TEST, hand-written Rust sources of the crates that make up the interpreter and its
public text/byte entry points and emits, line-number independent,

    panic_sites : list (string * string * string * N)      (file, enclosing fn, kind, ordinal)

where `ordinal` counts the sites of that kind inside that (file, fn) in source order.  Kinds:

    unwrap expect unreachable unimplemented todo panic assert      the call / macro of that name (`debug_assert*` is skipped)
    index      `x[..]` on a Vec / slice / str / map (any `[` that directly follows an identifier, `)` or `]`)
    remove     `.remove(<integer literal>)` / `.swap_remove(` (position-based removal from a Vec)
    arith      binary `+ - *` (and `+= -= *=`) in the files that compute with TracePos / GenerationIdx / u32 / usize
               trace positions and generations (ARITH_FILES): with overflow checks on, each is a potential panic
    cast       `as u8|u16|u32|usize|i32|i64` in the same files (silent truncation rather than a panic)

coq/model/Catalogue.v classifies every entry by hand; `C01_catalogue_closed` proves (vm_compute) that the
classified list IS this list, so a site that appears in (or disappears from) the source breaks the obligation.
Test code is excluded: `tests/`, `benches/`, files named test*.rs, and `#[cfg(test)]` items."""
import os
import re

import gen_model
from gen_model import TranslationError, coq_list, coq_str

ROOTS = [
    "air/src",
    "crates/air-lib/trace-handler/src",
    "crates/air-lib/interpreter-data/src",
    "crates/air-lib/interpreter-cid/src",
    "crates/air-lib/interpreter-signatures/src",
    "crates/air-lib/interpreter-value/src",
    "crates/air-lib/air-parser/src",
    "crates/air-lib/lambda/parser/src",
    "crates/beautifier/src",
    "crates/air-lib/interpreter-sede/src",
    "crates/air-lib/interpreter-interface/src",
]

# files whose integer arithmetic is over trace positions / lengths / generation indices
ARITH_PREFIXES = [
    "crates/air-lib/trace-handler/src/",
    "crates/air-lib/interpreter-data/src/trace_pos.rs",
    "crates/air-lib/interpreter-data/src/generation_idx.rs",
    "crates/air-lib/interpreter-data/src/trace.rs",
    "crates/air-lib/interpreter-data/src/executed_state/impls.rs",
    "air/src/execution_step/value_types/stream/",
    "air/src/execution_step/value_types/stream_map.rs",
    "air/src/execution_step/execution_context/streams_variables/",
    "air/src/execution_step/execution_context/stream_maps_variables/",
    "air/src/execution_step/execution_context/context.rs",
    "air/src/execution_step/instructions/fold_stream/",
    "air/src/execution_step/instructions/fold/",
    "crates/beautifier/src/",
]


def is_test_path(rel):
    parts = rel.split("/")
    if "tests" in parts or "benches" in parts or "test_utils" in parts:
        return True
    base = parts[-1]
    return base.startswith("test") or base.endswith("_tests.rs") or base.endswith("_test.rs")


def blank_strings_and_comments(src):
    """Replace the inside of comments, string literals and char literals by spaces (same length,
    newlines kept) so that positions and brace structure are those of the code."""
    out = list(src)
    i, n = 0, len(src)

    def blank(a, b):
        for k in range(a, b):
            if out[k] != "\n":
                out[k] = " "

    while i < n:
        c = src[i]
        if src.startswith("//", i):
            j = src.find("\n", i)
            j = n if j < 0 else j
            blank(i, j)
            i = j
        elif src.startswith("/*", i):
            depth, j = 1, i + 2
            while j < n and depth > 0:
                if src.startswith("/*", j):
                    depth += 1
                    j += 2
                elif src.startswith("*/", j):
                    depth -= 1
                    j += 2
                else:
                    j += 1
            blank(i, j)
            i = j
        elif c == "r" and re.match(r'r#*"', src[i:i + 8]) and (i == 0 or not (src[i - 1].isalnum() or src[i - 1] == "_")):
            m = re.match(r'r(#*)"', src[i:])
            closing = '"' + m.group(1)
            j = src.find(closing, i + len(m.group(0)))
            j = n if j < 0 else j + len(closing)
            blank(i + len(m.group(0)), j - len(closing))
            i = j
        elif c == '"':
            j = i + 1
            while j < n and src[j] != '"':
                j += 2 if src[j] == "\\" else 1
            blank(i + 1, min(j, n))
            i = j + 1
        elif c == "'":
            # char literal ('a', '\n', '\u{..}') vs lifetime ('a)
            m = re.match(r"'(\\u\{[0-9a-fA-F]+\}|\\.|[^\\'])'", src[i:])
            if m:
                blank(i + 1, i + len(m.group(0)) - 1)
                i += len(m.group(0))
            else:
                i += 1
        else:
            i += 1
    return "".join(out)


def remove_cfg_test_items(code):
    """Blank every item that follows `#[cfg(test)]` (a `mod x { .. }`, a `mod x;`, a fn, a use)."""
    out = code
    pos = 0
    while True:
        m = re.search(r"#\[cfg\((?:all\()?test\b[^\]]*\]", out[pos:])
        if not m:
            break
        a = pos + m.start()
        i = pos + m.end()
        # the item ends at the first `;` at depth 0 or at the matching `}` of its first `{`
        depth = 0
        j = i
        end = None
        while j < len(out):
            ch = out[j]
            if ch == "{":
                depth += 1
            elif ch == "}":
                depth -= 1
                if depth == 0:
                    end = j + 1
                    break
            elif ch == ";" and depth == 0:
                end = j + 1
                break
            j += 1
        if end is None:
            end = len(out)
        out = out[:a] + "".join(ch if ch == "\n" else " " for ch in out[a:end]) + out[end:]
        pos = end
    return out


FN_RE = re.compile(r"\bfn\s+([A-Za-z_]\w*)")
MACRO_RULES_RE = re.compile(r"\bmacro_rules!\s*([A-Za-z_]\w*)")


def enclosing_fn_map(code):
    """position -> name of the innermost enclosing `fn` (or macro_rules!) whose body contains it."""
    # collect (body_start, body_end, name)
    spans = []
    for m in list(FN_RE.finditer(code)) + list(MACRO_RULES_RE.finditer(code)):
        name = m.group(1)
        # find the body: first `{` after the signature at paren depth 0, unless a `;` comes first (trait method decl)
        i = m.end()
        par = 0
        body = None
        while i < len(code):
            ch = code[i]
            if ch in "(<[" and not (ch == "<" and code[i - 1] in "-="):
                par += 1 if ch != "<" else 0
            elif ch in ")]":
                par -= 1
            elif ch == ";" and par == 0:
                break
            elif ch == "{" and par == 0:
                body = i
                break
            i += 1
        if body is None:
            continue
        depth = 0
        j = body
        while j < len(code):
            if code[j] == "{":
                depth += 1
            elif code[j] == "}":
                depth -= 1
                if depth == 0:
                    break
            j += 1
        spans.append((body, j, name))
    spans.sort()

    def lookup(pos):
        best = None
        for a, b, name in spans:
            if a <= pos <= b and (best is None or a >= best[0]):
                best = (a, name)
        return best[1] if best else "<top>"

    return lookup


SIMPLE = [
    ("unwrap", re.compile(r"\.unwrap\(\s*\)")),
    ("expect", re.compile(r"\.expect\(")),
    ("unreachable", re.compile(r"\bunreachable!\s*[\(\[\{]")),
    ("unimplemented", re.compile(r"\bunimplemented!\s*[\(\[\{]")),
    ("todo", re.compile(r"\btodo!\s*[\(\[\{]")),
    ("panic", re.compile(r"(?<![\w:])panic!\s*[\(\[\{]")),
    ("assert", re.compile(r"(?<![\w])assert(?:_eq|_ne)?!\s*[\(\[\{]")),
    ("remove", re.compile(r"\.(?:remove\(\s*\d+\s*\)|swap_remove\()")),
]
INDEX_RE = re.compile(r"(?<=[\w\)\]])\[")
ARITH_RE = re.compile(r"(?<=[\w\)\]])\s+(\+=|-=|\*=|\+|-|\*)\s+(?=[\w\(&\*])")
CAST_RE = re.compile(r"\bas\s+(u8|u16|u32|usize|i8|i16|i32|i64|isize)\b")


def is_generated(src):
    return src.lstrip().startswith("// auto-generated")


def scan_file(rel):
    src = gen_model.read(rel)
    if is_generated(src):
        return []          # LALRPOP output checked into src/ (air.rs, va_lambda.rs)
    code = remove_cfg_test_items(blank_strings_and_comments(src))
    fn_of = enclosing_fn_map(code)
    found = []   # (pos, kind)
    for kind, rx in SIMPLE:
        for m in rx.finditer(code):
            found.append((m.start(), kind))
    # attribute lines and `macro![` are not indexing; neither are generic / type positions (`: [u8; 4]` has a space before `[`)
    for m in INDEX_RE.finditer(code):
        line_start = code.rfind("\n", 0, m.start()) + 1
        line = code[line_start:code.find("\n", m.start()) if code.find("\n", m.start()) >= 0 else len(code)]
        if line.lstrip().startswith("#"):
            continue
        # `vec![`, `matches![` : the char before `[` is `!`, already excluded by the look-behind
        # slice *patterns* / array types after an identifier do not occur in these sources; a `[` that closes
        # immediately (`x[]`) cannot be an index
        if code[m.end():m.end() + 1] == "]":
            continue
        found.append((m.start(), "index"))
    if any(rel.startswith(p) for p in ARITH_PREFIXES):
        for m in ARITH_RE.finditer(code):
            line_start = code.rfind("\n", 0, m.start()) + 1
            eol = code.find("\n", m.start())
            line = code[line_start:eol if eol >= 0 else len(code)]
            # trait bounds and type expressions (`T: A + B`, `impl X + Y`, `dyn X + 'a`)
            if re.search(r"\b(impl|dyn|where)\b", line) or re.search(r"<[^>]*:[^>]*\+", line) or re.search(r":\s*[A-Z]\w*(<[^>]*>)?\s*\+\s*[A-Z']", line):
                continue
            found.append((m.start(1), "arith"))
        for m in CAST_RE.finditer(code):
            found.append((m.start(), "cast"))
    found.sort()
    counters = {}
    out = []
    for pos, kind in found:
        fn = fn_of(pos)
        k = (fn, kind)
        counters[k] = counters.get(k, 0) + 1
        out.append((rel, fn, kind, counters[k]))
    return out


def all_sites():
    sites = []
    nfiles = 0
    for root in ROOTS:
        base = os.path.join(gen_model.REPO, root)
        if not os.path.isdir(base):
            raise TranslationError("source root %s not found" % root)
        for dp, dn, fn in sorted(os.walk(base)):
            dn.sort()
            for f in sorted(fn):
                if not f.endswith(".rs"):
                    continue
                rel = os.path.relpath(os.path.join(dp, f), gen_model.REPO)
                if is_test_path(rel):
                    continue
                nfiles += 1
                sites.extend(scan_file(rel))
    if nfiles < 100 or len(sites) < 100:
        raise TranslationError("panic-site scan found only %d files / %d sites: the source layout changed" % (nfiles, len(sites)))
    return sites, nfiles


def generate():
    sites, nfiles = all_sites()
    lines = ["(* --- tools/genx_panics.py: panic-site catalogue (C01): %d sites in %d non-test source files --- *)" % (len(sites), nfiles)]
    lines.append("Definition panic_sites : list (string * string * string * N) := [")
    body = []
    for rel, fn, kind, k in sites:
        body.append("  (%s, %s, %s, %d%%N)" % (coq_str(rel), coq_str(fn), coq_str(kind), k))
    lines.append(";\n".join(body))
    lines.append("].")
    lines.append("Definition panic_site_roots : list string := %s." % coq_list([coq_str(r) for r in ROOTS]))
    lines.append("")
    return lines


if __name__ == "__main__":
    import collections
    s, nf = all_sites()
    print(nf, "files", len(s), "sites")
    print(collections.Counter(k for _, _, k, _ in s))
    byfile = collections.Counter(f for f, _, _, _ in s)
    for f, c in byfile.most_common(25):
        print(c, f)
