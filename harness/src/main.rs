#![allow(dead_code)]
mod coqfmt;
mod sim;
mod cmd_limits;
mod cmd_runtop;

include!(concat!(env!("OUT_DIR"), "/cmds.rs"));

fn main() {
    let args: Vec<String> = std::env::args().collect();
    let cmd = args.get(1).map(|s| s.as_str()).unwrap_or("");
    match cmd {
        "runtop" => cmd_runtop::main(),
        other => {
            if !dispatch_extra(other, &args[2.min(args.len())..]) {
                eprintln!("unknown command {other:?}");
                std::process::exit(2);
            }
        }
    }
}
