"""Translator extension for model/Wire.v (property C27): the multicodec numbers, which Format the
call-request / call-result maps use, the envelope's field names, and the two numbers that fix the
u32 varint of the `unsigned-varint` crate version /repo's Cargo.lock pins for air-interpreter-sede."""
import glob
import os
import re

import gen_model as g


def _const_any_int(rel, name):
    src = g.strip_comments(g.read(rel))
    m = re.search(r"\bconst\s+" + re.escape(name) + r"\s*:\s*[A-Za-z0-9_:]+\s*=\s*([^;]+);", src)
    if not m:
        raise g.TranslationError(f"const {name} not found in {rel}")
    try:
        return int(m.group(1).strip().replace("_", ""), 0)
    except ValueError:
        raise g.TranslationError(f"const {name} in {rel} is not an integer literal")


def _type_alias(rel, name):
    src = g.strip_comments(g.read(rel))
    m = re.search(r"\bpub\s+type\s+" + re.escape(name) + r"\s*=\s*([A-Za-z0-9_:]+)\s*;", src)
    if not m:
        raise g.TranslationError(f"type alias {name} not found in {rel}")
    return m.group(1).split("::")[-1]


def _multiformat_codec_const():
    """Which constant RmpSerdeMultiformat passes to encode_multiformat and decode_multiformat."""
    src = g.strip_comments(g.read("crates/air-lib/interpreter-sede/src/rmp_serde.rs"))
    m = re.search(r"impl<Value>\s+Format<Value>\s+for\s+RmpSerdeMultiformat\b(.*?)\n\}", src, flags=re.S)
    if not m:
        raise g.TranslationError("impl Format for RmpSerdeMultiformat not found")
    body = m.group(1)
    e = re.search(r"encode_multiformat\(\s*value\s*,\s*(\w+)\s*,", body)
    d = re.search(r"decode_multiformat\(\s*slice\s*,\s*(\w+)\s*,", body)
    w = re.search(r"write_multiformat\(\s*value\s*,\s*(\w+)\s*,", body)
    if not e or not d or not w or not (e.group(1) == d.group(1) == w.group(1)):
        raise g.TranslationError("RmpSerdeMultiformat: encode/decode/write do not use one and the same codec constant")
    return e.group(1)


def _decode_multiformat_shape():
    """decode_multiformat must compare the parsed codec with the expected one and return Codec(parsed)."""
    src = g.strip_comments(g.read("crates/air-lib/interpreter-sede/src/multiformat.rs"))
    m = re.search(r"pub fn decode_multiformat\b.*?\n\}", src, flags=re.S)
    if not m:
        raise g.TranslationError("decode_multiformat not found")
    body = re.sub(r"\s+", " ", m.group(0))
    ok = ("let (data_codec, data) = parse_multiformat_bytes(multiformat_data)?;" in body
          and "if data_codec != expected_codec { return Err(DecodeError::Codec(data_codec)); }" in body
          and "format.from_slice(data).map_err(DecodeError::Format)" in body)
    p = re.search(r"pub fn parse_multiformat_bytes\b.*?\n\}", src, flags=re.S)
    ok = ok and p is not None and "varint_decode::u32(data)" in p.group(0)
    wsrc = re.search(r"pub fn write_multiformat\b.*?\n\}", src, flags=re.S)
    ok = ok and wsrc is not None and "varint_encode::u32(codec, &mut buf)" in wsrc.group(0)
    return ok


def _envelope_fields():
    src = g.strip_comments(g.read("crates/air-lib/interpreter-data/src/interpreter_data.rs"))

    def struct_fields(name):
        m = re.search(r"pub struct " + name + r"\b[^{]*\{(.*?)\n\}", src, flags=re.S)
        if not m:
            raise g.TranslationError(f"struct {name} not found")
        fields = []
        pending = []
        for line in m.group(1).split("\n"):
            s = line.strip()
            if s.startswith("#["):
                pending.append(s)
                continue
            mm = re.match(r"pub\s+(\w+)\s*:", s)
            if mm:
                fields.append((mm.group(1), " ".join(pending)))
                pending = []
        return fields

    names = []
    for fname, attrs in struct_fields("InterpreterDataEnvelope"):
        if "flatten" in attrs:
            if fname != "versions":
                raise g.TranslationError("InterpreterDataEnvelope: unexpected flattened field " + fname)
            for vname, vattrs in struct_fields("Versions"):
                r = re.search(r'rename\s*=\s*"([^"]+)"', vattrs)
                names.append(r.group(1) if r else vname)
        else:
            r = re.search(r'rename\s*=\s*"([^"]+)"', attrs)
            names.append(r.group(1) if r else fname)
    return names


def _try_get_versions_target():
    src = g.strip_comments(g.read("crates/air-lib/interpreter-data/src/interpreter_data.rs"))
    m = re.search(r"pub fn try_get_versions\(slice: &\[u8\]\)\s*->\s*Result<(\w+),", src)
    if not m:
        raise g.TranslationError("try_get_versions not found")
    repr_src = g.strip_comments(g.read("crates/air-lib/interpreter-data/src/interpreter_data/repr.rs"))
    if not re.search(r"impl FromSerialized<" + m.group(1) + r"> for InterpreterDataEnvelopeRepr", repr_src):
        raise g.TranslationError("InterpreterDataEnvelopeRepr does not deserialize " + m.group(1))
    if _type_alias("crates/air-lib/interpreter-data/src/interpreter_data/repr.rs", "InterpreterDataEnvelopeFormat") != "MsgPackFormat":
        raise g.TranslationError("InterpreterDataEnvelopeFormat is not MsgPackFormat")
    return m.group(1)


def _varint_crate():
    """(max index, buffer length) of the u32 varint in the unsigned-varint version that
    air-interpreter-sede is locked to."""
    lock = g.read("Cargo.lock")
    m = re.search(r'name = "air-interpreter-sede"\nversion = "[^"]+"\ndependencies = \[(.*?)\]', lock, flags=re.S)
    if not m:
        raise g.TranslationError("air-interpreter-sede not found in Cargo.lock")
    mm = re.search(r'"unsigned-varint(?: ([0-9.]+))?"', m.group(1))
    if not mm:
        raise g.TranslationError("air-interpreter-sede does not depend on unsigned-varint in Cargo.lock")
    ver = mm.group(1)
    if ver is None:
        allv = re.findall(r'name = "unsigned-varint"\nversion = "([^"]+)"', lock)
        if len(allv) != 1:
            raise g.TranslationError("cannot determine the unsigned-varint version")
        ver = allv[0]
    home = os.environ.get("CARGO_HOME", os.path.expanduser("~/.cargo"))
    dirs = sorted(glob.glob(os.path.join(home, "registry", "src", "*", "unsigned-varint-" + ver)))
    if not dirs:
        raise g.TranslationError(f"source of unsigned-varint {ver} not found under {home}/registry/src")
    d = dirs[0]
    try:
        dec = g.strip_comments(open(os.path.join(d, "src", "decode.rs"), encoding="utf-8").read())
        enc = g.strip_comments(open(os.path.join(d, "src", "encode.rs"), encoding="utf-8").read())
    except OSError as e:
        raise g.TranslationError(f"cannot read unsigned-varint {ver}: {e}")
    m1 = re.search(r"pub fn u32\(buf: &\[u8\]\)[^{]*\{\s*decode!\(buf,\s*(\d+),\s*u32\)\s*\}", dec)
    m2 = re.search(r"const U32_LEN: usize = (\d+);", enc)
    if not m1 or not m2:
        raise g.TranslationError(f"unsigned-varint {ver}: decode::u32 / U32_LEN not recognised")
    # the decode! macro body the model mirrors (normalised)
    mac = re.search(r"macro_rules! decode \{(.*?)\n\}", dec, flags=re.S)
    body = re.sub(r"\s+", " ", mac.group(1)) if mac else ""
    want = ["let k = $typ::from(b & 0x7F);", "n |= k << (i * 7);", "if is_last(b) {", "if b == 0 && i > 0 {",
            "return Err(Error::NotMinimal);", "return Ok((n, &$buf[i + 1..]));", "if i == $max_bytes {",
            "return Err(Error::Overflow);", "Err(Error::Insufficient)"]
    pos = 0
    same = True
    for w in want:
        j = body.find(w, pos)
        if j < 0:
            same = False
            break
        pos = j + len(w)
    return ver, int(m1.group(1)), int(m2.group(1)), same


def generate():
    out = []
    w = out.append
    w("(* ---- tools/genx_wire.py (C27) ---- *)")
    w(f"Definition wire_multiformat_msgpck : N := {_const_any_int('crates/air-lib/interpreter-sede/src/rmp_serde.rs', 'MULTIFORMAT_MSGPCK')}%N.")
    w(f"Definition wire_multiformat_json : N := {_const_any_int('crates/air-lib/interpreter-sede/src/serde_json.rs', 'MULTIFORMAT_JSON')}%N.")
    w(f"Definition wire_msgpack_multiformat_codec_const : string := {g.coq_str(_multiformat_codec_const())}.")
    w(f"Definition wire_call_results_format : string := {g.coq_str(_type_alias('crates/air-lib/interpreter-interface/src/call_service_result.rs', 'CallResultsFormat'))}.")
    w(f"Definition wire_call_requests_format : string := {g.coq_str(_type_alias('crates/air-lib/interpreter-interface/src/call_request_parameters.rs', 'CallRequestsFormat'))}.")
    w(f"Definition wire_decode_multiformat_is_standard : bool := {'true' if _decode_multiformat_shape() else 'false'}.")
    w(f"Definition wire_envelope_fields : list string := {g.coq_list([g.coq_str(x) for x in _envelope_fields()])}.")
    w(f"Definition wire_try_get_versions_target : string := {g.coq_str(_try_get_versions_target())}.")
    ver, maxi, blen, same = _varint_crate()
    w(f"Definition wire_varint_crate_version : string := {g.coq_str(ver)}.")
    w(f"Definition wire_varint_u32_max_index : N := {maxi}%N.")
    w(f"Definition wire_varint_u32_len : N := {blen}%N.")
    w(f"Definition wire_varint_decode_macro_is_standard : bool := {'true' if same else 'false'}.")
    w("")
    return out
