(* SignProofs.v -- proofs for C03: the PeerCidTracker and the result trace evolve together
   (every state the verifier attributes to the current peer is paired with exactly one registered CID),
   the CID stores stay reference-closed, hence the produced signature verifies and the data is accepted. *)
From Aqua Require Import Base Json Air Trace Handler Values Scalars Lens Exec RunExec SignSpec.
From Aqua Require Import JsonFacts.
From Aqua Require Sig SigProofs RunTop.
From Coq Require Import Permutation Lia.
Open Scope N_scope.
Open Scope list_scope.

(* ------------------------------------------------------------------------------------------ *)
(* cid_eqb is reflexive (membership in a store after an insertion) *)

Lemma tetraplet_eqb_refl t : tetraplet_eqb t t = true.
Proof. unfold tetraplet_eqb. rewrite !String.eqb_refl. reflexivity. Qed.

Lemma tetraplet_eqb_peer a b : tetraplet_eqb a b = true -> tp_peer a = tp_peer b.
Proof.
  unfold tetraplet_eqb. intros H. apply andb_prop in H as [H _]. apply andb_prop in H as [H _].
  apply andb_prop in H as [H _]. apply String.eqb_eq in H. exact H.
Qed.

Lemma list_eqb_refl {A} (eqb : A -> A -> bool) (l : list A) : (forall a, In a l -> eqb a a = true) -> list_eqb eqb l l = true.
Proof.
  induction l as [|a l IH]; intros H; cbn [list_eqb]; [reflexivity|].
  rewrite (H a (or_introl eq_refl)), IH; [reflexivity|]. intros b Hb. apply H. right. exact Hb.
Qed.

Fixpoint cid_eqb_refl (c : cid) : cid_eqb c c = true.
Proof.
  destruct c as [j|t|args|v a t|v t p|t vs|s]; cbn [cid_eqb].
  - apply json_eqb_refl.
  - apply tetraplet_eqb_refl.
  - apply list_eqb_refl. intros. apply json_eqb_refl.
  - rewrite !cid_eqb_refl. reflexivity.
  - rewrite !cid_eqb_refl. destruct p as [[k c]|]; [|reflexivity].
    rewrite cid_eqb_refl. destruct k; reflexivity.
  - rewrite cid_eqb_refl. cbn [andb]. induction vs as [|x vs IH]; [reflexivity|].
    rewrite cid_eqb_refl. exact IH.
  - apply String.eqb_refl.
Qed.

(* cid_eqb decides equality *)
Lemma cid_eqb_true_eq : forall a b, cid_eqb a b = true -> a = b.
Proof.
  fix IHc 1. intros a b. destruct a, b; cbn [cid_eqb]; try discriminate.
  - intros H. apply json_eqb_eq in H. subst. reflexivity.
  - unfold tetraplet_eqb. intros H.
    repeat match goal with H : _ && _ = true |- _ => apply andb_prop in H as [? ?] end.
    repeat match goal with H : String.eqb _ _ = true |- _ => apply String.eqb_eq in H end.
    destruct t, t0; cbn in *; subst. reflexivity.
  - intros H. apply (list_eqb_eq json_eqb) in H; [subst; reflexivity|].
    apply Forall_forall. intros x _ y. apply json_eqb_eq.
  - intros H. repeat match goal with H : _ && _ = true |- _ => apply andb_prop in H as [? ?] end.
    f_equal; apply IHc; assumption.
  - intros H. repeat match goal with H : _ && _ = true |- _ => apply andb_prop in H as [? ?] end.
    f_equal; try (apply IHc; assumption).
    destruct prov as [[k c]|], prov0 as [[k0 c0]|]; try discriminate; [|reflexivity].
    repeat match goal with H : _ && _ = true |- _ => apply andb_prop in H as [? ?] end.
    f_equal. f_equal; [apply Bool.eqb_prop; assumption|apply IHc; assumption].
  - intros H. apply andb_prop in H as [H1 H2]. f_equal; [apply IHc; exact H1|].
    revert values0 H2. induction values as [|v vs IHv]; intros [|v0 vs0]; try discriminate; [reflexivity|].
    intros H2. apply andb_prop in H2 as [Ha Hb]. f_equal; [apply IHc; exact Ha|apply IHv; exact Hb].
  - intros H. apply String.eqb_eq in H. subst. reflexivity.
Qed.

Lemma cid_mem_in c l : cid_mem c l = true <-> In c l.
Proof.
  unfold cid_mem. rewrite existsb_exists. split.
  - intros (y & Hy & E). apply cid_eqb_true_eq in E. subst. exact Hy.
  - intros H. exists c. split; [exact H|apply cid_eqb_refl].
Qed.

(* ------------------------------------------------------------------------------------------ *)
(* stores *)

Lemma cid_mem_app c l l' : cid_mem c (l ++ l') = cid_mem c l || cid_mem c l'.
Proof. unfold cid_mem. apply existsb_app. Qed.

Lemma cid_mem_track_mono c c' l : cid_mem c l = true -> cid_mem c (cid_track c' l) = true.
Proof.
  intros H. unfold cid_track. destruct (cid_mem c' l); [exact H|]. rewrite cid_mem_app, H. reflexivity.
Qed.
Lemma cid_mem_track_self c l : cid_mem c (cid_track c l) = true.
Proof.
  unfold cid_track. destruct (cid_mem c l) eqn:E; [exact E|].
  rewrite cid_mem_app. apply orb_true_iff. right. apply cid_mem_in. left. reflexivity.
Qed.

Lemma forallb_track (f : cid -> bool) c l : forallb f l = true -> f c = true -> forallb f (cid_track c l) = true.
Proof.
  intros Hl Hc. unfold cid_track. destruct (cid_mem c l); [exact Hl|].
  rewrite forallb_app, Hl. cbn [forallb]. rewrite Hc. reflexivity.
Qed.

Lemma forallb_impl {A} (f g : A -> bool) l : (forall a, f a = true -> g a = true) -> forallb f l = true -> forallb g l = true.
Proof.
  intros H. induction l as [|a l IH]; cbn [forallb]; [auto|].
  intros E. apply andb_prop in E as [E1 E2]. rewrite (H a E1), (IH E2). reflexivity.
Qed.

Lemma stores_le_refl a : stores_le a a.
Proof. unfold stores_le. repeat split; auto. Qed.
Lemma stores_le_trans a b c : stores_le a b -> stores_le b c -> stores_le a c.
Proof. unfold stores_le. intros (A1&A2&A3&A4&A5) (B1&B2&B3&B4&B5). repeat split; auto. Qed.

Lemma service_entry_ok_mono a b c : stores_le a b -> service_entry_ok a c = true -> service_entry_ok b c = true.
Proof.
  intros (V&T&_&_&_). destruct c; cbn [service_entry_ok]; try discriminate.
  intros H. apply andb_prop in H as [H1 H2]. rewrite (T _ H1), (V _ H2). reflexivity.
Qed.
Lemma canon_result_entry_ok_mono a b c : stores_le a b -> canon_result_entry_ok a c = true -> canon_result_entry_ok b c = true.
Proof.
  intros (_&T&E&_&_). destruct c; cbn [canon_result_entry_ok]; try discriminate.
  intros H. apply andb_prop in H as [H1 H2]. rewrite (T _ H2), andb_true_r.
  revert H1. apply forallb_impl. intros x. apply E.
Qed.
Lemma canon_elem_entry_ok_mono a b c : stores_le a b -> canon_elem_entry_ok a c = true -> canon_elem_entry_ok b c = true.
Proof.
  intros (V&T&_&R&S). destruct c as [| | | |vc tc p| |]; cbn [canon_elem_entry_ok]; try discriminate.
  intros H. apply andb_prop in H as [H H3]. apply andb_prop in H as [H1 H2].
  rewrite (T _ H1), (V _ H2). cbn [andb]. destruct p as [[[] s]|]; auto.
Qed.
Lemma canon_elem_entry_ok_np_mono a b c : stores_le a b -> canon_elem_entry_ok_np a c = true -> canon_elem_entry_ok_np b c = true.
Proof.
  intros (V&T&_&R&S). destruct c as [| | | |vc tc p| |]; cbn [canon_elem_entry_ok_np]; try discriminate.
  intros H. apply andb_prop in H as [H1 H2]. rewrite (T _ H1), (V _ H2). reflexivity.
Qed.
Lemma canon_elem_entry_ok_np_of_full a c : canon_elem_entry_ok a c = true -> canon_elem_entry_ok_np a c = true.
Proof.
  destruct c as [| | | |vc tc p| |]; cbn [canon_elem_entry_ok canon_elem_entry_ok_np]; try discriminate.
  intros H. apply andb_prop in H as [H _]. exact H.
Qed.
Lemma ref_in_store_mono a b r : stores_le a b -> ref_in_store a r = true -> ref_in_store b r = true.
Proof. intros (_&_&_&R&S). unfold ref_in_store. destruct (fst r); auto. Qed.
Lemma trace_refs_ok_mono tr a b : stores_le a b -> trace_refs_ok tr a = true -> trace_refs_ok tr b = true.
Proof. intros L. unfold trace_refs_ok. apply forallb_impl. intros r. apply ref_in_store_mono, L. Qed.

(* union of two stores (CidTracker::from_cid_stores) *)
Lemma union_cids_mono_l c b : forall a, cid_mem c a = true -> cid_mem c (union_cids a b) = true.
Proof.
  unfold union_cids. induction b as [|x b IH]; intros a H; cbn [fold_left]; [exact H|].
  apply IH, cid_mem_track_mono, H.
Qed.
Lemma union_cids_mono_r c b : forall a, cid_mem c b = true -> cid_mem c (union_cids a b) = true.
Proof.
  unfold union_cids. induction b as [|x b IH]; intros a H; cbn [fold_left]; [discriminate|].
  unfold cid_mem in H. cbn [existsb] in H. apply orb_prop in H as [H|H].
  - apply cid_eqb_true_eq in H. subst x. apply union_cids_mono_l, cid_mem_track_self.
  - apply IH. exact H.
Qed.
Lemma union_cids_inv c b : forall a, cid_mem c (union_cids a b) = true -> cid_mem c a = true \/ cid_mem c b = true.
Proof.
  unfold union_cids. induction b as [|x b IH]; intros a H; cbn [fold_left] in H; [left; exact H|].
  apply IH in H as [H|H].
  - unfold cid_track in H. destruct (cid_mem x a); [left; exact H|].
    rewrite cid_mem_app in H. apply orb_prop in H as [H|H]; [left; exact H|].
    right. unfold cid_mem in *. cbn [existsb] in *. rewrite orb_false_r in H. rewrite H. reflexivity.
  - right. unfold cid_mem in *. cbn [existsb]. rewrite H. apply orb_true_r.
Qed.
Lemma forallb_union (f : cid -> bool) b : forall a, forallb f a = true -> forallb f b = true -> forallb f (union_cids a b) = true.
Proof.
  unfold union_cids. induction b as [|x b IH]; intros a Ha Hb; cbn [fold_left]; [exact Ha|].
  cbn [forallb] in Hb. apply andb_prop in Hb as [Hx Hb]. apply IH; [|exact Hb]. apply forallb_track; assumption.
Qed.

(* ------------------------------------------------------------------------------------------ *)
(* references of a trace *)

Definition ref_of (st : state cid) : list ref := match state_ref st with Some r => [r] | None => [] end.

Lemma refs_app a b : refs (a ++ b) = refs a ++ refs b.
Proof. unfold refs. apply flat_map_app. Qed.
Lemma refs_push tr st : refs (tr ++ [st]) = refs tr ++ ref_of st.
Proof. rewrite refs_app. unfold refs at 2. cbn [flat_map]. rewrite app_nil_r. reflexivity. Qed.

Lemma refs_set_nth new : forall tr n old, nth_error tr n = Some old -> state_ref new = state_ref old ->
  refs (set_nth tr n new) = refs tr.
Proof.
  induction tr as [|a tr IH]; intros [|n] old H E; cbn [set_nth nth_error] in *; try discriminate.
  - injection H as ->. unfold refs. cbn [flat_map]. rewrite E. reflexivity.
  - unfold refs in *. cbn [flat_map]. f_equal. apply (IH n old H E).
Qed.

Lemma nth_error_set_nth {A} (x : A) : forall l n m, nth_error (set_nth l n x) m =
  if Nat.eqb n m then (match nth_error l m with Some _ => Some x | None => None end) else nth_error l m.
Proof.
  induction l as [|a l IH]; intros n m.
  - destruct n, m; cbn [set_nth nth_error Nat.eqb]; try reflexivity; destruct (Nat.eqb n m); reflexivity.
  - destruct n as [|n], m as [|m]; cbn [set_nth nth_error Nat.eqb]; try reflexivity. apply IH.
Qed.

Lemma struct_at_push tr p st : struct_at tr p -> struct_at (tr ++ [st]) p.
Proof.
  unfold struct_at. destruct (nth_error tr (N.to_nat p)) eqn:E; [|contradiction].
  rewrite nth_error_app1; [rewrite E; auto|]. apply nth_error_Some. congruence.
Qed.
Lemma struct_at_new tr st : is_struct st = true -> struct_at (tr ++ [st]) (len_N tr).
Proof.
  intros H. unfold struct_at, len_N. rewrite Nnat.Nat2N.id, nth_error_app2 by lia. rewrite Nat.sub_diag. exact H.
Qed.
Lemma struct_at_set_nth tr p n new : struct_at tr p ->
  (forall old, nth_error tr n = Some old -> is_struct old = true -> is_struct new = true) ->
  struct_at (set_nth tr n new) p.
Proof.
  unfold struct_at. intros H K. rewrite nth_error_set_nth. destruct (Nat.eqb n (N.to_nat p)) eqn:E; [|exact H].
  apply Nat.eqb_eq in E. subst n. destruct (nth_error tr (N.to_nat p)) as [old|]; [|contradiction]. apply (K old eq_refl H).
Qed.

Lemma is_struct_no_ref st : is_struct st = true -> state_ref st = None.
Proof. destruct st; cbn; try discriminate; reflexivity. Qed.

(* ------------------------------------------------------------------------------------------ *)
(* the trace handler: every operation either leaves the references of the result trace alone or appends one *)

Ltac inv_res :=
  repeat match goal with
         | H : Handler.bind ?r _ = Ok _ |- _ => let E := fresh "E" in destruct r eqn:E; cbn [Handler.bind] in H; try discriminate
         | H : Ok _ = Ok _ |- _ => injection H as H; try subst
         | H : swallow ?r _ = Ok _ |- _ => let E := fresh "E" in destruct r eqn:E; cbn [swallow] in H; try discriminate
         end.

Notation kres := (k_result cid).

Lemma next_states_result (k : keeper cid) : kres (snd (next_states cid k)) = kres k.
Proof. unfold next_states. destruct (next_state cid (k_prev cid k)), (next_state cid (k_cur cid k)). reflexivity. Qed.

Lemma prepare_positions_mapping_result sch (k k' : keeper cid) : prepare_positions_mapping cid sch k = Ok k' -> kres k' = kres k.
Proof.
  unfold prepare_positions_mapping. destruct sch.
  - destruct (s_pos cid (k_prev cid k) =? 0); [discriminate|]. intros [= <-]. reflexivity.
  - destruct (s_pos cid (k_cur cid k) =? 0); [discriminate|]. intros [= <-]. reflexivity.
  - destruct (s_pos cid (k_prev cid k) =? 0); [discriminate|]. cbn [Handler.bind k_cur].
    destruct (s_pos cid (k_cur cid k) =? 0); [discriminate|]. intros [= <-]. reflexivity.
Qed.

Lemma try_merge_call_result (k k' : keeper cid) r : try_merge_next_state_as_call cid cid_eqb k = Ok (r, k') -> kres k' = kres k.
Proof.
  unfold try_merge_next_state_as_call. pose proof (next_states_result k) as N.
  destruct (next_states cid k) as [[p c] k1]. cbn [snd] in N. unfold prepare_call_result.
  intros H. rewrite <- N.
  destruct p as [[]|], c as [[]|]; try discriminate; inv_res;
    repeat match goal with
           | H : prepare_positions_mapping _ _ _ = Ok _ |- _ => apply prepare_positions_mapping_result in H
           | H : (_, _) = (_, _) |- _ => injection H as ? ?; subst
           end; try congruence.
Qed.

Lemma meet_call_start_spec (h h' : handler cid) r : meet_call_start cid cid_eqb h = Ok (r, h') ->
  result_trace cid h' = result_trace cid h /\ h_pars cid h' = h_pars cid h /\ h_folds cid h' = h_folds cid h.
Proof.
  unfold meet_call_start.
  destruct (try_merge_next_state_as_call cid cid_eqb (h_keeper cid h)) as [[r0 k']| |] eqn:E; cbn [Handler.bind]; try discriminate.
  intros [= _ <-]. apply try_merge_call_result in E. unfold result_trace. cbn. auto.
Qed.

Lemma meet_call_end_spec (h : handler cid) c :
  result_trace cid (meet_call_end cid h c) = result_trace cid h ++ [SCall c] /\
  h_pars cid (meet_call_end cid h c) = h_pars cid h /\ h_folds cid (meet_call_end cid h c) = h_folds cid h.
Proof. unfold meet_call_end, result_trace. cbn. auto. Qed.

Lemma handler_ok_push (h h' : handler cid) st :
  result_trace cid h' = result_trace cid h ++ [st] -> h_pars cid h' = h_pars cid h -> h_folds cid h' = h_folds cid h ->
  handler_ok h -> handler_ok h'.
Proof.
  intros R P F [A B]. unfold handler_ok. rewrite R, P, F. split.
  - revert A. apply Forall_impl. intros f. apply struct_at_push.
  - revert B. apply Forall_impl. intros f. apply struct_at_push.
Qed.
Lemma handler_ok_same (h h' : handler cid) :
  result_trace cid h' = result_trace cid h -> h_pars cid h' = h_pars cid h -> h_folds cid h' = h_folds cid h ->
  handler_ok h -> handler_ok h'.
Proof. intros R P F. unfold handler_ok. rewrite R, P, F. auto. Qed.

(* ---- par ---- *)
Lemma try_merge_par_result (k k1 : keeper cid) pp cp : try_merge_next_state_as_par cid k = Ok (pp, cp, k1) -> kres k1 = kres k.
Proof.
  unfold try_merge_next_state_as_par. pose proof (next_states_result k) as N.
  destruct (next_states cid k) as [[p c] k0]. cbn [snd] in N.
  destruct p as [[]|], c as [[]|]; try discriminate; intros [= _ _ <-]; exact N.
Qed.

Lemma update_ctx_states_result ps cs (k k' : keeper cid) : update_ctx_states cid ps cs k = Ok k' -> kres k' = kres k.
Proof.
  unfold update_ctx_states. intros H.
  destruct (swallow (set_position_and_len cid (k_prev cid k) (cs_pos ps) (cs_len ps)) (k_prev cid k)) eqn:E1; cbn [Handler.bind] in H; try discriminate.
  destruct (swallow (set_position_and_len cid (k_cur cid k) (cs_pos cs) (cs_len cs)) (k_cur cid k)) eqn:E2; cbn [Handler.bind] in H; try discriminate.
  injection H as <-. reflexivity.
Qed.

Lemma par_prepare_sliders_result f sg (k k' : keeper cid) : par_prepare_sliders cid f sg k = Ok k' -> kres k' = kres k.
Proof.
  unfold par_prepare_sliders. intros H.
  destruct (set_subtrace_len cid (k_prev cid k) _) eqn:E1; cbn [Handler.bind] in H; try discriminate.
  destruct (set_subtrace_len cid (k_cur cid (with_prev cid k a)) _) eqn:E2; cbn [Handler.bind] in H; try discriminate.
  injection H as <-. reflexivity.
Qed.

Lemma par_from_left_started_spec pp cp (k k2 : keeper cid) f : par_from_left_started cid pp cp k = Ok (f, k2) ->
  kres k2 = kres k ++ [SPar 0 0] /\ pf_inserter f = len_N (kres k).
Proof.
  unfold par_from_left_started. intros H.
  repeat match type of H with
         | Handler.bind ?r _ = Ok _ => let E := fresh "E" in destruct r eqn:E; cbn [Handler.bind] in H; try discriminate
         end.
  injection H as <- <-. apply par_prepare_sliders_result in E3. rewrite E3. cbn. auto.
Qed.

Lemma meet_par_start_spec (h h' : handler cid) : meet_par_start cid h = Ok h' ->
  exists f, result_trace cid h' = result_trace cid h ++ [SPar 0 0] /\ h_pars cid h' = f :: h_pars cid h /\
            pf_inserter f = len_N (result_trace cid h) /\ h_folds cid h' = h_folds cid h.
Proof.
  unfold meet_par_start. intros H.
  destruct (try_merge_next_state_as_par cid (h_keeper cid h)) as [[[pp cp] k1]| |] eqn:E; cbn [Handler.bind] in H; try discriminate.
  destruct (par_from_left_started cid pp cp k1) as [[f k2]| |] eqn:E2; cbn [Handler.bind] in H; try discriminate.
  injection H as <-. apply try_merge_par_result in E. apply par_from_left_started_spec in E2 as [R I].
  exists f. unfold result_trace. cbn. rewrite R, I, E. auto.
Qed.

Lemma meet_par_start_ok (h h' : handler cid) : meet_par_start cid h = Ok h' -> handler_ok h ->
  handler_ok h' /\ refs (result_trace cid h') = refs (result_trace cid h).
Proof.
  intros H [A B]. apply meet_par_start_spec in H as (f & R & P & I & F). split.
  - unfold handler_ok. rewrite R, P, F. split.
    + constructor; [rewrite I; apply struct_at_new; reflexivity|]. revert A. apply Forall_impl. intros g. apply struct_at_push.
    + revert B. apply Forall_impl. intros g. apply struct_at_push.
  - rewrite R, refs_push. cbn. apply app_nil_r.
Qed.

Lemma par_track_inserter f sg (k : keeper cid) f1 : par_track cid f sg k = Ok f1 -> pf_inserter f1 = pf_inserter f.
Proof. unfold par_track. destruct (_ <? _); [discriminate|]. intros [= <-]. reflexivity. Qed.

Lemma par_left_completed_spec f (k k' : keeper cid) f1 : par_left_completed cid f k = Ok (f1, k') ->
  kres k' = kres k /\ pf_inserter f1 = pf_inserter f.
Proof.
  unfold par_left_completed. intros H.
  destruct (par_track cid f SLeft k) as [f0| |] eqn:E; cbn [Handler.bind] in H; try discriminate.
  destruct (update_ctx_states cid _ _ k) as [k1| |] eqn:E1; cbn [Handler.bind] in H; try discriminate.
  apply par_track_inserter in E. apply update_ctx_states_result in E1.
  destruct (set_subtrace_len cid (k_prev cid k1) _) as [sp| |]; try discriminate.
  - destruct (set_subtrace_len cid (k_cur cid (with_prev cid k1 sp)) _) as [sc| |]; try discriminate;
      injection H as <- <-; cbn; auto.
  - injection H as <- <-. auto.
Qed.

Lemma insert_state_spec (k k' : keeper cid) p st : insert_state cid k p st = Ok k' ->
  kres k' = set_nth (kres k) (N.to_nat p) st /\ p < len_N (kres k).
Proof.
  unfold insert_state. destruct (p <? len_N (kres k)) eqn:E; [|discriminate]. intros [= <-]. cbn.
  apply N.ltb_lt in E. auto.
Qed.

Lemma par_right_completed_spec f (k k' : keeper cid) : par_right_completed cid f k = Ok k' ->
  exists l r, kres k' = set_nth (kres k) (N.to_nat (pf_inserter f)) (SPar l r).
Proof.
  unfold par_right_completed. intros H.
  destruct (par_track cid f SRight k) as [f0| |] eqn:E; cbn [Handler.bind] in H; try discriminate.
  destruct (insert_state cid k _ _) as [k1| |] eqn:E1; cbn [Handler.bind] in H; try discriminate.
  apply update_ctx_states_result in H. apply insert_state_spec in E1 as [E1 _]. apply par_track_inserter in E.
  rewrite H, E1, E. eauto.
Qed.

(* replacing a placeholder by a structural state keeps references and placeholder positions *)
Lemma replace_struct tr p new : struct_at tr p -> is_struct new = true ->
  refs (set_nth tr (N.to_nat p) new) = refs tr /\ (forall q, struct_at tr q -> struct_at (set_nth tr (N.to_nat p) new) q).
Proof.
  intros S N. split.
  - unfold struct_at in S. destruct (nth_error tr (N.to_nat p)) as [old|] eqn:E; [|contradiction].
    apply (refs_set_nth new tr _ old E). rewrite (is_struct_no_ref _ S), (is_struct_no_ref _ N). reflexivity.
  - intros q Q. apply struct_at_set_nth; [exact Q|]. intros; exact N.
Qed.

Lemma meet_par_subgraph_end_ok (h h' : handler cid) sg : meet_par_subgraph_end cid h sg = Ok h' -> handler_ok h ->
  handler_ok h' /\ refs (result_trace cid h') = refs (result_trace cid h).
Proof.
  unfold meet_par_subgraph_end. destruct (h_pars cid h) as [|f rest] eqn:P; [discriminate|]. intros H [A B].
  rewrite P in A. inversion A as [|? ? Af Ar]; subst. destruct sg.
  - destruct (par_left_completed cid f (h_keeper cid h)) as [[f1 k']| |] eqn:E; cbn [Handler.bind] in H; try discriminate.
    injection H as <-. apply par_left_completed_spec in E as [R I]. unfold handler_ok, result_trace in *. cbn. rewrite R.
    split; [split; [constructor; [rewrite I; exact Af|exact Ar]|exact B]|reflexivity].
  - destruct (par_right_completed cid f (h_keeper cid h)) as [k'| |] eqn:E; cbn [Handler.bind] in H; try discriminate.
    injection H as <-. apply par_right_completed_spec in E as (l & r & R). unfold handler_ok, result_trace in *. cbn. rewrite R.
    destruct (replace_struct (kres (h_keeper cid h)) (pf_inserter f) (SPar l r) Af eq_refl) as [Rf Sf].
    split; [split|exact Rf].
    + revert Ar. apply Forall_impl. intros g. apply Sf.
    + revert B. apply Forall_impl. intros g. apply Sf.
Qed.

(* ------------------------------------------------------------------------------------------ *)
(* the invariant: primitive steps *)

Definition core (x : ctx) := (x_params x, x_tracker x, x_cids x, x_handler x).

Lemma inv_frame p0 b0 x y : core y = core x -> sign_inv p0 b0 x -> sign_inv p0 b0 y.
Proof. unfold core, sign_inv, res_trace. intros [= Hp Ht Hc Hh]. rewrite Hp, Ht, Hc, Hh. auto. Qed.

Ltac frame := (eapply inv_frame; [|eassumption]; reflexivity).

Definition xres_strong (P : ctx -> Prop) (r : xres) : Prop :=
  match r with XOk x | XErr _ x => P x | _ => True end.
Lemma xres_inv_strong P r : xres_strong P r -> xres_inv P r.
Proof. destruct r; cbn; auto. Qed.

Definition ok_core (x : ctx) (r : xres) : Prop := match r with XOk y | XErr _ y => core y = core x | _ => True end.

Lemma inv_ok_core p0 b0 x r : ok_core x r -> sign_inv p0 b0 x -> xres_strong (sign_inv p0 b0) r.
Proof. destruct r; cbn; auto; intros; eapply inv_frame; eauto. Qed.

Lemma attributed_push tr st p : attributed_cids (tr ++ [st]) p =
  attributed_cids tr p ++ map snd (filter (fun r => peer_is p (ref_peer r)) (ref_of st)).
Proof. unfold attributed_cids. rewrite refs_push, filter_app, map_app. reflexivity. Qed.

Lemma attr_total_push tr st : attr_total tr -> Forall (fun r => ref_peer r <> None) (ref_of st) -> attr_total (tr ++ [st]).
Proof. unfold attr_total. rewrite refs_push. intros A B. apply Forall_app. auto. Qed.

Lemma trace_refs_ok_push tr st cs : trace_refs_ok tr cs = true -> forallb (ref_in_store cs) (ref_of st) = true ->
  trace_refs_ok (tr ++ [st]) cs = true.
Proof. unfold trace_refs_ok. rewrite refs_push, forallb_app. intros -> ->. reflexivity. Qed.

(* a state without a reference is appended *)
Lemma inv_push_neutral p0 b0 x h' st :
  sign_inv p0 b0 x -> state_ref st = None ->
  result_trace cid h' = res_trace x ++ [st] -> h_pars cid h' = h_pars cid (x_handler x) -> h_folds cid h' = h_folds cid (x_handler x) ->
  sign_inv p0 b0 (set_handler x h').
Proof.
  intros (Hp & Ht & Ha & Hh & Hr & Hc) N R P F. unfold sign_inv, res_trace in *. cbn [x_params x_tracker x_handler x_cids set_handler].
  assert (refs (result_trace cid h') = refs (result_trace cid (x_handler x))) as E.
  { rewrite R, refs_push. unfold ref_of. rewrite N. apply app_nil_r. }
  unfold attributed_cids, attr_total, trace_refs_ok in *. rewrite E.
  split; [exact Hp|]. split; [exact Ht|]. split; [exact Ha|]. split; [eapply handler_ok_push; eauto|]. split; [exact Hr|exact Hc].
Qed.

(* the result trace changes, its references do not, the handler stays well-formed *)
Lemma inv_same_refs p0 b0 x h' :
  sign_inv p0 b0 x -> handler_ok h' -> refs (result_trace cid h') = refs (res_trace x) -> sign_inv p0 b0 (set_handler x h').
Proof.
  intros (Hp & Ht & Ha & Hh & Hr & Hc) K E. unfold sign_inv, res_trace in *. cbn [x_params x_tracker x_handler x_cids set_handler].
  unfold attributed_cids, attr_total, trace_refs_ok in *. rewrite E.
  split; [exact Hp|]. split; [exact Ht|]. split; [exact Ha|]. split; [exact K|]. split; [exact Hr|exact Hc].
Qed.

(* a state with a reference is appended after its CID was registered *)
Lemma inv_record_push p0 b0 x q r st h' :
  sign_inv p0 b0 x -> state_ref st = Some r -> ref_peer r = Some q -> ref_in_store (x_cids x) r = true ->
  result_trace cid h' = res_trace x ++ [st] -> h_pars cid h' = h_pars cid (x_handler x) -> h_folds cid h' = h_folds cid (x_handler x) ->
  sign_inv p0 b0 (set_handler (record_cid x q (snd r)) h').
Proof.
  intros (Hp & Ht & Ha & Hh & Hr & Hc) S Q M R P F. unfold sign_inv, res_trace in *.
  assert (x_params (set_handler (record_cid x q (snd r)) h') = p0 /\ x_cids (set_handler (record_cid x q (snd r)) h') = x_cids x /\
          x_tracker (set_handler (record_cid x q (snd r)) h') = x_tracker x ++ (if String.eqb q (rp_current_peer p0) then [snd r] else [])) as (E1 & E2 & E3).
  { unfold record_cid, current_peer. rewrite Hp. destruct (String.eqb q (rp_current_peer p0)); cbn; rewrite ?app_nil_r; auto. }
  rewrite E1, E2, E3. cbn [x_handler set_handler]. rewrite R. split; [reflexivity|]. split; [|split; [|split; [|split]]].
  - rewrite attributed_push. apply Permutation_app; [exact Ht|]. unfold ref_of. rewrite S. cbn [filter]. rewrite Q. cbn [peer_is].
    destruct (String.eqb q (rp_current_peer p0)); reflexivity.
  - apply attr_total_push; [exact Ha|]. unfold ref_of. rewrite S. constructor; [congruence|constructor].
  - eapply handler_ok_push; eauto.
  - apply trace_refs_ok_push; [exact Hr|]. unfold ref_of. rewrite S. cbn [forallb]. rewrite M. reflexivity.
  - exact Hc.
Qed.

Lemma inv_call_end_neutral p0 b0 x c : sign_inv p0 b0 x -> state_ref (SCall c) = None -> sign_inv p0 b0 (call_end x c).
Proof.
  intros H N. unfold call_end. destruct (meet_call_end_spec (x_handler x) c) as (R & P & F).
  eapply inv_push_neutral; eauto.
Qed.

Lemma inv_call_end_record p0 b0 x q sc c :
  sign_inv p0 b0 x -> state_ref (SCall c) = Some (true, sc) -> service_peer sc = Some q -> cid_mem sc (cs_services (x_cids x)) = true ->
  sign_inv p0 b0 (call_end (record_cid x q sc) c).
Proof.
  intros H S Q M. unfold call_end.
  assert (x_handler (record_cid x q sc) = x_handler x) as E by (unfold record_cid; destruct (String.eqb _ _); reflexivity).
  rewrite E. destruct (meet_call_end_spec (x_handler x) c) as (R & P & F).
  apply (inv_record_push p0 b0 x q (true, sc) (SCall c)); auto.
Qed.

(* the stores grow *)
Lemma inv_grow p0 b0 x cs' :
  sign_inv p0 b0 x -> stores_le (x_cids x) cs' -> (cid_info_verify_np (x_cids x) = true -> cid_info_verify_np cs' = true) ->
  sign_inv p0 b0 (set_cids x cs' (x_tracker x)).
Proof.
  intros (Hp & Ht & Ha & Hh & Hr & Hc) L V. unfold sign_inv, res_trace in *. cbn [x_params x_tracker x_cids x_handler set_cids].
  split; [exact Hp|]. split; [exact Ht|]. split; [exact Ha|]. split; [exact Hh|]. split; [eapply trace_refs_ok_mono; eauto|auto].
Qed.

Lemma cid_info_np_parts cs : cid_info_verify_np cs = true <->
  forallb is_value_cid (cs_values cs) = true /\ forallb is_tetraplet_cid (cs_tetraplets cs) = true /\
  forallb (canon_result_entry_ok cs) (cs_canon_results cs) = true /\ forallb (canon_elem_entry_ok_np cs) (cs_canon_elems cs) = true /\
  forallb (service_entry_ok cs) (cs_services cs) = true.
Proof. unfold cid_info_verify_np. rewrite !andb_true_iff. tauto. Qed.

Lemma track_service_result_spec p0 b0 x v t ah x1 sc :
  sign_inv p0 b0 x -> track_service_result x v t ah = (x1, sc) ->
  sign_inv p0 b0 x1 /\ sc = CService (CValue v) ah (CTetraplet t) /\ cid_mem sc (cs_services (x_cids x1)) = true /\
  x_handler x1 = x_handler x.
Proof.
  intros H. unfold track_service_result. intros [= <- <-].
  split; [|split; [reflexivity|split; [cbn [x_cids set_cids cs_services]; apply cid_mem_track_self|reflexivity]]].
  apply inv_grow; [exact H| |].
  - unfold stores_le. cbn [cs_values cs_tetraplets cs_canon_elems cs_canon_results cs_services].
    repeat split; intros c Hc; try apply cid_mem_track_mono; exact Hc.
  - set (cs' := {| cs_values := _ |}).
    assert (stores_le (x_cids x) cs') as L.
    { unfold stores_le, cs'. cbn [cs_values cs_tetraplets cs_canon_elems cs_canon_results cs_services].
      repeat split; intros c Hc; try apply cid_mem_track_mono; exact Hc. }
    rewrite !cid_info_np_parts. intros (V & T & R & E & S). unfold cs' at 1 2 4 6 8. cbn [cs_values cs_tetraplets cs_canon_results cs_canon_elems cs_services].
    split; [apply forallb_track; auto|]. split; [apply forallb_track; auto|].
    split; [revert R; apply forallb_impl; intros c; apply canon_result_entry_ok_mono, L|].
    split; [revert E; apply forallb_impl; intros c; apply canon_elem_entry_ok_np_mono, L|].
    apply forallb_track; [revert S; apply forallb_impl; intros c; apply service_entry_ok_mono, L|].
    unfold cs'. cbn [service_entry_ok cs_tetraplets cs_values]. rewrite !cid_mem_track_self. reflexivity.
Qed.

(* ------------------------------------------------------------------------------------------ *)
(* the call instruction *)

Lemma set_scalar_value_core x n v y : set_scalar_value x n v = POk y -> core y = core x.
Proof. unfold set_scalar_value. destruct (Scalars.set_value _ _ _ _) as [[m ?]|]; [|discriminate]. intros [= <-]. reflexivity. Qed.
Lemma add_stream_value_core x n v g p y : add_stream_value x n v g p = POk y -> core y = core x.
Proof. unfold add_stream_value. destruct (Stream.streams_add_stream_value _ _ _ _ _ _); try discriminate. intros [= <-]. reflexivity. Qed.

Lemma ctx_set_errors_core x e i t b : core (ctx_set_errors x e i t b) = core x.
Proof.
  unfold ctx_set_errors.
  repeat match goal with |- context [if ?c then _ else _] => destruct c end; reflexivity.
Qed.

Lemma service_cid_peer v ah t : service_peer (CService (CValue v) ah (CTetraplet t)) = Some (tp_peer t).
Proof. reflexivity. Qed.

Lemma inv_update_state_with_service_result p0 b0 x t ah out ans :
  sign_inv p0 b0 x -> xres_strong (sign_inv p0 b0) (update_state_with_service_result x t ah out ans).
Proof.
  intros H. unfold update_state_with_service_result.
  destruct (negb (sa_ret_code ans =? call_service_success)%Z).
  { destruct (track_service_result x _ t ah) as [x1 sc] eqn:E.
    destruct (track_service_result_spec _ _ _ _ _ _ _ _ H E) as (H1 & -> & M & _). cbn [xres_strong].
    apply inv_call_end_record; auto. }
  destruct (sa_parsed ans) as [result|].
  2:{ destruct (track_service_result x _ t ah) as [x1 sc] eqn:E.
      destruct (track_service_result_spec _ _ _ _ _ _ _ _ H E) as (H1 & -> & M & _). cbn [xres_strong].
      apply inv_call_end_record; auto. }
  unfold populate_from_service_result. destruct out as [sv|sv|].
  - destruct (track_service_result x result t ah) as [x1 sc] eqn:E.
    destruct (track_service_result_spec _ _ _ _ _ _ _ _ H E) as (H1 & -> & M & _).
    destruct (set_scalar_value x1 _ _) as [x2| | |] eqn:E2; cbn [xres_strong]; auto.
    apply set_scalar_value_core in E2. apply inv_call_end_record; auto.
    + eapply inv_frame; eauto.
    + injection E2 as _ _ Ec _. rewrite Ec. exact M.
  - destruct (track_service_result x result t ah) as [x1 sc] eqn:E.
    destruct (track_service_result_spec _ _ _ _ _ _ _ _ H E) as (H1 & -> & M & _).
    destruct (add_stream_value x1 _ _ _ _) as [x2| | |] eqn:E2; cbn [xres_strong]; auto.
    apply add_stream_value_core in E2. apply inv_call_end_record; auto.
    + eapply inv_frame; eauto.
    + injection E2 as _ _ Ec _. rewrite Ec. exact M.
  - cbn [xres_strong]. apply inv_call_end_neutral; auto.
Qed.

Lemma resolve_service_info_spec x c si : resolve_service_info x c = POk si ->
  c = CService (CValue (si_value si)) (si_arg_hash si) (CTetraplet (si_tetraplet si)) /\ cid_mem c (cs_services (x_cids x)) = true.
Proof.
  unfold resolve_service_info. destruct (cid_mem c (cs_services (x_cids x))) eqn:M; cbn [negb]; [|discriminate].
  destruct c as [| | |vc a tc| | |]; try discriminate.
  destruct (negb (cid_mem vc _)); [discriminate|]. destruct (negb (cid_mem tc _)); [discriminate|].
  destruct vc; try discriminate. destruct tc; try discriminate. intros [= <-]. cbn. auto.
Qed.

Lemma verify_call_peer ah t ah' t' u : verify_call ah t ah' t' = POk u -> tp_peer t = tp_peer t'.
Proof.
  unfold verify_call. destruct (negb (cid_eqb ah ah')); [discriminate|].
  destruct (tetraplet_eqb t t') eqn:E; cbn [negb]; [|discriminate]. intros _. apply tetraplet_eqb_peer, E.
Qed.

Lemma populate_from_data_spec x v ah t pos src out y : populate_from_data x v ah t pos src out = POk y ->
  core y = core x /\
  match v with
  | VRScalar c | VRStream c _ => service_peer c = Some (tp_peer t) /\ cid_mem c (cs_services (x_cids x)) = true
  | VRUnused _ => True
  end.
Proof.
  unfold populate_from_data. destruct out as [sv|sv|], v as [c|c g|c]; try discriminate.
  - destruct (resolve_service_info x c) as [si| | |] eqn:E; cbn [pbind]; try discriminate.
    destruct (verify_call _ _ _ _) as [u| | |] eqn:E2; cbn [pbind]; try discriminate.
    intros E3. apply set_scalar_value_core in E3. apply resolve_service_info_spec in E as [-> M]. apply verify_call_peer in E2.
    split; [exact E3|]. split; [cbn; congruence|exact M].
  - destruct (resolve_service_info x c) as [si| | |] eqn:E; cbn [pbind]; try discriminate.
    destruct (verify_call _ _ _ _) as [u| | |] eqn:E2; cbn [pbind]; try discriminate.
    intros E3. apply add_stream_value_core in E3. apply resolve_service_info_spec in E as [-> M]. apply verify_call_peer in E2.
    split; [exact E3|]. split; [cbn; congruence|exact M].
  - intros [= <-]. auto.
Qed.

Definition sd_neutral (sd : state_descr) : Prop :=
  match sd with SD _ (Some c) => state_ref (SCall c) = None | _ => True end.

Lemma inv_handle_prev_state p0 b0 x met pos src t ah out r sd :
  sign_inv p0 b0 x -> handle_prev_state x met pos src t ah out = (r, sd) ->
  xres_strong (sign_inv p0 b0) r /\ sd_neutral sd.
Proof.
  intros H. unfold handle_prev_state. destruct met as [s|v|fc].
  - (* RequestSentBy *)
    destruct s as [p|p id].
    + destruct (String.eqb (tp_peer t) (current_peer x)); intros [= <- <-]; cbn [xres_strong sd_neutral]; split; auto; try reflexivity; frame.
    + destruct (String.eqb p (current_peer x)).
      * destruct (results_take (x_call_results x) id) as [[ans|] rest].
        -- destruct ah as [ah|]; intros [= <- <-]; cbn [xres_strong sd_neutral]; split; auto.
           apply inv_update_state_with_service_result. frame.
        -- intros [= <- <-]. cbn [xres_strong sd_neutral]. split; [frame|reflexivity].
      * destruct (String.eqb (tp_peer t) (current_peer x)); intros [= <- <-]; cbn [xres_strong sd_neutral]; split; auto; try reflexivity; frame.
  - (* Executed *)
    destruct ah as [ah|]; [|intros [= <- <-]; cbn; auto].
    destruct (populate_from_data x v ah t pos src out) as [x1| | |] eqn:E; intros [= <- <-]; cbn [xres_strong sd_neutral]; auto.
    split; [|exact I]. apply populate_from_data_spec in E as [C V].
    assert (sign_inv p0 b0 x1) as H1 by (eapply inv_frame; eauto).
    assert (x_cids x1 = x_cids x) as Ec by (injection C as _ _ Ec _; exact Ec).
    destruct v as [c|c g|c].
    + destruct V as [Q M]. apply inv_call_end_record; auto. rewrite Ec. exact M.
    + destruct V as [Q M]. apply inv_call_end_record; auto. rewrite Ec. exact M.
    + apply inv_call_end_neutral; auto.
  - (* Failed *)
    destruct (resolve_service_info x fc) as [si| | |] eqn:E; try (intros [= <- <-]; cbn; auto; fail).
    destruct ah as [ah|]; [|intros [= <- <-]; cbn; auto].
    destruct (verify_call ah t _ _) as [u| | |] eqn:E2; try (intros [= <- <-]; cbn; auto; fail).
    apply resolve_service_info_spec in E as [Ef M]. apply verify_call_peer in E2.
    destruct (si_value si); try (intros [= <- <-]; cbn; auto; fail).
    destruct (obj_get "ret_code" kvs) as [[]|]; try (intros [= <- <-]; cbn; auto; fail).
    destruct (obj_get "message" kvs) as [[]|]; try (intros [= <- <-]; cbn; auto; fail).
    destruct ((-2147483648 <=? z)%Z && (z <=? 2147483647)%Z); intros [= <- <-]; cbn [xres_strong sd_neutral]; auto.
    split; [|exact I]. apply inv_call_end_record; [frame|reflexivity| |exact M].
    rewrite Ef. cbn. congruence.
Qed.

Lemma inv_meet_call_start p0 b0 x r h : sign_inv p0 b0 x -> meet_call_start cid cid_eqb (x_handler x) = Ok (r, h) ->
  sign_inv p0 b0 (set_handler x h).
Proof.
  intros H E. apply meet_call_start_spec in E as (R & P & F). destruct H as (Hp & Ht & Ha & Hh & Hr & Hc).
  apply inv_same_refs; [unfold sign_inv; auto 10| |].
  - eapply handler_ok_same; eauto.
  - unfold res_trace. f_equal. exact R.
Qed.

Lemma inv_maybe_set_prev_state p0 b0 x sd : sign_inv p0 b0 x -> sd_neutral sd -> sign_inv p0 b0 (maybe_set_prev_state x sd).
Proof. destruct sd as [b [c|]]; cbn; auto. intros. apply inv_call_end_neutral; auto. Qed.

Lemma inv_remote p0 b0 x q s : sign_inv p0 b0 x ->
  sign_inv p0 b0 (call_end (make_incomplete (set_next_peers x q)) (RequestSentBy s)).
Proof. intros H. apply inv_call_end_neutral; [frame|reflexivity]. Qed.

Lemma inv_resolved_call_execute p0 b0 x t args out :
  sign_inv p0 b0 x -> xres_strong (sign_inv p0 b0) (resolved_call_execute x t args out).
Proof.
  intros H. unfold resolved_call_execute.
  destruct (collect_args x args) as [[av at_]|e| |]; cbn [xres_strong]; auto.
  - unfold with_handler. destruct (meet_call_start cid cid_eqb (x_handler x)) as [[r h]| |] eqn:E; cbn [xres_strong]; auto.
    pose proof (inv_meet_call_start _ _ _ _ _ H E) as H0. cbn [fst snd].
    assert (forall x1 sd, sign_inv p0 b0 x1 -> sd_neutral sd ->
              xres_strong (sign_inv p0 b0)
                match sd with
                | SD false _ => XOk (maybe_set_prev_state x1 sd)
                | SD true _ =>
                    if negb (String.eqb (tp_peer t) (current_peer x1))
                    then XOk (call_end (make_incomplete (set_next_peers x1 (x_next_peers x1 ++ [tp_peer t]))) (RequestSentBy (SPeer (current_peer x1))))
                    else if 4294967295 <=? x_lcid x1 then XCrash "next_call_request_id: u32 overflow"
                    else XOk (call_end (make_incomplete (set_calls x1 (x_lcid x1 + 1) (x_call_results x1)
                                   (x_requests x1 ++ [(x_lcid x1 + 1, {| rq_service := tp_service t; rq_function := tp_function t; rq_args := av; rq_tetraplets := at_ |})])))
                                   (RequestSentBy (SPeerCall (current_peer (set_calls x1 (x_lcid x1 + 1) (x_call_results x1)
                                   (x_requests x1 ++ [(x_lcid x1 + 1, {| rq_service := tp_service t; rq_function := tp_function t; rq_args := av; rq_tetraplets := at_ |})]))) (x_lcid x1 + 1))))
                end) as K.
    { intros x1 [[] prev] H1 N; cbn [xres_strong].
      - destruct (negb _); cbn [xres_strong]; [apply inv_remote; auto|].
        destruct (4294967295 <=? x_lcid x1); cbn [xres_strong]; auto.
        apply inv_call_end_neutral; [frame|reflexivity].
      - apply inv_maybe_set_prev_state; auto. }
    destruct r as [|met pos src].
    + apply (K _ (SD true None)); cbn; auto.
    + destruct (handle_prev_state (set_handler x h) met pos src t (Some (CArgs av)) out) as [r sd] eqn:Eh.
      destruct (inv_handle_prev_state _ _ _ _ _ _ _ _ _ _ _ H0 Eh) as [Hr Hs].
      destruct r; cbn [xres_strong] in *; auto.
  - destruct (is_joinable e); cbn [xres_strong]; auto.
    unfold with_handler. destruct (meet_call_start cid cid_eqb (x_handler x)) as [[r h]| |] eqn:E; cbn [xres_strong]; auto.
    pose proof (inv_meet_call_start _ _ _ _ _ H E) as H0. cbn [fst snd].
    destruct r as [|met pos src].
    + destruct (negb _); cbn [xres_strong]; auto. apply inv_remote; auto.
    + destruct (handle_prev_state (set_handler x h) met pos src t None out) as [r sd] eqn:Eh.
      destruct (inv_handle_prev_state _ _ _ _ _ _ _ _ _ _ _ H0 Eh) as [Hr Hs].
      destruct r as [x1| | | |]; cbn [xres_strong] in *; auto.
      destruct sd as [should prev]. destruct (negb should); cbn [xres_strong].
      * apply inv_maybe_set_prev_state; auto.
      * destruct (negb _); cbn [xres_strong]; [apply inv_remote; auto|apply inv_maybe_set_prev_state; auto].
Qed.

Lemma inv_exec_call p0 b0 x text tr args out :
  sign_inv p0 b0 x -> xres_strong (sign_inv p0 b0) (exec_call x text tr args out).
Proof.
  intros H. unfold exec_call.
  assert (forall e x' t, sign_inv p0 b0 x' ->
            xres_strong (sign_inv p0 b0) match e with ECatch _ => XErr e (ctx_set_errors x' e text t true) | EUncatch _ => XErr e x' end) as S.
  { intros e x' t H'. destruct e; cbn [xres_strong]; auto. eapply inv_frame; [apply ctx_set_errors_core|exact H']. }
  destruct (pbind (resolve_triplet x tr) _) as [t|e| |]; cbn [xres_strong]; auto.
  - pose proof (inv_resolved_call_execute p0 b0 x t args out H) as R.
    destruct (resolved_call_execute x t args out) as [y|e y| | |]; cbn [xres_strong] in *; auto.
    destruct (is_joinable e); cbn [xres_strong]; [frame|apply S; auto].
  - destruct (is_joinable e); cbn [xres_strong]; [frame|apply S; auto].
Qed.

(* ------------------------------------------------------------------------------------------ *)
(* instructions that do not touch tracker, stores or trace *)

Lemma ok_core_fail_with_error_object x e t p : ok_core x (fail_with_error_object x e t p).
Proof. reflexivity. Qed.

Lemma ok_core_exec_fail x text f : ok_core x (exec_fail x text f).
Proof.
  unfold exec_fail.
  assert (forall r : pres resolved,
            ok_core x (lift x r (fun rr => match snd (fst rr) with
                                           | t :: _ => if check_error_object (fst (fst rr))
                                                       then fail_with_error_object x (fst (fst rr)) (Some t) (snd rr)
                                                       else XErr (ECatch CInvalidErrorObjectError) x
                                           | [] => XCrash "tetraplet.remove(0) on an empty list" end))) as K.
  { intros [rr|e|s|w]; cbn [lift ok_core]; auto. destruct (snd (fst rr)); cbn [ok_core]; auto.
    destruct (check_error_object _); reflexivity. }
  destruct f; try apply K; try reflexivity.
  - destruct (check_error_object _); reflexivity.
  - destruct (negb (check_error_object _)); [reflexivity|]. cbn [fail_with_error_object]. destruct (ie_orig _); reflexivity.
Qed.

Lemma ok_core_exec_ap x a r : ok_core x (exec_ap x a r).
Proof.
  unfold exec_ap. destruct r as [v|v]; [|exact I].
  destruct (apply_to_arg x a false) as [val|e| |]; cbn [ok_core]; auto.
  - destruct (set_scalar_value x (v_name v) val) as [y| | |] eqn:E; cbn [lift ok_core]; auto.
    apply set_scalar_value_core in E. exact E.
  - destruct (is_joinable e); reflexivity.
Qed.

Lemma inv_wrap_errors p0 b0 r text b : xres_strong (sign_inv p0 b0) r -> xres_strong (sign_inv p0 b0) (wrap_errors r text b).
Proof. destruct r; cbn [wrap_errors xres_strong]; auto. intros H. eapply inv_frame; [apply ctx_set_errors_core|exact H]. Qed.

(* ------------------------------------------------------------------------------------------ *)
(* the executor *)

Section ExecInduction.
  Variable p0 : run_params.
  Variable b0 : bool.
  Variable esi : (instr -> ctx -> xres) -> instr -> ctx -> option xres.
  Hypothesis Hhook : stream_hook_preserves (sign_inv p0 b0) esi.
  Notation P := (sign_inv p0 b0).

  Lemma inv_par_start x h : P x -> meet_par_start cid (x_handler x) = Ok h -> P (set_handler x h).
  Proof.
    intros H E. destruct H as (Hp & Ht & Ha & Hh & Hr & Hc).
    destruct (meet_par_start_ok _ _ E Hh) as [K R]. apply inv_same_refs; [unfold sign_inv; auto 10|exact K|exact R].
  Qed.
  Lemma inv_par_end x sg h : P x -> meet_par_subgraph_end cid (x_handler x) sg = Ok h -> P (set_handler x h).
  Proof.
    intros H E. destruct H as (Hp & Ht & Ha & Hh & Hr & Hc).
    destruct (meet_par_subgraph_end_ok _ _ _ E Hh) as [K R]. apply inv_same_refs; [unfold sign_inv; auto 10|exact K|exact R].
  Qed.

  Lemma hook_case run i x : exec_preserves P run -> P x ->
    xres_inv P (match esi run i x with Some r' => r' | None => XUnsupported "stream" end).
  Proof. intros Hr H. destruct (esi run i x) as [r|] eqn:E; [|exact I]. eapply Hhook; eauto. Qed.

  Lemma inv_wrap_errors_w r text b : xres_inv P r -> xres_inv P (wrap_errors r text b).
  Proof.
    destruct r; cbn [wrap_errors xres_inv]; auto. intros H C. eapply inv_frame; [apply ctx_set_errors_core|exact (H C)].
  Qed.

  Ltac fr := try (intros _); frame.
  Ltac uncatch := let C := fresh "C" in intros C; cbn in C; discriminate C.
  (* goal: catchable e -> P (frame of y), hypothesis R: catchable e -> P y *)
  Ltac carry R := let C := fresh "C" in intros C; specialize (R C); frame.

  Theorem exec_sign_inv : forall fuel, exec_preserves P (exec esi fuel).
  Proof.
    induction fuel as [|fuel IH]; intros i x H; [exact I|].
    assert (forall j y, P y -> xres_inv P (exec esi fuel j y)) as Run by (intros; apply IH; assumption).
    destruct i as [text t args out|text a dst|text k a m|text p s c|text p m c|text p m s|i1 i2|i1 i2|i1 i2
                   |text lhs rhs body|text lhs rhs body|text f|text iterable iter body last sp|text s iter body last sp
                   |text m iter body last sp| |text arg body sp|text iter| |]; cbn [exec]; try apply inv_wrap_errors_w.
    - (* call *) apply xres_inv_strong, inv_exec_call, H.
    - (* ap *)
      destruct dst; [apply xres_inv_strong, (inv_ok_core _ _ x); [apply ok_core_exec_ap|exact H]|apply hook_case; auto].
    - (* ap map *) first [exact I|apply hook_case; auto].
    - (* canon *) apply hook_case; auto.
    - (* canon map *) first [exact I|apply hook_case; auto].
    - (* canon stream map scalar *) first [exact I|apply hook_case; auto].
    - (* seq *)
      assert (P (flush_complete x)) as H1 by frame.
      pose proof (Run i1 _ H1) as R1. destruct (exec esi fuel i1 (flush_complete x)) as [x1| | | |]; cbn [xres_inv] in *; auto.
      destruct (x_complete x1); cbn [xres_inv]; auto.
    - (* par *)
      unfold with_handler. destruct (meet_par_start cid (x_handler x)) as [h1| |] eqn:E; cbn [xres_inv]; auto; try uncatch.
      pose proof (inv_par_start _ _ H E) as H1.
      assert (forall s sg y, P y ->
                xres_inv P (fst
                  (let y0 := set_complete y (match s with INext _ _ => false | _ => true end) in
                   match exec esi fuel s y0 with
                   | XOk y1 =>
                       match meet_par_subgraph_end cid (x_handler y1) sg with
                       | Ok h => (XOk (set_handler y1 h), Some None)
                       | Err e => (XErr (trace_err e) y1, None)
                       | Crash _ => (XCrash "trace handler panic", None)
                       end
                   | XErr e y1 =>
                       if is_catchable e then
                         let y2 := make_incomplete y1 in
                         match meet_par_subgraph_end cid (x_handler y2) sg with
                         | Ok h => (XOk (set_handler y2 h), Some (Some e))
                         | Err e' => (XErr (trace_err e') y2, None)
                         | Crash _ => (XCrash "trace handler panic", None)
                         end
                       else (XErr e (make_incomplete y1), None)
                   | r => (r, @None (option exec_err))
                   end))) as Sub.
      { intros s0 sg y Hy. cbn zeta.
        assert (P (set_complete y (match s0 with INext _ _ => false | _ => true end))) as Hy0 by frame.
        pose proof (Run s0 _ Hy0) as R. destruct (exec esi fuel s0 _) as [y1|e y1| | |]; cbn [xres_inv fst] in *; auto.
        - destruct (meet_par_subgraph_end cid (x_handler y1) sg) eqn:E2; cbn [xres_inv fst]; auto; try uncatch; eapply inv_par_end; eauto.
        - destruct (is_catchable e) eqn:Ec; cbn [xres_inv fst]; [|intros C; rewrite C in Ec; discriminate Ec].
          specialize (R eq_refl). assert (P (make_incomplete y1)) as Hy2 by frame.
          destruct (meet_par_subgraph_end cid (x_handler (make_incomplete y1)) sg) eqn:E2; cbn [xres_inv fst]; auto; try uncatch; eapply inv_par_end; eauto. }
      pose proof (Sub i1 SLeft _ H1) as S1. cbn zeta in S1.
      match goal with |- xres_inv P (let (_, _) := ?e in _) => destruct e as [r1 o1] end. cbn [fst] in S1.
      destruct r1 as [y1| | | |]; cbn [xres_inv] in *; auto; destruct o1 as [lres|]; cbn [xres_inv]; auto.
      pose proof (Sub i2 SRight _ S1) as S2. cbn zeta in S2.
      match goal with |- xres_inv P (let (_, _) := ?e in _) => destruct e as [r2 o2] end. cbn [fst] in S2.
      destruct r2 as [y2| | | |]; cbn [xres_inv] in *; auto; destruct o2 as [rres|]; cbn [xres_inv]; auto.
      destruct lres, rres; cbn [xres_inv]; fr.
    - (* xor *)
      assert (P (flush_complete x)) as H1 by frame.
      pose proof (Run i1 _ H1) as R1. destruct (exec esi fuel i1 (flush_complete x)) as [x1|e x1| | |]; cbn [xres_inv] in *; auto.
      destruct (is_catchable e) eqn:Ec; cbn [xres_inv]; [|intros C; rewrite C in Ec; discriminate Ec]. specialize (R1 eq_refl).
      match goal with |- xres_inv P (match exec esi fuel i2 ?x4 with _ => _ end) => assert (P x4) as H4 by frame; pose proof (Run i2 _ H4) as R2;
        destruct (exec esi fuel i2 x4) as [y|e' y| | |] end; cbn [xres_inv] in *; auto.
      + destruct (x_error_can_set y); frame.
      + destruct (x_error_can_set y); auto; try (carry R2).
    - (* match *)
      destruct (pbind (resolve_value x lhs) _) as [eq|e| |]; cbn [xres_inv]; auto.
      + destruct (Bool.eqb eq true); cbn [xres_inv]; auto.
      + destruct (is_joinable e); cbn [xres_inv]; [frame|auto].
    - (* mismatch *)
      destruct (pbind (resolve_value x lhs) _) as [eq|e| |]; cbn [xres_inv]; auto.
      + destruct (Bool.eqb eq false); cbn [xres_inv]; auto.
      + destruct (is_joinable e); cbn [xres_inv]; [frame|auto].
    - (* fail *) apply xres_inv_strong, (inv_ok_core _ _ x); [apply ok_core_exec_fail|exact H].
    - (* fold scalar *)
      destruct (create_fold_iterable x iterable) as [[|itb]|e| |]; cbn [xres_inv]; auto.
      + destruct (iter_get _ _); cbn [xres_inv]; [fr|].
        match goal with |- xres_inv P (match exec esi fuel body ?x2 with _ => _ end) => assert (P x2) as H2 by frame; pose proof (Run body _ H2) as R2;
          destruct (exec esi fuel body x2) end; cbn [xres_inv] in *; auto; try frame; try (carry R2).
      + destruct (is_joinable e); cbn [xres_inv]; [frame|auto].
    - (* fold stream *) apply hook_case; auto.
    - (* fold stream map *) first [exact I|apply hook_case; auto].
    - (* never *) frame.
    - (* new *)
      destruct arg.
      + match goal with |- xres_inv P (match exec esi fuel body ?x1 with _ => _ end) => assert (P x1) as H1 by frame; pose proof (Run body _ H1) as R1;
          destruct (exec esi fuel body x1) as [y|e y| | |] end; cbn [xres_inv] in *; auto.
        * destruct (Scalars.meet_new_end vagg (x_scalars y) (v_name v)); cbn [lift xres_inv]; auto; try frame; try uncatch.
        * destruct (Scalars.meet_new_end vagg (x_scalars y) (v_name v)); cbn [xres_inv]; auto; try (carry R1).
      + apply hook_case; auto.
      + first [exact I|apply hook_case; auto].
      + match goal with |- xres_inv P (match exec esi fuel body ?x1 with _ => _ end) => assert (P x1) as H1 by frame; pose proof (Run body _ H1) as R1;
          destruct (exec esi fuel body x1) as [y|e y| | |] end; cbn [xres_inv] in *; auto.
        * destruct (Scalars.meet_new_end canon_wp (x_canons y) (v_name v)); cbn [lift xres_inv]; auto; try frame; try uncatch.
        * destruct (Scalars.meet_new_end canon_wp (x_canons y) (v_name v)); cbn [xres_inv]; auto; try (carry R1).
      + first [exact I|apply hook_case; auto].
    - (* next *)
      destruct (iter_get (x_iterables x) (v_name iter)) as [fs|]; cbn [xres_inv]; [|auto].
      destruct (fs_type fs); [|apply hook_case; auto].
      destruct (it_next (fs_iterable fs)) as [moved it']. destruct (negb moved).
      + destruct (fs_last fs); [apply Run; frame|exact H].
      + match goal with |- xres_inv P (match exec esi fuel ?b ?x2 with _ => _ end) => assert (P x2) as H2 by frame; pose proof (Run b _ H2) as R2;
          destruct (exec esi fuel b x2) as [y|e y| | |] end; cbn [xres_inv] in *; auto; try (carry R2).
        destruct (iter_get _ _); cbn [xres_inv]; auto; try uncatch; fr.
    - (* null *) exact H.
    - (* error *) exact I.
  Qed.
End ExecInduction.

(* ------------------------------------------------------------------------------------------ *)
(* one run *)

Lemma stores_le_merge_l p c : stores_le p (merge_cid_states p c).
Proof. unfold stores_le, merge_cid_states. cbn. repeat split; intros; apply union_cids_mono_l; assumption. Qed.
Lemma stores_le_merge_r p c : stores_le c (merge_cid_states p c).
Proof. unfold stores_le, merge_cid_states. cbn. repeat split; intros; apply union_cids_mono_r; assumption. Qed.

Lemma cid_info_np_merge p c : cid_info_verify_np p = true -> cid_info_verify_np c = true -> cid_info_verify_np (merge_cid_states p c) = true.
Proof.
  rewrite !cid_info_np_parts. intros (V1 & T1 & R1 & E1 & S1) (V2 & T2 & R2 & E2 & S2).
  pose proof (stores_le_merge_l p c) as Lp. pose proof (stores_le_merge_r p c) as Lc.
  unfold merge_cid_states at 1 2 4 6 8. cbn [cs_values cs_tetraplets cs_canon_results cs_canon_elems cs_services].
  split; [apply forallb_union; auto|]. split; [apply forallb_union; auto|].
  split; [apply forallb_union; [revert R1|revert R2]; apply forallb_impl; intros x; apply canon_result_entry_ok_mono; assumption|].
  split; [apply forallb_union; [revert E1|revert E2]; apply forallb_impl; intros x; apply canon_elem_entry_ok_np_mono; assumption|].
  apply forallb_union; [revert S1|revert S2]; apply forallb_impl; intros x; apply service_entry_ok_mono; assumption.
Qed.

Definition inputs_closed (i : run_input) : bool := cid_info_verify_np (d_cids (ri_prev i)) && cid_info_verify_np (d_cids (ri_cur i)).

Lemma initial_inv i : sign_inv (ri_params i) (inputs_closed i) (initial_ctx i).
Proof.
  unfold sign_inv, res_trace, initial_ctx. cbn [x_params x_tracker x_handler x_cids].
  split; [reflexivity|]. split; [constructor|]. split; [constructor|]. split; [split; constructor|]. split; [reflexivity|].
  unfold inputs_closed. intros E. apply andb_prop in E as [E1 E2]. apply cid_info_np_merge; assumption.
Qed.

Section RunLevel.
  Variable esi : (instr -> ctx -> xres) -> instr -> ctx -> option xres.
  Variable fin : ctx -> ctx + uncatchable.
  Hypothesis Hhook : hook_ok esi.
  Hypothesis Hfin : finish_ok fin.

  Lemma run_new_data_inv fuel i code d next reqs signed :
    run esi fin fuel i = OutNewData code d next reqs signed ->
    exists x1, sign_inv (ri_params i) (inputs_closed i) x1 /\ d = data_of_ctx x1 /\ signed = x_tracker x1.
  Proof.
    unfold run. pose proof (exec_sign_inv _ _ esi (Hhook _ _) fuel (ri_script i) _ (initial_inv i)) as R.
    destruct (exec esi fuel (ri_script i) (initial_ctx i)) as [x|e x| | |]; cbn [xres_inv] in R; try discriminate.
    - destruct (fin x) as [x1|u] eqn:F; [|discriminate]. intros [= _ <- _ _ <-]. exists x1. split; [eapply Hfin; eauto|auto].
    - destruct e as [c|u]; [|discriminate]. specialize (R eq_refl). destruct (fin x) as [x1|u] eqn:F; [|discriminate]. intros [= _ <- _ _ <-].
      exists x1. split; [eapply Hfin; eauto|auto].
  Qed.

  Lemma C03_own_signature_holds : C03_own_signature_stmt esi fin.
  Proof.
    intros _ _ fuel i code d next reqs signed E. apply run_new_data_inv in E as (x1 & (Hp & Ht & Ha & _) & -> & ->).
    unfold me. rewrite <- Hp in Ht. cbn [d_trace data_of_ctx]. unfold res_trace in *. rewrite Hp in Ht. split; [exact Ht|exact Ha].
  Qed.

  Lemma C03_store_closed_holds : C03_store_closed_stmt esi fin.
  Proof.
    intros _ _ fuel i code d next reqs signed E. apply run_new_data_inv in E as (x1 & (Hp & Ht & Ha & Hh & Hr & Hc) & -> & ->).
    cbn [d_trace d_cids data_of_ctx]. unfold res_trace in Hr. split; [exact Hr|]. intros [V1 V2]. unfold store_closed_np. rewrite Hr, andb_true_r.
    apply Hc. unfold inputs_closed. rewrite V1, V2. reflexivity.
  Qed.
End RunLevel.

(* ------------------------------------------------------------------------------------------ *)
(* signatures *)

Lemma perm_meq (a b : list string) : Permutation a b -> Sig.meq a b.
Proof.
  intros H c. induction H; cbn [Sig.count]; try lia.
Qed.

Lemma peer_cids_sig_trace cid_text tr p :
  Sig.peer_cids p (sig_trace cid_text tr) = map cid_text (attributed_cids tr p).
Proof.
  unfold sig_trace, attributed_cids, Sig.peer_cids. induction (refs tr) as [|r l IH]; [reflexivity|].
  cbn [flat_map filter]. destruct (ref_peer r) as [q|]; cbn [peer_is app].
  - cbn [filter fst]. destruct (String.eqb q p); cbn [map snd]; rewrite IH; reflexivity.
  - exact IH.
Qed.

Lemma sig_eqb_refl s : Sig.sig_eqb s s = true.
Proof.
  destruct s; cbn [Sig.sig_eqb]; [|apply N.eqb_refl]. rewrite !String.eqb_refl. cbn [andb].
  rewrite andb_true_r. apply list_eqb_refl. intros. apply String.eqb_refl.
Qed.

Lemma own_signature_verifies cid_text p signed tr salt :
  Permutation signed (attributed_cids tr p) ->
  Sig.sig_verify p (Sig.peer_cids p (sig_trace cid_text tr)) salt (Sig.sign_cids p (map cid_text signed) salt) = true.
Proof.
  intros H. rewrite peer_cids_sig_trace. unfold Sig.sig_verify, Sig.pk_verify, Sig.sign_cids.
  rewrite (SigProofs.sort_canonical (map cid_text signed) (map cid_text (attributed_cids tr p))).
  - apply sig_eqb_refl.
  - apply perm_meq, Permutation_map, H.
Qed.

Section RunSig.
  Variable esi : (instr -> ctx -> xres) -> instr -> ctx -> option xres.
  Variable fin : ctx -> ctx + uncatchable.

  Lemma C03_sig_verifies_holds : C03_sig_verifies_stmt esi fin.
  Proof.
    intros Hh Hf cid_text fuel i code d next reqs signed salt E.
    destruct (C03_own_signature_holds esi fin Hh Hf Hh Hf fuel i code d next reqs signed E) as [P _].
    apply own_signature_verifies, P.
  Qed.

  Lemma C03_accepted_holds : C03_accepted_stmt esi fin.
  Proof.
    intros Hh Hf cid_text key_ok o fuel i code d next reqs signed salt sigs qprev vp E Vin out (Wout & Kout & Sout & Fout) Wq Ep Hcomp Hprov.
    destruct (C03_own_signature_holds esi fin Hh Hf Hh Hf fuel i code d next reqs signed E) as [Pown _].
    destruct (C03_store_closed_holds esi fin Hh Hf Hh Hf fuel i code d next reqs signed E) as [_ Cl].
    specialize (Cl Vin). unfold store_closed_np in Cl. apply andb_prop in Cl as [Cl _]. rewrite Hprov, Cl.
    (* DataVerifier::new on the produced data succeeds *)
    pose proof (SigProofs.dv_new_spec key_ok (Sig.o_new_cur o) out Wout) as Hn.
    assert (SigProofs.first_unsigned (SigProofs.has_key (Sig.d_sigs out)) (Sig.d_trace out) = None) as Hfu.
    { destruct (SigProofs.first_unsigned _ _) as [q|] eqn:Eq; [|reflexivity]. exfalso.
      unfold SigProofs.first_unsigned in Eq. destruct (find _ (Sig.d_trace out)) as [[q' c]|] eqn:Ef; [|discriminate].
      apply find_some in Ef as [Hin Hk]. cbn [fst] in Hk.
      assert (In c (Sig.Mof out q')) as Hc.
      { unfold Sig.Mof, Sig.peer_cids. apply in_map_iff. exists (q', c). split; [reflexivity|].
        apply filter_In. split; [exact Hin|]. cbn [fst]. apply String.eqb_refl. }
      destruct (Sout q' c Hc) as [s Hs]. unfold SigProofs.has_key in Hk. rewrite Hs in Hk. discriminate. }
    inversion Hn as [k Hin Hk Heq|q Hall Hq Heq|vc Hall Hq Hnd Hget Heq].
    - rewrite (Kout k Hin) in Hk. discriminate.
    - rewrite Hfu in Hq. discriminate.
    - symmetry in Heq.
      apply (SigProofs.C15_accept key_ok o qprev out salt vp vc Wq Wout Hcomp Ep Heq).
      pose proof (SigProofs.dv_verify_spec (Sig.o_verify o) salt vc Hnd) as Hv.
      destruct (Sig.dv_verify (Sig.o_verify o) salt vc) as [[]|e]; [reflexivity|]. exfalso.
      destruct Hv as (q & pi & _ & Hg & Hbad). rewrite Hget in Hg.
      destruct (Sig.map_get q (Sig.d_sigs out)) as [s|] eqn:Es; [|discriminate]. injection Hg as <-.
      cbn [SigProofs.info_of Sig.pi_cids Sig.pi_sig] in Hbad.
      change (Sig.sig_verify q (Sig.Mof out q) salt s = false) in Hbad.
      destruct (String.eqb_spec q (me i)) as [->|Hne].
      + (* the own signature *)
        unfold out, produced_data in Es. cbn [Sig.d_sigs] in Es. rewrite SigProofs.map_get_insert, String.eqb_refl in Es.
        injection Es as <-. unfold out, produced_data, Sig.Mof in Hbad. cbn [Sig.d_trace] in Hbad.
        rewrite (own_signature_verifies cid_text (me i) signed (d_trace d) salt Pown) in Hbad. discriminate.
      + rewrite (Fout q s Hne Es) in Hbad. discriminate.
  Qed.
End RunSig.

(* foreign signatures carried along *)
Lemma C03_foreign_partial_holds : C03_foreign_partial_stmt.
Proof.
  intros key_ok o cid_ok prev cur salt st p out_cids Wp Wc E Vp M s Hs.
  destruct (SigProofs.C15_keep_larger key_ok o cid_ok prev cur salt st Wp Wc E) as [_ K]. specialize (K p).
  unfold Sig.kept_for in K. cbn zeta in K.
  assert (forall s', Sig.sig_verify p out_cids salt s' = Sig.sig_verify p (Sig.larger_of (Sig.Mof prev p) (Sig.Mof cur p)) salt s') as Eq.
  { intros s'. unfold Sig.sig_verify. rewrite (SigProofs.sort_canonical _ _ M). reflexivity. }
  rewrite Eq.
  (* both verifiers were built: peers without a signature have no CIDs *)
  unfold Sig.verification_step, Sig.dv_verification in E. destruct cid_ok; [|discriminate].
  destruct (Sig.dv_new key_ok (Sig.o_new_prev o) prev) as [vp|] eqn:Ep; [|discriminate].
  destruct (Sig.dv_new key_ok (Sig.o_new_cur o) cur) as [vc|] eqn:Ec; [|discriminate].
  destruct (SigProofs.new_ok_inv key_ok _ _ _ Wp Ep) as (Fp & _ & _). destruct (SigProofs.new_ok_inv key_ok _ _ _ Wc Ec) as (Fc & _ & _).
  assert (forall (d : Sig.data), SigProofs.first_unsigned (SigProofs.has_key (Sig.d_sigs d)) (Sig.d_trace d) = None ->
            Sig.map_get p (Sig.d_sigs d) = None -> Sig.Mof d p = []) as Empty.
  { intros d0 F N. destruct (Sig.Mof d0 p) as [|c l] eqn:El; [reflexivity|]. exfalso.
    destruct (SigProofs.signed_of_nonempty d0 p c F) as [s' Es']; [rewrite El; left; reflexivity|]. congruence. }
  destruct (Sig.map_get p (Sig.d_sigs prev)) as [sp|] eqn:Esp, (Sig.map_get p (Sig.d_sigs cur)) as [sc|] eqn:Esc.
  - destruct K as (Kg & _ & _ & _ & Kv & _). rewrite Kg in Hs. injection Hs as <-. apply Kv, Vp. reflexivity.
  - rewrite K in Hs. injection Hs as <-. rewrite (Empty cur Fc Esc). unfold Sig.larger_of.
    replace (Sig.lenN (Sig.Mof prev p) <? Sig.lenN []) with false by (symmetry; apply N.ltb_ge; cbn; lia).
    apply Vp. reflexivity.
  - destruct K as [Kg Kv]. rewrite Kg in Hs. injection Hs as <-. rewrite (Empty prev Fp Esp). unfold Sig.larger_of.
    destruct (Sig.lenN [] <? Sig.lenN (Sig.Mof cur p)) eqn:El; [exact Kv|].
    apply N.ltb_ge in El. cbn in El. destruct (Sig.Mof cur p) as [|c l]; [exact Kv|]. cbn in El. lia.
  - congruence.
Qed.

Lemma C03_version_holds : C03_version_stmt.
Proof. vm_compute. split; reflexivity. Qed.

(* ------------------------------------------------------------------------------------------ *)
(* stage 2: the trace handler operations used by ap / canon / stream folds / compactification *)

Lemma prepare_ap_result_result gens sch (k k' : keeper cid) r : prepare_ap_result cid gens sch k = Ok (r, k') -> kres k' = kres k.
Proof.
  unfold prepare_ap_result. destruct (prepare_positions_mapping cid sch k) as [k1| |] eqn:E; cbn [Handler.bind]; try discriminate.
  apply prepare_positions_mapping_result in E. destruct gens as [|g [|]]; try discriminate. intros [= _ <-]. exact E.
Qed.

Lemma try_merge_ap_result (k k' : keeper cid) r : try_merge_next_state_as_ap cid k = Ok (r, k') -> kres k' = kres k.
Proof.
  unfold try_merge_next_state_as_ap. pose proof (next_states_result k) as N.
  destruct (next_states cid k) as [[p c] k1]. cbn [snd] in N. intros H. rewrite <- N.
  destruct p as [[]|], c as [[]|]; try discriminate; try (eapply prepare_ap_result_result; eassumption).
  injection H as _ <-. reflexivity.
Qed.

Lemma meet_ap_start_spec (h h' : handler cid) r : meet_ap_start cid h = Ok (r, h') ->
  result_trace cid h' = result_trace cid h /\ h_pars cid h' = h_pars cid h /\ h_folds cid h' = h_folds cid h.
Proof.
  unfold meet_ap_start.
  destruct (try_merge_next_state_as_ap cid (h_keeper cid h)) as [[r0 k']| |] eqn:E; cbn [Handler.bind]; try discriminate.
  intros [= _ <-]. apply try_merge_ap_result in E. unfold result_trace. cbn. auto.
Qed.

Lemma try_merge_canon_result (k k' : keeper cid) r : try_merge_next_state_as_canon cid cid_eqb k = Ok (r, k') -> kres k' = kres k.
Proof.
  unfold try_merge_next_state_as_canon. pose proof (next_states_result k) as N.
  destruct (next_states cid k) as [[p c] k1]. cbn [snd] in N. intros H. rewrite <- N.
  destruct p as [[]|], c as [[]|]; try discriminate; try (injection H as _ <-; reflexivity).
  match type of H with Handler.bind ?r _ = _ => destruct r; cbn [Handler.bind] in H; try discriminate end.
  injection H as _ <-. reflexivity.
Qed.

Lemma meet_canon_start_spec (h h' : handler cid) r : meet_canon_start cid cid_eqb h = Ok (r, h') ->
  result_trace cid h' = result_trace cid h /\ h_pars cid h' = h_pars cid h /\ h_folds cid h' = h_folds cid h.
Proof.
  unfold meet_canon_start.
  destruct (try_merge_next_state_as_canon cid cid_eqb (h_keeper cid h)) as [[r0 k']| |] eqn:E; cbn [Handler.bind]; try discriminate.
  intros [= _ <-]. apply try_merge_canon_result in E. unfold result_trace. cbn. auto.
Qed.

(* ---- folds ---- *)
Lemma Forall_filter {A} (P : A -> Prop) f (l : list A) : Forall P l -> Forall P (filter f l).
Proof.
  induction 1 as [|a l Ha _ IH]; cbn [filter]; [constructor|]. destruct (f a); [constructor; assumption|exact IH].
Qed.

Lemma folds_get_in (m : list (N * fold_fsm)) id f : folds_get m id = Some f -> exists a, In (a, f) m.
Proof.
  induction m as [|[a g] m IH]; cbn [folds_get]; [discriminate|].
  destruct (a =? id); [intros [= ->]; exists a; left; reflexivity|]. intros H. destruct (IH H) as [b Hb]. exists b. right. exact Hb.
Qed.

Lemma fold_update_ok (h : handler cid) id f f' (k' : keeper cid) :
  folds_get (h_folds cid h) id = Some f -> ff_inserter f' = ff_inserter f -> kres k' = kres (h_keeper cid h) ->
  handler_ok h -> handler_ok (with_fold cid h id f' k') /\ refs (result_trace cid (with_fold cid h id f' k')) = refs (result_trace cid h).
Proof.
  intros G I R [A B]. unfold handler_ok, result_trace, with_fold in *. cbn [h_keeper h_pars h_folds]. rewrite R.
  split; [|reflexivity]. split; [exact A|]. unfold folds_put. constructor.
  - cbn [snd]. rewrite I. destruct (folds_get_in _ _ _ G) as [a Ha]. rewrite Forall_forall in B. apply (B _ Ha).
  - apply Forall_filter, B.
Qed.

Lemma apply_fold_lore_both_result (k k' : keeper cid) pl cl after : apply_fold_lore_both cid k pl cl after = Ok k' -> kres k' = kres k.
Proof.
  unfold apply_fold_lore_both. destruct (apply_fold_lore cid (k_prev cid k) pl after) as [sp| |]; cbn [Handler.bind]; try discriminate.
  destruct (apply_fold_lore cid (k_cur cid (with_prev cid k sp)) cl after) as [sc| |]; cbn [Handler.bind]; try discriminate.
  intros [= <-]. reflexivity.
Qed.

Lemma queue_update_inserter f i c : ff_inserter (queue_update f i c) = ff_inserter f.
Proof. unfold queue_update. destruct (nth_error _ _); reflexivity. Qed.

Lemma fold_iteration_start_spec f vp (k k' : keeper cid) f' : fold_iteration_start cid f vp k = Ok (f', k') ->
  ff_inserter f' = ff_inserter f /\ kres k' = kres k.
Proof.
  unfold fold_iteration_start.
  destruct (match bimap_get_by_left (k_new_to_prev cid k) vp with Some p => assoc_remove (ff_prev f) p | None => (None, ff_prev f) end) as [pl prev'].
  destruct (match bimap_get_by_left (k_new_to_cur cid k) vp with Some p => assoc_remove (ff_cur f) p | None => (None, ff_cur f) end) as [cl cur'].
  destruct (apply_fold_lore_both cid k pl cl false) as [k1| |] eqn:E; cbn [Handler.bind]; try discriminate.
  intros [= <- <-]. apply apply_fold_lore_both_result in E. auto.
Qed.

Lemma fold_iteration_end_spec f (k : keeper cid) f' : fold_iteration_end cid f k = Ok f' -> ff_inserter f' = ff_inserter f.
Proof.
  unfold fold_iteration_end. destruct (queue_current f) as [[i d]| |]; cbn [Handler.bind]; try discriminate.
  intros [= <-]. apply queue_update_inserter.
Qed.

Lemma fold_back_iterator_spec f (k k' : keeper cid) f' : fold_back_iterator cid f k = Ok (f', k') ->
  ff_inserter f' = ff_inserter f /\ kres k' = kres k.
Proof.
  unfold fold_back_iterator. destruct (queue_current f) as [[i d]| |]; cbn [Handler.bind]; try discriminate.
  destruct (negb (ff_back_started f)).
  - destruct (apply_fold_lore_both cid k _ _ true) as [k1| |] eqn:E; cbn [Handler.bind]; try discriminate.
    intros [= <- <-]. apply apply_fold_lore_both_result in E. split; [|exact E]. cbn. apply queue_update_inserter.
  - destruct (ff_back_pos _ =? 0); [discriminate|].
    destruct (queue_current _) as [[i2 d2]| |]; cbn [Handler.bind]; try discriminate.
    destruct (apply_fold_lore_both cid k _ _ true) as [k1| |] eqn:E; cbn [Handler.bind]; try discriminate.
    intros [= <- <-]. apply apply_fold_lore_both_result in E. split; [|exact E].
    rewrite queue_update_inserter. cbn. apply queue_update_inserter.
Qed.

Lemma fold_generation_end_spec f (k : keeper cid) f' : fold_generation_end cid f k = Ok f' -> ff_inserter f' = ff_inserter f.
Proof.
  unfold fold_generation_end. destruct (ctors_into_lore _ _); cbn [Handler.bind]; try discriminate. intros [= <-]. reflexivity.
Qed.

Lemma meet_iteration_start_ok (h h' : handler cid) id vp : meet_iteration_start cid h id vp = Ok h' -> handler_ok h ->
  handler_ok h' /\ refs (result_trace cid h') = refs (result_trace cid h).
Proof.
  unfold meet_iteration_start. destruct (folds_get (h_folds cid h) id) as [f|] eqn:G; [|discriminate].
  destruct (fold_iteration_start cid f vp (h_keeper cid h)) as [[f' k']| |] eqn:E; cbn [Handler.bind]; try discriminate.
  intros [= <-] K. apply fold_iteration_start_spec in E as [I R]. cbn [fst snd]. eapply fold_update_ok; eauto.
Qed.
Lemma meet_iteration_end_ok (h h' : handler cid) id : meet_iteration_end cid h id = Ok h' -> handler_ok h ->
  handler_ok h' /\ refs (result_trace cid h') = refs (result_trace cid h).
Proof.
  unfold meet_iteration_end. destruct (folds_get (h_folds cid h) id) as [f|] eqn:G; [|discriminate].
  destruct (fold_iteration_end cid f (h_keeper cid h)) as [f'| |] eqn:E; cbn [Handler.bind]; try discriminate.
  intros [= <-] K. apply fold_iteration_end_spec in E. eapply fold_update_ok; eauto.
Qed.
Lemma meet_back_iterator_ok (h h' : handler cid) id : meet_back_iterator cid h id = Ok h' -> handler_ok h ->
  handler_ok h' /\ refs (result_trace cid h') = refs (result_trace cid h).
Proof.
  unfold meet_back_iterator. destruct (folds_get (h_folds cid h) id) as [f|] eqn:G; [|discriminate].
  destruct (fold_back_iterator cid f (h_keeper cid h)) as [[f' k']| |] eqn:E; cbn [Handler.bind]; try discriminate.
  intros [= <-] K. apply fold_back_iterator_spec in E as [I R]. cbn [fst snd]. eapply fold_update_ok; eauto.
Qed.
Lemma meet_generation_end_ok (h h' : handler cid) id : meet_generation_end cid h id = Ok h' -> handler_ok h ->
  handler_ok h' /\ refs (result_trace cid h') = refs (result_trace cid h).
Proof.
  unfold meet_generation_end. destruct (folds_get (h_folds cid h) id) as [f|] eqn:G; [|discriminate].
  destruct (fold_generation_end cid f (h_keeper cid h)) as [f'| |] eqn:E; cbn [Handler.bind]; try discriminate.
  intros [= <-] K. apply fold_generation_end_spec in E. eapply fold_update_ok; eauto.
Qed.

Lemma try_merge_fold_result (k k1 : keeper cid) rp rc : try_merge_next_state_as_fold cid k = Ok (rp, rc, k1) -> kres k1 = kres k.
Proof.
  unfold try_merge_next_state_as_fold. pose proof (next_states_result k) as N.
  destruct (next_states cid k) as [[p c] k0]. cbn [snd] in N. intros H. rewrite <- N.
  destruct p as [[]|], c as [[]|]; try discriminate;
    repeat match type of H with
           | Handler.bind ?r _ = Ok _ => destruct r; cbn [Handler.bind] in H; try discriminate
           end; injection H as _ _ <-; reflexivity.
Qed.

Lemma fold_from_start_spec rp rc (k k2 : keeper cid) f : fold_from_start cid rp rc k = Ok (f, k2) ->
  kres k2 = kres k ++ [SPar 0 0] /\ ff_inserter f = len_N (kres k).
Proof.
  unfold fold_from_start. intros H.
  repeat match type of H with
         | Handler.bind ?r _ = Ok _ => destruct r; cbn [Handler.bind] in H; try discriminate
         end.
  injection H as <- <-. cbn. auto.
Qed.

Lemma meet_fold_start_ok (h h' : handler cid) id : Handler.meet_fold_start cid h id = Ok h' -> handler_ok h ->
  handler_ok h' /\ refs (result_trace cid h') = refs (result_trace cid h).
Proof.
  unfold Handler.meet_fold_start. intros H [A B].
  destruct (try_merge_next_state_as_fold cid (h_keeper cid h)) as [[[rp rc] k1]| |] eqn:E; cbn [Handler.bind] in H; try discriminate.
  destruct (fold_from_start cid rp rc k1) as [[f k2]| |] eqn:E2; cbn [Handler.bind] in H; try discriminate.
  injection H as <-. apply try_merge_fold_result in E. apply fold_from_start_spec in E2 as [R I].
  unfold handler_ok, result_trace in *. cbn [h_keeper h_pars h_folds fst snd]. rewrite R, E. split.
  - split.
    + revert A. apply Forall_impl. intros g. apply struct_at_push.
    + unfold folds_put. constructor.
      * cbn [snd]. rewrite I, E. apply struct_at_new. reflexivity.
      * apply Forall_filter. revert B. apply Forall_impl. intros g. apply struct_at_push.
  - rewrite refs_push. cbn. apply app_nil_r.
Qed.

Lemma meet_fold_end_ok (h h' : handler cid) id : Handler.meet_fold_end cid h id = Ok h' -> handler_ok h ->
  handler_ok h' /\ refs (result_trace cid h') = refs (result_trace cid h).
Proof.
  unfold Handler.meet_fold_end. destruct (folds_get (h_folds cid h) id) as [f|] eqn:G; [|discriminate]. intros H [A B].
  destruct (fold_end cid f (h_keeper cid h)) as [k1| |] eqn:E; cbn [Handler.bind] in H; try discriminate. injection H as <-.
  unfold fold_end in E. destruct (insert_state cid (h_keeper cid h) _ _) as [k0| |] eqn:E0; cbn [Handler.bind] in E; try discriminate.
  apply update_ctx_states_result in E. apply insert_state_spec in E0 as [E0 _].
  destruct (folds_get_in _ _ _ G) as [a Ha]. pose proof B as B'. rewrite Forall_forall in B'. pose proof (B' _ Ha) as Sf. cbn [snd] in Sf.
  unfold handler_ok, result_trace in *. cbn [h_keeper h_pars h_folds]. rewrite E, E0.
  destruct (replace_struct (kres (h_keeper cid h)) (ff_inserter f) (SFold (ff_result f)) Sf eq_refl) as [Rf Sq].
  split; [split|exact Rf].
  - revert A. apply Forall_impl. intros g. apply Sq.
  - unfold folds_del. apply Forall_filter. revert B. apply Forall_impl. intros g. apply Sq.
Qed.

Lemma update_generation_ok (h h' : handler cid) p g : update_generation cid h p g = inl h' -> handler_ok h ->
  handler_ok h' /\ refs (result_trace cid h') = refs (result_trace cid h).
Proof.
  unfold update_generation. intros H [A B]. cbv zeta in H.
  destruct (Trace.nth_N (kres (h_keeper cid h)) p) as [st|] eqn:E; [|discriminate].
  assert (nth_error (kres (h_keeper cid h)) (N.to_nat p) = Some st) as E'.
  { unfold Trace.nth_N in E. destruct (p <? _); [exact E|discriminate]. }
  clear E. rename E' into E.
  assert (forall new, state_ref new = state_ref st -> is_struct new = is_struct st ->
            handler_ok (with_keeper cid h (with_result cid (h_keeper cid h) (set_nth (kres (h_keeper cid h)) (N.to_nat p) new))) /\
            refs (result_trace cid (with_keeper cid h (with_result cid (h_keeper cid h) (set_nth (kres (h_keeper cid h)) (N.to_nat p) new)))) =
            refs (result_trace cid h)) as K.
  { intros new Rn Sn. unfold handler_ok, result_trace. cbn [h_keeper h_pars h_folds with_keeper with_result k_result].
    split; [split|apply (refs_set_nth new _ _ st E Rn)].
    - revert A. apply Forall_impl. intros f Hf. apply struct_at_set_nth; [exact Hf|]. intros old Ho. rewrite E in Ho. injection Ho as <-. congruence.
    - revert B. apply Forall_impl. intros f Hf. apply struct_at_set_nth; [exact Hf|]. intros old Ho. rewrite E in Ho. injection Ho as <-. congruence. }
  destruct st as [l r|[s|[c|c g0|c]|c]|gens|c|lore]; try discriminate; injection H as <-; apply K; reflexivity.
Qed.

(* ------------------------------------------------------------------------------------------ *)
(* stage 2: the instructions of ExecStreams.v preserve the invariant *)
From Aqua Require Import ExecStreams.

Section Stage2.
  Variable p0 : run_params.
  Variable b0 : bool.
  Notation P := (sign_inv p0 b0).

  Lemma inv_handler_step x h' :
    P x -> (handler_ok (x_handler x) -> handler_ok h' /\ refs (result_trace cid h') = refs (res_trace x)) -> P (set_handler x h').
  Proof.
    intros H K. pose proof H as (Hp & Ht & Ha & Hh & Hr & Hc). destruct (K Hh) as [K1 K2]. apply inv_same_refs; assumption.
  Qed.

  Lemma core_set_handler x y h : core y = core x -> core (set_handler y h) = core (set_handler x h).
  Proof. unfold core. intros [= A B C D]. cbn. rewrite A, B, C. reflexivity. Qed.

  Lemma inv_with_trace x (r : res (handler cid)) k :
    P x ->
    (forall h, r = Ok h -> handler_ok (x_handler x) -> handler_ok h /\ refs (result_trace cid h) = refs (res_trace x)) ->
    (forall y, P y -> xres_inv P (k y)) ->
    xres_inv P (with_trace x r k).
  Proof.
    intros H K Hk. unfold with_trace, with_handler. destruct r as [h|e|s]; cbn [xres_inv]; auto.
    apply Hk, inv_handler_step; auto.
  Qed.

  (* ---- ap into a stream ---- *)
  Lemma inv_exec_ap_stream x a sv : P x -> xres_inv P (exec_ap_stream x a sv).
  Proof.
    intros H. unfold exec_ap_stream. destruct (apply_to_arg x a true) as [v|e| |]; cbn [xres_inv]; auto.
    - unfold with_handler. destruct (meet_ap_start cid (x_handler x)) as [[r h]| |] eqn:E; cbn [xres_inv]; auto.
      apply meet_ap_start_spec in E as (R & Pp & F). cbn [fst snd].
      assert (P (set_handler x h)) as H0.
      { apply inv_handler_step; [exact H|]. intros K. split; [eapply handler_ok_same; eauto|unfold res_trace; f_equal; exact R]. }
      destruct (add_stream_value (set_handler x h) _ _ _ _) as [x1| | |] eqn:E1; cbn [xres_inv]; auto.
      apply add_stream_value_core in E1. assert (P x1) as H1 by (eapply inv_frame; eauto).
      apply (inv_push_neutral p0 b0 x1 _ (SAp [generation_stub])); auto; reflexivity.
    - destruct (is_joinable e); cbn [xres_inv]; auto; try frame.
  Qed.

  (* ---- canon ---- *)
  Lemma set_canon_value_spec x n c :
    match set_canon_value x n c with
    | POk y => core y = core x
    | PErr e => is_catchable e = false
    | _ => True
    end.
  Proof.
    unfold set_canon_value, Scalars.set_value.
    destruct (Scalars.cells_get _ _ _) as [[|last rest]|]; cbn; try reflexivity.
    destruct (negb _); cbn; [reflexivity|]. destruct (_ =? _); reflexivity.
  Qed.

  Lemma set_canon_map_value_spec x n c :
    match set_canon_map_value x n c with
    | POk y => core y = core x
    | PErr e => is_catchable e = false
    | _ => True
    end.
  Proof.
    unfold set_canon_map_value, Scalars.set_value.
    destruct (Scalars.cells_get _ _ _) as [[|last rest]|]; cbn; try reflexivity.
    destruct (negb _); cbn; [reflexivity|]. destruct (_ =? _); reflexivity.
  Qed.
  Lemma set_scalar_value_spec x n v :
    match set_scalar_value x n v with
    | POk y => core y = core x
    | PErr e => is_catchable e = false
    | _ => True
    end.
  Proof.
    unfold set_scalar_value, Scalars.set_value.
    destruct (Scalars.cells_get _ _ _) as [[|last rest]|]; cbn; try reflexivity.
    destruct (negb _); cbn; [reflexivity|]. destruct (_ =? _); reflexivity.
  Qed.

  (* the common end of the three epilogs: the context differs from the one in which the CID was registered by a frame *)
  Lemma inv_canon_finish x q c y :
    P x -> canon_peer c = Some q -> cid_mem c (cs_canon_results (x_cids x)) = true ->
    core y = core (record_cid x q c) ->
    P (set_handler y (meet_canon_end cid (x_handler y) (CanonExecuted c))).
  Proof.
    intros H Q M S.
    assert (x_handler y = x_handler x) as Eh.
    { injection S as _ _ _ Eh. rewrite Eh. unfold record_cid. destruct (String.eqb _ _); reflexivity. }
    rewrite Eh. eapply inv_frame; [apply core_set_handler, S|].
    apply (inv_record_push p0 b0 x q (false, c) (SCanon (CanonExecuted c))); auto; reflexivity.
  Qed.

  Lemma inv_canon_epilog k x q c values t :
    P x -> canon_peer c = Some q -> cid_mem c (cs_canon_results (x_cids x)) = true ->
    xres_inv P (canon_epilog k (record_cid x q c) values t c).
  Proof.
    intros H Q M. unfold canon_epilog. destruct k as [name|name|name].
    - pose proof (set_canon_value_spec (record_cid x q c) name {| cw_values := values; cw_tetraplet := t; cw_cid := c |}) as S.
      destruct (set_canon_value _ _ _) as [y|e| |]; cbn [lift xres_inv]; auto.
      + apply (inv_canon_finish x q c y); auto.
      + intros C. rewrite S in C. discriminate.
    - destruct (negb (kv_pairs_valid values)); cbn [xres_inv]; [intros C; discriminate C|].
      pose proof (set_canon_map_value_spec (record_cid x q c) name {| cmw_values := values; cmw_tetraplet := t; cmw_cid := c |}) as S.
      destruct (set_canon_map_value _ _ _) as [y|e| |]; cbn [lift xres_inv]; auto.
      + apply (inv_canon_finish x q c y); auto.
      + intros C. rewrite S in C. discriminate.
    - destruct values as [|v vs]; cbn [xres_inv]; [intros C; discriminate C|].
      match goal with |- context [set_scalar_value ?a ?b ?d] => pose proof (set_scalar_value_spec a b d) as S;
        destruct (set_scalar_value a b d) as [y|e| |] end; cbn [lift xres_inv]; auto.
      + apply (inv_canon_finish x q c y); auto.
      + intros C. rewrite S in C. discriminate.
  Qed.

  Lemma canon_values_by_cids_total cs l : match canon_values_by_cids cs l with PErr e => is_catchable e = false | _ => True end.
  Proof.
    induction l as [|c l IH]; cbn [canon_values_by_cids pbind]; [exact I|].
    unfold canon_value_by_cid at 1. destruct (negb (cid_mem c (cs_canon_elems cs))); cbn [pbind]; [reflexivity|].
    destruct c as [| | | |vc tc prov| |]; cbn [pbind]; auto.
    destruct (negb (cid_mem vc _)); cbn [pbind]; [reflexivity|]. destruct (negb (cid_mem tc _)); cbn [pbind]; [reflexivity|].
    destruct vc; cbn [pbind]; auto. destruct tc; cbn [pbind]; auto.
    destruct (canon_values_by_cids cs l); cbn [pbind]; auto.
  Qed.

  Lemma inv_handle_canon_executed k x p c : P x -> xres_inv P (handle_canon_executed k x p c).
  Proof.
    intros H. unfold handle_canon_executed. destruct (resolve_peer_id_to_string x p) as [peer|e| |]; cbn [lift xres_inv]; auto.
    destruct (cid_mem c (cs_canon_results (x_cids x))) eqn:M; cbn [negb xres_inv]; auto.
    destruct c as [| | | | |tc vcs|]; cbn [xres_inv]; auto.
    destruct (negb (cid_mem tc _)); cbn [xres_inv]; auto. destruct tc as [|t| | | | |]; cbn [xres_inv]; auto.
    destruct (verify_canon (canon_tetraplet peer) t) as [u|e| |]; cbn [lift xres_inv]; auto.
    destruct (canon_values_by_cids (x_cids x) vcs) as [values|e| |]; cbn [lift xres_inv]; auto.
    apply inv_canon_epilog; auto.
  Qed.

  Lemma track_canon_values_spec vs : forall cs,
    stores_le cs (track_canon_values cs vs) /\
    (cid_info_verify_np cs = true -> cid_info_verify_np (track_canon_values cs vs) = true) /\
    (forall v, In v vs -> cid_mem (canon_elem_cid v) (cs_canon_elems (track_canon_values cs vs)) = true) /\
    cs_canon_results (track_canon_values cs vs) = cs_canon_results cs /\ cs_services (track_canon_values cs vs) = cs_services cs.
  Proof.
    unfold track_canon_values. induction vs as [|v vs IH]; intros cs; cbn [fold_left].
    - split; [apply stores_le_refl|]. split; [auto|]. split; [intros v []|auto].
    - set (cs1 := {| cs_values := _ |}).
      assert (stores_le cs cs1) as L.
      { unfold stores_le, cs1. cbn [cs_values cs_tetraplets cs_canon_elems cs_canon_results cs_services].
        repeat split; intros c Hc; try apply cid_mem_track_mono; exact Hc. }
      destruct (IH cs1) as (L1 & V1 & E1 & R1 & S1). split; [eapply stores_le_trans; eauto|]. split; [|split; [|split]].
      + intros V. apply V1. revert V. rewrite !cid_info_np_parts. intros (Vv & Vt & Vr & Ve & Vs).
        unfold cs1 at 1 2 4 6 8. cbn [cs_values cs_tetraplets cs_canon_results cs_canon_elems cs_services].
        split; [apply forallb_track; auto|]. split; [apply forallb_track; auto|].
        split; [revert Vr; apply forallb_impl; intros c; apply canon_result_entry_ok_mono, L|].
        split; [|revert Vs; apply forallb_impl; intros c; apply service_entry_ok_mono, L].
        apply forallb_track; [revert Ve; apply forallb_impl; intros c; apply canon_elem_entry_ok_np_mono, L|].
        unfold cs1, canon_elem_cid. cbn [canon_elem_entry_ok_np cs_tetraplets cs_values]. rewrite !cid_mem_track_self. reflexivity.
      + intros w [<-|Hw]; [|apply E1, Hw].
        destruct L1 as (_ & _ & Le & _ & _). apply Le. unfold cs1. cbn [cs_canon_elems]. apply cid_mem_track_self.
      + rewrite R1. reflexivity.
      + rewrite S1. reflexivity.
  Qed.

  Lemma inv_create_canon_first_time k tb x stream peer : P x -> xres_inv P (create_canon_first_time k tb x stream peer).
  Proof.
    intros H. unfold create_canon_first_time.
    set (values := canon_producer k tb x stream peer).
    set (cs1 := track_canon_values (x_cids x) values).
    set (rc := CCanonResult (CTetraplet (canon_tetraplet peer)) (map canon_elem_cid values)).
    set (cs2 := {| cs_values := cs_values cs1 |}).
    destruct (track_canon_values_spec values (x_cids x)) as (L1 & V1 & E1 & R1 & S1). fold cs1 in L1, V1, E1, R1, S1.
    assert (stores_le cs1 cs2) as L2.
    { unfold stores_le, cs2. cbn [cs_values cs_tetraplets cs_canon_elems cs_canon_results cs_services].
      repeat split; intros c Hc; try apply cid_mem_track_mono; exact Hc. }
    assert (P (set_cids x cs2 (x_tracker x))) as H2.
    { apply inv_grow; [exact H|eapply stores_le_trans; eauto|]. intros V. specialize (V1 V). revert V1.
      rewrite !cid_info_np_parts. intros (Vv & Vt & Vr & Ve & Vs).
      unfold cs2 at 1 2 4 6 8. cbn [cs_values cs_tetraplets cs_canon_results cs_canon_elems cs_services].
      split; [exact Vv|]. split; [apply forallb_track; auto|].
      split; [|split; [revert Ve; apply forallb_impl; intros c; apply canon_elem_entry_ok_np_mono, L2
                      |revert Vs; apply forallb_impl; intros c; apply service_entry_ok_mono, L2]].
      apply forallb_track; [revert Vr; apply forallb_impl; intros c; apply canon_result_entry_ok_mono, L2|].
      unfold rc, cs2. cbn [canon_result_entry_ok cs_canon_elems cs_tetraplets]. rewrite cid_mem_track_self, andb_true_r.
      apply forallb_forall. intros c Hc. apply in_map_iff in Hc as (v & <- & Hv). apply E1, Hv. }
    apply (inv_canon_epilog k (set_cids x cs2 (x_tracker x)) peer rc); [exact H2|reflexivity|].
    unfold cs2. cbn [x_cids set_cids cs_canon_results]. apply cid_mem_track_self.
  Qed.

  Lemma inv_meet_canon_start x r h : P x -> meet_canon_start cid cid_eqb (x_handler x) = Ok (r, h) -> P (set_handler x h).
  Proof.
    intros H E. apply meet_canon_start_spec in E as (R & Pp & F). apply inv_handler_step; [exact H|].
    intros K. split; [eapply handler_ok_same; eauto|unfold res_trace; f_equal; exact R].
  Qed.

  Lemma inv_canon_sent x s : P x -> P (set_handler x (meet_canon_end cid (x_handler x) (CanonRequestSentBy s))).
  Proof. intros H. apply (inv_push_neutral p0 b0 x _ (SCanon (CanonRequestSentBy s))); auto; reflexivity. Qed.

  Lemma inv_exec_canon_generic k tb x p s : P x -> xres_inv P (exec_canon_generic k tb x p s).
  Proof.
    intros H. unfold exec_canon_generic, with_handler.
    destruct (meet_canon_start cid cid_eqb (x_handler x)) as [[r h]| |] eqn:E; cbn [xres_inv]; auto.
    pose proof (inv_meet_canon_start _ _ _ H E) as H0. cbn [fst snd].
    destruct r as [|[sender|c0]].
    - destruct (resolve_peer_id_to_string (set_handler x h) p) as [peer|e| |]; cbn [xres_inv]; auto.
      + destruct (negb _); [|apply inv_create_canon_first_time, H0]. cbn [xres_inv].
        match goal with |- P (set_handler ?y _) => assert (P y) as Hy by frame end. apply (inv_canon_sent _ _ Hy).
      + destruct (is_joinable e); cbn [xres_inv]; auto; try frame.
    - destruct (resolve_peer_id_to_string (set_handler x h) p) as [peer|e| |]; cbn [lift xres_inv]; auto.
      destruct (negb _); [|apply inv_create_canon_first_time, H0]. cbn [xres_inv].
      match goal with |- P (set_handler ?y _) => assert (P y) as Hy by frame end. apply (inv_canon_sent _ _ Hy).
    - apply inv_handle_canon_executed, H0.
  Qed.

  (* ---- compactification ---- *)
  Lemma apply_updates_ok ups : forall (h h' : handler cid),
    Stream.apply_updates (update_generation cid) h ups = inl h' -> handler_ok h ->
    handler_ok h' /\ refs (result_trace cid h') = refs (result_trace cid h).
  Proof.
    induction ups as [|[p g] ups IH]; intros h h'; cbn [Stream.apply_updates].
    - intros [= <-] K. auto.
    - destruct (update_generation cid h p g) as [h1|e] eqn:E; [|discriminate]. intros E2 K.
      destruct (update_generation_ok _ _ _ _ E K) as [K1 R1]. destruct (IH _ _ E2 K1) as [K2 R2]. split; [exact K2|congruence].
  Qed.

  Lemma inv_run_compact_plan x pl : P x -> xres_strong P (run_compact_plan x pl).
  Proof.
    intros H. unfold run_compact_plan, Stream.run_plan.
    destruct (Stream.apply_updates (update_generation cid) (x_handler x) (Stream.cp_updates pl)) as [h|e] eqn:E; cbn [xres_strong]; auto.
    destruct (Stream.cp_crash pl); cbn [xres_strong]; auto.
    apply inv_handler_step; [exact H|]. intros K. apply (apply_updates_ok _ _ _ E K).
  Qed.

  Lemma core_with_table t x m : core (with_table t x m) = core x.
  Proof. destruct t; reflexivity. Qed.
  Lemma inv_with_table t x m : P x -> P (with_table t x m).
  Proof. intros H. eapply inv_frame; [apply core_with_table|exact H]. Qed.
  Lemma inv_put_in t x n p s : P x -> P (put_in t x n p s).
  Proof. intros H. unfold put_in. apply inv_with_table, H. Qed.

  Lemma inv_new_stream_epilog t x name : P x -> xres_strong P (new_stream_epilog t x name).
  Proof.
    intros H. unfold new_stream_epilog. destruct (Stream.streams_meet_scope_end _ _ _ _) as [[[m s] pl]| |]; cbn [xres_strong]; auto.
    apply inv_run_compact_plan, inv_with_table, H.
  Qed.

  (* ---- ap into a stream map ---- *)
  Lemma inv_exec_ap_map x k a m : P x -> xres_inv P (exec_ap_map x k a m).
  Proof.
    intros H. unfold exec_ap_map. destruct (apply_to_arg x a true) as [v|e| |]; cbn [xres_inv]; auto.
    - unfold with_handler. destruct (meet_ap_start cid (x_handler x)) as [[r h]| |] eqn:E; cbn [xres_inv]; auto.
      apply meet_ap_start_spec in E as (R & Pp & F). cbn [fst snd].
      assert (P (set_handler x h)) as H0.
      { apply inv_handler_step; [exact H|]. intros K. split; [eapply handler_ok_same; eauto|unfold res_trace; f_equal; exact R]. }
      destruct (resolve_map_key (set_handler x h) k) as [key|e| |]; cbn [xres_inv]; auto.
      + destruct (Stream.streams_add_stream_value _ _ _ _ _ _) as [tbl| |]; cbn [xres_inv]; auto.
        assert (P (with_table TMaps (set_handler x h) tbl)) as H1 by (apply inv_with_table, H0).
        apply (inv_push_neutral p0 b0 _ _ (SAp [generation_stub])); auto; reflexivity.
      + destruct (is_joinable e); cbn [xres_inv]; auto; try frame.
    - destruct (is_joinable e); cbn [xres_inv]; auto; try frame.
  Qed.

  Section WithRun.
    Variable run : instr -> ctx -> xres.
    Hypothesis Hrun : exec_preserves P run.

    Lemma inv_exec_new_stream t x sv body sp : P x -> xres_inv P (exec_new_stream t run x sv body sp).
    Proof.
      intros H. unfold exec_new_stream.
      match goal with |- xres_inv P (match run body ?x1 with _ => _ end) => assert (P x1) as H1 by (apply inv_with_table, H); pose proof (Hrun body _ H1) as R;
        destruct (run body x1) as [y|e y| | |] end; cbn [xres_inv] in *; auto.
      - apply xres_inv_strong, inv_new_stream_epilog, R.
      - pose proof (fun C => inv_new_stream_epilog t y (v_name sv) (R C)) as K.
        destruct (new_stream_epilog t y (v_name sv)) as [y'|e' y'| | |]; cbn [xres_inv xres_strong] in *; auto.
    Qed.

    Lemma inv_exec_new_canon_map x v body : P x -> xres_inv P (exec_new_canon_map run x v body).
    Proof.
      intros H. unfold exec_new_canon_map.
      match goal with |- xres_inv P (match run body ?x1 with _ => _ end) => assert (P x1) as H1 by frame; pose proof (Hrun body _ H1) as R;
        destruct (run body x1) as [y|e y| | |] end; cbn [xres_inv] in *; auto.
      - destruct (Scalars.meet_new_end _ _ _); cbn [lift xres_inv]; auto; try frame; try (intros C; discriminate C).
      - destruct (Scalars.meet_new_end _ _ _); cbn [xres_inv]; auto; try (intros C; specialize (R C); frame).
    Qed.

    (* ---- stream folds ---- *)
    Lemma inv_fold_batch x batch fold_id iter body last : P x -> xres_inv P (fold_batch run x batch fold_id iter body last).
    Proof.
      intros H. unfold fold_batch. destruct (iter_get _ _); cbn [xres_inv]; [intros _; frame|].
      match goal with |- xres_inv P (match run body ?x2 with _ => _ end) => assert (P x2) as H2 by frame; pose proof (Hrun body _ H2) as R;
        destruct (run body x2) as [y|e y| | |] end; cbn [xres_inv] in *; auto; try frame.
      all: try (intros C; specialize (R C); frame).
    Qed.

    Lemma inv_execute_iterations batches : forall x fold_id iter body last observed,
      P x -> xres_inv P (fst (execute_iterations run x batches fold_id iter body last observed)).
    Proof.
      induction batches as [|b rest IH]; intros x fold_id iter body last observed H; cbn [execute_iterations fst xres_inv]; auto.
      destruct b as [|v b']; [apply IH, H|].
      destruct (meet_iteration_start cid (x_handler x) fold_id (va_pos v)) as [h| |] eqn:E; cbn [fst xres_inv]; auto.
      assert (P (set_handler x h)) as H0 by (apply inv_handler_step; [exact H|apply (meet_iteration_start_ok _ _ _ _ E)]).
      assert (forall y, P y ->
                xres_inv P (fst match meet_generation_end cid (x_handler y) fold_id with
                                | Err e => (XErr (trace_err e) y, observed)
                                | Crash _ => (XCrash "trace handler panic", observed)
                                | Ok h' => execute_iterations run (set_handler y h') rest fold_id iter body last
                                             (observed || x_complete (set_handler y h'))
                                end)) as After.
      { intros y Hy. destruct (meet_generation_end cid (x_handler y) fold_id) as [h'| |] eqn:E2; cbn [fst xres_inv]; auto.
        apply IH. apply inv_handler_step; [exact Hy|apply (meet_generation_end_ok _ _ _ E2)]. }
      pose proof (inv_fold_batch (set_handler x h) (v :: b') fold_id iter body last H0) as R.
      destruct (fold_batch run (set_handler x h) (v :: b') fold_id iter body last) as [y|e y| | |]; cbn [fst xres_inv] in *; auto.
      destruct (is_catchable e) eqn:Ec.
      - apply After, R; reflexivity.
      - cbn [fst xres_inv]. intros C. rewrite C in Ec. discriminate.
    Qed.

    Lemma inv_fold_stream_loop t n : forall x st rc sv iter body last fold_id observed,
      P x -> xres_inv P (fst (fold_stream_loop t n run x st rc sv iter body last fold_id observed)).
    Proof.
      induction n as [|n IH]; intros x st rc sv iter body last fold_id observed H; destruct st as [batches|]; cbn [fold_stream_loop fst xres_inv]; auto.
      pose proof (inv_execute_iterations batches x fold_id iter body last observed H) as R.
      destruct (execute_iterations run x batches fold_id iter body last observed) as [[y|e y| | |] obs]; cbn [fst xres_inv] in *; auto.
      destruct (get_in t y (v_name sv) (v_pos sv)) as [s|]; cbn [fst xres_inv]; auto.
      destruct (Stream.met_iteration_end vagg rc s) as [[[st' rc'] s']| |]; cbn [fst xres_inv]; auto.
      all: try (apply IH, inv_put_in; assumption).
    Qed.

    Lemma inv_exec_fold_stream t x sv iter body last : P x -> xres_inv P (exec_fold_stream t run x sv iter body last).
    Proof.
      intros H. unfold exec_fold_stream. destruct (get_in t x (v_name sv) (v_pos sv)) as [s|]; cbn [xres_inv]; [|frame].
      apply inv_with_trace; [frame|intros h E; apply (meet_fold_start_ok _ _ _ E)|]. intros x2 H2.
      destruct (Stream.met_fold_start vagg Stream.rcursor_new s) as [[[st rc] s']| |]; cbn [xres_inv]; auto.
      match goal with |- xres_inv P (let (_, _) := fold_stream_loop ?t0 ?n run ?x3 ?a ?b ?c ?d ?e ?f ?g ?o in _) =>
        assert (P x3) as H3 by (apply inv_put_in, H2); pose proof (inv_fold_stream_loop t0 n x3 a b c d e f g o H3) as R;
        destruct (fold_stream_loop t0 n run x3 a b c d e f g o) as [[y|e0 y| | |] obs] end; cbn [fst xres_inv] in *; auto.
      apply inv_with_trace; [frame|intros h E; apply (meet_fold_end_ok _ _ _ E)|]. intros y2 Hy2. exact Hy2.
    Qed.

    Lemma inv_exec_next_stream x iter fs fold_id : P x -> xres_inv P (exec_next_stream run x iter fs fold_id).
    Proof.
      intros H. unfold exec_next_stream.
      apply inv_with_trace; [exact H|intros h E; apply (meet_iteration_end_ok _ _ _ E)|]. intros x0 H0.
      destruct (it_next (fs_iterable fs)) as [moved it']. destruct (negb moved).
      - apply inv_with_trace; [exact H0|intros h E; apply (meet_back_iterator_ok _ _ _ E)|]. intros x1 H1.
        destruct (fs_last fs); [apply Hrun; frame|]. destruct (negb (fs_back_started fs)); cbn [xres_inv]; [frame|exact H1].
      - destruct (it_peek it') as [item|]; cbn [xres_inv]; auto.
        apply inv_with_trace; [frame|intros h E; apply (meet_iteration_start_ok _ _ _ _ E)|]. intros x2 H2.
        match goal with |- xres_inv P (match run ?b ?x3 with _ => _ end) => assert (P x3) as H3 by frame; pose proof (Hrun b _ H3) as R;
          destruct (run b x3) as [y|e y| | |] end; cbn [xres_inv] in *; auto.
        all: try (intros C; specialize (R C); frame).
        destruct (iter_get _ _); cbn [xres_inv]; [|intros _; frame].
        apply inv_with_trace; [frame|intros h E; apply (meet_back_iterator_ok _ _ _ E)|]. intros y3 Hy3. exact Hy3.
    Qed.
  End WithRun.

  Theorem stream_instr_preserves : stream_hook_preserves P stream_instr.
  Proof.
    intros run i x r Hrun H E.
    destruct i as [text t args out|text a dst|text k a m|text p s c|text p m c|text p m s|i1 i2|i1 i2|i1 i2
                   |text lhs rhs body|text lhs rhs body|text f|text iterable iter body last sp|text s iter body last sp
                   |text m iter body last sp| |text arg body sp|text iter| |]; cbn [stream_instr] in E; try discriminate.
    - destruct dst; [discriminate|]. injection E as <-. apply inv_exec_ap_stream, H.
    - injection E as <-. apply inv_exec_ap_map, H.
    - injection E as <-. apply inv_exec_canon_generic, H.
    - injection E as <-. apply inv_exec_canon_generic, H.
    - injection E as <-. apply inv_exec_canon_generic, H.
    - injection E as <-. apply inv_exec_fold_stream; assumption.
    - injection E as <-. apply inv_exec_fold_stream; assumption.
    - destruct arg; try discriminate; injection E as <-;
        first [apply inv_exec_new_stream; assumption|apply inv_exec_new_canon_map; assumption].
    - destruct (iter_get _ _) as [fs|]; [|discriminate]. destruct (fs_type fs); [discriminate|].
      injection E as <-. apply inv_exec_next_stream; assumption.
  Qed.

  Lemma inv_compactify_table t x : P x -> xres_strong P (compactify_table t x).
  Proof.
    intros H. unfold compactify_table. destruct (Stream.streams_compactify _ _ _ _) as [m pl].
    apply inv_run_compact_plan, inv_with_table, H.
  Qed.

  Theorem finish_streams_preserves x x' : P x -> finish_streams x = inl x' -> P x'.
  Proof.
    intros H. unfold finish_streams.
    pose proof (inv_compactify_table TStreams x H) as R.
    destruct (compactify_table TStreams x) as [y|e y| | |]; cbn [xres_strong] in R; try discriminate; [|destruct e; discriminate].
    pose proof (inv_compactify_table TMaps y R) as R2.
    destruct (compactify_table TMaps y) as [z|e z| | |]; cbn [xres_strong] in R2; try discriminate; [|destruct e; discriminate].
    intros [= <-]. exact R2.
  Qed.
End Stage2.

Theorem hook_ok_stream_instr : hook_ok stream_instr.
Proof. intros p0 b0. apply stream_instr_preserves. Qed.
Theorem finish_ok_finish_streams : finish_ok finish_streams.
Proof. intros p0 b0 x x'. apply finish_streams_preserves. Qed.
Theorem hook_ok_no_streams : hook_ok no_streams.
Proof. intros p0 b0 run i x r _ _ E. discriminate E. Qed.
Theorem finish_ok_no_finish : finish_ok no_finish.
Proof. intros p0 b0 x x' H [= <-]. exact H. Qed.
