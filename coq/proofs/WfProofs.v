(* WfProofs.v -- proofs for property C10 (model/WfTrace.v).
   Part A: lists, [wf_trace_b] <-> [wf_trace].
   Part B: what every TraceHandler API call does to the result trace, the par stack and the fold FSMs.
   Part C: the driver-tree induction: every driven result trace is a forest with tiled fold lores.
   Part D: value positions (under the checked driver) and generations. *)
From Coq Require Import Lia.
From Aqua Require Import Base Trace Handler WfTrace.
Open Scope N_scope.
Open Scope list_scope.

(* ===================================================================== *)
(* Part A *)

Lemma len_N_app {A} (a b : list A) : len_N (a ++ b) = len_N a + len_N b.
Proof. unfold len_N. rewrite app_length. lia. Qed.
Lemma len_N_nil {A} : len_N (@nil A) = 0.
Proof. reflexivity. Qed.
Lemma len_N_cons {A} (x : A) l : len_N (x :: l) = 1 + len_N l.
Proof. unfold len_N. simpl length. lia. Qed.
Lemma len_N_one {A} (x : A) : len_N [x] = 1.
Proof. reflexivity. Qed.

Lemma nth_N_some {A} (l : list A) p x : nth_N l p = Some x -> p < len_N l.
Proof.
  unfold nth_N, len_N. destruct (p <? N.of_nat (length l)) eqn:E; [|discriminate].
  intros _. apply N.ltb_lt in E. exact E.
Qed.
Lemma nth_N_app_l {A} (a b : list A) p : p < len_N a -> nth_N (a ++ b) p = nth_N a p.
Proof.
  intros Hp. unfold nth_N, len_N in *. rewrite app_length.
  assert (E1 : (p <? N.of_nat (length a + length b)) = true) by (apply N.ltb_lt; lia).
  assert (E2 : (p <? N.of_nat (length a)) = true) by (apply N.ltb_lt; lia).
  rewrite E1, E2. apply nth_error_app1. lia.
Qed.
Lemma nth_N_app_r {A} (a b : list A) p : nth_N (a ++ b) (len_N a + p) = nth_N b p.
Proof.
  unfold nth_N, len_N. rewrite app_length.
  destruct (p <? N.of_nat (length b)) eqn:E.
  - apply N.ltb_lt in E.
    assert (E1 : (N.of_nat (length a) + p <? N.of_nat (length a + length b)) = true) by (apply N.ltb_lt; lia).
    rewrite E1. rewrite nth_error_app2 by lia. f_equal. lia.
  - apply N.ltb_ge in E.
    assert (E1 : (N.of_nat (length a) + p <? N.of_nat (length a + length b)) = false) by (apply N.ltb_ge; lia).
    rewrite E1. reflexivity.
Qed.
Lemma nth_N_mid {A} (a b : list A) x : nth_N (a ++ x :: b) (len_N a) = Some x.
Proof.
  replace (len_N a) with (len_N a + 0) by lia. rewrite nth_N_app_r.
  unfold nth_N. simpl. reflexivity.
Qed.
Lemma nth_N_In {A} (l : list A) p x : nth_N l p = Some x -> In x l.
Proof.
  unfold nth_N. destruct (p <? _); [|discriminate]. apply nth_error_In.
Qed.
Lemma In_nth_N {A} (l : list A) x : In x l -> exists p, nth_N l p = Some x.
Proof.
  intros H. apply In_nth_error in H. destruct H as [n Hn]. exists (N.of_nat n).
  unfold nth_N. assert (n < length l)%nat by (apply nth_error_Some; congruence).
  assert (E : (N.of_nat n <? N.of_nat (length l)) = true) by (apply N.ltb_lt; lia).
  rewrite E, Nat2N.id. exact Hn.
Qed.

Lemma set_nth_length {A} (l : list A) n x : length (set_nth l n x) = length l.
Proof. revert n. induction l; destruct n; simpl; auto. Qed.
Lemma set_nth_app_mid {A} (a b : list A) x y : set_nth (a ++ x :: b) (length a) y = a ++ y :: b.
Proof. induction a; simpl; [reflexivity|]. now rewrite IHa. Qed.
Lemma set_nth_nth_error_same {A} (l : list A) n x : (n < length l)%nat -> nth_error (set_nth l n x) n = Some x.
Proof. revert n. induction l; destruct n; simpl; intros; try lia; auto. apply IHl. lia. Qed.
Lemma set_nth_nth_error_other {A} (l : list A) n m x : n <> m -> nth_error (set_nth l n x) m = nth_error l m.
Proof. revert n m. induction l; destruct n, m; simpl; intros; try congruence; auto. Qed.
Lemma nth_N_set_nth_same {A} (l : list A) p x : p < len_N l -> nth_N (set_nth l (N.to_nat p) x) p = Some x.
Proof.
  intros H. unfold nth_N, len_N in *. rewrite set_nth_length.
  assert (E : (p <? N.of_nat (length l)) = true) by (apply N.ltb_lt; lia). rewrite E.
  apply set_nth_nth_error_same. lia.
Qed.
Lemma nth_N_set_nth_other {A} (l : list A) p q x : p <> q -> nth_N (set_nth l (N.to_nat p) x) q = nth_N l q.
Proof.
  intros H. unfold nth_N. rewrite set_nth_length. destruct (q <? _); [|reflexivity].
  apply set_nth_nth_error_other. lia.
Qed.
Lemma len_N_set_nth {A} (l : list A) n x : len_N (set_nth l n x) = len_N l.
Proof. unfold len_N. now rewrite set_nth_length. Qed.
Lemma split_at_N {A} (l : list A) p : p < len_N l -> exists a x b, l = a ++ x :: b /\ len_N a = p.
Proof.
  intros H. unfold len_N in H.
  destruct (nth_error l (N.to_nat p)) as [x0|] eqn:E.
  - apply nth_error_split in E. destruct E as (l1 & l2 & -> & Hl). exists l1, x0, l2. split; [reflexivity|].
    unfold len_N. lia.
  - apply nth_error_None in E. lia.
Qed.

Section WfA.
  Variable C : Type.
  Notation state := (state C).
  Notation trace := (list state).
  Notation forest := (forest C).
  Notation forest_b := (forest_b C).

  (* ---- lore ---- *)
  Lemma befores_end_app e g1 g2 :
    befores_end e (g1 ++ g2) = match befores_end e g1 with Some m => befores_end m g2 | None => None end.
  Proof.
    revert e. induction g1 as [|x r IH]; simpl; intros e; [reflexivity|].
    destruct (entry_descs x) as [[b a]|]; [|reflexivity]. destruct (sd_pos b =? e); [|reflexivity]. apply IH.
  Qed.
  Lemma afters_end_app e g1 g2 :
    afters_end e (g1 ++ g2) = match afters_end e g1 with Some m => afters_end m g2 | None => None end.
  Proof.
    revert e. induction g1 as [|x r IH]; simpl; intros e; [reflexivity|].
    destruct (entry_descs x) as [[b a]|]; [|reflexivity]. destruct (sd_pos a =? e); [|reflexivity]. apply IH.
  Qed.

  Definition befores_len (g : list fold_sub_lore) : N :=
    fold_right (fun x acc => match entry_descs x with Some (b, _) => sd_len b | None => 0 end + acc) 0 g.
  Definition afters_len (g : list fold_sub_lore) : N :=
    fold_right (fun x acc => match entry_descs x with Some (_, a) => sd_len a | None => 0 end + acc) 0 g.
  Lemma befores_end_len e g m : befores_end e g = Some m -> m = e + befores_len g.
  Proof.
    revert e. induction g as [|x r IH]; simpl; intros e H.
    - inversion H. lia.
    - destruct (entry_descs x) as [[b a]|]; [|discriminate]. destruct (sd_pos b =? e); [|discriminate].
      apply IH in H. lia.
  Qed.
  Lemma afters_end_len e g m : afters_end e g = Some m -> m = e + afters_len g.
  Proof.
    revert e. induction g as [|x r IH]; simpl; intros e H.
    - inversion H. lia.
    - destruct (entry_descs x) as [[b a]|]; [|discriminate]. destruct (sd_pos a =? e); [|discriminate].
      apply IH in H. lia.
  Qed.
  Lemma afters_len_app g1 g2 : afters_len (g1 ++ g2) = afters_len g1 + afters_len g2.
  Proof. induction g1; simpl; [reflexivity|]. unfold afters_len in *. simpl. rewrite IHg1. lia. Qed.
  Lemma afters_len_rev g : afters_len (rev g) = afters_len g.
  Proof.
    induction g; simpl; [reflexivity|]. rewrite afters_len_app, IHg. unfold afters_len. simpl. lia.
  Qed.
  Lemma span_split g : lore_span g = befores_len g + afters_len g.
  Proof.
    induction g as [|x r IH]; [reflexivity|]. unfold lore_span, befores_len, afters_len in *. simpl.
    rewrite IH. unfold entry_len. destruct (entry_descs x) as [[b a]|]; lia.
  Qed.
  Lemma lore_span_app g1 g2 : lore_span (g1 ++ g2) = lore_span g1 + lore_span g2.
  Proof. induction g1; simpl; [reflexivity|]. unfold lore_span in *. simpl. rewrite IHg1. lia. Qed.

  Lemma group_end_span e g e1 : group_end e g = Some e1 -> e1 = e + lore_span g.
  Proof.
    unfold group_end. destruct (befores_end e g) as [m|] eqn:B; [|discriminate]. intros A.
    apply befores_end_len in B. apply afters_end_len in A. rewrite afters_len_rev in A.
    rewrite span_split. lia.
  Qed.

  Lemma lore_ok_span e l e' : lore_ok e l e' -> e' = e + lore_span l.
  Proof.
    induction 1.
    - unfold lore_span. simpl. lia.
    - apply group_end_span in H0. rewrite lore_span_app. lia.
  Qed.

  Lemma lore_ok_snoc e l e1 g e2 :
    lore_ok e l e1 -> g <> [] -> group_end e1 g = Some e2 -> lore_ok e (l ++ g) e2.
  Proof.
    induction 1; intros Hg He.
    - simpl. rewrite <- (app_nil_r g). econstructor; eauto. constructor.
    - rewrite <- app_assoc. econstructor; eauto.
  Qed.

  Lemma lore_ok_b_sound f e l : lore_ok_b f e l = true -> exists e', lore_ok e l e'.
  Proof.
    revert e l. induction f as [|f IH]; intros e l H.
    - destruct l; [eexists; constructor|discriminate].
    - destruct l as [|x r]; [eexists; constructor|].
      cbn [lore_ok_b] in H. apply existsb_exists in H. destruct H as (k & Hk & H).
      apply in_seq in Hk.
      destruct (group_end e (firstn k (x :: r))) as [e1|] eqn:G; [|discriminate].
      apply IH in H. destruct H as [e' H]. exists e'.
      rewrite <- (firstn_skipn k (x :: r)). econstructor; eauto.
      destruct k; [lia|]. simpl. discriminate.
  Qed.
  Lemma lore_ok_b_complete e l e' : lore_ok e l e' -> forall f, (length l <= f)%nat -> lore_ok_b f e l = true.
  Proof.
    induction 1; intros f Hf.
    - destruct f; reflexivity.
    - destruct g as [|x g']; [congruence|].
      destruct f; [simpl in Hf; lia|].
      cbn [lore_ok_b app]. apply existsb_exists. exists (length (x :: g')). split.
      + apply in_seq. simpl in *. rewrite app_length in Hf. rewrite app_length. lia.
      + change (x :: g' ++ rest) with ((x :: g') ++ rest).
        rewrite firstn_app, Nat.sub_diag, firstn_all, firstn_O, app_nil_r, H0.
        rewrite skipn_app, Nat.sub_diag, skipn_all. simpl skipn. apply IHlore_ok.
        simpl in Hf. rewrite app_length in Hf. lia.
  Qed.

  (* ---- forest ---- *)
  Lemma forest_le t a b : forest t a b -> a <= b.
  Proof.
    induction 1; lia.
  Qed.
  Lemma forest_trans t a b c : forest t a b -> forest t b c -> forest t a c.
  Proof.
    induction 1; intros Hc; eauto.
    - econstructor 2; eauto.
    - econstructor 3; eauto.
    - econstructor 4; eauto.
  Qed.

  Lemma forest_b_sound f t a b : forest_b f t a b = true -> forest t a b.
  Proof.
    revert a b. induction f as [|f IH]; intros a b H; [discriminate|].
    cbn [forest_b] in H.
    destruct (a =? b) eqn:E; [apply N.eqb_eq in E; subst; constructor|].
    destruct (b <? a) eqn:E2; [discriminate|].
    destruct (nth_N t a) as [s|] eqn:Hn; [|discriminate].
    destruct s.
    - repeat (apply andb_prop in H; destruct H as [H ?]). econstructor 3; eauto.
    - econstructor 2; eauto.
    - econstructor 2; eauto.
    - econstructor 2; eauto.
    - repeat (apply andb_prop in H; destruct H as [H ?]).
      apply lore_ok_b_sound in H. destruct H as [e' H]. pose proof (lore_ok_span _ _ _ H) as He. subst e'.
      econstructor 4; eauto.
  Qed.

  Lemma forest_b_complete t a b : forest t a b -> forall f, (N.to_nat (b - a) < f)%nat -> forest_b f t a b = true.
  Proof.
    induction 1 as [a | a b s Hn Hl H1 IH1 | a b l r Hn H1 IH1 H2 IH2 H3 IH3 | a b lore e Hn Hlo H1 IH1 H2 IH2]; intros f Hf.
    - destruct f; [lia|]. cbn [forest_b]. now rewrite N.eqb_refl.
    - pose proof (forest_le _ _ _ H1) as Hle.
      destruct f; [lia|]. cbn [forest_b].
      assert (E : (a =? b) = false) by (apply N.eqb_neq; lia). rewrite E.
      assert (E2 : (b <? a) = false) by (apply N.ltb_ge; lia). rewrite E2, Hn.
      assert (R : forest_b f t (a + 1) b = true) by (apply IH1; lia).
      destruct s; simpl in Hl; try discriminate; exact R.
    - pose proof (forest_le _ _ _ H1) as L1. pose proof (forest_le _ _ _ H2) as L2. pose proof (forest_le _ _ _ H3) as L3.
      destruct f; [lia|]. cbn [forest_b].
      assert (E : (a =? b) = false) by (apply N.eqb_neq; lia). rewrite E.
      assert (E2 : (b <? a) = false) by (apply N.ltb_ge; lia). rewrite E2, Hn.
      rewrite IH1, IH2, IH3 by lia.
      assert (E3 : (a + 1 + l + r <=? b) = true) by (apply N.leb_le; lia). rewrite E3. reflexivity.
    - pose proof (forest_le _ _ _ H1) as L1. pose proof (forest_le _ _ _ H2) as L2.
      pose proof (lore_ok_span _ _ _ Hlo) as He. subst e.
      destruct f; [lia|]. cbn [forest_b].
      assert (E : (a =? b) = false) by (apply N.eqb_neq; lia). rewrite E.
      assert (E2 : (b <? a) = false) by (apply N.ltb_ge; lia). rewrite E2, Hn.
      cbv zeta. rewrite (lore_ok_b_complete _ _ _ Hlo) by lia.
      rewrite IH1, IH2 by lia.
      assert (E3 : (a + 1 + lore_span lore <=? b) = true) by (apply N.leb_le; lia). rewrite E3. reflexivity.
  Qed.

  Lemma wf_struct_b_iff t : wf_struct_b C t = true <-> wf_struct C t.
  Proof.
    unfold wf_struct_b, wf_struct. split.
    - apply forest_b_sound.
    - intros H. apply forest_b_complete; [exact H|]. unfold len_N. lia.
  Qed.

  (* ---- value positions, stubs ---- *)
  Lemma vp_ok_b_iff t : vp_ok_b C t = true <-> vp_ok C t.
  Proof.
    unfold vp_ok_b, vp_ok. rewrite forallb_forall. split.
    - intros H p lore x Hp Hx. apply nth_N_In in Hp. apply H in Hp. simpl in Hp.
      rewrite forallb_forall in Hp. apply Hp in Hx. unfold entry_vp_ok in Hx.
      destruct (fl_descs x) as [|b rest]; [discriminate|]. apply andb_prop in Hx. destruct Hx as [H1 H2].
      exists b, rest. split; [reflexivity|]. split; [now apply N.ltb_lt|exact H2].
    - intros H s Hs. destruct s; try reflexivity. simpl. apply forallb_forall. intros x Hx.
      apply In_nth_N in Hs. destruct Hs as [p Hp].
      destruct (H p lore x Hp Hx) as (b & rest & E & L & S). unfold entry_vp_ok. rewrite E.
      apply andb_true_intro. split; [now apply N.ltb_lt|exact S].
  Qed.
  Lemma no_stub_b_iff t : no_stub_b C t = true <-> no_stub C t.
  Proof. unfold no_stub_b, no_stub. apply forallb_forall. Qed.

  Theorem wf_trace_b_iff : C10_wf_bool_stmt C.
  Proof.
    intros t. unfold wf_trace_b, wf_trace. rewrite !andb_true_iff, wf_struct_b_iff, vp_ok_b_iff, no_stub_b_iff. tauto.
  Qed.

  (* ---- segments: a forest laid at an offset, whatever surrounds it ---- *)
  Definition sforest (off : N) (s : trace) : Prop :=
    forall pre post, len_N pre = off -> forest (pre ++ s ++ post) off (off + len_N s).

  Lemma sforest_nil off : sforest off [].
  Proof. intros pre post _. rewrite len_N_nil, N.add_0_r. constructor. Qed.
  Lemma sforest_app off s1 s2 : sforest off s1 -> sforest (off + len_N s1) s2 -> sforest off (s1 ++ s2).
  Proof.
    intros H1 H2 pre post Hp. rewrite len_N_app, N.add_assoc.
    eapply forest_trans.
    - rewrite <- app_assoc. apply H1. exact Hp.
    - rewrite <- app_assoc. rewrite (app_assoc pre s1). apply H2. rewrite len_N_app. lia.
  Qed.
  Lemma sforest_leaf off s : is_leaf C s = true -> sforest off [s].
  Proof.
    intros L pre post Hp. rewrite len_N_one. econstructor 2; [| exact L | constructor].
    subst off. simpl. apply nth_N_mid.
  Qed.
  Lemma sforest_par off sl sr :
    sforest (off + 1) sl -> sforest (off + 1 + len_N sl) sr -> sforest off (SPar (len_N sl) (len_N sr) :: sl ++ sr).
  Proof.
    intros Hl Hr pre post Hp.
    econstructor 3.
    - subst off. simpl. apply nth_N_mid.
    - specialize (Hl (pre ++ [SPar (len_N sl) (len_N sr)]) (sr ++ post)).
      rewrite <- !app_assoc in Hl. simpl in Hl. simpl. rewrite <- app_assoc. apply Hl.
      rewrite len_N_app, len_N_one. lia.
    - specialize (Hr (pre ++ [SPar (len_N sl) (len_N sr)] ++ sl) post).
      rewrite <- !app_assoc in Hr. simpl in Hr. simpl. rewrite <- app_assoc. apply Hr.
      rewrite len_N_app, len_N_cons. lia.
    - rewrite len_N_cons, len_N_app.
      replace (off + (1 + (len_N sl + len_N sr))) with (off + 1 + len_N sl + len_N sr) by lia. constructor.
  Qed.
  Lemma sforest_fold off lore s :
    lore_ok (off + 1) lore (off + 1 + len_N s) -> sforest (off + 1) s -> sforest off (SFold lore :: s).
  Proof.
    intros Hl Hs pre post Hp.
    econstructor 4.
    - subst off. simpl. apply nth_N_mid.
    - exact Hl.
    - specialize (Hs (pre ++ [SFold lore]) post). rewrite <- !app_assoc in Hs. simpl in Hs. simpl. apply Hs.
      rewrite len_N_app, len_N_one. lia.
    - rewrite len_N_cons. replace (off + (1 + len_N s)) with (off + 1 + len_N s) by lia. constructor.
  Qed.
  Lemma sforest_whole s : sforest 0 s -> wf_struct C s.
  Proof.
    intros H. specialize (H [] [] eq_refl). rewrite app_nil_r in H. simpl in H. exact H.
  Qed.
End WfA.

(* ---- skeletons: the part of a trace the forest looks at (generation fields and content ids erased) ---- *)
Lemma nth_N_map {A B} (g : A -> B) (l : list A) p : nth_N (map g l) p = option_map g (nth_N l p).
Proof.
  unfold nth_N. rewrite map_length. destruct (p <? N.of_nat (length l)); [|reflexivity]. apply nth_error_map.
Qed.
Lemma len_N_map {A B} (g : A -> B) (l : list A) : len_N (map g l) = len_N l.
Proof. unfold len_N. now rewrite map_length. Qed.
Lemma set_nth_same {A} (l : list A) i x : nth_error l i = Some x -> set_nth l i x = l.
Proof. revert i. induction l; destruct i; simpl; intros H; try discriminate; [inversion H; reflexivity|]. f_equal. now apply IHl. Qed.

Section Skel.
  Variable C : Type.
  Definition norm (s : state C) : state unit :=
    match s with SPar l r => SPar l r | SFold lo => SFold lo | _ => SCanon (CanonRequestSentBy EmptyString) end.
  Lemma norm_leaf s : is_leaf unit (norm s) = is_leaf C s.
  Proof. destruct s; reflexivity. Qed.
  Lemma forest_norm t a b : forest unit (map norm t) a b -> forest C t a b.
  Proof.
    remember (map norm t) as u eqn:U.
    induction 1 as [a | a b s Hn Hl H1 IH1 | a b l r Hn H1 IH1 H2 IH2 H3 IH3 | a b lore e Hn Hlo H1 IH1 H2 IH2]; subst u.
    - constructor.
    - rewrite nth_N_map in Hn. destruct (nth_N t a) as [s0|] eqn:E; [|discriminate]. inversion Hn. subst s.
      econstructor 2; [exact E| |now apply IH1]. now rewrite <- norm_leaf.
    - rewrite nth_N_map in Hn. destruct (nth_N t a) as [s0|] eqn:E; [|discriminate]. inversion Hn as [Hs].
      destruct s0; simpl in Hs; try discriminate. inversion Hs. subst. econstructor 3; eauto.
    - rewrite nth_N_map in Hn. destruct (nth_N t a) as [s0|] eqn:E; [|discriminate]. inversion Hn as [Hs].
      destruct s0; simpl in Hs; try discriminate. inversion Hs. subst. econstructor 4; eauto.
  Qed.
End Skel.

(* ===================================================================== *)
(* Part B: the effect of every TraceHandler API call on (result trace, par stack, fold FSMs) *)

Ltac inv_bind H :=
  match type of H with
  | bind ?r _ = Ok _ => let E := fresh "E" in destruct r eqn:E; cbn [bind] in H; [|discriminate H|discriminate H]
  end.

Lemma map_set_nth {A B} (g : A -> B) (l : list A) i x : map g (set_nth l i x) = set_nth (map g l) i (g x).
Proof. revert i. induction l; destruct i; simpl; auto. now rewrite IHl. Qed.
Lemma set_nth_beyond {A} (l : list A) i x : (length l <= i)%nat -> set_nth l i x = l.
Proof. revert i. induction l; destruct i; simpl; intros; auto; try lia. rewrite IHl; auto. lia. Qed.
Lemma set_nth_app_last {A} (l : list A) x y : set_nth (l ++ [x]) (length l) y = l ++ [y].
Proof. apply set_nth_app_mid. Qed.

Section WfB.
  Variable C : Type.
  Variable ceqb : C -> C -> bool.
  Notation state := (state C).
  Notation trace := (list state).
  Notation handler := (handler C).
  Notation keeper := (keeper C).
  Notation kr := (k_result C).

  Definition rt (h : handler) : trace := k_result C (h_keeper C h).
  Definition ctors (f : fold_fsm) : list lore_ctor := map cd_ctor (ff_queue f).

  (* ---- keeper-level: the mergers and the slider updates never touch the result trace ---- *)
  Lemma next_states_kr k p c k1 : next_states C k = (p, c, k1) -> kr k1 = kr k.
  Proof.
    unfold next_states. destruct (next_state C (k_prev C k)) as [p0 sp]. destruct (next_state C (k_cur C k)) as [c0 sc].
    intros H. inversion H. reflexivity.
  Qed.
  Lemma prepare_positions_mapping_kr sch k k1 : prepare_positions_mapping C sch k = Ok k1 -> kr k1 = kr k.
  Proof.
    unfold prepare_positions_mapping. destruct sch.
    - destruct (s_pos C (k_prev C k) =? 0); [discriminate|]. intros H. inversion H. reflexivity.
    - destruct (s_pos C (k_cur C k) =? 0); [discriminate|]. intros H. inversion H. reflexivity.
    - destruct (s_pos C (k_prev C k) =? 0); [discriminate|]. cbn [bind].
      match goal with |- (if ?b then _ else _) = _ -> _ => destruct b end; [discriminate|].
      intros H. inversion H. reflexivity.
  Qed.
  Lemma prepare_call_result_kr r sch k m k1 : prepare_call_result C r sch k = Ok (m, k1) -> kr k1 = kr k.
  Proof.
    unfold prepare_call_result. intros H. inv_bind H. inversion H. subst. eapply prepare_positions_mapping_kr; eauto.
  Qed.
  Lemma try_merge_call_kr k r k1 : try_merge_next_state_as_call C ceqb k = Ok (r, k1) -> kr k1 = kr k.
  Proof.
    unfold try_merge_next_state_as_call. destruct (next_states C k) as [[p c] k0] eqn:NS.
    apply next_states_kr in NS. rewrite <- NS.
    destruct p as [[? ?|pc|?|?|?]|]; destruct c as [[? ?|cc|?|?|?]|]; try discriminate; intros H.
    - inv_bind H. eapply prepare_call_result_kr; eauto.
    - eapply prepare_call_result_kr; eauto.
    - eapply prepare_call_result_kr; eauto.
    - inversion H. reflexivity.
  Qed.
  Lemma prepare_ap_result_kr g sch k m k1 : prepare_ap_result C g sch k = Ok (m, k1) -> kr k1 = kr k.
  Proof.
    unfold prepare_ap_result. intros H. inv_bind H. destruct g as [|g0 [|]]; try discriminate. inversion H. subst.
    eapply prepare_positions_mapping_kr; eauto.
  Qed.
  Lemma try_merge_ap_kr k r k1 : try_merge_next_state_as_ap C k = Ok (r, k1) -> kr k1 = kr k.
  Proof.
    unfold try_merge_next_state_as_ap. destruct (next_states C k) as [[p c] k0] eqn:NS.
    apply next_states_kr in NS. rewrite <- NS.
    destruct p as [[? ?|?|pg|?|?]|]; destruct c as [[? ?|?|cg|?|?]|]; try discriminate; intros H;
      try (eapply prepare_ap_result_kr; eauto; fail).
    inversion H. reflexivity.
  Qed.
  Lemma try_merge_canon_kr k r k1 : try_merge_next_state_as_canon C ceqb k = Ok (r, k1) -> kr k1 = kr k.
  Proof.
    unfold try_merge_next_state_as_canon. destruct (next_states C k) as [[p c] k0] eqn:NS.
    apply next_states_kr in NS. rewrite <- NS.
    destruct p as [[? ?|?|?|pc|?]|]; destruct c as [[? ?|?|?|cc|?]|]; try discriminate; intros H.
    - inv_bind H. inversion H. reflexivity.
    - inversion H. reflexivity.
    - inversion H. reflexivity.
    - inversion H. reflexivity.
  Qed.
  Lemma try_merge_par_kr k pp cp k1 : try_merge_next_state_as_par C k = Ok (pp, cp, k1) -> kr k1 = kr k.
  Proof.
    unfold try_merge_next_state_as_par. destruct (next_states C k) as [[p c] k0] eqn:NS.
    apply next_states_kr in NS. rewrite <- NS.
    destruct p as [[? ?|?|?|?|?]|]; destruct c as [[? ?|?|?|?|?]|]; try discriminate; intros H; inversion H; reflexivity.
  Qed.
  Lemma try_merge_fold_kr k rp rc k1 : try_merge_next_state_as_fold C k = Ok (rp, rc, k1) -> kr k1 = kr k.
  Proof.
    unfold try_merge_next_state_as_fold. destruct (next_states C k) as [[p c] k0] eqn:NS.
    apply next_states_kr in NS. rewrite <- NS.
    destruct p as [[? ?|?|?|?|?]|]; destruct c as [[? ?|?|?|?|?]|]; try discriminate; intros H.
    - inv_bind H. inv_bind H. inversion H. reflexivity.
    - inv_bind H. inversion H. reflexivity.
    - inv_bind H. inversion H. reflexivity.
    - inversion H. reflexivity.
  Qed.

  Lemma swallow_ok {A} (r : res A) old a : swallow r old = Ok a -> True.
  Proof. trivial. Qed.
  Lemma update_ctx_states_kr ps cs k k1 : update_ctx_states C ps cs k = Ok k1 -> kr k1 = kr k.
  Proof.
    unfold update_ctx_states. intros H. inv_bind H. inv_bind H. inversion H. reflexivity.
  Qed.
  Lemma par_prepare_sliders_kr f sg k k1 : par_prepare_sliders C f sg k = Ok k1 -> kr k1 = kr k.
  Proof.
    unfold par_prepare_sliders. intros H. inv_bind H. inv_bind H. inversion H. reflexivity.
  Qed.
  Lemma apply_fold_lore_both_kr k pl cl after k1 : apply_fold_lore_both C k pl cl after = Ok k1 -> kr k1 = kr k.
  Proof.
    unfold apply_fold_lore_both. intros H. inv_bind H. inv_bind H. inversion H. reflexivity.
  Qed.

  (* ---- par FSM ---- *)
  Lemma par_from_left_started_spec pp cp k f k2 :
    par_from_left_started C pp cp k = Ok (f, k2) ->
    kr k2 = kr k ++ [SPar 0 0] /\ pf_inserter f = len_N (kr k) /\ pf_saved f = len_N (kr k) + 1.
  Proof.
    unfold par_from_left_started. intros H. do 4 inv_bind H. inv_bind H. inversion H. subst. clear H.
    apply par_prepare_sliders_kr in E3. rewrite E3. cbn. split; [reflexivity|]. split; [reflexivity|].
    rewrite len_N_app, len_N_one. reflexivity.
  Qed.
  Lemma par_track_spec f sg k f1 :
    par_track C f sg k = Ok f1 ->
    pf_saved f <= len_N (kr k) /\ pf_inserter f1 = pf_inserter f /\ pf_saved f1 = len_N (kr k) /\
    pf_left_size f1 = match sg with SLeft => len_N (kr k) - pf_saved f | SRight => pf_left_size f end /\
    pf_right_size f1 = match sg with SLeft => pf_right_size f | SRight => len_N (kr k) - pf_saved f end /\
    pf_left f1 = pf_left f /\ pf_right f1 = pf_right f /\ pf_prev f1 = pf_prev f /\ pf_cur f1 = pf_cur f.
  Proof.
    unfold par_track. destruct (len_N (kr k) <? pf_saved f) eqn:E; [discriminate|]. apply N.ltb_ge in E.
    intros H. inversion H. subst. cbn. repeat split; auto.
  Qed.
  Lemma par_left_completed_spec f k f1 k1 :
    par_left_completed C f k = Ok (f1, k1) ->
    kr k1 = kr k /\ pf_saved f <= len_N (kr k) /\ pf_inserter f1 = pf_inserter f /\ pf_saved f1 = len_N (kr k) /\
    pf_left_size f1 = len_N (kr k) - pf_saved f.
  Proof.
    unfold par_left_completed. intros H. inv_bind H. inv_bind H.
    apply par_track_spec in E. destruct E as (L & I & S & LS & _).
    apply update_ctx_states_kr in E0.
    assert (X : kr k1 = kr a0 /\ f1 = a).
    { destruct (set_subtrace_len C (k_prev C a0) (snd (pf_prev a))) as [sp|?|?]; try discriminate.
      - destruct (set_subtrace_len C (k_cur C (with_prev C a0 sp)) (snd (pf_cur a))); try discriminate; inversion H; split; reflexivity.
      - inversion H. split; reflexivity. }
    destruct X as [X1 X2].
    subst f1. repeat split; auto. congruence.
  Qed.
  Lemma insert_state_spec k p st k1 :
    insert_state C k p st = Ok k1 -> p < len_N (kr k) /\ kr k1 = set_nth (kr k) (N.to_nat p) st.
  Proof.
    unfold insert_state. destruct (p <? len_N (kr k)) eqn:E; [|discriminate]. apply N.ltb_lt in E.
    intros H. inversion H. split; [exact E|reflexivity].
  Qed.
  Lemma par_right_completed_spec f k k1 :
    par_right_completed C f k = Ok k1 ->
    pf_saved f <= len_N (kr k) /\ pf_inserter f < len_N (kr k) /\
    kr k1 = set_nth (kr k) (N.to_nat (pf_inserter f)) (SPar (pf_left_size f) (len_N (kr k) - pf_saved f)).
  Proof.
    unfold par_right_completed. intros H. inv_bind H. inv_bind H.
    apply par_track_spec in E. destruct E as (L & I & S & LS & RS & _).
    apply insert_state_spec in E0. destruct E0 as [Lt R]. apply update_ctx_states_kr in H.
    rewrite I in *. rewrite LS, RS in R. split; [exact L|]. split; [exact Lt|]. congruence.
  Qed.

  (* ---- fold FSM ---- *)
  Lemma fold_from_start_spec rp rc k f k1 :
    fold_from_start C rp rc k = Ok (f, k1) ->
    kr k1 = kr k ++ [SPar 0 0] /\ ff_inserter f = len_N (kr k) /\ ff_queue f = [] /\ ff_back_pos f = 0 /\
    ff_back_started f = false /\ ff_result f = [].
  Proof.
    unfold fold_from_start. intros H. inv_bind H. inv_bind H. inversion H. subst. cbn. repeat split; reflexivity.
  Qed.

  Definition new_ctor (vp n : N) : lore_ctor :=
    {| lc_value_pos := vp; lc_before_start := n; lc_before_end := 0; lc_after_start := 0; lc_after_end := 0;
       lc_state := BeforeStarted |}.

  Lemma fold_iteration_start_spec f vp k f1 k1 :
    fold_iteration_start C f vp k = Ok (f1, k1) ->
    kr k1 = kr k /\ ff_inserter f1 = ff_inserter f /\ ff_result f1 = ff_result f /\
    ctors f1 = ctors f ++ [new_ctor vp (len_N (kr k))] /\ ff_back_pos f1 = ff_back_pos f + 1 /\
    ff_back_started f1 = ff_back_started f.
  Proof.
    unfold fold_iteration_start.
    destruct (match bimap_get_by_left (k_new_to_prev C k) vp with Some p => assoc_remove (ff_prev f) p | None => (None, ff_prev f) end) as [pl prev'].
    destruct (match bimap_get_by_left (k_new_to_cur C k) vp with Some p => assoc_remove (ff_cur f) p | None => (None, ff_cur f) end) as [cl cur'].
    intros H. inv_bind H. inversion H. subst. clear H. apply apply_fold_lore_both_kr in E.
    unfold ctors, result_next_pos. cbn. rewrite map_app. cbn. rewrite E. repeat split; reflexivity.
  Qed.

  Lemma queue_current_spec f i d :
    queue_current f = Ok (i, d) ->
    1 <= ff_back_pos f /\ i = N.to_nat (ff_back_pos f - 1) /\ nth_error (ff_queue f) i = Some d.
  Proof.
    unfold queue_current. destruct (ff_back_pos f =? 0) eqn:E; [discriminate|]. apply N.eqb_neq in E.
    destruct (nth_error (ff_queue f) (N.to_nat (ff_back_pos f - 1))) eqn:E1; [|discriminate].
    intros H. inversion H. subst. repeat split; auto. lia.
  Qed.
  Lemma ctors_queue_update f i c : ctors (queue_update f i c) = set_nth (ctors f) i c.
  Proof.
    unfold queue_update, ctors. destruct (nth_error (ff_queue f) i) eqn:E.
    - cbn. now rewrite map_set_nth.
    - apply nth_error_None in E. rewrite set_nth_beyond; [reflexivity|]. now rewrite map_length.
  Qed.
  Lemma queue_update_fields f i c :
    ff_inserter (queue_update f i c) = ff_inserter f /\ ff_result (queue_update f i c) = ff_result f /\
    ff_back_pos (queue_update f i c) = ff_back_pos f /\ ff_back_started (queue_update f i c) = ff_back_started f.
  Proof. unfold queue_update. destruct (nth_error (ff_queue f) i); cbn; auto. Qed.
  Lemma nth_error_ctors f i d : nth_error (ff_queue f) i = Some d -> nth_error (ctors f) i = Some (cd_ctor d).
  Proof. intros H. unfold ctors. now rewrite nth_error_map, H. Qed.

  Lemma fold_iteration_end_spec f k f1 :
    fold_iteration_end C f k = Ok f1 ->
    exists c, 1 <= ff_back_pos f /\ nth_error (ctors f) (N.to_nat (ff_back_pos f - 1)) = Some c /\
      ctors f1 = set_nth (ctors f) (N.to_nat (ff_back_pos f - 1)) (ctor_before_end c (len_N (kr k))) /\
      ff_inserter f1 = ff_inserter f /\ ff_result f1 = ff_result f /\
      ff_back_pos f1 = ff_back_pos f /\ ff_back_started f1 = ff_back_started f.
  Proof.
    unfold fold_iteration_end. intros H. inv_bind H. destruct a as [i d]. apply queue_current_spec in E.
    destruct E as (L & -> & Hn). inversion H. subst. clear H. cbn [fst snd].
    exists (cd_ctor d). split; [exact L|]. split; [now apply nth_error_ctors|].
    rewrite ctors_queue_update. split; [reflexivity|]. apply queue_update_fields.
  Qed.

  Lemma fold_back_iterator_spec f k f1 k1 :
    fold_back_iterator C f k = Ok (f1, k1) ->
    let n := len_N (kr k) in
    kr k1 = kr k /\ ff_inserter f1 = ff_inserter f /\ ff_result f1 = ff_result f /\
    exists c, 1 <= ff_back_pos f /\ nth_error (ctors f) (N.to_nat (ff_back_pos f - 1)) = Some c /\
      if ff_back_started f then
        2 <= ff_back_pos f /\
        exists c2, nth_error (set_nth (ctors f) (N.to_nat (ff_back_pos f - 1)) (ctor_after_end c n))
                             (N.to_nat (ff_back_pos f - 2)) = Some c2 /\
          ctors f1 = set_nth (set_nth (ctors f) (N.to_nat (ff_back_pos f - 1)) (ctor_after_end c n))
                             (N.to_nat (ff_back_pos f - 2)) (ctor_after_start c2 n) /\
          ff_back_pos f1 = ff_back_pos f - 1 /\ ff_back_started f1 = true
      else
        ctors f1 = set_nth (ctors f) (N.to_nat (ff_back_pos f - 1)) (ctor_after_start (ctor_maybe_before_end c n) n) /\
        ff_back_pos f1 = ff_back_pos f /\ ff_back_started f1 = true.
  Proof.
    unfold fold_back_iterator. intros H. inv_bind H. destruct a as [i d]. apply queue_current_spec in E.
    destruct E as (L & -> & Hn). cbv zeta. unfold result_next_pos in H.
    destruct (ff_back_started f) eqn:BS; cbn [negb] in H.
    - (* traversal already started *)
      pose proof (queue_update_fields f (N.to_nat (ff_back_pos f - 1)) (ctor_after_end (cd_ctor d) (len_N (kr k)))) as (QI & QR & QB & QS).
      set (fu := queue_update f (N.to_nat (ff_back_pos f - 1)) (ctor_after_end (cd_ctor d) (len_N (kr k)))) in *.
      rewrite QB in H.
      destruct (ff_back_pos f =? 0) eqn:Z; [discriminate|].
      inv_bind H. destruct a as [i2 d2]. apply queue_current_spec in E. cbn in E.
      destruct E as (L2 & -> & Hn2).
      inv_bind H. inversion H. subst. clear H. apply apply_fold_lore_both_kr in E.
      split; [exact E|].
      pose proof (queue_update_fields (with_queue fu (ff_queue fu) (ff_back_pos f - 1) (ff_back_started fu))
                    (N.to_nat (ff_back_pos f - 1 - 1)) (ctor_after_start (cd_ctor d2) (len_N (kr k)))) as (QI2 & QR2 & QB2 & QS2).
      cbn in QI2, QR2, QB2, QS2.
      split; [congruence|]. split; [congruence|].
      exists (cd_ctor d). split; [exact L|]. split; [now apply nth_error_ctors|].
      split; [lia|].
      exists (cd_ctor d2).
      replace (ff_back_pos f - 2) with (ff_back_pos f - 1 - 1) by lia.
      assert (CU : ctors fu = set_nth (ctors f) (N.to_nat (ff_back_pos f - 1)) (ctor_after_end (cd_ctor d) (len_N (kr k))))
        by apply ctors_queue_update.
      split.
      { rewrite <- CU. unfold ctors. rewrite nth_error_map. cbn in Hn2. now rewrite Hn2. }
      split.
      { rewrite ctors_queue_update. unfold ctors at 1. cbn. fold (ctors fu). now rewrite CU. }
      split; [exact QB2|]. rewrite QS2, QS. exact BS.
    - inv_bind H. inversion H. subst. clear H. apply apply_fold_lore_both_kr in E.
      split; [exact E|].
      pose proof (queue_update_fields f (N.to_nat (ff_back_pos f - 1))
                    (ctor_after_start (ctor_maybe_before_end (cd_ctor d) (len_N (kr k))) (len_N (kr k)))) as (QI & QR & QB & QS).
      cbn. split; [exact QI|]. split; [exact QR|].
      exists (cd_ctor d). split; [exact L|]. split; [now apply nth_error_ctors|].
      split; [|split; [exact QB|reflexivity]].
      unfold ctors at 1. cbn. fold (ctors (queue_update f (N.to_nat (ff_back_pos f - 1))
          (ctor_after_start (ctor_maybe_before_end (cd_ctor d) (len_N (kr k))) (len_N (kr k))))).
      apply ctors_queue_update.
  Qed.

  Definition lore_of (c : lore_ctor) : fold_sub_lore :=
    {| fl_value_pos := lc_value_pos c;
       fl_descs := [ {| sd_pos := lc_before_start c; sd_len := lc_before_end c - lc_before_start c |};
                     {| sd_pos := lc_after_start c; sd_len := lc_after_end c - lc_after_start c |} ] |}.
  Definition ctor_sane (c : lore_ctor) : Prop :=
    lc_before_start c <= lc_before_end c /\ lc_after_start c <= lc_after_end c.

  Lemma ctors_into_lore_spec q n lore :
    ctors_into_lore q n = Ok lore ->
    lore = map (fun c => lore_of (ctor_finish c n)) (map cd_ctor q) /\
    Forall (fun c => ctor_sane (ctor_finish c n)) (map cd_ctor q).
  Proof.
    revert lore. induction q as [|d r IH]; simpl; intros lore H.
    - inversion H. split; [reflexivity|constructor].
    - inv_bind H. inv_bind H. inversion H. subst. clear H.
      destruct (IH _ eq_refl) as [-> F].
      unfold ctor_into_lore in E.
      destruct (_ || _) eqn:B in E; [discriminate|]. apply orb_false_elim in B. destruct B as [B1 B2].
      apply N.ltb_ge in B1. apply N.ltb_ge in B2. inversion E. subst. split; [reflexivity|].
      constructor; [split; assumption|exact F].
  Qed.

  Lemma fold_generation_end_spec f k f1 :
    fold_generation_end C f k = Ok f1 ->
    let n := len_N (kr k) in
    ff_queue f1 = [] /\ ff_back_pos f1 = 0 /\ ff_back_started f1 = false /\ ff_inserter f1 = ff_inserter f /\
    ff_result f1 = ff_result f ++ map (fun c => lore_of (ctor_finish c n)) (ctors f) /\
    Forall (fun c => ctor_sane (ctor_finish c n)) (ctors f).
  Proof.
    unfold fold_generation_end. intros H. inv_bind H. inversion H. subst. clear H. cbn.
    apply ctors_into_lore_spec in E. destruct E as [-> F]. repeat split; auto.
  Qed.

  Lemma fold_end_spec f k k1 :
    fold_end C f k = Ok k1 ->
    ff_inserter f < len_N (kr k) /\ kr k1 = set_nth (kr k) (N.to_nat (ff_inserter f)) (SFold (ff_result f)).
  Proof.
    unfold fold_end. intros H. inv_bind H. apply insert_state_spec in E. destruct E as [L R].
    apply update_ctx_states_kr in H. split; [exact L|congruence].
  Qed.

  (* ---- the fold map ---- *)
  Lemma folds_get_filter (m : list (N * fold_fsm)) id id' :
    id' <> id -> folds_get (filter (fun p => negb (fst p =? id)) m) id' = folds_get m id'.
  Proof.
    intros Hne. induction m as [|[a f] r IH]; simpl; [reflexivity|].
    destruct (a =? id) eqn:E; simpl.
    - apply N.eqb_eq in E. subst a. assert (E2 : (id =? id') = false) by (apply N.eqb_neq; congruence). now rewrite E2.
    - destruct (a =? id'); [reflexivity|exact IH].
  Qed.
  Lemma folds_get_filter_same (m : list (N * fold_fsm)) id :
    folds_get (filter (fun p => negb (fst p =? id)) m) id = None.
  Proof.
    induction m as [|[a f] r IH]; simpl; [reflexivity|].
    destruct (a =? id) eqn:E; simpl; [exact IH|]. now rewrite E.
  Qed.
  Lemma folds_get_put_same m id f : folds_get (folds_put m id f) id = Some f.
  Proof. unfold folds_put. simpl. now rewrite N.eqb_refl. Qed.
  Lemma folds_get_put_other m id f id' : id' <> id -> folds_get (folds_put m id f) id' = folds_get m id'.
  Proof.
    intros Hne. unfold folds_put. simpl. assert (E : (id =? id') = false) by (apply N.eqb_neq; congruence). rewrite E.
    now apply folds_get_filter.
  Qed.
  Lemma folds_get_del_same m id : folds_get (folds_del m id) id = None.
  Proof. apply folds_get_filter_same. Qed.
  Lemma folds_get_del_other m id id' : id' <> id -> folds_get (folds_del m id) id' = folds_get m id'.
  Proof. apply folds_get_filter. Qed.

  (* what one update does *)
  Definition regen (s s' : state) : Prop :=
    match s, s' with
    | SAp _, SAp [_] => True
    | SCall (Executed (VRStream c _)), SCall (Executed (VRStream c' _)) => c = c'
    | _, _ => False
    end.
  Lemma update_generation_spec h p g h' :
    update_generation C h p g = inl h' ->
    exists s s', nth_N (rt h) p = Some s /\ regen s s' /\ rt h' = set_nth (rt h) (N.to_nat p) s' /\
      state_no_stub C s' = negb (g =? generation_stub) /\ h_pars C h' = h_pars C h /\ h_folds C h' = h_folds C h.
  Proof.
    unfold update_generation. fold (rt h). destruct (nth_N (rt h) p) as [s|] eqn:E; [|discriminate].
    destruct s as [| [ | [ | c g0 | ] | ] | gens | | ]; try discriminate; intros H; inversion H; subst; clear H.
    - exists (SCall (Executed (VRStream c g0))), (SCall (Executed (VRStream c g))). repeat split; auto.
    - exists (SAp gens), (SAp [g]). repeat split; auto. simpl. now rewrite andb_true_r.
  Qed.
  Lemma regen_stream s s' : regen s s' -> is_stream_state C s = true /\ is_stream_state C s' = true /\ norm C s = norm C s'.
  Proof.
    destruct s as [| [ | [ | c g0 | ] | ] | gens | | ]; destruct s' as [| [ | [ | c' g1 | ] | ] | [|g1 [|]] | | ]; simpl; intros H;
      try contradiction; auto.
  Qed.

End WfB.

(* ===================================================================== *)
(* Part C: handler-level effects and the driver-tree induction *)

Section WfC.
  Variable C : Type.
  Variable ceqb : C -> C -> bool.
  Notation state := (state C).
  Notation trace := (list state).
  Notation handler := (handler C).
  Notation rt := (rt C).

  Definition nlen (h : handler) : N := len_N (rt h).

  (* ---- handler-level statements of Part B ---- *)
  Lemma meet_call_start_spec h r h' :
    meet_call_start C ceqb h = Ok (r, h') -> rt h' = rt h /\ h_pars C h' = h_pars C h /\ h_folds C h' = h_folds C h.
  Proof.
    unfold meet_call_start. intros H. inv_bind H. destruct a as [r0 k1]. inversion H. subst. clear H.
    apply try_merge_call_kr in E. cbn. auto.
  Qed.
  Lemma meet_ap_start_spec h r h' :
    meet_ap_start C h = Ok (r, h') -> rt h' = rt h /\ h_pars C h' = h_pars C h /\ h_folds C h' = h_folds C h.
  Proof.
    unfold meet_ap_start. intros H. inv_bind H. destruct a as [r0 k1]. inversion H. subst. clear H.
    apply try_merge_ap_kr in E. cbn. auto.
  Qed.
  Lemma meet_canon_start_spec h r h' :
    meet_canon_start C ceqb h = Ok (r, h') -> rt h' = rt h /\ h_pars C h' = h_pars C h /\ h_folds C h' = h_folds C h.
  Proof.
    unfold meet_canon_start. intros H. inv_bind H. destruct a as [r0 k1]. inversion H. subst. clear H.
    apply try_merge_canon_kr in E. cbn. auto.
  Qed.

  (* a step that appends leaves only and touches neither the par stack nor the folds *)
  Definition leafstep (h h' : handler) : Prop :=
    (exists s, rt h' = rt h ++ s /\ Forall (fun x => is_leaf C x = true) s) /\
    h_pars C h' = h_pars C h /\ h_folds C h' = h_folds C h.

  Lemma leafstep_push h h1 st :
    rt h1 = rt h -> h_pars C h1 = h_pars C h -> h_folds C h1 = h_folds C h -> is_leaf C st = true ->
    leafstep h (with_keeper C h1 (push_state C (h_keeper C h1) st)).
  Proof.
    intros R P F L. split; [|split; cbn; assumption].
    exists [st]. split; [|constructor; [exact L|constructor]].
    unfold rt in *. cbn. now rewrite R.
  Qed.
  Lemma leafstep_none h h1 :
    rt h1 = rt h -> h_pars C h1 = h_pars C h -> h_folds C h1 = h_folds C h -> leafstep h h1.
  Proof.
    intros R P F. split; [|split; assumption]. exists []. rewrite app_nil_r. split; [exact R|constructor].
  Qed.

  Lemma drive_call_leaf c h h' : drive_call C ceqb c h = Ok h' -> leafstep h h'.
  Proof.
    unfold drive_call. intros H. inv_bind H. destruct a as [r h1]. apply meet_call_start_spec in E.
    destruct E as (R & P & F).
    destruct c as [d up|[st|]].
    - destruct r as [|m p src].
      + destruct d as [st|]; inversion H; subst.
        * unfold meet_call_end. now apply leafstep_push.
        * now apply leafstep_none.
      + inversion H. subst. unfold meet_call_end. now apply leafstep_push.
    - inversion H. subst. unfold meet_call_end. now apply leafstep_push.
    - inversion H. subst. now apply leafstep_none.
  Qed.
  Lemma drive_ap_leaf a h h' : drive_ap C a h = Ok h' -> leafstep h h'.
  Proof.
    unfold drive_ap. intros H. inv_bind H. destruct a0 as [r h1]. apply meet_ap_start_spec in E.
    destruct E as (R & P & F).
    destruct a as [d|gens].
    - destruct r; inversion H; subst; unfold meet_ap_end; now apply leafstep_push.
    - inversion H. subst. unfold meet_ap_end. now apply leafstep_push.
  Qed.
  Lemma drive_canon_leaf c h h' : drive_canon C ceqb c h = Ok h' -> leafstep h h'.
  Proof.
    unfold drive_canon. intros H. inv_bind H. destruct a as [r h1]. apply meet_canon_start_spec in E.
    destruct E as (R & P & F).
    destruct c as [d up|[st|]].
    - destruct r; inversion H; subst; unfold meet_canon_end; now apply leafstep_push.
    - inversion H. subst. unfold meet_canon_end. now apply leafstep_push.
    - inversion H. subst. now apply leafstep_none.
  Qed.

  Lemma meet_par_start_spec h h' :
    meet_par_start C h = Ok h' ->
    rt h' = rt h ++ [SPar 0 0] /\ h_folds C h' = h_folds C h /\
    exists f, h_pars C h' = f :: h_pars C h /\ pf_inserter f = nlen h /\ pf_saved f = nlen h + 1.
  Proof.
    unfold meet_par_start. intros H. inv_bind H. destruct a as [[pp cp] k1]. inv_bind H. destruct a as [f k2].
    inversion H. subst. clear H. apply try_merge_par_kr in E. apply par_from_left_started_spec in E0.
    destruct E0 as (R & I & S). unfold rt, nlen, rt. cbn. rewrite R, E. split; [reflexivity|]. split; [reflexivity|].
    exists f. rewrite I, S, E. auto.
  Qed.
  Lemma meet_par_left_spec h h' :
    meet_par_subgraph_end C h SLeft = Ok h' ->
    rt h' = rt h /\ h_folds C h' = h_folds C h /\
    exists f rest f', h_pars C h = f :: rest /\ h_pars C h' = f' :: rest /\ pf_saved f <= nlen h /\
      pf_inserter f' = pf_inserter f /\ pf_saved f' = nlen h /\ pf_left_size f' = nlen h - pf_saved f.
  Proof.
    unfold meet_par_subgraph_end. destruct (h_pars C h) as [|f rest] eqn:HP; [discriminate|].
    intros H. inv_bind H. destruct a as [f1 k1]. inversion H. subst. clear H.
    apply par_left_completed_spec in E. destruct E as (R & L & I & S & LS).
    unfold rt, nlen, rt. cbn. split; [exact R|]. split; [reflexivity|]. exists f, rest, f1. repeat split; auto.
  Qed.
  Lemma meet_par_right_spec h h' :
    meet_par_subgraph_end C h SRight = Ok h' ->
    h_folds C h' = h_folds C h /\
    exists f rest, h_pars C h = f :: rest /\ h_pars C h' = rest /\ pf_saved f <= nlen h /\ pf_inserter f < nlen h /\
      rt h' = set_nth (rt h) (N.to_nat (pf_inserter f)) (SPar (pf_left_size f) (nlen h - pf_saved f)).
  Proof.
    unfold meet_par_subgraph_end. destruct (h_pars C h) as [|f rest] eqn:HP; [discriminate|].
    intros H. inv_bind H. inversion H. subst. clear H.
    apply par_right_completed_spec in E. destruct E as (L & I & R).
    unfold rt, nlen, rt. cbn. split; [reflexivity|]. exists f, rest. repeat split; auto.
  Qed.

  Lemma meet_fold_start_spec h id h' :
    meet_fold_start C h id = Ok h' ->
    rt h' = rt h ++ [SPar 0 0] /\ h_pars C h' = h_pars C h /\
    exists f, h_folds C h' = folds_put (h_folds C h) id f /\ ff_inserter f = nlen h /\ ff_queue f = [] /\
      ff_back_pos f = 0 /\ ff_back_started f = false /\ ff_result f = [].
  Proof.
    unfold meet_fold_start. intros H. inv_bind H. destruct a as [[rp rc] k1]. inv_bind H. destruct a as [f k2].
    inversion H. subst. clear H. apply try_merge_fold_kr in E. apply fold_from_start_spec in E0.
    destruct E0 as (R & I & Q & B & S & L). unfold rt, nlen, rt. cbn. rewrite R, E. split; [reflexivity|]. split; [reflexivity|].
    exists f. rewrite <- E. auto 10.
  Qed.

  Lemma meet_iteration_start_spec h id vp h' :
    meet_iteration_start C h id vp = Ok h' ->
    rt h' = rt h /\ h_pars C h' = h_pars C h /\
    exists f f', folds_get (h_folds C h) id = Some f /\ h_folds C h' = folds_put (h_folds C h) id f' /\
      ff_inserter f' = ff_inserter f /\ ff_result f' = ff_result f /\
      ctors f' = ctors f ++ [new_ctor vp (nlen h)] /\ ff_back_pos f' = ff_back_pos f + 1 /\
      ff_back_started f' = ff_back_started f.
  Proof.
    unfold meet_iteration_start. destruct (folds_get (h_folds C h) id) as [f|] eqn:G; [|discriminate].
    intros H. inv_bind H. destruct a as [f1 k1]. inversion H. subst. clear H.
    apply fold_iteration_start_spec in E. destruct E as (R & I & L & Q & B & S).
    unfold rt, nlen, rt. cbn. split; [exact R|]. split; [reflexivity|]. exists f, f1. repeat split; auto.
  Qed.
  Lemma meet_iteration_end_spec h id h' :
    meet_iteration_end C h id = Ok h' ->
    rt h' = rt h /\ h_pars C h' = h_pars C h /\
    exists f f' c, folds_get (h_folds C h) id = Some f /\ h_folds C h' = folds_put (h_folds C h) id f' /\
      1 <= ff_back_pos f /\ nth_error (ctors f) (N.to_nat (ff_back_pos f - 1)) = Some c /\
      ctors f' = set_nth (ctors f) (N.to_nat (ff_back_pos f - 1)) (ctor_before_end c (nlen h)) /\
      ff_inserter f' = ff_inserter f /\ ff_result f' = ff_result f /\
      ff_back_pos f' = ff_back_pos f /\ ff_back_started f' = ff_back_started f.
  Proof.
    unfold meet_iteration_end. destruct (folds_get (h_folds C h) id) as [f|] eqn:G; [|discriminate].
    intros H. inv_bind H. inversion H. subst. clear H.
    apply fold_iteration_end_spec in E. destruct E as (c & L & Hn & Q & I & R & B & S).
    unfold rt, nlen, rt. cbn. split; [reflexivity|]. split; [reflexivity|]. exists f, a, c. repeat split; auto.
  Qed.
  Lemma meet_back_iterator_spec h id h' :
    meet_back_iterator C h id = Ok h' ->
    let n := nlen h in
    rt h' = rt h /\ h_pars C h' = h_pars C h /\
    exists f f' c, folds_get (h_folds C h) id = Some f /\ h_folds C h' = folds_put (h_folds C h) id f' /\
      ff_inserter f' = ff_inserter f /\ ff_result f' = ff_result f /\
      1 <= ff_back_pos f /\ nth_error (ctors f) (N.to_nat (ff_back_pos f - 1)) = Some c /\
      if ff_back_started f then
        2 <= ff_back_pos f /\
        exists c2, nth_error (set_nth (ctors f) (N.to_nat (ff_back_pos f - 1)) (ctor_after_end c n))
                             (N.to_nat (ff_back_pos f - 2)) = Some c2 /\
          ctors f' = set_nth (set_nth (ctors f) (N.to_nat (ff_back_pos f - 1)) (ctor_after_end c n))
                             (N.to_nat (ff_back_pos f - 2)) (ctor_after_start c2 n) /\
          ff_back_pos f' = ff_back_pos f - 1 /\ ff_back_started f' = true
      else
        ctors f' = set_nth (ctors f) (N.to_nat (ff_back_pos f - 1)) (ctor_after_start (ctor_maybe_before_end c n) n) /\
        ff_back_pos f' = ff_back_pos f /\ ff_back_started f' = true.
  Proof.
    unfold meet_back_iterator. destruct (folds_get (h_folds C h) id) as [f|] eqn:G; [|discriminate].
    intros H. inv_bind H. destruct a as [f1 k1]. inversion H. subst. clear H.
    apply fold_back_iterator_spec in E. cbv zeta in E. destruct E as (R & I & L & c & B & Hn & Rest).
    cbv zeta. unfold rt, nlen, rt. cbn. split; [exact R|]. split; [reflexivity|]. exists f, f1, c. repeat split; auto.
  Qed.
  Lemma meet_generation_end_spec h id h' :
    meet_generation_end C h id = Ok h' ->
    let n := nlen h in
    rt h' = rt h /\ h_pars C h' = h_pars C h /\
    exists f f', folds_get (h_folds C h) id = Some f /\ h_folds C h' = folds_put (h_folds C h) id f' /\
      ff_queue f' = [] /\ ff_back_pos f' = 0 /\ ff_back_started f' = false /\ ff_inserter f' = ff_inserter f /\
      ff_result f' = ff_result f ++ map (fun c => lore_of (ctor_finish c n)) (ctors f) /\
      Forall (fun c => ctor_sane (ctor_finish c n)) (ctors f).
  Proof.
    unfold meet_generation_end. destruct (folds_get (h_folds C h) id) as [f|] eqn:G; [|discriminate].
    intros H. inv_bind H. inversion H. subst. clear H.
    apply fold_generation_end_spec in E. cbv zeta in E. destruct E as (Q & B & S & I & R & F).
    cbv zeta. unfold rt, nlen, rt. cbn. split; [reflexivity|]. split; [reflexivity|]. exists f, a. repeat split; auto.
  Qed.
  Lemma meet_fold_end_spec h id h' :
    meet_fold_end C h id = Ok h' ->
    h_pars C h' = h_pars C h /\ h_folds C h' = folds_del (h_folds C h) id /\
    exists f, folds_get (h_folds C h) id = Some f /\ ff_inserter f < nlen h /\
      rt h' = set_nth (rt h) (N.to_nat (ff_inserter f)) (SFold (ff_result f)).
  Proof.
    unfold meet_fold_end. destruct (folds_get (h_folds C h) id) as [f|] eqn:G; [|discriminate].
    intros H. inv_bind H. inversion H. subst. clear H.
    apply fold_end_spec in E. destruct E as (L & R). unfold rt, nlen, rt. cbn.
    split; [reflexivity|]. split; [reflexivity|]. exists f. repeat split; auto.
  Qed.

  (* ---- closed pieces ---- *)
  (* the skeleton of the result trace: update_generation does not change it *)
  Definition skt (h : handler) : list (Trace.state unit) := map (norm C) (rt h).
  Lemma nlen_skt h : nlen h = len_N (skt h).
  Proof. unfold nlen, skt. now rewrite len_N_map. Qed.
  Lemma skt_app h h' s : rt h' = rt h ++ s -> skt h' = skt h ++ map (norm C) s.
  Proof. unfold skt. intros ->. apply map_app. Qed.
  Lemma skt_same h h' : rt h' = rt h -> skt h' = skt h.
  Proof. unfold skt. now intros ->. Qed.
  Lemma skt_set h h' p x : rt h' = set_nth (rt h) p x -> skt h' = set_nth (skt h) p (norm C x).
  Proof. unfold skt. intros ->. apply map_set_nth. Qed.

  Definition closed (h h' : handler) : Prop :=
    (exists s, skt h' = skt h ++ s /\ WfProofs.sforest unit (nlen h) s) /\ h_pars C h' = h_pars C h.
  Definition frame (h h' : handler) : Prop :=
    forall id f, folds_get (h_folds C h') id = Some f -> folds_get (h_folds C h) id = Some f.
  Definition frame_but (id0 : N) (h h' : handler) : Prop :=
    forall id f, id <> id0 -> folds_get (h_folds C h') id = Some f -> folds_get (h_folds C h) id = Some f.
  Definition fold_inv (h : handler) (id : N) (P : fold_fsm -> Prop) : Prop :=
    forall f, folds_get (h_folds C h) id = Some f -> P f.

  Lemma closed_refl h : closed h h.
  Proof. split; [|reflexivity]. exists []. rewrite app_nil_r. split; [reflexivity|apply sforest_nil]. Qed.
  Lemma closed_trans h1 h2 h3 : closed h1 h2 -> closed h2 h3 -> closed h1 h3.
  Proof.
    intros [(s1 & R1 & F1) P1] [(s2 & R2 & F2) P2]. split; [|congruence].
    exists (s1 ++ s2). split; [rewrite R2, R1; now rewrite app_assoc|].
    apply sforest_app; [exact F1|]. rewrite nlen_skt, R1, len_N_app, <- nlen_skt in F2. exact F2.
  Qed.
  Lemma sforest_leaves off (s : list (Trace.state unit)) :
    Forall (fun x => is_leaf unit x = true) s -> WfProofs.sforest unit off s.
  Proof.
    revert off. induction s as [|x r IH]; intros off H; [apply sforest_nil|].
    inversion H; subst. change (x :: r) with ([x] ++ r). apply sforest_app; [now apply sforest_leaf|].
    apply IH. assumption.
  Qed.
  Lemma leafstep_closed h h' : leafstep h h' -> closed h h' /\ frame h h'.
  Proof.
    intros [(s & R & L) [P F]]. split.
    - split; [|exact P]. exists (map (norm C) s). split; [now apply skt_app|]. apply sforest_leaves.
      apply Forall_map. eapply Forall_impl; [|exact L]. intros x. now rewrite norm_leaf.
    - intros id f. now rewrite F.
  Qed.
  Lemma frame_refl h : frame h h.
  Proof. intros id f H. exact H. Qed.
  Lemma frame_trans h1 h2 h3 : frame h1 h2 -> frame h2 h3 -> frame h1 h3.
  Proof. intros A B id f H. apply A, B, H. Qed.
  Lemma frame_but_trans id h1 h2 h3 : frame_but id h1 h2 -> frame_but id h2 h3 -> frame_but id h1 h3.
  Proof. intros A B i f N H. apply A, B; assumption. Qed.
  Lemma frame_frame_but id h h' : frame h h' -> frame_but id h h'.
  Proof. intros A i f _ H. now apply A. Qed.
  Lemma frame_of_eq h h' : h_folds C h' = h_folds C h -> frame h h'.
  Proof. intros E id f. now rewrite E. Qed.
  Lemma frame_but_put h h' id f' : h_folds C h' = folds_put (h_folds C h) id f' -> frame_but id h h'.
  Proof. intros E i f N. rewrite E, folds_get_put_other by exact N. auto. Qed.
  Lemma fold_inv_frame h h' id P : frame h h' -> fold_inv h id P -> fold_inv h' id P.
  Proof. intros F I f H. apply I, F, H. Qed.
  Lemma fold_inv_eq h h' id P : h_folds C h' = h_folds C h -> fold_inv h id P -> fold_inv h' id P.
  Proof. intros E I f H. apply I. now rewrite <- E. Qed.

  Lemma N_to_nat_len {A} (l : list A) : N.to_nat (len_N l) = length l.
  Proof. unfold len_N. apply Nat2N.id. Qed.

  (* par_start . L . left_end . R . right_end *)
  Lemma closed_par h0 h1 h2 h3 h4 h5 :
    meet_par_start C h0 = Ok h1 -> closed h1 h2 -> meet_par_subgraph_end C h2 SLeft = Ok h3 ->
    closed h3 h4 -> meet_par_subgraph_end C h4 SRight = Ok h5 ->
    closed h0 h5 /\ h_folds C h1 = h_folds C h0 /\ h_folds C h3 = h_folds C h2 /\ h_folds C h5 = h_folds C h4.
  Proof.
    intros S0 [(sl & R2 & FL) P2] S2 [(sr & R4 & FR) P4] S4.
    apply meet_par_start_spec in S0. destruct S0 as (R1 & F1 & f & P1 & I1 & V1).
    apply meet_par_left_spec in S2. destruct S2 as (R3 & F3 & f2 & rest2 & f3 & P2' & P3 & L2 & I3 & V3 & LS3).
    apply meet_par_right_spec in S4. destruct S4 as (F5 & f4 & rest4 & P4' & P5 & L4 & I4 & R5).
    rewrite P2, P1 in P2'. inversion P2'. subst f2 rest2. clear P2'.
    rewrite P4, P3 in P4'. injection P4' as Ef4 Er4. subst f4. rewrite <- Er4 in P5. clear Er4.
    split; [|auto].
    apply skt_app in R1. apply skt_same in R3. apply skt_set in R5. simpl in R1, R5.
    rewrite !nlen_skt in *.
    assert (T4 : skt h4 = skt h0 ++ SPar 0 0 :: sl ++ sr).
    { rewrite R4, R3, R2, R1. rewrite <- !app_assoc. reflexivity. }
    assert (N2 : len_N (skt h2) = len_N (skt h0) + 1 + len_N sl).
    { rewrite R2, R1, !len_N_app, len_N_one. reflexivity. }
    assert (N4 : len_N (skt h4) = len_N (skt h0) + 1 + len_N sl + len_N sr).
    { rewrite R4, R3, len_N_app, N2. reflexivity. }
    split; [|exact P5].
    exists (SPar (len_N sl) (len_N sr) :: sl ++ sr). split.
    - rewrite R5, I3, I1, LS3, V3, V1, N2, N4, T4, N_to_nat_len, set_nth_app_mid.
      f_equal. f_equal; f_equal; lia.
    - rewrite nlen_skt. apply sforest_par.
      + rewrite R1, len_N_app, len_N_one in FL. exact FL.
      + rewrite R3, N2 in FR. exact FR.
  Qed.

  (* update_generation: nothing the structure depends on changes *)
  Lemma closed_update h p g h' :
    update_generation C h p g = inl h' -> closed h h' /\ h_folds C h' = h_folds C h.
  Proof.
    intros H. apply update_generation_spec in H. destruct H as (s & s' & E & RG & R & _ & EP & EF).
    split; [|exact EF]. split; [|exact EP]. exists []. rewrite app_nil_r. split; [|apply sforest_nil].
    apply skt_set in R. rewrite R. apply regen_stream in RG. destruct RG as (_ & _ & NM). rewrite <- NM.
    apply set_nth_same. unfold skt. rewrite nth_error_map.
    unfold nth_N in E. destruct (p <? N.of_nat (length (rt h))); [|discriminate]. now rewrite E.
  Qed.
  Lemma closed_updates us : forall h, closed h (drive_updates C us h) /\ h_folds C (drive_updates C us h) = h_folds C h.
  Proof.
    induction us as [|[p g] r IH]; intros h; simpl.
    - split; [apply closed_refl|reflexivity].
    - destruct (update_generation C h p g) as [h1|] eqn:U.
      + apply closed_update in U. destruct U as [C1 F1]. destruct (IH h1) as [C2 F2].
        split; [eapply closed_trans; eauto|congruence].
      + apply IH.
  Qed.
End WfC.

(* ---- the queue of lore constructors within one generation ---- *)
Fixpoint bchain (e : N) (l : list lore_ctor) (m : N) : Prop :=
  match l with
  | [] => m = e
  | c :: r => lc_before_start c = e /\ bchain (lc_before_end c) r m
  end.
Fixpoint achain (x : N) (l : list lore_ctor) (y : N) : Prop :=
  match l with
  | [] => y = x
  | c :: r => lc_after_start c = x /\ achain (lc_after_end c) r y
  end.

Lemma bchain_app e l1 l2 m : bchain e (l1 ++ l2) m <-> exists k, bchain e l1 k /\ bchain k l2 m.
Proof.
  revert e. induction l1 as [|c r IH]; intros e; simpl.
  - split; [intros H; exists e; auto|intros (k & -> & H); exact H].
  - rewrite IH. split.
    + intros (E & k & A & B). exists k. auto.
    + intros (k & (E & A) & B). split; [exact E|]. exists k. auto.
Qed.
Lemma achain_app x l1 l2 y : achain x (l1 ++ l2) y <-> exists k, achain x l1 k /\ achain k l2 y.
Proof.
  revert x. induction l1 as [|c r IH]; intros x; simpl.
  - split; [intros H; exists x; auto|intros (k & -> & H); exact H].
  - rewrite IH. split.
    + intros (E & k & A & B). exists k. auto.
    + intros (k & (E & A) & B). split; [exact E|]. exists k. auto.
Qed.
Definition same_before (c c' : lore_ctor) : Prop :=
  lc_before_start c' = lc_before_start c /\ lc_before_end c' = lc_before_end c.
Lemma bchain_ext e l l' m : Forall2 same_before l l' -> bchain e l m -> bchain e l' m.
Proof.
  intros F. revert e. induction F as [|c c' r r' [S1 S2] F IH]; intros e; simpl; [auto|].
  intros [E B]. split; [congruence|]. rewrite S2. now apply IH.
Qed.
Lemma Forall2_same_before_refl l : Forall2 same_before l l.
Proof. induction l; constructor; [split; reflexivity|assumption]. Qed.
Lemma Forall2_map_r {A B} (R : A -> B -> Prop) (g : A -> B) l : (forall x, R x (g x)) -> Forall2 R l (map g l).
Proof. intros H. induction l; simpl; constructor; auto. Qed.
Lemma achain_const n l : Forall (fun c => lc_after_start c = n /\ lc_after_end c = n) l -> achain n l n.
Proof.
  induction 1 as [|c r [A B] F IH]; simpl; [reflexivity|]. split; [exact A|]. rewrite B. exact IH.
Qed.

Definition st_is (s : ctor_state) (c : lore_ctor) : Prop := lc_state c = s.

(* traversal not started: pre are completed "before" parts, top is the iteration being executed *)
Definition Qns (lo e : N) (f : fold_fsm) : Prop :=
  ff_back_started f = false /\
  exists pre top, map cd_ctor (ff_queue f) = pre ++ [top] /\ ff_back_pos f = len_N pre + 1 /\ lo <= ff_back_pos f /\
    Forall (st_is BeforeCompleted) pre /\ st_is BeforeStarted top /\ bchain e pre (lc_before_start top).
(* traversal started: cur is the iteration whose "after" part is being executed *)
Definition Qst (lo e : N) (f : fold_fsm) : Prop :=
  ff_back_started f = true /\
  exists pre cur post x, map cd_ctor (ff_queue f) = pre ++ cur :: post /\ ff_back_pos f = len_N pre + 1 /\
    lo <= ff_back_pos f /\
    Forall (st_is BeforeCompleted) pre /\ st_is AfterStarted cur /\ Forall (st_is AfterCompleted) post /\
    bchain e (pre ++ cur :: post) x /\ achain x (rev post) (lc_after_start cur).
Definition Qany (lo e : N) (f : fold_fsm) : Prop := Qns lo e f \/ Qst lo e f.
Definition fconst (ins : N) (lore0 : list fold_sub_lore) (f : fold_fsm) : Prop :=
  ff_inserter f = ins /\ ff_result f = lore0.
(* between generations *)
Definition Gidle (ins n : N) (f : fold_fsm) : Prop :=
  ff_inserter f = ins /\ ff_queue f = [] /\ ff_back_pos f = 0 /\ ff_back_started f = false /\
  lore_ok (ins + 1) (ff_result f) n.

Lemma Qany_weaken lo lo' e f : lo' <= lo -> Qany lo e f -> Qany lo' e f.
Proof.
  intros L [(S & pre & top & Q & B & Lo & R)|(S & pre & cur & post & x & Q & B & Lo & R)].
  - left. split; [exact S|]. exists pre, top. repeat split; try tauto. lia.
  - right. split; [exact S|]. exists pre, cur, post, x. repeat split; try tauto. lia.
Qed.

Lemma idx_pre (pre : list lore_ctor) : N.to_nat (len_N pre + 1 - 1) = length pre.
Proof. unfold len_N. lia. Qed.
Lemma nth_error_mid {A} (a b : list A) x : nth_error (a ++ x :: b) (length a) = Some x.
Proof. induction a; simpl; auto. Qed.

(* meet_iteration_end on a not-started queue *)
Lemma Qns_iteration_end lo e f f' c n :
  Qns lo e f ->
  nth_error (map cd_ctor (ff_queue f)) (N.to_nat (ff_back_pos f - 1)) = Some c ->
  map cd_ctor (ff_queue f') = set_nth (map cd_ctor (ff_queue f)) (N.to_nat (ff_back_pos f - 1)) (ctor_before_end c n) ->
  ff_back_pos f' = ff_back_pos f -> ff_back_started f' = ff_back_started f ->
  ff_back_started f' = false /\
  exists pre top, map cd_ctor (ff_queue f') = pre ++ [top] /\ ff_back_pos f' = len_N pre + 1 /\ lo <= ff_back_pos f' /\
    Forall (st_is BeforeCompleted) pre /\ st_is BeforeCompleted top /\ lc_before_end top = n /\
    bchain e pre (lc_before_start top).
Proof.
  intros (S & pre & top & Q & B & Lo & Fp & St & Ch) Hn Q' B' S'.
  rewrite B, idx_pre, Q in *. rewrite nth_error_mid in Hn. inversion Hn. subst c. clear Hn.
  rewrite set_nth_app_mid in Q'.
  split; [congruence|]. exists pre, (ctor_before_end top n). repeat split; auto; try lia.
  unfold st_is in *. unfold ctor_before_end, ctor_set. cbn. now rewrite St.
Qed.

(* meet_iteration_end; meet_iteration_start *)
Lemma Qns_next_more lo e f f1 f2 c n vp :
  Qns lo e f ->
  nth_error (map cd_ctor (ff_queue f)) (N.to_nat (ff_back_pos f - 1)) = Some c ->
  map cd_ctor (ff_queue f1) = set_nth (map cd_ctor (ff_queue f)) (N.to_nat (ff_back_pos f - 1)) (ctor_before_end c n) ->
  ff_back_pos f1 = ff_back_pos f -> ff_back_started f1 = ff_back_started f ->
  map cd_ctor (ff_queue f2) = map cd_ctor (ff_queue f1) ++ [new_ctor vp n] ->
  ff_back_pos f2 = ff_back_pos f1 + 1 -> ff_back_started f2 = ff_back_started f1 ->
  Qns (lo + 1) e f2.
Proof.
  intros Q Hn Q1 B1 S1 Q2 B2 S2.
  destruct (Qns_iteration_end _ _ _ _ _ _ Q Hn Q1 B1 S1) as (S & pre & top & Qe & B & Lo & Fp & St & Be & Ch).
  split; [congruence|]. exists (pre ++ [top]), (new_ctor vp n). rewrite Q2, Qe.
  split; [reflexivity|]. rewrite len_N_app, len_N_one. split; [lia|]. split; [lia|].
  split; [apply Forall_app; split; [exact Fp|constructor; [exact St|constructor]]|].
  split; [reflexivity|].
  apply bchain_app. exists (lc_before_start top). split; [exact Ch|]. simpl. split; [reflexivity|]. cbn. exact (eq_sym Be).
Qed.

(* meet_iteration_end; meet_back_iterator (no more values) *)
Lemma Qns_next_end lo e f f1 f2 c c1 n :
  Qns lo e f ->
  nth_error (map cd_ctor (ff_queue f)) (N.to_nat (ff_back_pos f - 1)) = Some c ->
  map cd_ctor (ff_queue f1) = set_nth (map cd_ctor (ff_queue f)) (N.to_nat (ff_back_pos f - 1)) (ctor_before_end c n) ->
  ff_back_pos f1 = ff_back_pos f -> ff_back_started f1 = ff_back_started f ->
  nth_error (map cd_ctor (ff_queue f1)) (N.to_nat (ff_back_pos f1 - 1)) = Some c1 ->
  map cd_ctor (ff_queue f2) = set_nth (map cd_ctor (ff_queue f1)) (N.to_nat (ff_back_pos f1 - 1))
                                      (ctor_after_start (ctor_maybe_before_end c1 n) n) ->
  ff_back_pos f2 = ff_back_pos f1 -> ff_back_started f2 = true ->
  Qst lo e f2.
Proof.
  intros Q Hn Q1 B1 S1 Hn1 Q2 B2 S2.
  destruct (Qns_iteration_end _ _ _ _ _ _ Q Hn Q1 B1 S1) as (S & pre & top & Qe & B & Lo & Fp & St & Be & Ch).
  rewrite B, idx_pre, Qe in *. rewrite nth_error_mid in Hn1. inversion Hn1. subst c1. clear Hn1.
  rewrite set_nth_app_mid in Q2.
  split; [exact S2|].
  assert (M : ctor_maybe_before_end top n = top).
  { unfold ctor_maybe_before_end. unfold st_is in St. now rewrite St. }
  rewrite M in Q2.
  exists pre, (ctor_after_start top n), [], n. split; [exact Q2|]. split; [lia|]. split; [lia|].
  split; [exact Fp|]. split; [unfold st_is in *; cbn; now rewrite St|]. split; [constructor|].
  split.
  - apply bchain_app. exists (lc_before_start top). split; [exact Ch|]. simpl. split; [reflexivity|]. cbn. exact (eq_sym Be).
  - simpl. reflexivity.
Qed.

(* meet_back_iterator after the inner iteration returned *)
Lemma Qany_back lo e f f' c n :
  1 <= lo ->
  Qany (lo + 1) e f ->
  nth_error (map cd_ctor (ff_queue f)) (N.to_nat (ff_back_pos f - 1)) = Some c ->
  (if ff_back_started f then
     2 <= ff_back_pos f /\
     exists c2, nth_error (set_nth (map cd_ctor (ff_queue f)) (N.to_nat (ff_back_pos f - 1)) (ctor_after_end c n))
                          (N.to_nat (ff_back_pos f - 2)) = Some c2 /\
       map cd_ctor (ff_queue f') = set_nth (set_nth (map cd_ctor (ff_queue f)) (N.to_nat (ff_back_pos f - 1)) (ctor_after_end c n))
                          (N.to_nat (ff_back_pos f - 2)) (ctor_after_start c2 n) /\
       ff_back_pos f' = ff_back_pos f - 1 /\ ff_back_started f' = true
   else
     map cd_ctor (ff_queue f') = set_nth (map cd_ctor (ff_queue f)) (N.to_nat (ff_back_pos f - 1))
                                         (ctor_after_start (ctor_maybe_before_end c n) n) /\
     ff_back_pos f' = ff_back_pos f /\ ff_back_started f' = true) ->
  Qst lo e f'.
Proof.
  intros L1 [(S & pre & top & Q & B & Lo & Fp & St & Ch)|(S & pre & cur & post & x & Q & B & Lo & Fp & Sc & Fq & Ch & Ach)] Hn R.
  - (* the inner iteration did not reach the end: first back step *)
    rewrite S in R. destruct R as (Q' & B' & S').
    rewrite B, idx_pre, Q in *. rewrite nth_error_mid in Hn. inversion Hn. subst c. clear Hn.
    rewrite set_nth_app_mid in Q'.
    split; [exact S'|].
    exists pre, (ctor_after_start (ctor_maybe_before_end top n) n), [], n.
    split; [exact Q'|]. split; [lia|]. split; [lia|]. split; [exact Fp|].
    unfold st_is in St. unfold ctor_maybe_before_end. rewrite St.
    split; [unfold st_is; cbn; now rewrite St|]. split; [constructor|]. split.
    + apply bchain_app. exists (lc_before_start top). split; [exact Ch|]. simpl. auto.
    + simpl. reflexivity.
  - rewrite S in R. destruct R as (L2 & c2 & Hn2 & Q' & B' & S').
    rewrite B, idx_pre, Q in *. rewrite nth_error_mid in Hn. inversion Hn. subst c. clear Hn.
    rewrite set_nth_app_mid in Hn2, Q'.
    (* pre is not empty *)
    destruct (rev pre) as [|p rpre] eqn:RP.
    { apply (f_equal (@rev _)) in RP. rewrite rev_involutive in RP. subst pre. simpl in L2, Lo. lia. }
    apply (f_equal (@rev _)) in RP. rewrite rev_involutive in RP. simpl in RP. subst pre.
    set (pre' := rev rpre) in *.
    assert (I2 : N.to_nat (len_N (pre' ++ [p]) + 1 - 2) = length pre').
    { rewrite len_N_app, len_N_one. unfold len_N. lia. }
    rewrite I2 in *. rewrite <- app_assoc in Hn2, Q'. simpl in Hn2, Q'.
    rewrite nth_error_mid in Hn2. inversion Hn2. subst c2. clear Hn2.
    rewrite set_nth_app_mid in Q'.
    apply Forall_app in Fp. destruct Fp as [Fp' Fp1]. inversion Fp1 as [|? ? Sp _]. subst.
    split; [exact S'|].
    exists pre', (ctor_after_start p n), (ctor_after_end cur n :: post), x.
    split; [exact Q'|]. rewrite len_N_app, len_N_one in *. split; [lia|]. split; [lia|].
    split; [exact Fp'|].
    unfold st_is in *.
    split; [cbn; now rewrite Sp|].
    split; [constructor; [cbn; now rewrite Sc|exact Fq]|].
    split.
    + rewrite <- app_assoc in Ch. simpl in Ch.
      eapply bchain_ext; [|exact Ch].
      apply Forall2_app; [apply Forall2_same_before_refl|].
      constructor; [split; reflexivity|]. constructor; [split; reflexivity|apply Forall2_same_before_refl].
    + simpl. apply achain_app. exists (lc_after_start cur). split; [exact Ach|]. simpl. split; [reflexivity|]. reflexivity.
Qed.

(* meet_generation_end: the group emitted for a queue in any reachable state tiles [e, n) *)
Lemma befores_of_chain (C : Type) e l m :
  bchain e l m -> Forall ctor_sane l -> befores_end e (map lore_of l) = Some m.
Proof.
  revert e. induction l as [|c r IH]; simpl; intros e H F.
  - now subst.
  - destruct H as [E B]. inversion F as [|? ? [S1 S2] F']. subst.
    unfold entry_descs. cbn. rewrite N.eqb_refl.
    replace (lc_before_start c + (lc_before_end c - lc_before_start c)) with (lc_before_end c) by lia.
    now apply IH.
Qed.
Lemma afters_of_chain x l y :
  achain x l y -> Forall ctor_sane l -> afters_end x (map lore_of l) = Some y.
Proof.
  revert x. induction l as [|c r IH]; simpl; intros x H F.
  - now subst.
  - destruct H as [E B]. inversion F as [|? ? [S1 S2] F']. subst.
    unfold entry_descs. cbn. rewrite N.eqb_refl.
    replace (lc_after_start c + (lc_after_end c - lc_after_start c)) with (lc_after_end c) by lia.
    now apply IH.
Qed.
Lemma group_of_chains e l x y :
  bchain e l x -> achain x (rev l) y -> Forall ctor_sane l -> group_end e (map lore_of l) = Some y.
Proof.
  intros B A F. unfold group_end. rewrite (befores_of_chain unit _ _ _ B F). rewrite <- map_rev.
  apply afters_of_chain; [exact A|]. apply Forall_rev. exact F.
Qed.

Lemma finish_before_completed c n : st_is BeforeCompleted c ->
  same_before c (ctor_finish c n) /\ lc_after_start (ctor_finish c n) = n /\ lc_after_end (ctor_finish c n) = n.
Proof. unfold st_is, ctor_finish. intros ->. cbn. repeat split. Qed.
Lemma finish_after_completed c n : st_is AfterCompleted c -> ctor_finish c n = c.
Proof. unfold st_is, ctor_finish. now intros ->. Qed.

Lemma finish_before_started c n : st_is BeforeStarted c ->
  lc_before_start (ctor_finish c n) = lc_before_start c /\ lc_before_end (ctor_finish c n) = n /\
  lc_after_start (ctor_finish c n) = n /\ lc_after_end (ctor_finish c n) = n.
Proof. unfold st_is, ctor_finish. intros ->. cbn. repeat split. Qed.
Lemma finish_after_started c n : st_is AfterStarted c ->
  same_before c (ctor_finish c n) /\ lc_after_start (ctor_finish c n) = lc_after_start c /\ lc_after_end (ctor_finish c n) = n.
Proof. unfold st_is, ctor_finish. intros ->. cbn. repeat split. Qed.
Lemma Forall2_of_Forall {A B} (P : A -> Prop) (R : A -> B -> Prop) (g : A -> B) l :
  Forall P l -> (forall x, P x -> R x (g x)) -> Forall2 R l (map g l).
Proof. intros F H. induction F; simpl; constructor; auto. Qed.
Lemma map_id_Forall {A} (P : A -> Prop) (g : A -> A) l : Forall P l -> (forall x, P x -> g x = x) -> map g l = l.
Proof. intros F H. induction F; simpl; [reflexivity|]. rewrite H by assumption. now f_equal. Qed.
Lemma finish_pre_const pre n :
  Forall (st_is BeforeCompleted) pre ->
  Forall (fun c => lc_after_start c = n /\ lc_after_end c = n) (rev (map (fun c => ctor_finish c n) pre)).
Proof.
  intros F. apply Forall_rev. apply Forall_map. eapply Forall_impl; [|exact F].
  intros c H. apply (finish_before_completed c n) in H. tauto.
Qed.

Lemma group_of_Qany lo e f n :
  Qany lo e f -> Forall (fun c => ctor_sane (ctor_finish c n)) (map cd_ctor (ff_queue f)) ->
  group_end e (map (fun c => lore_of (ctor_finish c n)) (map cd_ctor (ff_queue f))) = Some n /\
  map cd_ctor (ff_queue f) <> [].
Proof.
  intros Q F. rewrite <- (map_map (fun c => ctor_finish c n) lore_of).
  rewrite <- Forall_map in F.
  destruct Q as [(S & pre & top & Q & B & Lo & Fp & St & Ch)|(S & pre & cur & post & x & Q & B & Lo & Fp & Sc & Fq & Ch & Ach)];
    rewrite Q in *; (split; [|destruct pre; discriminate]).
  - rewrite map_app in *. simpl map in *.
    destruct (finish_before_started top n St) as (T1 & T2 & T3 & T4).
    apply group_of_chains with (x := n); [| |exact F].
    + apply bchain_app. exists (lc_before_start top). split.
      * eapply bchain_ext; [|exact Ch]. eapply Forall2_of_Forall; [exact Fp|].
        intros c Hc. apply (finish_before_completed c n) in Hc. tauto.
      * simpl. split; [exact T1|]. now rewrite T2.
    + rewrite rev_app_distr. simpl. split; [exact T3|]. rewrite T4. apply achain_const. now apply finish_pre_const.
  - rewrite map_app in *. simpl map in *.
    destruct (finish_after_started cur n Sc) as (U1 & U2 & U3).
    assert (MP : map (fun c => ctor_finish c n) post = post).
    { eapply map_id_Forall; [exact Fq|]. intros c Hc. now apply finish_after_completed. }
    rewrite MP in *.
    apply group_of_chains with (x := x); [| |exact F].
    + eapply bchain_ext; [|exact Ch]. apply Forall2_app.
      * eapply Forall2_of_Forall; [exact Fp|]. intros c Hc. apply (finish_before_completed c n) in Hc. tauto.
      * constructor; [exact U1|apply Forall2_same_before_refl].
    + rewrite rev_app_distr. simpl. rewrite <- app_assoc. simpl.
      apply achain_app. exists (lc_after_start cur). split; [exact Ach|]. simpl. split; [exact U2|].
      rewrite U3. apply achain_const. now apply finish_pre_const.
Qed.

(* ---- induction on driver trees ---- *)
Scheme dt_mut := Induction for dt Sort Prop
  with dts_mut := Induction for dts Sort Prop
  with gens_mut := Induction for gens Sort Prop
  with body_mut := Induction for body Sort Prop
  with hole_mut := Induction for hole Sort Prop.
Combined Scheme drive_mutind from dt_mut, dts_mut, gens_mut, body_mut, hole_mut.

Section WfTree.
  Variable C : Type.
  Variable ceqb : C -> C -> bool.
  Notation state := (state C).
  Notation trace := (list state).
  Notation handler := (handler C).
  Notation rt := (rt C).
  Notation nlen := (nlen C).
  Notation closed := (closed C).
  Notation frame := (frame C).
  Notation frame_but := (frame_but C).
  Notation fold_inv := (fold_inv C).

  Lemma closed_same h h' : rt h' = rt h -> h_pars C h' = h_pars C h -> closed h h'.
  Proof.
    intros R P. split; [|exact P]. exists []. rewrite app_nil_r. split; [now apply skt_same|apply sforest_nil].
  Qed.

  Lemma iteration_start_meet chk h id v h' :
    iteration_start C chk h id v = Ok h' -> meet_iteration_start C h id (vsel_pos C h v) = Ok h'.
  Proof.
    unfold iteration_start. destruct (chk && negb (is_stream_at C (result_trace C h) (vsel_pos C h v))); [discriminate|auto].
  Qed.

  Definition body_post (h h' : handler) (id : N) : Prop :=
    closed h h' /\ frame_but id h h' /\
    forall lo e ins lore0, 1 <= lo ->
      fold_inv h id (fun f => fconst ins lore0 f /\ Qns lo e f) ->
      fold_inv h' id (fun f => fconst ins lore0 f /\ Qany lo e f).

  Definition Pdt (d : dt C) : Prop := forall chk h h', drive_dt C ceqb chk d h = Ok h' -> closed h h' /\ frame h h'.
  Definition Pdts (ds : dts C) : Prop := forall chk h h', drive_dts C ceqb chk ds h = Ok h' -> closed h h' /\ frame h h'.
  Definition Pgens (gs : gens C) : Prop :=
    forall chk id h h', drive_gens C ceqb chk id gs h = Ok h' ->
      closed h h' /\ frame_but id h h' /\
      forall ins, fold_inv h id (Gidle ins (nlen h)) -> fold_inv h' id (Gidle ins (nlen h')).
  Definition Pbody (b : body C) : Prop :=
    forall chk id h h', drive_body C ceqb chk id b h = Ok h' -> body_post h h' id.
  Definition Phole (hl : hole C) : Prop :=
    forall chk id h h', drive_hole C ceqb chk id hl h = Ok h' -> body_post h h' id.

  (* a closed piece inside a body *)
  Lemma body_post_of_closed h h' id : closed h h' -> frame h h' -> body_post h h' id.
  Proof.
    intros Cl Fr. split; [exact Cl|]. split; [now apply frame_frame_but|].
    intros lo e ins lore0 _ I f G. apply Fr in G. apply I in G. destruct G as [A B]. split; [exact A|now left].
  Qed.
  (* closed ; body-piece ; closed *)
  Lemma body_post_seq h0 h1 h2 h3 id :
    closed h0 h1 -> frame h0 h1 -> body_post h1 h2 id -> closed h2 h3 -> frame h2 h3 -> body_post h0 h3 id.
  Proof.
    intros C1 F1 (C2 & F2 & I2) C3 F3. split; [eapply closed_trans; [exact C1|eapply closed_trans; eauto]|].
    split.
    - eapply frame_but_trans; [apply frame_frame_but; exact F1|]. eapply frame_but_trans; [exact F2|apply frame_frame_but; exact F3].
    - intros lo e ins lore0 L I. eapply fold_inv_frame; [exact F3|]. apply I2; [exact L|]. eapply fold_inv_frame; [exact F1|exact I].
  Qed.

  Lemma par_hole_post h0 h1 h2 h3 h4 h5 id :
    meet_par_start C h0 = Ok h1 -> meet_par_subgraph_end C h2 SLeft = Ok h3 -> meet_par_subgraph_end C h4 SRight = Ok h5 ->
    (body_post h1 h2 id /\ closed h3 h4 /\ frame h3 h4 \/ closed h1 h2 /\ frame h1 h2 /\ body_post h3 h4 id) ->
    body_post h0 h5 id.
  Proof.
    intros S0 S2 S4 D.
    assert (CL : closed h1 h2 /\ closed h3 h4).
    { destruct D as [((A & _) & B & _)|(A & _ & (B & _))]; auto. }
    destruct CL as [CL CR].
    destruct (closed_par _ _ _ _ _ _ _ S0 CL S2 CR S4) as (Cl & F1 & F3 & F5).
    split; [exact Cl|].
    assert (FB : frame_but id h1 h2 /\ frame_but id h3 h4).
    { destruct D as [((_ & A & _) & _ & B)|(_ & A & (_ & B & _))]; split; auto; now apply frame_frame_but. }
    destruct FB as [FB1 FB2].
    split.
    - eapply frame_but_trans; [apply frame_frame_but, frame_of_eq; exact F1|].
      eapply frame_but_trans; [exact FB1|]. eapply frame_but_trans; [apply frame_frame_but, frame_of_eq; exact F3|].
      eapply frame_but_trans; [exact FB2|apply frame_frame_but, frame_of_eq; exact F5].
    - intros lo e ins lore0 L I.
      apply (fold_inv_eq _ _ _ _ _ F5).
      destruct D as [((_ & _ & IB) & _ & FR)|(_ & FL & (_ & _ & IB))].
      + eapply fold_inv_frame; [exact FR|]. apply (fold_inv_eq _ _ _ _ _ F3). apply IB; [exact L|].
        apply (fold_inv_eq _ _ _ _ _ F1). exact I.
      + apply IB; [exact L|]. apply (fold_inv_eq _ _ _ _ _ F3). eapply fold_inv_frame; [exact FL|].
        apply (fold_inv_eq _ _ _ _ _ F1). exact I.
  Qed.

  Theorem drive_spec :
    (forall d, Pdt d) /\ (forall ds, Pdts ds) /\ (forall gs, Pgens gs) /\ (forall b, Pbody b) /\ (forall hl, Phole hl).
  Proof.
    apply drive_mutind.
    - (* DCall *) intros c chk h h' H. cbn in H. apply leafstep_closed. eapply drive_call_leaf; eauto.
    - (* DAp *) intros a chk h h' H. cbn in H. apply leafstep_closed. eapply drive_ap_leaf; eauto.
    - (* DCanon *) intros c chk h h' H. cbn in H. apply leafstep_closed. eapply drive_canon_leaf; eauto.
    - (* DPar *)
      intros l IHl r IHr chk h h' H. cbn [drive_dt] in H.
      inv_bind H. inv_bind H. inv_bind H. inv_bind H.
      apply IHl in E0. apply IHr in E2. destruct E0 as [CL FL]. destruct E2 as [CR FR].
      destruct (closed_par _ _ _ _ _ _ _ E CL E1 CR H) as (Cl & F1 & F3 & F5).
      split; [exact Cl|].
      eapply frame_trans; [apply frame_of_eq; exact F1|]. eapply frame_trans; [exact FL|].
      eapply frame_trans; [apply frame_of_eq; exact F3|]. eapply frame_trans; [exact FR|apply frame_of_eq; exact F5].
    - (* DFold *)
      intros id gs IH chk h h' H. cbn [drive_dt] in H. inv_bind H. inv_bind H.
      apply meet_fold_start_spec in E. destruct E as (R1 & P1 & f0 & F1 & I0 & Q0 & B0 & S0 & L0).
      apply IH in E0. destruct E0 as ([(s & R2 & FS) P2] & FB & GI).
      apply meet_fold_end_spec in H. destruct H as (P3 & F3 & f2 & G2 & I2 & R3).
      assert (N1 : nlen a = nlen h + 1). { unfold nlen. rewrite R1, len_N_app, len_N_one. reflexivity. }
      assert (G : Gidle (nlen h) (nlen a0) f2).
      { apply (GI (nlen h)); [|exact G2]. intros f G. rewrite F1, folds_get_put_same in G. inversion G. subst f.
        repeat split; auto. rewrite L0, N1. constructor. }
      destruct G as (GI2 & _ & _ & _ & GL).
      apply skt_app in R1. apply skt_set in R3. simpl in R1, R3.
      assert (N2 : nlen a0 = nlen h + 1 + len_N s). { rewrite (nlen_skt _ a0), R2, len_N_app, <- nlen_skt, N1. reflexivity. }
      split.
      + split; [|congruence].
        exists (SFold (ff_result f2) :: s). split.
        * rewrite R3, R2, R1, GI2, nlen_skt, N_to_nat_len, <- app_assoc. simpl. apply set_nth_app_mid.
        * apply sforest_fold; [rewrite <- N2; exact GL|]. rewrite N1 in FS. exact FS.
      + intros i f G. rewrite F3 in G.
        destruct (N.eq_dec i id) as [->|Ne]; [rewrite folds_get_del_same in G; discriminate|].
        rewrite folds_get_del_other in G by exact Ne. apply FB in G; [|exact Ne].
        rewrite F1, folds_get_put_other in G by exact Ne. exact G.
    - (* DGens *)
      intros us chk h h' H. cbn in H. inversion H. subst h'. destruct (closed_updates _ us h) as [Cl F].
      split; [exact Cl|now apply frame_of_eq].
    - (* DNil *) intros chk h h' H. cbn in H. inversion H. subst. split; [apply closed_refl|apply frame_refl].
    - (* DCons *)
      intros d IHd ds IHds chk h h' H. cbn [drive_dts] in H. inv_bind H.
      apply IHd in E. apply IHds in H. destruct E, H. split; [eapply closed_trans; eauto|eapply frame_trans; eauto].
    - (* GNil *)
      intros chk id h h' H. cbn in H. inversion H. subst. split; [apply closed_refl|]. split; [intros i f _ G; exact G|auto].
    - (* GCons *)
      intros v b IHb gs IHgs chk id h h' H. cbn [drive_gens] in H. inv_bind H. inv_bind H. inv_bind H.
      apply iteration_start_meet in E. apply meet_iteration_start_spec in E.
      destruct E as (R1 & P1 & f & f1 & G0 & F1 & I1 & L1 & Q1 & B1 & S1).
      apply IHb in E0. destruct E0 as (C2 & FB2 & IB).
      apply meet_generation_end_spec in E1. cbv zeta in E1.
      destruct E1 as (R3 & P3 & f2 & f3 & G2 & F3 & Q3 & B3 & S3 & I3 & L3 & SN).
      apply IHgs in H. destruct H as (C4 & FB4 & IG).
      split; [eapply closed_trans; [apply closed_same; eassumption|]; eapply closed_trans; [exact C2|];
              eapply closed_trans; [apply closed_same; eassumption|exact C4]|].
      split.
      { eapply frame_but_trans; [eapply frame_but_put; exact F1|]. eapply frame_but_trans; [exact FB2|].
        eapply frame_but_trans; [eapply frame_but_put; exact F3|exact FB4]. }
      intros ins GI. apply IG. intros g Gg. rewrite F3, folds_get_put_same in Gg. inversion Gg. subst g. clear Gg.
      destruct (GI _ G0) as (GI0 & GQ & GB & GS & GL).
      assert (QA : fconst ins (ff_result f) f2 /\ Qany 1 (nlen h) f2).
      { apply (IB 1 (nlen h) ins (ff_result f)); [lia| |exact G2].
        intros g Gg. rewrite F1, folds_get_put_same in Gg. inversion Gg. subst g. clear Gg.
        split; [split; congruence|].
        split; [congruence|]. exists [], (new_ctor (vsel_pos C h v) (nlen h)).
        unfold ctors in Q1. rewrite GQ in Q1. simpl in Q1.
        split; [exact Q1|]. rewrite len_N_nil. split; [lia|]. split; [lia|]. split; [constructor|]. split; [reflexivity|].
        simpl. reflexivity. }
      destruct QA as ((A1 & A2) & QA).
      destruct (group_of_Qany _ _ _ (nlen a0) QA SN) as (GE & NE).
      assert (N3 : nlen a1 = nlen a0). { unfold nlen. now rewrite R3. }
      unfold Gidle. split; [congruence|]. split; [exact Q3|]. split; [exact B3|]. split; [exact S3|].
      rewrite L3, N3, A2. unfold ctors. eapply lore_ok_snoc; [exact GL| |exact GE].
      destruct (map cd_ctor (ff_queue f2)); [congruence|discriminate].
    - (* BPlain *)
      intros ds IH chk id h h' H. cbn [drive_body] in H. apply IH in H. destruct H. now apply body_post_of_closed.
    - (* BHole *)
      intros ds IHds hl IHh after IHa chk id h h' H. cbn [drive_body] in H. inv_bind H. inv_bind H.
      apply IHds in E. apply IHh in E0. apply IHa in H. destruct E, H. eapply body_post_seq; eauto.
    - (* HNextMore *)
      intros v b IHb back chk id h h' H. cbn [drive_hole] in H. inv_bind H. inv_bind H. inv_bind H.
      apply meet_iteration_end_spec in E. destruct E as (R1 & P1 & f & f1 & c & G0 & F1 & Lb & Hn & Q1 & I1 & L1 & B1 & S1).
      apply iteration_start_meet in E0. apply meet_iteration_start_spec in E0.
      destruct E0 as (R2 & P2 & f1' & f2 & G1 & F2 & I2 & L2 & Q2 & B2 & S2).
      rewrite F1, folds_get_put_same in G1. inversion G1. subst f1'. clear G1.
      apply IHb in E1. destruct E1 as (C3 & FB3 & IB).
      assert (C03 : closed h a1).
      { eapply closed_trans; [apply closed_same; eassumption|]. eapply closed_trans; [apply closed_same; eassumption|exact C3]. }
      assert (FB03 : frame_but id h a1).
      { eapply frame_but_trans; [eapply frame_but_put; exact F1|]. eapply frame_but_trans; [eapply frame_but_put; exact F2|exact FB3]. }
      assert (I03 : forall lo e ins lore0, 1 <= lo -> fold_inv h id (fun f => fconst ins lore0 f /\ Qns lo e f) ->
                    fold_inv a1 id (fun f => fconst ins lore0 f /\ Qany (lo + 1) e f)).
      { intros lo e ins lore0 L I. apply IB; [lia|].
        intros g Gg. rewrite F2, folds_get_put_same in Gg. inversion Gg. subst g. clear Gg.
        destruct (I _ G0) as ((A1 & A2) & QN).
        split; [split; congruence|].
        assert (NN : nlen a = nlen h) by (unfold nlen; now rewrite R1).
        unfold ctors in *. rewrite NN in Q2. eapply Qns_next_more; eauto. }
      destruct back.
      + apply meet_back_iterator_spec in H. cbv zeta in H.
        destruct H as (R4 & P4 & f3 & f4 & c3 & G3 & F4 & I4 & L4 & Lb3 & Hn3 & Rest).
        split; [eapply closed_trans; [exact C03|apply closed_same; assumption]|].
        split; [eapply frame_but_trans; [exact FB03|eapply frame_but_put; exact F4]|].
        intros lo e ins lore0 L I g Gg. rewrite F4, folds_get_put_same in Gg. inversion Gg. subst g. clear Gg.
        destruct (I03 lo e ins lore0 L I _ G3) as ((A1 & A2) & QA).
        split; [split; congruence|]. right. unfold ctors in *. eapply Qany_back; eauto.
      + inversion H. subst h'. split; [exact C03|]. split; [exact FB03|].
        intros lo e ins lore0 L I g Gg. destruct (I03 lo e ins lore0 L I _ Gg) as (A & QA).
        split; [exact A|]. eapply Qany_weaken; [|exact QA]. lia.
    - (* HNextEnd *)
      intros last IHl chk id h h' H. cbn [drive_hole] in H. inv_bind H. inv_bind H.
      apply meet_iteration_end_spec in E. destruct E as (R1 & P1 & f & f1 & c & G0 & F1 & Lb & Hn & Q1 & I1 & L1 & B1 & S1).
      apply meet_back_iterator_spec in E0. cbv zeta in E0.
      destruct E0 as (R2 & P2 & f1' & f2 & c1 & G1 & F2 & I2 & L2 & Lb1 & Hn1 & Rest).
      rewrite F1, folds_get_put_same in G1. inversion G1. subst f1'. clear G1.
      apply IHl in H. destruct H as (C3 & FR3).
      split; [eapply closed_trans; [apply closed_same; eassumption|]; eapply closed_trans; [apply closed_same; eassumption|exact C3]|].
      split; [eapply frame_but_trans; [eapply frame_but_put; exact F1|]; eapply frame_but_trans; [eapply frame_but_put; exact F2|];
              now apply frame_frame_but|].
      intros lo e ins lore0 L I. eapply fold_inv_frame; [exact FR3|].
      intros g Gg. rewrite F2, folds_get_put_same in Gg. inversion Gg. subst g. clear Gg.
      destruct (I _ G0) as ((A1 & A2) & QN).
      split; [split; congruence|]. right.
      assert (SF : ff_back_started f1 = false) by (destruct QN as [SQ _]; congruence).
      rewrite SF in Rest. destruct Rest as (Q2 & B2 & S2).
      assert (NN : nlen a = nlen h) by (unfold nlen; now rewrite R1).
      unfold ctors in *. rewrite NN in *. eapply Qns_next_end; eauto.
    - (* HParL *)
      intros b IHb r IHr chk id h h' H. cbn [drive_hole] in H. inv_bind H. inv_bind H. inv_bind H. inv_bind H.
      apply IHb in E0. apply IHr in E2. destruct E2.
      eapply par_hole_post; eauto.
    - (* HParR *)
      intros l IHl b IHb chk id h h' H. cbn [drive_hole] in H. inv_bind H. inv_bind H. inv_bind H. inv_bind H.
      apply IHl in E0. apply IHb in E2. destruct E0.
      eapply par_hole_post; eauto 6.
  Qed.

  Theorem wf_drive : C10_wf_drive_stmt C ceqb.
  Proof.
    intros ds prev cur h H. unfold drive in H.
    destruct drive_spec as (_ & Hds & _). apply Hds in H. destruct H as [[(s & R & F) _] _].
    unfold result_trace. change (k_result C (h_keeper C h)) with (rt h).
    change (skt C (handler_from C prev cur)) with (@nil (Trace.state unit)) in R.
    change (nlen (handler_from C prev cur)) with 0 in F. simpl in R.
    apply sforest_whole in F. unfold wf_struct in *. rewrite <- R in F. unfold skt in F. rewrite len_N_map in F.
    apply forest_norm. exact F.
  Qed.
End WfTree.


(* unfolding equations of the driver (the mutual fixpoint does not refold under cbn once [chk] is instantiated) *)
Section DriveEq.
  Variable C : Type.
  Variable ceqb : C -> C -> bool.
  Variable chk : bool.
  Notation handler := (handler C).
  Lemma drive_dt_call c (h : handler) : drive_dt C ceqb chk (DCall c) h = drive_call C ceqb c h.
  Proof. reflexivity. Qed.
  Lemma drive_dt_ap a (h : handler) : drive_dt C ceqb chk (DAp a) h = drive_ap C a h.
  Proof. reflexivity. Qed.
  Lemma drive_dt_canon c (h : handler) : drive_dt C ceqb chk (DCanon c) h = drive_canon C ceqb c h.
  Proof. reflexivity. Qed.
  Lemma drive_dt_par l r (h : handler) :
    drive_dt C ceqb chk (DPar l r) h =
    (do h1 <- meet_par_start C h; do h2 <- drive_dts C ceqb chk l h1; do h3 <- meet_par_subgraph_end C h2 SLeft;
     do h4 <- drive_dts C ceqb chk r h3; meet_par_subgraph_end C h4 SRight).
  Proof. reflexivity. Qed.
  Lemma drive_dt_fold id gs (h : handler) :
    drive_dt C ceqb chk (DFold id gs) h =
    (do h1 <- meet_fold_start C h id; do h2 <- drive_gens C ceqb chk id gs h1; meet_fold_end C h2 id).
  Proof. reflexivity. Qed.
  Lemma drive_dt_gens us (h : handler) : drive_dt C ceqb chk (DGens us) h = Ok (drive_updates C us h).
  Proof. reflexivity. Qed.
  Lemma drive_dts_nil (h : handler) : drive_dts C ceqb chk DNil h = Ok h.
  Proof. reflexivity. Qed.
  Lemma drive_dts_cons d r (h : handler) :
    drive_dts C ceqb chk (DCons d r) h = (do h1 <- drive_dt C ceqb chk d h; drive_dts C ceqb chk r h1).
  Proof. reflexivity. Qed.
  Lemma drive_gens_nil id (h : handler) : drive_gens C ceqb chk id GNil h = Ok h.
  Proof. reflexivity. Qed.
  Lemma drive_gens_cons id v b r (h : handler) :
    drive_gens C ceqb chk id (GCons v b r) h =
    (do h1 <- iteration_start C chk h id v; do h2 <- drive_body C ceqb chk id b h1;
     do h3 <- meet_generation_end C h2 id; drive_gens C ceqb chk id r h3).
  Proof. reflexivity. Qed.
  Lemma drive_body_plain id ds (h : handler) : drive_body C ceqb chk id (BPlain ds) h = drive_dts C ceqb chk ds h.
  Proof. reflexivity. Qed.
  Lemma drive_body_hole id ds hl after (h : handler) :
    drive_body C ceqb chk id (BHole ds hl after) h =
    (do h1 <- drive_dts C ceqb chk ds h; do h2 <- drive_hole C ceqb chk id hl h1; drive_dts C ceqb chk after h2).
  Proof. reflexivity. Qed.
  Lemma drive_hole_more id v b back (h : handler) :
    drive_hole C ceqb chk id (HNextMore v b back) h =
    (do h1 <- meet_iteration_end C h id; do h2 <- iteration_start C chk h1 id v; do h3 <- drive_body C ceqb chk id b h2;
     if back then meet_back_iterator C h3 id else Ok h3).
  Proof. reflexivity. Qed.
  Lemma drive_hole_end id last (h : handler) :
    drive_hole C ceqb chk id (HNextEnd last) h =
    (do h1 <- meet_iteration_end C h id; do h2 <- meet_back_iterator C h1 id; drive_dts C ceqb chk last h2).
  Proof. reflexivity. Qed.
  Lemma drive_hole_parl id b r (h : handler) :
    drive_hole C ceqb chk id (HParL b r) h =
    (do h1 <- meet_par_start C h; do h2 <- drive_body C ceqb chk id b h1; do h3 <- meet_par_subgraph_end C h2 SLeft;
     do h4 <- drive_dts C ceqb chk r h3; meet_par_subgraph_end C h4 SRight).
  Proof. reflexivity. Qed.
  Lemma drive_hole_parr id l b (h : handler) :
    drive_hole C ceqb chk id (HParR l b) h =
    (do h1 <- meet_par_start C h; do h2 <- drive_dts C ceqb chk l h1; do h3 <- meet_par_subgraph_end C h2 SLeft;
     do h4 <- drive_body C ceqb chk id b h3; meet_par_subgraph_end C h4 SRight).
  Proof. reflexivity. Qed.
End DriveEq.
Ltac drive_unfold :=
  rewrite ?drive_dt_call, ?drive_dt_ap, ?drive_dt_canon, ?drive_dt_par, ?drive_dt_fold, ?drive_dt_gens, ?drive_dts_nil, ?drive_dts_cons,
    ?drive_gens_nil, ?drive_gens_cons, ?drive_body_plain, ?drive_body_hole, ?drive_hole_more, ?drive_hole_end,
    ?drive_hole_parl, ?drive_hole_parr in *.

(* ===================================================================== *)
(* Part D: value positions (checked driver) and generations *)

Section WfD.
  Variable C : Type.
  Variable ceqb : C -> C -> bool.
  Notation state := (state C).
  Notation trace := (list state).
  Notation handler := (handler C).
  Notation rt := (rt C).
  Notation nlen := (nlen C).

  (* ---- the checked driver is the driver ---- *)
  Lemma iteration_start_chk h id v h' :
    iteration_start C true h id v = Ok h' ->
    iteration_start C false h id v = Ok h' /\ is_stream_at C (rt h) (vsel_pos C h v) = true.
  Proof.
    unfold iteration_start. cbn [andb]. unfold result_trace. change (k_result C (h_keeper C h)) with (rt h).
    destruct (is_stream_at C (rt h) (vsel_pos C h v)); cbn [negb]; [auto|discriminate].
  Qed.

  Theorem drive_chk_drive_all :
    (forall d h h', drive_dt C ceqb true d h = Ok h' -> drive_dt C ceqb false d h = Ok h') /\
    (forall ds h h', drive_dts C ceqb true ds h = Ok h' -> drive_dts C ceqb false ds h = Ok h') /\
    (forall gs id h h', drive_gens C ceqb true id gs h = Ok h' -> drive_gens C ceqb false id gs h = Ok h') /\
    (forall b id h h', drive_body C ceqb true id b h = Ok h' -> drive_body C ceqb false id b h = Ok h') /\
    (forall hl id h h', drive_hole C ceqb true id hl h = Ok h' -> drive_hole C ceqb false id hl h = Ok h').
  Proof.
    apply drive_mutind; intros; drive_unfold;
      repeat match goal with
             | H : bind _ _ = Ok _ |- _ => inv_bind H
             end;
      repeat match goal with
             | IH : forall h h', _ = Ok h' -> _ = Ok h', E : _ = Ok _ |- _ => apply IH in E
             | IH : forall id h h', _ = Ok h' -> _ = Ok h', E : _ = Ok _ |- _ => apply IH in E
             | E : iteration_start C true _ _ _ = Ok _ |- _ => apply iteration_start_chk in E; destruct E as [E _]
             end;
      unfold bind;
      repeat match goal with
             | E : ?x = Ok _ |- context [match ?x with _ => _ end] => rewrite E
             end; auto.
  Qed.

  (* ---- an invariant that every API call keeps ---- *)
  Definition nonstream_at (t : trace) (p : N) : Prop :=
    exists s, nth_N t p = Some s /\ is_stream_state C s = false.
  Definition text (t t' : trace) : Prop :=
    (forall p, is_stream_at C t p = true -> is_stream_at C t' p = true) /\
    (forall p, nonstream_at t p -> nonstream_at t' p).

  Definition ctor_vp_ok (t : trace) (c : lore_ctor) : Prop :=
    lc_value_pos c < lc_before_start c /\ is_stream_at C t (lc_value_pos c) = true.
  Definition fold_vp_ok (t : trace) (f : fold_fsm) : Prop :=
    nonstream_at t (ff_inserter f) /\
    Forall (fun x => entry_vp_ok C t x = true) (ff_result f) /\
    Forall (ctor_vp_ok t) (map cd_ctor (ff_queue f)).
  Definition Vinv (h : handler) : Prop :=
    vp_ok C (rt h) /\
    Forall (fun f => nonstream_at (rt h) (pf_inserter f)) (h_pars C h) /\
    forall id f, folds_get (h_folds C h) id = Some f -> fold_vp_ok (rt h) f.

  Lemma text_refl t : text t t.
  Proof. split; auto. Qed.
  Lemma text_app t s : text t (t ++ s).
  Proof.
    split.
    - intros p. unfold is_stream_at. destruct (nth_N t p) eqn:E; [|discriminate].
      rewrite nth_N_app_l by (eapply nth_N_some; eauto). now rewrite E.
    - intros p (x & E & S). exists x. split; [|exact S]. rewrite nth_N_app_l by (eapply nth_N_some; eauto). exact E.
  Qed.
  Lemma text_set t p x : nonstream_at t p -> is_stream_state C x = false -> text t (set_nth t (N.to_nat p) x).
  Proof.
    intros (s0 & E0 & S0) Sx. split.
    - intros q. unfold is_stream_at. destruct (N.eq_dec p q) as [->|Ne].
      + rewrite E0, S0. discriminate.
      + now rewrite nth_N_set_nth_other.
    - intros q (s & E & S). destruct (N.eq_dec p q) as [->|Ne].
      + exists x. split; [|exact Sx]. apply nth_N_set_nth_same. eapply nth_N_some; eauto.
      + exists s. split; [|exact S]. now rewrite nth_N_set_nth_other.
  Qed.

  Lemma entry_vp_text t t' x : text t t' -> entry_vp_ok C t x = true -> entry_vp_ok C t' x = true.
  Proof.
    intros [M _]. unfold entry_vp_ok. destruct (fl_descs x); [auto|]. intros H. apply andb_prop in H. destruct H as [A B].
    apply andb_true_intro. split; [exact A|now apply M].
  Qed.
  Lemma ctor_vp_text t t' c : text t t' -> ctor_vp_ok t c -> ctor_vp_ok t' c.
  Proof. intros [M _] [A B]. split; [exact A|now apply M]. Qed.
  Lemma fold_vp_text t t' f : text t t' -> fold_vp_ok t f -> fold_vp_ok t' f.
  Proof.
    intros T (A & B & D). split; [now apply (proj2 T)|]. split.
    - eapply Forall_impl; [|exact B]. intros x. now apply entry_vp_text.
    - eapply Forall_impl; [|exact D]. intros c. now apply ctor_vp_text.
  Qed.

  (* vp_ok after appending states none of which is a fold *)
  Lemma vp_ok_app t s : vp_ok C t -> Forall (fun x => match x with SFold _ => False | _ => True end) s -> vp_ok C (t ++ s).
  Proof.
    intros V F p lore x Hp Hx.
    destruct (N.lt_ge_cases p (len_N t)) as [L|G].
    - rewrite nth_N_app_l in Hp by exact L. destruct (V p lore x Hp Hx) as (b & rest & E & Lt & S).
      exists b, rest. split; [exact E|]. split; [exact Lt|]. now apply (proj1 (text_app t s)).
    - replace p with (len_N t + (p - len_N t)) in Hp by lia. rewrite nth_N_app_r in Hp.
      apply nth_N_In in Hp. rewrite Forall_forall in F. apply F in Hp. contradiction.
  Qed.
  Lemma vp_ok_set t p x :
    vp_ok C t -> nonstream_at t p -> is_stream_state C x = false ->
    (forall lore, x = SFold lore -> Forall (fun e => entry_vp_ok C t e = true) lore) ->
    vp_ok C (set_nth t (N.to_nat p) x).
  Proof.
    intros V NS Sx HF q lore e Hq He.
    pose proof (text_set t p x NS Sx) as T.
    destruct (N.eq_dec p q) as [->|Ne].
    - destruct NS as (s0 & E0 & _). rewrite nth_N_set_nth_same in Hq by (eapply nth_N_some; eauto).
      inversion Hq. subst x. specialize (HF lore eq_refl). rewrite Forall_forall in HF. apply HF in He.
      apply (entry_vp_text _ _ _ T) in He. unfold entry_vp_ok in He.
      destruct (fl_descs e) as [|b rest]; [discriminate|]. apply andb_prop in He. destruct He as [A B].
      exists b, rest. split; [reflexivity|]. split; [now apply N.ltb_lt|exact B].
    - rewrite nth_N_set_nth_other in Hq by exact Ne. destruct (V q lore e Hq He) as (b & rest & E & Lt & S).
      exists b, rest. split; [exact E|]. split; [exact Lt|]. now apply (proj1 T).
  Qed.

  Lemma Vinv_text_same h h' :
    Vinv h -> text (rt h) (rt h') -> vp_ok C (rt h') -> h_pars C h' = h_pars C h -> h_folds C h' = h_folds C h -> Vinv h'.
  Proof.
    intros (V & P & F) T V' EP EF. split; [exact V'|]. split.
    - rewrite EP. eapply Forall_impl; [|exact P]. intros f. apply (proj2 T).
    - intros id f G. rewrite EF in G. eapply fold_vp_text; [exact T|]. eapply F; eauto.
  Qed.

  Lemma leaf_not_fold (s : trace) :
    Forall (fun x => is_leaf C x = true) s -> Forall (fun x : state => match x with SFold _ => False | _ => True end) s.
  Proof. intros F. eapply Forall_impl; [|exact F]. intros x. destruct x; simpl; auto; discriminate. Qed.

  Lemma Vinv_leafstep h h' : leafstep C h h' -> Vinv h -> Vinv h'.
  Proof.
    intros [(s & R & L) [EP EF]] I. eapply Vinv_text_same; eauto.
    - rewrite R. apply text_app.
    - rewrite R. apply vp_ok_app; [exact (proj1 I)|now apply leaf_not_fold].
  Qed.

  Lemma placeholder_nonstream (t : trace) : nonstream_at (t ++ [SPar 0 0]) (len_N t).
  Proof. exists (SPar 0 0). split; [apply nth_N_mid|reflexivity]. Qed.

  Lemma Vinv_par_start h h' : meet_par_start C h = Ok h' -> Vinv h -> Vinv h'.
  Proof.
    intros H (V & P & F). apply meet_par_start_spec in H. destruct H as (R & EF & f & EP & I & _).
    assert (T : text (rt h) (rt h')) by (rewrite R; apply text_app).
    split; [rewrite R; apply vp_ok_app; [exact V|repeat constructor]|]. split.
    - rewrite EP. constructor; [rewrite I, R; apply placeholder_nonstream|].
      eapply Forall_impl; [|exact P]. intros g. apply (proj2 T).
    - intros id g G. rewrite EF in G. eapply fold_vp_text; [exact T|]. eapply F; eauto.
  Qed.
  Lemma Vinv_par_left h h' : meet_par_subgraph_end C h SLeft = Ok h' -> Vinv h -> Vinv h'.
  Proof.
    intros H (V & P & F). apply meet_par_left_spec in H.
    destruct H as (R & EF & f & rest & f' & EP & EP' & _ & I & _).
    split; [now rewrite R|]. split.
    - rewrite EP', R. rewrite EP in P. apply Forall_cons_iff in P. destruct P as [NS P']. constructor; [now rewrite I|assumption].
    - intros id g G. rewrite EF in G. rewrite R. eapply F; eauto.
  Qed.
  Lemma Vinv_par_right h h' : meet_par_subgraph_end C h SRight = Ok h' -> Vinv h -> Vinv h'.
  Proof.
    intros H (V & P & F). apply meet_par_right_spec in H.
    destruct H as (EF & f & rest & EP & EP' & _ & _ & R).
    rewrite EP in P. apply Forall_cons_iff in P. destruct P as [NS P'].
    assert (T : text (rt h) (rt h')) by (rewrite R; now apply text_set).
    split; [rewrite R; apply vp_ok_set; auto; intros lore X; discriminate|]. split.
    - rewrite EP'. eapply Forall_impl; [|exact P']. intros g. apply (proj2 T).
    - intros id g G. rewrite EF in G. eapply fold_vp_text; [exact T|]. eapply F; eauto.
  Qed.

  (* a fold FSM replaced by another one (same handler otherwise) *)
  Lemma Vinv_put h h' id f' :
    Vinv h -> rt h' = rt h -> h_pars C h' = h_pars C h -> h_folds C h' = folds_put (h_folds C h) id f' ->
    fold_vp_ok (rt h) f' -> Vinv h'.
  Proof.
    intros (V & P & F) R EP EF FV. split; [now rewrite R|]. split; [now rewrite EP, R|].
    intros i g G. rewrite EF in G. rewrite R. destruct (N.eq_dec i id) as [->|Ne].
    - rewrite folds_get_put_same in G. inversion G. now subst.
    - rewrite folds_get_put_other in G by exact Ne. eapply F; eauto.
  Qed.

  Lemma Vinv_fold_start h id h' : meet_fold_start C h id = Ok h' -> Vinv h -> Vinv h'.
  Proof.
    intros H (V & P & F). apply meet_fold_start_spec in H.
    destruct H as (R & EP & f & EF & I & Q & _ & _ & L).
    assert (T : text (rt h) (rt h')) by (rewrite R; apply text_app).
    split; [rewrite R; apply vp_ok_app; [exact V|repeat constructor]|]. split.
    - rewrite EP. eapply Forall_impl; [|exact P]. intros g. apply (proj2 T).
    - intros i g G. rewrite EF in G. destruct (N.eq_dec i id) as [->|Ne].
      + rewrite folds_get_put_same in G. inversion G. subst g. split; [rewrite I, R; apply placeholder_nonstream|].
        rewrite L, Q. split; constructor.
      + rewrite folds_get_put_other in G by exact Ne. eapply fold_vp_text; [exact T|]. eapply F; eauto.
  Qed.

  Lemma Forall_set_nth {A} (P : A -> Prop) l i x : Forall P l -> P x -> Forall P (set_nth l i x).
  Proof. intros F. revert i. induction F; destruct i; simpl; intros; constructor; auto. Qed.
  Lemma Forall_nth_error {A} (P : A -> Prop) l i x : Forall P l -> nth_error l i = Some x -> P x.
  Proof. intros F H. rewrite Forall_forall in F. apply F. eapply nth_error_In; eauto. Qed.

  Lemma Vinv_iteration_start h id v h' : iteration_start C true h id v = Ok h' -> Vinv h -> Vinv h'.
  Proof.
    intros H I. apply iteration_start_chk in H. destruct H as [H S]. apply (iteration_start_meet C false) in H.
    apply meet_iteration_start_spec in H. destruct H as (R & EP & f & f' & G & EF & I1 & L1 & Q1 & _).
    eapply Vinv_put; eauto. destruct I as (_ & _ & F). destruct (F _ _ G) as (A & B & D).
    split; [now rewrite I1|]. split; [now rewrite L1|].
    unfold ctors in Q1. rewrite Q1. apply Forall_app. split; [exact D|]. constructor; [|constructor].
    split; [|exact S]. cbn. apply nth_N_some with (x := match nth_N (rt h) (vsel_pos C h v) with Some s => s | None => SPar 0 0 end).
    unfold is_stream_at in S. destruct (nth_N (rt h) (vsel_pos C h v)); [reflexivity|discriminate].
  Qed.
  Lemma Vinv_iteration_end h id h' : meet_iteration_end C h id = Ok h' -> Vinv h -> Vinv h'.
  Proof.
    intros H I. apply meet_iteration_end_spec in H.
    destruct H as (R & EP & f & f' & c & G & EF & _ & Hn & Q1 & I1 & L1 & _).
    eapply Vinv_put; eauto. destruct I as (_ & _ & F). destruct (F _ _ G) as (A & B & D).
    split; [now rewrite I1|]. split; [now rewrite L1|].
    unfold ctors in *. rewrite Q1. apply Forall_set_nth; [exact D|].
    pose proof (Forall_nth_error _ _ _ _ D Hn) as [X Y]. split; [exact X|exact Y].
  Qed.
  Lemma ctor_vp_ok_upd t c c' :
    lc_value_pos c' = lc_value_pos c -> lc_before_start c' = lc_before_start c -> ctor_vp_ok t c -> ctor_vp_ok t c'.
  Proof. unfold ctor_vp_ok. intros -> ->. auto. Qed.
  Lemma Vinv_back_iterator h id h' : meet_back_iterator C h id = Ok h' -> Vinv h -> Vinv h'.
  Proof.
    intros H I. apply meet_back_iterator_spec in H. cbv zeta in H.
    destruct H as (R & EP & f & f' & c & G & EF & I1 & L1 & _ & Hn & Rest).
    eapply Vinv_put; eauto. destruct I as (_ & _ & F). destruct (F _ _ G) as (A & B & D).
    split; [now rewrite I1|]. split; [now rewrite L1|].
    unfold ctors in *. pose proof (Forall_nth_error _ _ _ _ D Hn) as Hc.
    destruct (ff_back_started f).
    - destruct Rest as (_ & c2 & Hn2 & Q1 & _). rewrite Q1.
      assert (D1 : Forall (ctor_vp_ok (rt h)) (set_nth (map cd_ctor (ff_queue f)) (N.to_nat (ff_back_pos f - 1)) (ctor_after_end c (nlen h)))).
      { apply Forall_set_nth; [exact D|]. eapply ctor_vp_ok_upd; [| |exact Hc]; reflexivity. }
      apply Forall_set_nth; [exact D1|].
      pose proof (Forall_nth_error _ _ _ _ D1 Hn2) as Hc2. eapply ctor_vp_ok_upd; [| |exact Hc2]; reflexivity.
    - destruct Rest as (Q1 & _). rewrite Q1. apply Forall_set_nth; [exact D|].
      eapply ctor_vp_ok_upd; [| |exact Hc]; unfold ctor_maybe_before_end; destruct (lc_state c); reflexivity.
  Qed.
  Lemma finish_keeps c n : lc_value_pos (ctor_finish c n) = lc_value_pos c /\ lc_before_start (ctor_finish c n) = lc_before_start c.
  Proof. unfold ctor_finish. destruct (lc_state c); split; reflexivity. Qed.
  Lemma Vinv_generation_end h id h' : meet_generation_end C h id = Ok h' -> Vinv h -> Vinv h'.
  Proof.
    intros H I. apply meet_generation_end_spec in H. cbv zeta in H.
    destruct H as (R & EP & f & f' & G & EF & Q1 & _ & _ & I1 & L1 & _).
    eapply Vinv_put; eauto. destruct I as (_ & _ & F). destruct (F _ _ G) as (A & B & D).
    split; [now rewrite I1|]. split; [|rewrite Q1; constructor].
    rewrite L1. apply Forall_app. split; [exact B|]. unfold ctors. apply Forall_map.
    eapply Forall_impl; [|exact D]. intros c [X Y]. destruct (finish_keeps c (nlen h)) as [K1 K2].
    unfold entry_vp_ok, lore_of. cbn. rewrite K1, K2. apply andb_true_intro. split; [now apply N.ltb_lt|exact Y].
  Qed.
  Lemma Vinv_fold_end h id h' : meet_fold_end C h id = Ok h' -> Vinv h -> Vinv h'.
  Proof.
    intros H (V & P & F). apply meet_fold_end_spec in H. destruct H as (EP & EF & f & G & _ & R).
    destruct (F _ _ G) as (A & B & _).
    assert (T : text (rt h) (rt h')) by (rewrite R; now apply text_set).
    split; [rewrite R; apply vp_ok_set; auto; intros lore X; inversion X; now subst|]. split.
    - rewrite EP. eapply Forall_impl; [|exact P]. intros g. apply (proj2 T).
    - intros i g Gg. rewrite EF in Gg. destruct (N.eq_dec i id) as [->|Ne].
      + rewrite folds_get_del_same in Gg. discriminate.
      + rewrite folds_get_del_other in Gg by exact Ne. eapply fold_vp_text; [exact T|]. eapply F; eauto.
  Qed.

  Lemma Vinv_update h p g h' : update_generation C h p g = inl h' -> Vinv h -> Vinv h'.
  Proof.
    intros H I. apply update_generation_spec in H. destruct H as (s & s' & E & RG & R & _ & EP & EF).
    apply regen_stream in RG. destruct RG as (S1 & S2 & _).
    pose proof (nth_N_some _ _ _ E) as L.
    assert (T : text (rt h) (rt h')).
    { split.
      - intros q. unfold is_stream_at. rewrite R. destruct (N.eq_dec p q) as [->|Ne].
        + rewrite nth_N_set_nth_same by exact L. now rewrite S2.
        + now rewrite nth_N_set_nth_other.
      - intros q (x & Ex & Sx). destruct (N.eq_dec p q) as [->|Ne].
        + rewrite E in Ex. inversion Ex. subst x. congruence.
        + exists x. split; [|exact Sx]. rewrite R, nth_N_set_nth_other by exact Ne. exact Ex. }
    eapply Vinv_text_same; eauto.
    intros q lore x Hq Hx. destruct (N.eq_dec p q) as [->|Ne].
    - rewrite R, nth_N_set_nth_same in Hq by exact L. inversion Hq. subst s'. discriminate.
    - rewrite R, nth_N_set_nth_other in Hq by exact Ne. destruct (proj1 I q lore x Hq Hx) as (b & rest & D & Lt & St).
      exists b, rest. split; [exact D|]. split; [exact Lt|]. now apply (proj1 T).
  Qed.
  Lemma Vinv_updates us : forall h, Vinv h -> Vinv (drive_updates C us h).
  Proof.
    induction us as [|[p g] r IH]; intros h I; simpl; [exact I|].
    destruct (update_generation C h p g) as [h1|] eqn:U; apply IH; [eapply Vinv_update; eauto|exact I].
  Qed.

  Theorem drive_chk_Vinv :
    (forall d h h', drive_dt C ceqb true d h = Ok h' -> Vinv h -> Vinv h') /\
    (forall ds h h', drive_dts C ceqb true ds h = Ok h' -> Vinv h -> Vinv h') /\
    (forall gs id h h', drive_gens C ceqb true id gs h = Ok h' -> Vinv h -> Vinv h') /\
    (forall b id h h', drive_body C ceqb true id b h = Ok h' -> Vinv h -> Vinv h') /\
    (forall hl id h h', drive_hole C ceqb true id hl h = Ok h' -> Vinv h -> Vinv h').
  Proof.
    apply drive_mutind; intros; drive_unfold;
      repeat match goal with
             | H : bind _ _ = Ok _ |- _ => inv_bind H
             | H : (if ?b then _ else _) = Ok _ |- _ => destruct b
             | H : Ok _ = Ok _ |- _ => inversion H; subst; clear H
             end;
      repeat match goal with
             | E : drive_call C ceqb _ _ = Ok _ |- _ => apply drive_call_leaf in E
             | E : drive_ap C _ _ = Ok _ |- _ => apply drive_ap_leaf in E
             | E : drive_canon C ceqb _ _ = Ok _ |- _ => apply drive_canon_leaf in E
             end;
      eauto 12 using Vinv_updates, Vinv_leafstep, Vinv_par_start, Vinv_par_left, Vinv_par_right, Vinv_fold_start, Vinv_iteration_start,
        Vinv_iteration_end, Vinv_back_iterator, Vinv_generation_end, Vinv_fold_end.
  Qed.

  Lemma Vinv_init prev cur : Vinv (handler_from C prev cur).
  Proof.
    split; [|split; [constructor|intros id f G; discriminate]].
    intros p lore x Hp. apply nth_N_some in Hp. change (rt (handler_from C prev cur)) with (@nil state) in Hp.
    rewrite len_N_nil in Hp. lia.
  Qed.

  Theorem wf_drive_value_pos : C10_wf_drive_value_pos_stmt C ceqb.
  Proof.
    intros ds prev cur h H. unfold drive_chk, drive in *. split.
    - now apply (proj1 (proj2 drive_chk_drive_all)).
    - apply (proj1 (proj2 drive_chk_Vinv)) in H; [|apply Vinv_init]. exact (proj1 H).
  Qed.
End WfD.

(* ---- generations: update_generation rewrites only the generation field of stream value entries ---- *)
Section WfE.
  Variable C : Type.
  Variable ceqb : C -> C -> bool.
  Notation state := (state C).
  Notation trace := (list state).
  Notation handler := (handler C).
  Notation rt := (rt C).

  Definition same_skel (t t' : trace) : Prop :=
    forall i, option_map (norm C) (nth_N t i) = option_map (norm C) (nth_N t' i).

  Lemma forest_same_skel t t' a b : same_skel t t' -> forest C t a b -> forest C t' a b.
  Proof.
    intros S F. induction F as [a | a b s Hn Hl H1 IH1 | a b l r Hn H1 IH1 H2 IH2 H3 IH3 | a b lore e Hn Hlo H1 IH1 H2 IH2].
    - constructor.
    - specialize (S a). rewrite Hn in S. destruct (nth_N t' a) as [s'|] eqn:E; [|discriminate].
      econstructor 2; [exact E| |exact IH1]. simpl in S. inversion S as [S']. destruct s, s'; simpl in *; try discriminate; reflexivity.
    - specialize (S a). rewrite Hn in S. destruct (nth_N t' a) as [s'|] eqn:E; [|discriminate].
      simpl in S. inversion S as [S']. destruct s'; simpl in S'; try discriminate. inversion S'. subst.
      econstructor 3; eauto.
    - specialize (S a). rewrite Hn in S. destruct (nth_N t' a) as [s'|] eqn:E; [|discriminate].
      simpl in S. inversion S as [S']. destruct s'; simpl in S'; try discriminate. inversion S'. subst.
      econstructor 4; eauto.
  Qed.

  Lemma update_generation_keeps h p g h' :
    update_generation C h p g = inl h' ->
    same_skel (rt h) (rt h') /\ (forall q, is_stream_at C (rt h') q = is_stream_at C (rt h) q) /\
    (forall q s, q <> p -> nth_N (rt h') q = Some s -> nth_N (rt h) q = Some s) /\
    (forall s, nth_N (rt h') p = Some s -> state_no_stub C s = negb (g =? generation_stub)).
  Proof.
    intros H. apply update_generation_spec in H. destruct H as (s & s' & E & RG & R & NS & _ & _).
    apply regen_stream in RG. destruct RG as (S1 & S2 & SK).
    pose proof (nth_N_some _ _ _ E) as L.
    split; [|split; [|split]].
    - intros i. rewrite R. destruct (N.eq_dec p i) as [->|Ne].
      + rewrite nth_N_set_nth_same by exact L. rewrite E. simpl. now rewrite SK.
      + now rewrite nth_N_set_nth_other.
    - intros q. unfold is_stream_at. rewrite R. destruct (N.eq_dec p q) as [->|Ne].
      + rewrite nth_N_set_nth_same by exact L. rewrite E. congruence.
      + now rewrite nth_N_set_nth_other.
    - intros q x Ne Hq. rewrite R, nth_N_set_nth_other in Hq by congruence. exact Hq.
    - intros x Hp. rewrite R, nth_N_set_nth_same in Hp by exact L. inversion Hp. now subst.
  Qed.

  Lemma vp_ok_same t t' :
    same_skel t t' -> (forall q, is_stream_at C t' q = is_stream_at C t q) -> vp_ok C t -> vp_ok C t'.
  Proof.
    intros S M V p lore x Hp Hx. specialize (S p). rewrite Hp in S. destruct (nth_N t p) as [s|] eqn:E; [|discriminate].
    simpl in S. inversion S as [S']. destruct s; simpl in S'; try discriminate. inversion S'. subst.
    destruct (V p lore x E Hx) as (b & rest & D & L & St). exists b, rest. split; [exact D|]. split; [exact L|]. now rewrite M.
  Qed.

  Definition good_at (t : trace) (p : N) : Prop := forall s, nth_N t p = Some s -> state_no_stub C s = true.

  Lemma apply_generations_spec us : forall h h',
    apply_generations C us h = Some h' ->
    same_skel (rt h) (rt h') /\ (forall q, is_stream_at C (rt h') q = is_stream_at C (rt h) q) /\
    ((forall p g, In (p, g) us -> g <> generation_stub) ->
     forall p, In p (map fst us) \/ good_at (rt h) p -> good_at (rt h') p).
  Proof.
    induction us as [|[p0 g0] r IH]; intros h h' H.
    - simpl in H. inversion H. subst. split; [intros i; reflexivity|]. split; [reflexivity|]. intros _ p [[]|G]. exact G.
    - simpl in H. destruct (update_generation C h p0 g0) as [h1|] eqn:U; [|discriminate].
      apply update_generation_keeps in U. destruct U as (S1 & M1 & O1 & N1).
      apply IH in H. destruct H as (S2 & M2 & G2).
      split; [intros i; now rewrite S1, S2|]. split; [intros q; now rewrite M2, M1|].
      intros NS p Hp. apply G2; [intros q g Hin; apply (NS q g); now right|].
      destruct (N.eq_dec p p0) as [->|Ne].
      + right. intros s Hs. rewrite (N1 s Hs). apply negb_true_iff, N.eqb_neq. apply (NS p0 g0). now left.
      + destruct Hp as [[Hp|Hp]|Hp]; [simpl in Hp; congruence|now left|].
        right. intros s Hs. apply Hp. now apply O1.
  Qed.

  Theorem generations_ok : C10_generations_stmt C.
  Proof.
    intros h us h' H. change (result_trace C h) with (rt h). change (result_trace C h') with (rt h').
    apply apply_generations_spec in H. destruct H as (S & M & G).
    split; [unfold wf_struct; intros F|split; [now apply vp_ok_same|]].
    - assert (L : len_N (rt h') = len_N (rt h)).
      { (* same_skel forces the same length *)
        destruct (N.lt_trichotomy (len_N (rt h')) (len_N (rt h))) as [Lt|[Eq|Gt]]; [|exact Eq|].
        - exfalso. destruct (split_at_N (rt h) (len_N (rt h')) Lt) as (a & x & b & E & La).
          specialize (S (len_N (rt h'))). rewrite E, <- La, nth_N_mid in S. rewrite La in S.
          unfold nth_N in S at 1. unfold len_N in S at 1. rewrite N.ltb_irrefl in S. discriminate.
        - exfalso. destruct (split_at_N (rt h') (len_N (rt h)) Gt) as (a & x & b & E & La).
          specialize (S (len_N (rt h))). rewrite E, <- La, nth_N_mid in S. rewrite La in S.
          unfold nth_N in S at 1. unfold len_N in S at 1. rewrite N.ltb_irrefl in S. discriminate. }
      rewrite L. now apply forest_same_skel with (t := rt h).
    - intros Cover NS s Hs. apply In_nth_N in Hs. destruct Hs as [p Hp].
      destruct (is_stream_state C s) eqn:St.
      + assert (SA : is_stream_at C (rt h) p = true) by (rewrite <- M; unfold is_stream_at; now rewrite Hp).
        destruct (Cover p SA) as [g Hin]. apply (G NS p); [left; now apply (in_map fst) in Hin|exact Hp].
      + destruct s as [| [ | [ | c g0 | ] | ] | gens | | ]; simpl in St; try discriminate; reflexivity.
  Qed.

  Theorem full : C10_full C ceqb.
  Proof.
    intros ds prev cur h us h' D A Cover NS.
    destruct (wf_drive_value_pos C ceqb ds prev cur h D) as [D' V].
    pose proof (wf_drive C ceqb ds prev cur h D') as W.
    destruct (generations_ok h us h' A) as (G1 & G2 & G3).
    split; [now apply G1|]. split; [now apply G2|now apply G3].
  Qed.
End WfE.

(* ===================================================================== *)
(* Source tie: the builder code of /repo as read by tools/genx_wf.py (coq/gen/Generated.v) is the code
   model/Handler.v mirrors *)
Open Scope string_scope.
Definition ctor_state_of_name (s : string) : option ctor_state :=
  if String.eqb s "BeforeStarted" then Some BeforeStarted
  else if String.eqb s "BeforeCompleted" then Some BeforeCompleted
  else if String.eqb s "AfterStarted" then Some AfterStarted
  else if String.eqb s "AfterCompleted" then Some AfterCompleted else None.
Definition ctor_state_name (s : ctor_state) : string :=
  match s with BeforeStarted => "BeforeStarted" | BeforeCompleted => "BeforeCompleted"
             | AfterStarted => "AfterStarted" | AfterCompleted => "AfterCompleted" end.
Definition ctor_state_eqb (a b : ctor_state) : bool := String.eqb (ctor_state_name a) (ctor_state_name b).

(* CtorState::next as the source has it *)
Definition next_by_table (s : ctor_state) : option ctor_state :=
  match find (fun p => String.eqb (fst p) (ctor_state_name s)) wf_ctor_next_table with
  | Some (_, b) => ctor_state_of_name b
  | None => None
  end.
Lemma ctor_next_agrees s : next_by_table s = Some (ctor_next s).
Proof. destruct s; vm_compute; reflexivity. Qed.

(* the three setters: which (tracker, field) each assigns, per the source *)
Definition set_field (tracker field : string) (c : lore_ctor) (n : N) : option lore_ctor :=
  let st := ctor_next (lc_state c) in
  if String.eqb tracker "before_tracker" && String.eqb field "end_pos"
  then Some (ctor_set c (lc_before_start c) n (lc_after_start c) (lc_after_end c) st)
  else if String.eqb tracker "after_tracker" && String.eqb field "start_pos"
  then Some (ctor_set c (lc_before_start c) (lc_before_end c) n (lc_after_end c) st)
  else if String.eqb tracker "after_tracker" && String.eqb field "end_pos"
  then Some (ctor_set c (lc_before_start c) (lc_before_end c) (lc_after_start c) n st)
  else None.
Definition setter_by_table (name : string) (c : lore_ctor) (n : N) : option lore_ctor :=
  match find (fun p => String.eqb (fst (fst p)) name) wf_ctor_setters with
  | Some (_, tr, fd) => set_field tr fd c n
  | None => None
  end.
Lemma setters_agree c n :
  setter_by_table "before_end" c n = Some (ctor_before_end c n) /\
  setter_by_table "after_start" c n = Some (ctor_after_start c n) /\
  setter_by_table "after_end" c n = Some (ctor_after_end c n).
Proof. repeat split. Qed.

(* SubTraceLoreCtor::finish as the source has it *)
Fixpoint apply_setters (names : list string) (c : lore_ctor) (n : N) : option lore_ctor :=
  match names with
  | [] => Some c
  | x :: r => match setter_by_table x c n with Some c1 => apply_setters r c1 n | None => None end
  end.
Definition finish_by_table (c : lore_ctor) (n : N) : option lore_ctor :=
  match find (fun p => String.eqb (fst p) (ctor_state_name (lc_state c))) wf_ctor_finish_table with
  | Some (_, names) => apply_setters names c n
  | None => None
  end.
Lemma ctor_finish_agrees c n : finish_by_table c n = Some (ctor_finish c n).
Proof. destruct c as [vp bs be a_s ae st]. destruct st; reflexivity. Qed.

Definition str2_eqb (a b : string * string) : bool := String.eqb (fst a) (fst b) && String.eqb (snd a) (snd b).
Definition str3_eqb (a b : string * string * string) : bool := str2_eqb (fst a) (fst b) && String.eqb (snd a) (snd b).
(* the remaining decisive lines, compared with what model/Handler.v was written against *)
Definition wf_source_pins : bool :=
  str2_eqb wf_ctor_before_start ("before_tracker", "start_pos") &&        (* new_ctor: lc_before_start := next pos *)
  str3_eqb wf_ctor_maybe_before_end ("BeforeStarted", "before_tracker", "end_pos") &&   (* ctor_maybe_before_end *)
  list_eqb String.eqb wf_lore_descs ["before_tracker"; "after_tracker"] &&  (* ctor_into_lore: [before; after] *)
  str2_eqb wf_tracker_len ("end_pos", "start_pos") &&                       (* len = end - start *)
  list_eqb String.eqb wf_par_track_formula
           ["saved_states_count"; "result_states_count"; "states_count"; "prev_states_count"] &&   (* par_track: n - saved *)
  list_eqb str3_eqb wf_par_track_assigns
           [("Left", "left_subgraph_size", "resulted_states_count"); ("Right", "right_subgraph_size", "resulted_states_count")] &&
  str2_eqb wf_par_build ("left_subgraph_size", "right_subgraph_size") &&    (* SPar left right *)
  String.eqb wf_par_from_keeper "result_states_count" &&
  str2_eqb wf_inserter_insert ("position", "state") &&                      (* insert_state: result[position] := state *)
  (let '(before_push, l, r) := wf_inserter_from_keeper in before_push && (l =? 0)%N && (r =? 0)%N) &&
  (wf_subtrace_desc_count =? 2)%N.                                          (* entry_descs: exactly two descriptors *)
Lemma wf_source_pins_ok : wf_source_pins = true.
Proof. vm_compute. reflexivity. Qed.

