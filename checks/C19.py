"""C19 -- calls run only where addressed; the particle is forwarded exactly where needed.

Every generated history goes through two drivers on the REAL crates:
  * `calls19` (harness/src/bin/calls19.rs): the property oracles written from the property text --
    (a) every call request seen by a host belongs to a call site addressed to that host's peer (every call site has its own
    function name, lib/c19gen.py knows the addressed peer of each site), (a2) new call / canon results are attributed to the
    running peer, (b) next peers without the current peer and without duplicates, (c) new `sent by me` marks come with a
    next peer, and a peer that can take over a new mark is among the next peers (probe runs), (d) at the end of a drained
    clean history everything is merged at an observer and no peer of the network can take over a mark left by another peer;
  * `exec` (shared history driver): every probed run is given to the executor model (lock-step on next peers, requests,
    sent-states: C19Cases.c19_check_case) and to the Coq-side run-local oracle C19Cases.c19_oracle."""
import json

import airgen
import c19gen
import exec_common
import vlib

PID = "C19"
MODEL_TARGETS = ["model/C19Cases.vo"]
HARNESS_BINS = ["calls19", "exec"]
RULE = ("a case is one history of one particle: a generated script (seq/par/xor/match/folds/new, streams, canon, stream folds; depth 3-5) "
        "over 3 or 4 peers in which every call site has its own function name and a known addressed peer; targets are literal peers, "
        "%init_peer_id% (the init peer varies), scalars holding a peer id, lens-selected peers (v.$.[i], o.$.p, o.$.q.[i]), fold "
        "iterators over a list of peers, lenses on a canon stream of peer ids, and canons designated through all of these; a random "
        "schedule (delivery, duplication, re-delivery, partial answers) followed by a drain to quiescence; evaluations = runs of the real "
        "execute_air in the histories (probe runs of the oracles not counted); distinct = distinct (script, schedule) whose history "
        "forwards the particle at least once")
PARTIAL = [
    "C19_full (history level: once every particle and call result has been delivered, no call or canon that a peer of the network can "
    "execute given the merged data remains marked as sent; CallSpec.C19_full over a network semantics on RunExec.run) is REFUTED by the "
    "model (C19_full_refuted) and by the code with the same witness: known finding forwarded-before-arguments-known (a call is marked and "
    "forwarded before its arguments are known; the sender keeps its mark when it learns them). What holds of the second sentence of the "
    "property is checked by oracle (d) on drained histories: a leftover mark that its target can execute is accepted only when the target "
    "has that mark in its own final data (the forward did arrive); a mark that never reached its target is a violation",
    "C19_marked_forwarded (calls) and C19_canon (the three canon instructions) are proved per instruction instance: a NEW sent-mark "
    "(one that is not the state met in the previous/current data) is written exactly when the target / designated peer, different from "
    "the current peer, is pushed; that over a whole run the marks and the pushes correspond one to one is covered by the lock-step and "
    "oracle (c), not by a whole-run trace theorem (the result trace is also rewritten by par/fold bookkeeping)",
    "history level: proved ONLY for straight-line scripts on several peers (call with literal target/service/function and literal or plain-scalar arguments, ap of a literal or scalar, seq, xor, match, mismatch, fail, null, never; model/NetLin.v): C19_linear_locality -- in every honest history of SeqLocal's network a request "
    "is pending only for the next call of the sequential reading, alone, at the peer it is addressed to, and the invocations (logged with "
    "the executing peer) are a prefix of the reading's calls; quiescence is NOT proved for that fragment either (a liveness statement)",
    "C19_requests_local: the exec-level statement says requests are only appended; that every appended request stems from a call "
    "addressed to the current peer is proved at the level of the call instruction (exec_call) -- a request does not carry its call site",
    "the farewell dedup goes through a HashSet in the code (arbitrary order); the model keeps first occurrences and the lock-step "
    "compares the next peers as a set plus their number",
]
ASSUMPTIONS = [
    "the host contract of air/README.md (store the data, queue the requests, send the data to every next peer) as implemented by harness/src/sim.rs",
    "a probe run (a peer executing over given data as its previous data, outcome discarded) shows what that peer can execute given the data",
]
KNOWN = {"forwarded-before-arguments-known"}
CHECKS = {"model": "c19_check_case", "oracle_c19": "c19_oracle", "count_forwarding": "forwards", "count_requesting": "requests"}
HEADER = ("From Aqua Require Import Base Json Air Trace Handler Values Scalars Lens Exec RunExec ExecStreams ExecCases C19Cases.\n"
          "Open Scope N_scope.\nOpen Scope list_scope.\n")


def gen_cases(rng, tier, escalate=False):
    n = {"quick": 30, "thorough": 260}[tier] * (3 if escalate else 1)
    cases = []
    for k in range(n):
        streams = rng.random() < 0.5
        prof = airgen.Profile(peers=rng.choice([3, 3, 4]), depth=rng.choice([3, 4, 4, 5]), streams=streams, canon=streams,
                              stream_folds=streams and rng.random() < 0.6)
        c = c19gen.gen_case(rng, prof, n_ops=rng.choice([4, 8, 14, 24]))
        c["probe_steps"] = sorted(rng.sample(range(0, 18), 9 if tier == "quick" else 8))
        cases.append(c)
    return cases


def evaluate(cases, result, tier):
    if not cases:
        return
    # ---- the property oracles on the implementation (own driver)
    outs = vlib.harness_lines("calls19", [json.dumps(c) for c in cases], timeout=1800)
    dist = result["distribution"]

    def bump(k, n=1):
        dist[k] = dist.get(k, 0) + n

    for c, o in zip(cases, outs):
        if "error" in o:
            result["errors"].append(o["error"])
            continue
        inf = o["info"]
        kinds = c.get("kinds", {})
        for fn, n in inf["by_site"].items():
            bump("requests to a site addressed by: " + kinds.get(fn, "other"), n)
        bump("oracle runs", int(o["runs"]))
        bump("runs with new sent-marks", inf["new_mark_runs"])
        bump("next peers sent to", inf["forwards"])
        bump("new call results checked", inf["new_results"])
        bump("new canon results checked", inf["new_canons"])
        bump("probe runs", inf["probes"])
        end = inf["end"]
        if end.get("quiescent") and end.get("clean"):
            bump("histories drained clean")
            if end.get("merged"):
                bump("histories merged at the observer")
                bump("marks left in merged data (unreachable calls)", int(end.get("leftover_marks", 0)))
                bump("own requests left in merged data", int(end.get("leftover_own_requests", 0)))
                bump("quiescence probes skipped", int(end.get("probes_skipped", 0)))
        elif not end.get("clean"):
            bump("histories with a failed run (quiescence oracle not applicable)")
        else:
            bump("histories not quiescent after the drain")
        for cl in o["classes"]:
            bump("calls19 " + cl)
        if inf["forwards"] > 0:
            result["distinct"].add(json.dumps([c["script"], c["ops"]]))
        for f in o.get("oracle_failures", []):
            result["oracle_fail"].append({"case": dict(c), "detail": f, "key": f.get("key") if f.get("key") in KNOWN else None,
                                          "what": "property oracle false on the implementation: %s" % f.get("what", "")})
    # ---- lock-step with the executor model + Coq-side oracle (shared driver)
    saved = exec_common.HEADER
    exec_common.HEADER = HEADER
    try:
        exec_common.evaluate(cases, result, CHECKS, oracle_key=lambda f: None, tag="C19", distinct_of=lambda case, inf: None)
    finally:
        exec_common.HEADER = saved
    # the count_* pseudo-checks come back as "mismatches": turn them into counters
    keep = []
    for m in result["mismatch"]:
        name = m.get("check", "")
        if name.startswith("count_"):
            label = {"count_forwarding": "model-compared runs that forward", "count_requesting": "model-compared runs that issue requests",
                     }[name]
            bump(label)
        else:
            keep.append(m)
    result["mismatch"] = keep
