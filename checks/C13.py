"""C13 -- streams hold exactly the merged appends; stream folds visit each value once.

Same histories and driver as C12 (lib/streams_common.py, harness driver `streams`).  Observation points:
a canon executed locally (content of the canon result + the argument of the `see` service call), the fold
lore of the produced trace, the host's log of the `visit` calls of a fold body.  `StreamCases.check_case`
is the correspondence with model/Stream.v, `c13_oracle` the property on the implementation's observation,
`c13_not_hole` / `c13_unexplained` recognise the two documented deviations by their exact shape."""
import streams_common as sc
import vlib

PID = "C13"
MODEL_TARGETS = ["model/StreamCases.vo", "model/ExecCases.vo"]
HARNESS_BINS = ["streams", "exec"]
KNOWN_SECOND = "stream-second-fold-skips-new"
RULE = ("a case is one stream instance in one run of execute_air on one peer of a simulated honest history (see C12 for the histories); "
        "stream contents are observed where a canon is executed by the run (canon result in the produced data and the argument the `see` "
        "service receives), fold visits through the fold lore of the produced trace in every run and, at the folding peer's last run of a "
        "history that reached quiescence, through completeness of the lore and the host's log of `visit` invocations; the size limit through "
        "single-run programs attempting exactly T appends (quick: T = 1023, 1024; thorough: 1..1056 and the self-feeding fold); "
        "non-trivial = the run executes a canon of the instance or a fold over it that iterates at least one value; distinct = distinct "
        "case terms among the non-trivial ones")
PARTIAL = [
    "C13_cursor_once_partial is conditional on cursor_hyp (no empty generation below the cursor, no append below it); the unconditional "
    "statement is refuted in the model (C13_cursor_once_refuted, three witnesses) and on the real interpreter: known findings "
    "stream-fold-cursor-hole (DESIGN 7-11) and stream-second-fold-skips-new; the executor does NOT maintain the hypothesis",
    "stream maps are not covered by the stream model (they reuse Stream<T> through StreamMap; not driven here)",
    "the statement 'at any point of a run' is observed at canon points and at the end of the run (generations of the produced trace), "
    "not at every instruction",
]
ASSUMPTIONS = [
    "services are deterministic constants; the host returns every result under the id it was requested with",
    "the trace reader of the driver attributes a state to an instruction instance by the program shape, the par sizes and the fold lore "
    "recorded in the trace itself; a trace it cannot read is reported as an error",
    "a run that ends with code 30000 (a returned call result matched no call) produced new data and is evaluated like any other run; it "
    "is expected only in histories that show the cursor-hole deviation (checked: reported as an error otherwise)",
]


# (added after the seeded change C13-ap-merge-scheme-previous was missed by this check — C07/C08/C09 caught it) round trips in
# which a peer that already holds the `ap` states of a stream merges data where ANOTHER peer made progress inside the fold
# iterations; given to the executor model in lock-step (a dropped iteration shows as a disagreement on the produced trace)
ROUND_TRIPS = [
    '(seq (seq (ap "x" $in) (ap "y" $in)) (seq (fold $in i (seq (call "@B" ("s" "id") [i] $out) (next i)) (null)) (seq (canon "@A" $out #res) (call "@A" ("s" "args") [#res]))))',
    '(seq (seq (ap "x" $in) (ap "y" $in)) (seq (fold $in i (par (call "@B" ("s" "id") [i] $out) (next i)) (null)) (seq (canon "@A" $out #res) (call "@C" ("s" "args") [#res]))))',
    '(seq (seq (ap ("k1" "x") %in) (ap ("k2" "y") %in)) (seq (fold %in i (seq (call "@B" ("s" "id") [i] $out) (next i)) (null)) (seq (canon "@A" $out #res) (call "@A" ("s" "args") [#res]))))',
    '(seq (call "@A" ("s" "arr") [] xs) (seq (fold xs x (seq (ap x $in) (next x))) (seq (fold $in i (seq (call "@B" ("s" "id") [i] $out) (seq (call "@C" ("s" "tag") [] $out) (next i))) (null)) (seq (canon "@A" $out #res) (call "@B" ("s" "args") [#res])))))',
]


def gen_cases(rng, tier, escalate=False):
    cases = sc.gen_cases(rng, tier, escalate)
    import airgen
    for s in ROUND_TRIPS:
        for k in range(1 if tier == "quick" else 4):
            ops = airgen.fifo_schedule(10) if k == 0 else airgen.gen_schedule(rng, n_ops=14)
            cases.append({"driver": "exec", "script": s, "peers": ["A", "B", "C"], "init": 0, "services": airgen.DEFAULT_SERVICES,
                          "ops": ops, "oracles": [], "seed": rng.randrange(1 << 30), "drain": True, "model_drain": True})
    return cases


def evaluate(cases, result, tier):
    known = {k["key"] for k in vlib.known_findings(PID)}
    exec_cases = [c for c in cases if c.get("driver") == "exec"]
    cases = [c for c in cases if c.get("driver") != "exec"]
    if exec_cases:
        import exec_common
        exec_common.evaluate(exec_cases, result, {"model": "check_case"}, tag="C13-exec")

    def classify(i, fails, history_shows_hole):
        if i not in fails.get("auxnothole", []):
            # recognised hole shape; a failure that is only in the host's log (a lost iteration that came back is visited
            # twice, a vanished value was visited) needs a lost iteration in the same history as evidence
            if i in fails.get("auxcover", []) or history_shows_hole:
                return sc.KNOWN_HOLE if sc.KNOWN_HOLE in known else None
            return None
        if i not in fails.get("auxunexplained", []) and i in fails.get("auxcover", []):
            return KNOWN_SECOND if KNOWN_SECOND in known else None
        return None

    outs, tainted = sc.evaluate(PID, cases, result,
                                {"model": "check_case", "oracle": "c13_oracle", "auxnothole": "c13_not_hole", "auxunexplained": "c13_unexplained",
                                 "auxcover": "c13_cover_ok"},
                                nontrivial=lambda inf, cl: inf.get("canons", 0) > 0 or (inf.get("folds", 0) > 0 and inf.get("lore", 0) > 0),
                                classify=classify)
    # a dropped call result (code 30000) in an honest history must come with a lost fold iteration of the recognised shape
    for ci, (c, o) in enumerate(zip(cases, outs)):
        if o and o.get("unprocessed_results") and ci not in tainted and not c.get("limit"):
            result["oracle_fail"].append({"case": c, "key": None, "script": o.get("script"), "detail": o["unprocessed_results"][:3],
                                          "what": "a run dropped a returned call result (code 30000) in an honest history in which no fold "
                                                  "iteration was lost in the recognised cursor-hole shape: a pre/visit call of a fold body was lost"})
