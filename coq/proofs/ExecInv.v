(* ExecInv.v -- a generic induction principle for the executor model (model/Exec.v).

   For a relation R between contexts that is reflexive, transitive and preserved by the primitive
   context updates ([frame_invariant], [exec_invariant] of model/CallSpec.v), every context carried
   by an outcome of [exec] is R-related to the start context:

     exec_inv : exec_invariant R -> hook_preserves R h -> forall fuel i x, res_sat R x (exec h fuel i x)

   Also: the helper functions of Exec.v that issue no request are frames ([frame_*] lemmas, from
   [frame_is_frame_invariant]); [frame_invariant_of_frame] builds a [frame_invariant] from
   "frame x y -> R x y"; and [resolved_call_execute_spec] says exactly what one resolved call does
   to the five bookkeeping fields and to the result trace ([call_step]).

   Lemma names are stable: C05/C06/C19 proofs build on them. *)
From Coq Require Import Lia.
From Aqua Require Import Base Json Air Trace Handler Values Scalars Lens Exec RunExec CallSpec.
Open Scope N_scope.
Open Scope list_scope.

Tactic Notation "ss" := cbn [res_sat pres_sat fst snd pbind].
Tactic Notation "ss" "in" hyp(H) := cbn [res_sat pres_sat fst snd pbind] in H.
Tactic Notation "ss" "in" "*" := cbn [res_sat pres_sat fst snd pbind] in *.

(* ------------------------------------------------------------------------------------------ *)
(* frames *)

Lemma frame_refl x : frame x x.
Proof. repeat split. Qed.

Lemma frame_trans x y z : frame x y -> frame y z -> frame x z.
Proof.
  unfold frame. intros (a1 & a2 & a3 & a4 & a5) (b1 & b2 & b3 & b4 & b5).
  repeat split; congruence.
Qed.

Lemma frame_is_frame_invariant : frame_invariant frame.
Proof.
  constructor; [apply frame_refl | apply frame_trans | ..]; intros; repeat split.
Qed.

Lemma frame_invariant_of_frame (R : ctx -> ctx -> Prop) :
  (forall x y z, R x y -> R y z -> R x z) ->
  (forall x y, frame x y -> R x y) ->
  frame_invariant R.
Proof.
  intros Ht Hf. constructor; [intros; apply Hf; apply frame_refl | exact Ht | ..]; intros; apply Hf; repeat split.
Qed.

(* ------------------------------------------------------------------------------------------ *)
(* helpers that only use frame updates *)

Section FrameInv.
  Variable R : ctx -> ctx -> Prop.
  Hypothesis HF : frame_invariant R.

  Let Rrefl := fi_refl R HF.
  Let Rtrans := fi_trans R HF.

  Lemma fi_make_incomplete x : R x (make_incomplete x).
  Proof. apply (fi_set_complete R HF). Qed.
  Lemma fi_flush_complete x : R x (flush_complete x).
  Proof. apply (fi_set_complete R HF). Qed.
  Lemma fi_call_end x c : R x (call_end x c).
  Proof. apply (fi_set_handler R HF). Qed.
  Lemma fi_record_cid x p c : R x (record_cid x p c).
  Proof. unfold record_cid. destruct (String.eqb p (current_peer x)); [apply (fi_set_cids R HF) | apply Rrefl]. Qed.
  Lemma fi_maybe_set_prev_state x sd : R x (maybe_set_prev_state x sd).
  Proof. destruct sd as [b [c|]]; simpl; [apply fi_call_end | apply Rrefl]. Qed.

  (* R-chains: the goal [R x e] where e is built from frame updates over a context y with a known
     chain from x *)
  Ltac rch :=
    match goal with
    | |- R ?x ?x => apply Rrefl
    | H : R ?x ?y |- R ?x ?y => exact H
    | |- R ?x (set_scalars ?y _) => apply (Rtrans x y); [rch | apply (fi_set_scalars R HF)]
    | |- R ?x (set_canons ?y _) => apply (Rtrans x y); [rch | apply (fi_set_canons R HF)]
    | |- R ?x (set_iterables ?y _) => apply (Rtrans x y); [rch | apply (fi_set_iterables R HF)]
    | |- R ?x (set_last_error ?y _ _) => apply (Rtrans x y); [rch | apply (fi_set_last_error R HF)]
    | |- R ?x (set_error ?y _ _) => apply (Rtrans x y); [rch | apply (fi_set_error R HF)]
    | |- R ?x (set_complete ?y _) => apply (Rtrans x y); [rch | apply (fi_set_complete R HF)]
    | |- R ?x (set_handler ?y _) => apply (Rtrans x y); [rch | apply (fi_set_handler R HF)]
    | |- R ?x (set_cids ?y _ _) => apply (Rtrans x y); [rch | apply (fi_set_cids R HF)]
    | |- R ?x (set_fold_counter ?y _) => apply (Rtrans x y); [rch | apply (fi_set_fold_counter R HF)]
    | |- R ?x (set_ext ?y _) => apply (Rtrans x y); [rch | apply (fi_set_ext R HF)]
    | |- R ?x (with_streams ?y _) => apply (Rtrans x y); [rch | apply (fi_set_ext R HF)]
    | |- R ?x (with_canon_maps ?y _) => apply (Rtrans x y); [rch | apply (fi_set_ext R HF)]
    | |- R ?x (all_fold_start ?y) => unfold all_fold_start; rch
    | |- R ?x (all_fold_end ?y) => unfold all_fold_end; rch
    | |- R ?x (all_next_before ?y) => unfold all_next_before; rch
    | |- R ?x (all_next_after ?y) => unfold all_next_after; rch
    | |- R ?x (make_incomplete ?y) => apply (Rtrans x y); [rch | apply fi_make_incomplete]
    | |- R ?x (flush_complete ?y) => apply (Rtrans x y); [rch | apply fi_flush_complete]
    | |- R ?x (call_end ?y _) => apply (Rtrans x y); [rch | apply fi_call_end]
    | |- R ?x (record_cid ?y _ _) => apply (Rtrans x y); [rch | apply fi_record_cid]
    | |- R ?x (maybe_set_prev_state ?y _) => apply (Rtrans x y); [rch | apply fi_maybe_set_prev_state]
    | H : R ?z ?y |- R ?x ?y => apply (Rtrans x z); [rch | exact H]
    end.

  Lemma fi_ctx_set_errors x e i t b : R x (ctx_set_errors x e i t b).
  Proof.
    unfold ctx_set_errors.
    destruct (x_last_error_can_set x && affects_last_error e);
      match goal with |- context [if ?c then _ else _] => destruct c end; rch.
  Qed.

  Lemma fi_track_service_result x v t ah : R x (fst (track_service_result x v t ah)).
  Proof. unfold track_service_result. ss. rch. Qed.

  Lemma fi_track_service_result' x v t ah y sc : track_service_result x v t ah = (y, sc) -> R x y.
  Proof. intros E. pose proof (fi_track_service_result x v t ah) as H. rewrite E in H. exact H. Qed.

  Lemma fi_set_scalar_value x n v : pres_sat R x (set_scalar_value x n v).
  Proof. unfold set_scalar_value. destruct (Scalars.set_value vagg (x_scalars x) n v) as [[m b]|]; ss; [rch | exact I]. Qed.

  Lemma fi_set_scalar_value' x n v y : set_scalar_value x n v = POk y -> R x y.
  Proof. intros E. pose proof (fi_set_scalar_value x n v) as H. rewrite E in H. exact H. Qed.

  Lemma fi_add_stream_value x n v g p : pres_sat R x (add_stream_value x n v g p).
  Proof. unfold add_stream_value. destruct (Stream.streams_add_stream_value vagg _ n v g p); ss; [rch | exact I | exact I]. Qed.

  Lemma fi_add_stream_value' x n v g p y : add_stream_value x n v g p = POk y -> R x y.
  Proof. intros E. pose proof (fi_add_stream_value x n v g p) as H. rewrite E in H. exact H. Qed.

  Lemma fi_wrap_errors x r i b : res_sat R x r -> res_sat R x (wrap_errors r i b).
  Proof.
    destruct r; simpl; auto. intros H. apply (Rtrans x x0); [exact H | apply fi_ctx_set_errors].
  Qed.

  Lemma fi_with_handler {A} x (r : res A) k :
    (forall a, r = Ok a -> res_sat R x (k a)) -> res_sat R x (with_handler x r k).
  Proof. intros H. destruct r; simpl; auto. Qed.

  Lemma fi_lift {A} x (r : pres A) k :
    (forall a, r = POk a -> res_sat R x (k a)) -> res_sat R x (lift x r k).
  Proof. intros H. destruct r; simpl; auto. Qed.

  Lemma fi_populate_from_service_result x result t pos ah out :
    res_sat R x (fst (populate_from_service_result x result t pos ah out)).
  Proof.
    unfold populate_from_service_result. destruct out; ss; auto.
    - destruct (track_service_result x result t ah) as [x1 sc] eqn:E.
      pose proof (fi_track_service_result' _ _ _ _ _ _ E) as H1.
      destruct (set_scalar_value x1 (v_name v) (VAService result t pos sc)) eqn:E2; ss; auto.
      pose proof (fi_set_scalar_value' _ _ _ _ E2). rch.
    - destruct (track_service_result x result t ah) as [x1 sc] eqn:E.
      pose proof (fi_track_service_result' _ _ _ _ _ _ E) as H1.
      destruct (add_stream_value x1 (v_name v) (VAService result t pos sc) Stream.GNew (v_pos v)) eqn:E2; ss; auto.
      pose proof (fi_add_stream_value' _ _ _ _ _ _ E2). rch.
  Qed.

  Lemma fi_update_state_with_service_result x t ah out ans :
    res_sat R x (update_state_with_service_result x t ah out ans).
  Proof.
    unfold update_state_with_service_result.
    destruct (negb (sa_ret_code ans =? call_service_success)%Z).
    - destruct (track_service_result x _ t ah) as [x1 sc] eqn:E.
      pose proof (fi_track_service_result' _ _ _ _ _ _ E). ss. rch.
    - destruct (sa_parsed ans) as [result|].
      + pose proof (fi_populate_from_service_result x result t (trace_pos_of x) ah out) as H.
        destruct (populate_from_service_result x result t (trace_pos_of x) ah out) as [r o]. ss in H.
        destruct r; ss in *; auto. destruct o; ss; auto. rch.
      + destruct (track_service_result x _ t ah) as [x1 sc] eqn:E.
        pose proof (fi_track_service_result' _ _ _ _ _ _ E). ss. rch.
  Qed.

  Lemma fi_populate_from_data x v ah t pos src out : pres_sat R x (populate_from_data x v ah t pos src out).
  Proof.
    unfold populate_from_data. destruct out, v; ss; auto.
    - destruct (resolve_service_info x cid); ss; auto.
      destruct (verify_call ah t (si_arg_hash a) (si_tetraplet a)); ss; auto.
      apply fi_set_scalar_value.
    - destruct (resolve_service_info x cid); ss; auto.
      destruct (verify_call ah t (si_arg_hash a) (si_tetraplet a)); ss; auto.
      apply fi_add_stream_value.
  Qed.

  Lemma fi_populate_from_data' x v ah t pos src out y : populate_from_data x v ah t pos src out = POk y -> R x y.
  Proof. intros E. pose proof (fi_populate_from_data x v ah t pos src out) as H. rewrite E in H. exact H. Qed.

  Lemma fi_fail_with_error_object x e t p : res_sat R x (fail_with_error_object x e t p).
  Proof. unfold fail_with_error_object. ss. rch. Qed.

  Lemma fi_exec_fail x text f : res_sat R x (exec_fail x text f).
  Proof.
    unfold exec_fail.
    assert (Hfr : forall r, res_sat R x (lift x r (fun rr =>
      match snd (fst rr) with
      | t :: _ =>
          if check_error_object (fst (fst rr)) then fail_with_error_object x (fst (fst rr)) (Some t) (snd rr)
          else XErr (ECatch CInvalidErrorObjectError) x
      | [] => XCrash "tetraplet.remove(0) on an empty list"
      end))).
    { intros r. apply fi_lift. intros a _. destruct (snd (fst a)); ss; auto.
      destruct (check_error_object (fst (fst a))); [apply fi_fail_with_error_object | ss; rch]. }
    destruct f; try apply Hfr.
    - apply fi_fail_with_error_object.
    - destruct (check_error_object _); [apply fi_fail_with_error_object | ss; rch].
    - destruct (negb (check_error_object _)); [ss; rch |].
      pose proof (fi_fail_with_error_object x (ie_error (x_error x)) (ie_tetraplet (x_error x)) (ie_prov (x_error x))) as H.
      destruct (fail_with_error_object x _ _ _); ss in *; auto.
      destruct (ie_orig (x_error x)); ss; rch.
  Qed.

  Lemma fi_exec_ap x a r : res_sat R x (exec_ap x a r).
  Proof.
    unfold exec_ap. destruct r; ss; auto.
    destruct (apply_to_arg x a false); ss; auto.
    - apply fi_lift. intros y E. ss. apply (fi_set_scalar_value' _ _ _ _ E).
    - destruct (is_joinable e); ss; rch.
  Qed.

End FrameInv.

(* the helpers are frames *)
Definition frame_make_incomplete := fi_make_incomplete frame frame_is_frame_invariant.
Definition frame_flush_complete := fi_flush_complete frame frame_is_frame_invariant.
Definition frame_call_end := fi_call_end frame frame_is_frame_invariant.
Definition frame_record_cid := fi_record_cid frame frame_is_frame_invariant.
Definition frame_maybe_set_prev_state := fi_maybe_set_prev_state frame frame_is_frame_invariant.
Definition frame_ctx_set_errors := fi_ctx_set_errors frame frame_is_frame_invariant.
Definition frame_track_service_result := fi_track_service_result' frame frame_is_frame_invariant.
Definition frame_set_scalar_value := fi_set_scalar_value' frame frame_is_frame_invariant.
Definition frame_add_stream_value := fi_add_stream_value' frame frame_is_frame_invariant.
Definition frame_wrap_errors := fi_wrap_errors frame frame_is_frame_invariant.
Definition frame_populate_from_service_result := fi_populate_from_service_result frame frame_is_frame_invariant.
Definition frame_update_state_with_service_result := fi_update_state_with_service_result frame frame_is_frame_invariant.
Definition frame_populate_from_data := fi_populate_from_data' frame frame_is_frame_invariant.
Definition frame_exec_fail := fi_exec_fail frame frame_is_frame_invariant.
Definition frame_exec_ap := fi_exec_ap frame frame_is_frame_invariant.

(* ------------------------------------------------------------------------------------------ *)
(* the result trace across one call *)

Lemma tr_call_end x c : tr (call_end x c) = tr x ++ [SCall c].
Proof. reflexivity. Qed.

Lemma prepare_positions_mapping_result sch k k' :
  prepare_positions_mapping cid sch k = Ok k' -> k_result cid k' = k_result cid k.
Proof.
  unfold prepare_positions_mapping. destruct sch.
  - destruct (s_pos cid (k_prev cid k) =? 0); intros E; inversion E; reflexivity.
  - destruct (s_pos cid (k_cur cid k) =? 0); intros E; inversion E; reflexivity.
  - destruct (s_pos cid (k_prev cid k) =? 0); [discriminate |]. unfold Handler.bind.
    cbn [k_cur]. destruct (s_pos cid (k_cur cid k) =? 0); intros E; inversion E; reflexivity.
Qed.

Lemma prepare_call_result_result r sch k m k' :
  prepare_call_result cid r sch k = Ok (m, k') -> k_result cid k' = k_result cid k.
Proof.
  unfold prepare_call_result, Handler.bind.
  destruct (prepare_positions_mapping cid sch k) eqn:E; try discriminate.
  intros E2. inversion E2; subst. apply (prepare_positions_mapping_result _ _ _ E).
Qed.

Lemma next_states_result k p c k' : next_states cid k = (p, c, k') -> k_result cid k' = k_result cid k.
Proof.
  unfold next_states. destruct (next_state cid (k_prev cid k)) as [p0 sp].
  destruct (next_state cid (k_cur cid k)) as [c0 sc]. intros E. inversion E; reflexivity.
Qed.

Lemma try_merge_next_state_as_call_result k m k' :
  try_merge_next_state_as_call cid cid_eqb k = Ok (m, k') -> k_result cid k' = k_result cid k.
Proof.
  unfold try_merge_next_state_as_call.
  destruct (next_states cid k) as [[p c] k1] eqn:En. pose proof (next_states_result _ _ _ _ En) as Hn.
  destruct p as [[]|], c as [[]|]; try discriminate.
  - unfold Handler.bind. destruct (merge_call_results cid cid_eqb c0 c) as [[mr sch]| |]; try discriminate.
    cbn [fst snd]. intros E. rewrite <- Hn. apply (prepare_call_result_result _ _ _ _ _ E).
  - intros E. rewrite <- Hn. apply (prepare_call_result_result _ _ _ _ _ E).
  - intros E. rewrite <- Hn. apply (prepare_call_result_result _ _ _ _ _ E).
  - intros E. inversion E; subst. exact Hn.
Qed.

Lemma meet_call_start_result h m h' :
  meet_call_start cid cid_eqb h = Ok (m, h') -> result_trace cid h' = result_trace cid h.
Proof.
  unfold meet_call_start, Handler.bind.
  destruct (try_merge_next_state_as_call cid cid_eqb (h_keeper cid h)) as [[m0 k0]| |] eqn:E; try discriminate.
  intros E2. inversion E2; subst. cbn [fst snd]. unfold result_trace. cbn [with_keeper h_keeper].
  apply (try_merge_next_state_as_call_result _ _ _ E).
Qed.

(* frame steps that also leave the trace handler alone *)
Definition hsame (x y : ctx) : Prop := frame x y /\ x_handler y = x_handler x.

Lemma hsame_refl x : hsame x x.
Proof. split; [apply frame_refl | reflexivity]. Qed.
Lemma hsame_trans x y z : hsame x y -> hsame y z -> hsame x z.
Proof. intros [F1 H1] [F2 H2]. split; [eapply frame_trans; eauto | congruence]. Qed.
Lemma hsame_tr x y : hsame x y -> tr y = tr x.
Proof. intros [_ H]. unfold tr. rewrite H. reflexivity. Qed.

Lemma hsame_make_incomplete x : hsame x (make_incomplete x).
Proof. repeat split. Qed.
Lemma hsame_record_cid x p c : hsame x (record_cid x p c).
Proof. unfold record_cid. destruct (String.eqb p (current_peer x)); repeat split. Qed.
Lemma hsame_track_service_result x v t ah y sc : track_service_result x v t ah = (y, sc) -> hsame x y.
Proof. unfold track_service_result. intros E. inversion E; subst. repeat split. Qed.
Lemma hsame_set_scalar_value x n v y : set_scalar_value x n v = POk y -> hsame x y.
Proof.
  unfold set_scalar_value. destruct (Scalars.set_value vagg (x_scalars x) n v) as [[m b]|]; intros E; inversion E; subst.
  repeat split.
Qed.
Lemma hsame_add_stream_value x n v g p y : add_stream_value x n v g p = POk y -> hsame x y.
Proof.
  unfold add_stream_value. destruct (Stream.streams_add_stream_value vagg _ n v g p); intros E; inversion E; subst.
  repeat split.
Qed.
Lemma hsame_populate_from_data x v ah t pos src out y : populate_from_data x v ah t pos src out = POk y -> hsame x y.
Proof.
  unfold populate_from_data. destruct out, v; try discriminate.
  - destruct (resolve_service_info x cid); try discriminate. cbn [pbind].
    destruct (verify_call ah t (si_arg_hash a) (si_tetraplet a)); try discriminate. cbn [pbind].
    apply hsame_set_scalar_value.
  - destruct (resolve_service_info x cid); try discriminate. cbn [pbind].
    destruct (verify_call ah t (si_arg_hash a) (si_tetraplet a)); try discriminate. cbn [pbind].
    apply hsame_add_stream_value.
  - intros E. inversion E; subst. apply hsame_refl.
Qed.

Definition not_sent (c : call_result cid) : Prop := match c with RequestSentBy _ => False | _ => True end.

Lemma populate_from_service_result_spec x result t pos ah out r o :
  populate_from_service_result x result t pos ah out = (r, o) ->
  forall y, outcome_ctx r = Some y -> hsame x y /\ (forall c, o = Some c -> not_sent c).
Proof.
  unfold populate_from_service_result. destruct out.
  - destruct (track_service_result x result t ah) as [x1 sc] eqn:E.
    pose proof (hsame_track_service_result _ _ _ _ _ _ E) as H1.
    destruct (set_scalar_value x1 (v_name v) (VAService result t pos sc)) eqn:E2;
      intros E3 y Hy; inversion E3; subst; cbn [outcome_ctx] in Hy; inversion Hy; subst.
    + split; [| intros c Hc; inversion Hc; exact I].
      eapply hsame_trans; [exact H1 |]. eapply hsame_trans; [apply (hsame_set_scalar_value _ _ _ _ E2) | apply hsame_record_cid].
    + split; [exact H1 | discriminate].
  - destruct (track_service_result x result t ah) as [x1 sc] eqn:E.
    pose proof (hsame_track_service_result _ _ _ _ _ _ E) as H1.
    destruct (add_stream_value x1 (v_name v) (VAService result t pos sc) Stream.GNew (v_pos v)) eqn:E2;
      intros E3 y Hy; inversion E3; subst; cbn [outcome_ctx] in Hy; inversion Hy; subst.
    + split; [| intros c Hc; inversion Hc; exact I].
      eapply hsame_trans; [exact H1 |]. eapply hsame_trans; [apply (hsame_add_stream_value _ _ _ _ _ _ E2) | apply hsame_record_cid].
    + split; [exact H1 | discriminate].
  - intros E y Hy. inversion E; subst. cbn [outcome_ctx] in Hy. inversion Hy; subst.
    split; [apply hsame_refl | intros c Hc; inversion Hc; exact I].
Qed.

(* update_state_with_service_result: a frame; writes at most one state, never RequestSentBy *)
Lemma update_state_with_service_result_spec x t ah out ans y :
  outcome_ctx (update_state_with_service_result x t ah out ans) = Some y ->
  frame x y /\ (tr y = tr x \/ exists c, tr y = tr x ++ [SCall c] /\ not_sent c).
Proof.
  unfold update_state_with_service_result.
  destruct (negb (sa_ret_code ans =? call_service_success)%Z).
  - destruct (track_service_result x _ t ah) as [x1 sc] eqn:E.
    pose proof (hsame_track_service_result _ _ _ _ _ _ E) as H1.
    cbn [outcome_ctx]. intros Hy. inversion Hy; subst.
    pose proof (hsame_trans _ _ _ H1 (hsame_record_cid x1 (tp_peer t) sc)) as H2.
    split; [| right; exists (Failed sc); split; [| exact I]].
    + eapply frame_trans; [apply H2 | apply frame_call_end].
    + rewrite tr_call_end, (hsame_tr _ _ H2). reflexivity.
  - destruct (sa_parsed ans) as [result|].
    + destruct (populate_from_service_result x result t (trace_pos_of x) ah out) as [r o] eqn:E.
      pose proof (populate_from_service_result_spec _ _ _ _ _ _ _ _ E) as H.
      destruct r; cbn [outcome_ctx]; try discriminate.
      * specialize (H x0 eq_refl). destruct H as [H1 H2].
        destruct o as [cr|]; cbn [outcome_ctx]; intros Hy; inversion Hy; subst.
        -- split; [eapply frame_trans; [apply H1 | apply frame_call_end] |].
           right. exists cr. split; [rewrite tr_call_end, (hsame_tr _ _ H1); reflexivity | apply H2; reflexivity].
        -- split; [apply H1 | left; apply (hsame_tr _ _ H1)].
      * specialize (H x0 eq_refl). destruct H as [H1 H2].
        intros Hy; inversion Hy; subst. split; [apply H1 | left; apply (hsame_tr _ _ H1)].
    + destruct (track_service_result x _ t ah) as [x1 sc] eqn:E.
      pose proof (hsame_track_service_result _ _ _ _ _ _ E) as H1.
      cbn [outcome_ctx]. intros Hy. inversion Hy; subst.
      pose proof (hsame_trans _ _ _ H1 (hsame_record_cid x1 (tp_peer t) sc)) as H2.
      split; [| right; exists (Failed sc); split; [| exact I]].
      * eapply frame_trans; [apply H2 | apply frame_call_end].
      * rewrite tr_call_end, (hsame_tr _ _ H2). reflexivity.
Qed.

(* handle_prev_state *)
Definition hps_post (x : ctx) (met : call_result cid) (r : xres) (sd : state_descr) (y : ctx) : Prop :=
  (* the met state is handed back in the descriptor, nothing is written yet *)
  (exists b, sd = SD b (Some met) /\ r = XOk y /\ frame x y /\ tr y = tr x) \/
  (* the met state is final (executed / failed) or an error occurred: it is written again or nothing is *)
  (sd = SD false None /\ frame x y /\ (tr y = tr x \/ tr y = tr x ++ [SCall met])) \/
  (* the met state is this peer's own request and its result is supplied *)
  (sd = SD false None /\ exists id ans,
      met = RequestSentBy (SPeerCall (current_peer x) id) /\
      results_take (x_call_results x) id = (Some ans, x_call_results y) /\
      x_params y = x_params x /\ x_requests y = x_requests x /\ x_lcid y = x_lcid x /\
      x_next_peers y = x_next_peers x /\
      (tr y = tr x \/ exists c, tr y = tr x ++ [SCall c] /\ not_sent c)).

(* a branch that either panics or returns an error with the context unchanged *)
Ltac same_err E Hy :=
  inversion E; subst;
  first [ discriminate
        | cbn [outcome_ctx] in Hy; inversion Hy; subst; right; left; repeat split; left; reflexivity ].

Lemma handle_prev_state_spec x met pos src t ah out r sd y :
  handle_prev_state x met pos src t ah out = (r, sd) -> outcome_ctx r = Some y -> hps_post x met r sd y.
Proof.
  unfold handle_prev_state, hps_post. destruct met as [s | v | fc].
  - assert (Hother : forall r sd y,
              (if String.eqb (tp_peer t) (current_peer x) then (XOk x, SD true (Some (RequestSentBy s)))
               else (XOk (make_incomplete x), SD false (Some (RequestSentBy s)))) = (r, sd) ->
              outcome_ctx r = Some y ->
              exists b, sd = SD b (Some (RequestSentBy s)) /\ r = XOk y /\ frame x y /\ tr y = tr x).
    { intros r0 sd0 y0. destruct (String.eqb (tp_peer t) (current_peer x)); intros E Hy; inversion E; subst;
        cbn [outcome_ctx] in Hy; inversion Hy; subst; eexists; repeat split. }
    destruct s as [p | p id].
    + intros E Hy. left. apply (Hother _ _ _ E Hy).
    + destruct (String.eqb p (current_peer x)) eqn:Ep.
      * apply String.eqb_eq in Ep. subst p.
        destruct (results_take (x_call_results x) id) as [[ans|] rest] eqn:Et.
        -- destruct ah as [ah|]; intros E Hy; [inversion E; subst | same_err E Hy].
           right. right. split; [reflexivity |]. exists id, ans.
           pose proof (update_state_with_service_result_spec _ _ _ _ _ _ Hy) as [F Ht].
           destruct F as (F1 & F2 & F3 & F4 & F5). cbn in F1, F2, F3, F4, F5.
           repeat split; try assumption.
           rewrite Et, F4. reflexivity.
        -- intros E Hy. inversion E; subst. cbn [outcome_ctx] in Hy. inversion Hy; subst.
           left. eexists; repeat split.
      * intros E Hy. left. apply (Hother _ _ _ E Hy).
  - destruct ah as [ah|]; [| intros E Hy; same_err E Hy].
    destruct (populate_from_data x v ah t pos src out) as [c0 | e0 | s0 | w0] eqn:Ed; intros E Hy; inversion E; subst;
      cbn [outcome_ctx] in Hy; inversion Hy; subst; right; left; (split; [reflexivity |]).
    + pose proof (hsame_populate_from_data _ _ _ _ _ _ _ _ Ed) as H1.
      assert (H2 : hsame x match v with VRScalar c | VRStream c _ => record_cid c0 (tp_peer t) c | VRUnused _ => c0 end).
      { destruct v; try exact H1; (eapply hsame_trans; [exact H1 | apply hsame_record_cid]). }
      split; [eapply frame_trans; [apply H2 | apply frame_call_end] |].
      right. rewrite tr_call_end, (hsame_tr _ _ H2). reflexivity.
    + split; [apply frame_refl | left; reflexivity].
  - destruct (resolve_service_info x fc) as [si | e | s | w];
      [| intros E Hy; inversion E; subst; cbn [outcome_ctx] in Hy; inversion Hy; subst;
         right; left; repeat split; left; reflexivity
       | intros E Hy; inversion E; subst; discriminate | intros E Hy; inversion E; subst; discriminate].
    destruct ah as [ah|]; [| intros E Hy; same_err E Hy].
    assert (Hx : forall (e : exec_err) r sd y, (XErr e x, SD false None) = (r, sd) -> outcome_ctx r = Some y ->
                  sd = SD false None /\ frame x y /\ (tr y = tr x \/ tr y = tr x ++ [SCall (Failed fc)])).
    { intros e r0 sd0 y0 E Hy. inversion E; subst. cbn [outcome_ctx] in Hy. inversion Hy; subst.
      repeat split. left; reflexivity. }
    destruct (verify_call ah t (si_arg_hash si) (si_tetraplet si));
      [| intros E Hy; right; left; apply (Hx _ _ _ _ E Hy)
       | intros E Hy; inversion E; subst; discriminate | intros E Hy; inversion E; subst; discriminate].
    destruct (si_value si); try (intros E Hy; right; left; apply (Hx _ _ _ _ E Hy)).
    destruct (obj_get "ret_code" kvs) as [[]|]; try (intros E Hy; right; left; apply (Hx _ _ _ _ E Hy)).
    destruct (obj_get "message" kvs) as [[]|]; try (intros E Hy; right; left; apply (Hx _ _ _ _ E Hy)).
    match goal with |- context [if ?c then _ else _] => destruct c end;
      [| intros E Hy; right; left; apply (Hx _ _ _ _ E Hy)].
    intros E Hy. inversion E; subst. cbn [outcome_ctx] in Hy. inversion Hy; subst.
    right. left. split; [reflexivity |].
    pose proof (hsame_trans _ _ _ (hsame_make_incomplete x) (hsame_record_cid (make_incomplete x) (tp_peer t) fc)) as H2.
    split; [eapply frame_trans; [apply H2 | apply frame_call_end] |].
    right. rewrite tr_call_end, (hsame_tr _ _ H2). reflexivity.
Qed.

(* ResolvedCall::execute *)
Lemma current_peer_frame x y : frame x y -> current_peer y = current_peer x.
Proof. intros (_ & _ & _ & _ & F5). unfold current_peer. rewrite F5. reflexivity. Qed.

Lemma forward_spec x x1 t :
  frame x x1 -> tr x1 = tr x ->
  negb (String.eqb (tp_peer t) (current_peer x1)) = true ->
  let y := call_end (make_incomplete (set_next_peers x1 (x_next_peers x1 ++ [tp_peer t])))
                    (RequestSentBy (SPeer (current_peer x1))) in
  call_fields x t CEForward y /\ call_emission x CEForward y.
Proof.
  intros F Ht Hp y. pose proof (current_peer_frame _ _ F) as Hc.
  destruct F as (F1 & F2 & F3 & F4 & F5). apply Bool.negb_true_iff in Hp. rewrite Hc in Hp.
  split.
  - unfold call_fields, y. cbn. rewrite F3. repeat split; assumption.
  - unfold call_emission, y. rewrite tr_call_end. rewrite Hc. f_equal. exact Ht.
Qed.

Lemma request_spec x x1 t av at_ :
  frame x x1 -> tr x1 = tr x ->
  negb (String.eqb (tp_peer t) (current_peer x1)) = false ->
  (4294967295 <=? x_lcid x1) = false ->
  let id := x_lcid x1 + 1 in
  let rq := {| rq_service := tp_service t; rq_function := tp_function t; rq_args := av; rq_tetraplets := at_ |} in
  let x2 := set_calls x1 id (x_call_results x1) (x_requests x1 ++ [(id, rq)]) in
  let y := call_end (make_incomplete x2) (RequestSentBy (SPeerCall (current_peer x2) id)) in
  call_fields x t (CERequest (x_lcid x + 1) rq) y /\ call_emission x (CERequest (x_lcid x + 1) rq) y.
Proof.
  intros F Ht Hp Hl id rq x2 y. pose proof (current_peer_frame _ _ F) as Hc.
  destruct F as (F1 & F2 & F3 & F4 & F5). apply Bool.negb_false_iff in Hp. rewrite Hc in Hp.
  apply N.leb_gt in Hl.
  split.
  - unfold call_fields, y, x2, id. cbn. rewrite F1, F2. rewrite F2 in Hl. repeat split; assumption.
  - unfold call_emission, y. rewrite tr_call_end. unfold x2, id.
    change (current_peer (set_calls x1 (x_lcid x1 + 1) (x_call_results x1) (x_requests x1 ++ [(x_lcid x1 + 1, rq)])))
      with (current_peer x1).
    rewrite Hc, F2. f_equal. exact Ht.
Qed.

Lemma frame_call_step x t y : frame x y -> tr y = tr x -> call_step x t y.
Proof.
  intros (F1 & F2 & F3 & F4 & F5) Ht. exists CEFrame. split.
  - repeat split; assumption.
  - left. exact Ht.
Qed.

Theorem resolved_call_execute_spec x t args out y :
  outcome_ctx (resolved_call_execute x t args out) = Some y -> call_step x t y.
Proof.
  unfold resolved_call_execute.
  destruct (meet_call_start cid cid_eqb (x_handler x)) as [[mr h] | he | site] eqn:Em.
  2: { (* trace error: the context is returned unchanged *)
       destruct (collect_args x args) as [[av at_] | e | s | w]; cbn [with_handler outcome_ctx]; try discriminate.
       - intros Hy; inversion Hy; subst. apply frame_call_step; [apply frame_refl | reflexivity].
       - destruct (is_joinable e); cbn [with_handler outcome_ctx]; intros Hy; inversion Hy; subst;
           apply frame_call_step; try apply frame_refl; reflexivity. }
  2: { destruct (collect_args x args) as [[av at_] | e | s | w]; cbn [with_handler outcome_ctx]; try discriminate.
       destruct (is_joinable e); cbn [with_handler outcome_ctx]; try discriminate.
       intros Hy; inversion Hy; subst. apply frame_call_step; [apply frame_refl | reflexivity]. }
  pose proof (meet_call_start_result _ _ _ Em) as Hr.
  set (x0 := set_handler x h).
  assert (F0 : frame x x0) by (repeat split).
  assert (T0 : tr x0 = tr x) by (unfold tr, x0; cbn [x_handler set_handler]; exact Hr).
  (* what happens once handle_prev_state has answered *)
  assert (Hmet : forall met pos src ah r sd,
             mr = CallMet cid met pos src ->
             handle_prev_state x0 met pos src t ah out = (r, sd) ->
             forall x1, outcome_ctx r = Some x1 ->
               (* error or final: the outcome context is the result *)
               (sd = SD false None /\ call_step x t x1) \/
               (* the met state is still to be written *)
               (exists b, sd = SD b (Some met) /\ r = XOk x1 /\ frame x x1 /\ tr x1 = tr x /\ met_state x met)).
  { intros met pos src ah r sd Emr E x1 Hx1. subst mr.
    assert (Hms : met_state x met) by (exists pos, src, h; exact Em).
    destruct (handle_prev_state_spec _ _ _ _ _ _ _ _ _ _ E Hx1) as [(b & Hsd & Hr1 & F1 & T1) | [(Hsd & F1 & T1) | (Hsd & id & ans & Hm & Htk & P1 & P2 & P3 & P4 & T1)]].
    - right. exists b. refine (conj Hsd (conj Hr1 (conj (frame_trans _ _ _ F0 F1) (conj _ Hms)))). congruence.
    - left. split; [exact Hsd |]. exists CEFrame.
      pose proof (frame_trans _ _ _ F0 F1) as (G1 & G2 & G3 & G4 & G5).
      split; [repeat split; assumption |].
      destruct T1 as [T1 | T1]; [left; congruence | right; exists met; split; [exact Hms | congruence]].
    - left. split; [exact Hsd |]. exists (CEResult id ans). split.
      + unfold call_fields. change (current_peer x0) with (current_peer x) in Hm. subst met.
        change (x_call_results x0) with (x_call_results x) in Htk.
        change (x_params x0) with (x_params x) in P1. change (x_requests x0) with (x_requests x) in P2.
        change (x_lcid x0) with (x_lcid x) in P3. change (x_next_peers x0) with (x_next_peers x) in P4.
        repeat split; assumption.
      + unfold call_emission. rewrite T0 in T1. exact T1. }
  destruct (collect_args x args) as [[av at_] | e | s | w]; cbn [with_handler outcome_ctx fst snd]; try discriminate.
  - (* arguments resolved *)
    fold x0.
    assert (Hcont : forall x1,
              frame x x1 -> tr x1 = tr x ->
              outcome_ctx
                (if negb (String.eqb (tp_peer t) (current_peer x1)) then
                   XOk (call_end (make_incomplete (set_next_peers x1 (x_next_peers x1 ++ [tp_peer t])))
                                 (RequestSentBy (SPeer (current_peer x1))))
                 else
                   if 4294967295 <=? x_lcid x1 then XCrash "next_call_request_id: u32 overflow" else
                   let id := x_lcid x1 + 1 in
                   let rq := {| rq_service := tp_service t; rq_function := tp_function t; rq_args := av;
                                rq_tetraplets := at_ |} in
                   let x2 := set_calls x1 id (x_call_results x1) (x_requests x1 ++ [(id, rq)]) in
                   XOk (call_end (make_incomplete x2) (RequestSentBy (SPeerCall (current_peer x2) id)))) = Some y ->
              call_step x t y).
    { intros x1 F1 T1.
      destruct (negb (String.eqb (tp_peer t) (current_peer x1))) eqn:Ep.
      - cbn [outcome_ctx]. intros Hy; inversion Hy; subst. exists CEForward. apply (forward_spec _ _ _ F1 T1 Ep).
      - destruct (4294967295 <=? x_lcid x1) eqn:El; cbn [outcome_ctx]; [discriminate |].
        intros Hy; inversion Hy; subst. eexists. apply (request_spec _ _ _ av at_ F1 T1 Ep El). }
    destruct mr as [| met pos src].
    + apply (Hcont x0 F0 T0).
    + destruct (handle_prev_state x0 met pos src t (Some (CArgs av)) out) as [r sd] eqn:E.
      specialize (Hmet _ _ _ _ _ _ eq_refl E).
      destruct r as [x1 | e x1 | | |]; cbn [outcome_ctx]; try discriminate.
      * destruct (Hmet x1 eq_refl) as [(Hsd & Hs) | (b & Hsd & _ & F1 & T1 & Hms)]; subst sd.
        -- cbn [maybe_set_prev_state outcome_ctx]. intros Hy; inversion Hy; subst. exact Hs.
        -- destruct b.
           ++ apply (Hcont x1 F1 T1).
           ++ cbn [maybe_set_prev_state outcome_ctx]. intros Hy; inversion Hy; subst.
              exists CEFrame. destruct F1 as (G1 & G2 & G3 & G4 & G5). split; [repeat split; assumption |].
              right. exists met. split; [exact Hms | rewrite tr_call_end, T1; reflexivity].
      * destruct (Hmet x1 eq_refl) as [(Hsd & Hs) | (b & Hsd & Hr1 & _)]; [| discriminate].
        intros Hy; inversion Hy; subst. exact Hs.
  - (* joinable argument error *)
    destruct (is_joinable e); cbn [with_handler outcome_ctx fst snd].
    2: { intros Hy; inversion Hy; subst. apply frame_call_step; [apply frame_refl | reflexivity]. }
    fold x0.
    destruct mr as [| met pos src].
    + destruct (negb (String.eqb (tp_peer t) (current_peer x0))) eqn:Ep; cbn [outcome_ctx];
        intros Hy; inversion Hy; subst.
      * exists CEForward. apply (forward_spec _ _ _ F0 T0 Ep).
      * apply frame_call_step; assumption.
    + destruct (handle_prev_state x0 met pos src t None out) as [r sd] eqn:E.
      specialize (Hmet _ _ _ _ _ _ eq_refl E).
      destruct r as [x1 | e1 x1 | | |]; cbn [outcome_ctx]; try discriminate.
      * destruct (Hmet x1 eq_refl) as [(Hsd & Hs) | (b & Hsd & _ & F1 & T1 & Hms)]; subst sd.
        -- cbn [negb maybe_set_prev_state outcome_ctx]. intros Hy; inversion Hy; subst. exact Hs.
        -- assert (Hre : call_step x t (call_end x1 met)).
           { exists CEFrame. destruct F1 as (G1 & G2 & G3 & G4 & G5). split; [repeat split; assumption |].
             right. exists met. split; [exact Hms | rewrite tr_call_end, T1; reflexivity]. }
           destruct b; cbn [negb maybe_set_prev_state outcome_ctx].
           ++ destruct (negb (String.eqb (tp_peer t) (current_peer x1))) eqn:Ep; cbn [outcome_ctx];
                intros Hy; inversion Hy; subst.
              ** exists CEForward. apply (forward_spec _ _ _ F1 T1 Ep).
              ** exact Hre.
           ++ intros Hy; inversion Hy; subst. exact Hre.
      * destruct (Hmet x1 eq_refl) as [(Hsd & Hs) | (b & Hsd & Hr1 & _)]; [| discriminate].
        intros Hy; inversion Hy; subst. exact Hs.
Qed.

(* Call::execute: the instruction around the resolved call only adds frame steps *)
Lemma hsame_ctx_set_errors x e i t b : hsame x (ctx_set_errors x e i t b).
Proof.
  unfold ctx_set_errors.
  destruct (x_last_error_can_set x && affects_last_error e);
    match goal with |- context [if ?c then _ else _] => destruct c end; repeat split.
Qed.

Theorem exec_call_spec x text tr_ args out y :
  outcome_ctx (exec_call x text tr_ args out) = Some y ->
  hsame x y \/
  exists t y', resolve_triplet x tr_ = POk t /\
               outcome_ctx (resolved_call_execute x t args out) = Some y' /\ hsame y' y.
Proof.
  unfold exec_call.
  destruct (resolve_triplet x tr_) as [t | e | s | w] eqn:Et; cbn [pbind]; try discriminate.
  - destruct (check_output_name x out) as [u | e | s | w]; cbn [pbind]; try discriminate.
    + intros Hy. right. exists t.
      destruct (resolved_call_execute x t args out) as [y' | e y' | | |]; cbn [outcome_ctx] in *; try discriminate.
      * inversion Hy; subst. exists y. repeat split.
      * exists y'. split; [reflexivity |]. split; [reflexivity |].
        destruct (is_joinable e); cbn [outcome_ctx] in Hy.
        -- inversion Hy; subst. apply hsame_make_incomplete.
        -- destruct e; cbn [outcome_ctx] in Hy; inversion Hy; subst; [apply hsame_ctx_set_errors | apply hsame_refl].
    + intros Hy. left. destruct (is_joinable e); cbn [outcome_ctx] in Hy.
      * inversion Hy; subst. apply hsame_make_incomplete.
      * destruct e; cbn [outcome_ctx] in Hy; inversion Hy; subst; [apply hsame_ctx_set_errors | apply hsame_refl].
  - intros Hy. left. destruct (is_joinable e); cbn [outcome_ctx] in Hy.
    + inversion Hy; subst. apply hsame_make_incomplete.
    + destruct e; cbn [outcome_ctx] in Hy; inversion Hy; subst; [apply hsame_ctx_set_errors | apply hsame_refl].
Qed.

(* ------------------------------------------------------------------------------------------ *)
(* the executor, with the call instruction as a hypothesis: for relations whose treatment of a call
   is proved separately (exec_inv below instantiates it with ei_exec_call) *)

Section CallInv.
  Variable R : ctx -> ctx -> Prop.
  Hypothesis HF : frame_invariant R.
  Hypothesis Hcall : forall x text tr_ args out, res_sat R x (exec_call x text tr_ args out).

  Let Rrefl := fi_refl R HF.
  Let Rtrans := fi_trans R HF.

  Ltac rch :=
    match goal with
    | |- R ?x ?x => apply Rrefl
    | H : R ?x ?y |- R ?x ?y => exact H
    | |- R ?x (set_scalars ?y _) => apply (Rtrans x y); [rch | apply (fi_set_scalars R HF)]
    | |- R ?x (set_canons ?y _) => apply (Rtrans x y); [rch | apply (fi_set_canons R HF)]
    | |- R ?x (set_iterables ?y _) => apply (Rtrans x y); [rch | apply (fi_set_iterables R HF)]
    | |- R ?x (set_last_error ?y _ _) => apply (Rtrans x y); [rch | apply (fi_set_last_error R HF)]
    | |- R ?x (set_error ?y _ _) => apply (Rtrans x y); [rch | apply (fi_set_error R HF)]
    | |- R ?x (set_complete ?y _) => apply (Rtrans x y); [rch | apply (fi_set_complete R HF)]
    | |- R ?x (set_handler ?y _) => apply (Rtrans x y); [rch | apply (fi_set_handler R HF)]
    | |- R ?x (set_cids ?y _ _) => apply (Rtrans x y); [rch | apply (fi_set_cids R HF)]
    | |- R ?x (set_fold_counter ?y _) => apply (Rtrans x y); [rch | apply (fi_set_fold_counter R HF)]
    | |- R ?x (set_ext ?y _) => apply (Rtrans x y); [rch | apply (fi_set_ext R HF)]
    | |- R ?x (with_streams ?y _) => apply (Rtrans x y); [rch | apply (fi_set_ext R HF)]
    | |- R ?x (with_canon_maps ?y _) => apply (Rtrans x y); [rch | apply (fi_set_ext R HF)]
    | |- R ?x (all_fold_start ?y) => unfold all_fold_start; rch
    | |- R ?x (all_fold_end ?y) => unfold all_fold_end; rch
    | |- R ?x (all_next_before ?y) => unfold all_next_before; rch
    | |- R ?x (all_next_after ?y) => unfold all_next_after; rch
    | |- R ?x (make_incomplete ?y) => apply (Rtrans x y); [rch | apply (fi_make_incomplete R HF)]
    | |- R ?x (flush_complete ?y) => apply (Rtrans x y); [rch | apply (fi_flush_complete R HF)]
    | |- R ?x (call_end ?y _) => apply (Rtrans x y); [rch | apply (fi_call_end R HF)]
    | |- R ?x (record_cid ?y _ _) => apply (Rtrans x y); [rch | apply (fi_record_cid R HF)]
    | |- R ?x (maybe_set_prev_state ?y _) => apply (Rtrans x y); [rch | apply (fi_maybe_set_prev_state R HF)]
    | |- R ?x (ctx_set_errors ?y _ _ _ _) => apply (Rtrans x y); [rch | apply (fi_ctx_set_errors R HF)]
    | H : R ?z ?y |- R ?x ?y => apply (Rtrans x z); [rch | exact H]
    end.

  Lemma fi_res_sat_trans x y r : R x y -> res_sat R y r -> res_sat R x r.
  Proof. intros H. destruct r; ss; auto; intros H2; rch. Qed.

  (* ---------------------------------------------------------------------------------------- *)
  Variable hook : stream_hook.
  Hypothesis Hhook : hook_preserves R hook.

  Ltac dm IH :=
    match goal with
    | |- context [match exec ?h ?n ?a ?z with _ => _ end] =>
        let H := fresh "HI" in
        pose proof (IH a z) as H; destruct (exec h n a z) eqn:?; cbn [res_sat] in H
    | |- context [match ?d with _ => _ end] =>
        lazymatch d with
        | context [match _ with _ => _ end] => fail
        | _ => lazymatch type of d with
               | instr => fail        (* never split the sub-instructions *)
               | _ => destruct d eqn:?
               end
        end
    end.

  (* one arm of [exec]: destruct every scrutinee (posing the induction hypothesis for recursive runs),
     then close each leaf; independent of the order and the number of the instruction arms *)
  Ltac arm IH Hh :=
    try (apply (fi_with_handler R HF); intros ? _);
    cbn [res_sat lift];
    repeat (dm IH; cbn [res_sat lift]);
    repeat match goal with H : (_, _) = (_, _) |- _ => inversion H; clear H; subst end;
    first
      [ exact I
      | discriminate
      | rch
      | apply Hcall
      | apply (fi_exec_fail R HF)
      | apply (fi_exec_ap R HF)
      | apply Hh
      | match goal with H : hook _ _ _ = Some ?r |- res_sat _ _ ?r => apply (Hhook _ IH _ _ _ H) end
      | eapply fi_res_sat_trans; [| apply IH]; rch ].

  Theorem exec_inv_call : forall fuel i x, res_sat R x (exec hook fuel i x).
  Proof.
    induction fuel as [| n IH]; intros i x; [exact I |].
    assert (Hh : forall i0 x0, res_sat R x0 (match hook (exec hook n) i0 x0 with Some r' => r' | None => XUnsupported "stream" end)).
    { intros i0 x0. destruct (hook (exec hook n) i0 x0) eqn:E; [| exact I]. apply (Hhook _ IH _ _ _ E). }
    destruct i; cbn [exec]; try apply (fi_wrap_errors R HF); arm IH Hh.
  Qed.

End CallInv.

(* ------------------------------------------------------------------------------------------ *)
(* the call instruction and the executor *)

Section ExecInv.
  Variable R : ctx -> ctx -> Prop.
  Hypothesis HE : exec_invariant R.

  Let HF := ei_frame R HE.
  Let Rrefl := fi_refl R HF.
  Let Rtrans := fi_trans R HF.

  Ltac rch :=
    match goal with
    | |- R ?x ?x => apply Rrefl
    | H : R ?x ?y |- R ?x ?y => exact H
    | |- R ?x (set_scalars ?y _) => apply (Rtrans x y); [rch | apply (fi_set_scalars R HF)]
    | |- R ?x (set_canons ?y _) => apply (Rtrans x y); [rch | apply (fi_set_canons R HF)]
    | |- R ?x (set_iterables ?y _) => apply (Rtrans x y); [rch | apply (fi_set_iterables R HF)]
    | |- R ?x (set_last_error ?y _ _) => apply (Rtrans x y); [rch | apply (fi_set_last_error R HF)]
    | |- R ?x (set_error ?y _ _) => apply (Rtrans x y); [rch | apply (fi_set_error R HF)]
    | |- R ?x (set_complete ?y _) => apply (Rtrans x y); [rch | apply (fi_set_complete R HF)]
    | |- R ?x (set_handler ?y _) => apply (Rtrans x y); [rch | apply (fi_set_handler R HF)]
    | |- R ?x (set_cids ?y _ _) => apply (Rtrans x y); [rch | apply (fi_set_cids R HF)]
    | |- R ?x (set_fold_counter ?y _) => apply (Rtrans x y); [rch | apply (fi_set_fold_counter R HF)]
    | |- R ?x (set_ext ?y _) => apply (Rtrans x y); [rch | apply (fi_set_ext R HF)]
    | |- R ?x (with_streams ?y _) => apply (Rtrans x y); [rch | apply (fi_set_ext R HF)]
    | |- R ?x (with_canon_maps ?y _) => apply (Rtrans x y); [rch | apply (fi_set_ext R HF)]
    | |- R ?x (all_fold_start ?y) => unfold all_fold_start; rch
    | |- R ?x (all_fold_end ?y) => unfold all_fold_end; rch
    | |- R ?x (all_next_before ?y) => unfold all_next_before; rch
    | |- R ?x (all_next_after ?y) => unfold all_next_after; rch
    | |- R ?x (make_incomplete ?y) => apply (Rtrans x y); [rch | apply (fi_make_incomplete R HF)]
    | |- R ?x (flush_complete ?y) => apply (Rtrans x y); [rch | apply (fi_flush_complete R HF)]
    | |- R ?x (call_end ?y _) => apply (Rtrans x y); [rch | apply (fi_call_end R HF)]
    | |- R ?x (record_cid ?y _ _) => apply (Rtrans x y); [rch | apply (fi_record_cid R HF)]
    | |- R ?x (maybe_set_prev_state ?y _) => apply (Rtrans x y); [rch | apply (fi_maybe_set_prev_state R HF)]
    | |- R ?x (ctx_set_errors ?y _ _ _ _) => apply (Rtrans x y); [rch | apply (fi_ctx_set_errors R HF)]
    | H : R ?z ?y |- R ?x ?y => apply (Rtrans x z); [rch | exact H]
    end.

  Lemma res_sat_trans x y r : R x y -> res_sat R y r -> res_sat R x r.
  Proof. intros H. destruct r; ss; auto; intros H2; rch. Qed.

  Lemma ei_handle_prev_state x met pos src t ah out :
    res_sat R x (fst (handle_prev_state x met pos src t ah out)).
  Proof.
    unfold handle_prev_state. destruct met as [s | v | fc].
    - destruct s as [p | p id].
      + destruct (String.eqb (tp_peer t) (current_peer x)); ss; rch.
      + destruct (String.eqb p (current_peer x)).
        * destruct (results_take (x_call_results x) id) as [[ans|] rest] eqn:E; ss; try rch.
          destruct ah as [ah|]; ss; auto.
          apply res_sat_trans with (y := set_calls x (x_lcid x) rest (x_requests x)).
          -- apply (ei_take R HE _ _ _ _ E).
          -- apply (fi_update_state_with_service_result R HF).
        * destruct (String.eqb (tp_peer t) (current_peer x)); ss; rch.
    - destruct ah as [ah|]; ss; auto.
      destruct (populate_from_data x v ah t pos src out) eqn:E; ss; auto; try rch.
      pose proof (fi_populate_from_data' R HF _ _ _ _ _ _ _ _ E).
      destruct v; rch.
    - destruct (resolve_service_info x fc); ss; auto; try rch.
      destruct ah as [ah|]; ss; auto.
      destruct (verify_call ah t (si_arg_hash a) (si_tetraplet a)); ss; auto; try rch.
      destruct (si_value a); ss; try rch.
      destruct (obj_get "ret_code" kvs) as [[]|]; ss; try rch.
      destruct (obj_get "message" kvs) as [[]|]; ss; try rch.
      match goal with |- context [if ?c then _ else _] => destruct c end; ss; rch.
  Qed.

  Lemma ei_handle_prev_state' x met pos src t ah out r sd :
    handle_prev_state x met pos src t ah out = (r, sd) -> res_sat R x r.
  Proof. intros E. pose proof (ei_handle_prev_state x met pos src t ah out) as H. rewrite E in H. exact H. Qed.

  Lemma ei_remote x p c :
    negb (String.eqb p (current_peer x)) = true ->
    R x (call_end (make_incomplete (set_next_peers x (x_next_peers x ++ [p]))) c).
  Proof.
    intros H. apply Bool.negb_true_iff in H.
    pose proof (ei_forward R HE x p H). rch.
  Qed.

  Lemma ei_resolved_call_execute x t args out : res_sat R x (resolved_call_execute x t args out).
  Proof.
    unfold resolved_call_execute.
    destruct (collect_args x args) as [[arg_values arg_tetraplets] | e | s | w]; ss; auto.
    - apply (fi_with_handler R HF). intros [mr h] _. ss.
      assert (Hc : forall x1 sd, R x x1 ->
        res_sat R x
          match sd with
          | SD false _ => XOk (maybe_set_prev_state x1 sd)
          | SD true _ =>
              if negb (String.eqb (tp_peer t) (current_peer x1)) then
                XOk (call_end (make_incomplete (set_next_peers x1 (x_next_peers x1 ++ [tp_peer t])))
                              (RequestSentBy (SPeer (current_peer x1))))
              else
                if 4294967295 <=? x_lcid x1 then XCrash "next_call_request_id: u32 overflow" else
                let id := x_lcid x1 + 1 in
                let rq := {| rq_service := tp_service t; rq_function := tp_function t; rq_args := arg_values;
                             rq_tetraplets := arg_tetraplets |} in
                let x2 := set_calls x1 id (x_call_results x1) (x_requests x1 ++ [(id, rq)]) in
                XOk (call_end (make_incomplete x2) (RequestSentBy (SPeerCall (current_peer x2) id)))
          end).
      { intros x1 [[|] prev] H1; ss; [| rch].
        destruct (negb (String.eqb (tp_peer t) (current_peer x1))) eqn:Ep; ss.
        - pose proof (ei_remote x1 _ (RequestSentBy (SPeer (current_peer x1))) Ep). rch.
        - destruct (4294967295 <=? x_lcid x1) eqn:El; ss; auto.
          pose proof (ei_request R HE x1 {| rq_service := tp_service t; rq_function := tp_function t;
                                            rq_args := arg_values; rq_tetraplets := arg_tetraplets |} El).
          rch. }
      destruct mr as [| met pos src].
      + refine (Hc _ (SD true None) _). rch.
      + destruct (handle_prev_state (set_handler x h) met pos src t (Some (CArgs arg_values)) out) as [r sd] eqn:E.
        pose proof (ei_handle_prev_state' _ _ _ _ _ _ _ _ _ E) as H.
        destruct r; ss in *; auto; try rch.
        refine (Hc _ sd _). rch.
    - destruct (is_joinable e); ss; [| rch].
      apply (fi_with_handler R HF). intros [mr h] _. ss.
      destruct mr as [| met pos src].
      + destruct (negb (String.eqb (tp_peer t) (current_peer (set_handler x h)))) eqn:Ep; ss; [| rch].
        pose proof (ei_remote _ _ (RequestSentBy (SPeer (current_peer (set_handler x h)))) Ep). rch.
      + destruct (handle_prev_state (set_handler x h) met pos src t None out) as [r sd] eqn:E.
        pose proof (ei_handle_prev_state' _ _ _ _ _ _ _ _ _ E) as H.
        destruct r; ss in *; auto; try rch.
        destruct sd as [should prev].
        destruct (negb should); ss; [rch |].
        destruct (negb (String.eqb (tp_peer t) (current_peer x0))) eqn:Ep; ss; [| rch].
        pose proof (ei_remote x0 _ (RequestSentBy (SPeer (current_peer x0))) Ep). rch.
  Qed.

  Lemma ei_exec_call x text tr args out : res_sat R x (exec_call x text tr args out).
  Proof.
    unfold exec_call.
    destruct (pbind (resolve_triplet x tr) _) as [t | e | s | w]; ss; auto.
    - pose proof (ei_resolved_call_execute x t args out) as H.
      destruct (resolved_call_execute x t args out); ss in *; auto.
      destruct (is_joinable e); ss; [rch |].
      destruct e; ss; rch.
    - destruct (is_joinable e); ss; [rch |].
      destruct e; ss; rch.
  Qed.

  (* ---------------------------------------------------------------------------------------- *)
  Theorem exec_inv hook : hook_preserves R hook -> forall fuel i x, res_sat R x (exec hook fuel i x).
  Proof. apply (exec_inv_call R HF ei_exec_call). Qed.

End ExecInv.

(* the stage-1 hook (no stream instruction) preserves everything *)
Lemma hook_preserves_no_streams R : hook_preserves R no_streams.
Proof. intros run _ i x r E. discriminate. Qed.

(* res_sat in terms of outcome_ctx *)
Lemma res_sat_outcome R x r : res_sat R x r <-> (forall y, outcome_ctx r = Some y -> R x y).
Proof.
  destruct r; cbn [res_sat outcome_ctx]; split; intros H; try exact I; try discriminate.
  - intros y E; inversion E; subst; exact H.
  - apply H; reflexivity.
  - intros y E; inversion E; subst; exact H.
  - apply H; reflexivity.
Qed.
