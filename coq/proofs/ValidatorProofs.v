(* ValidatorProofs.v -- C23: lemmas about model/Validator.v.
   1. the grammar-action discipline and the parse filter: accepted trees have no Error node;
   2. reflection of the boolean scoping predicate;
   3. witnesses (trees printed by the harness from the REAL parser, all accepted by it) refuting the full
      scoping statements, one per class of deviation;
   4. what the validator does guarantee (C23_scoped_partial, C23_next_partial). *)
From Coq Require Import Lia.
From Aqua Require Import Base Air Validator.
Open Scope N_scope.
Open Scope list_scope.

(* ------------------------------------------------------------------------------------------ *)
(* 1. source ties and the parse filter *)

Lemma grammar_actions_ok : grammar_actions_disciplined = true.
Proof. vm_compute. reflexivity. Qed.
Lemma grammar_table_sane_ok : grammar_table_sane = true.
Proof. vm_compute. reflexivity. Qed.
Lemma parser_error_variants_ok : parser_error_variants_agree = true.
Proof. vm_compute. reflexivity. Qed.

Lemma builds_le_pushes : forall fired,
  (forall a, In a fired -> In a grammar_actions) ->
  (length (filter ga_builds fired) <= length (filter ga_pushes fired))%nat.
Proof.
  intros fired Hin.
  assert (Hd : forall a, In a grammar_actions -> ga_builds a = true -> ga_pushes a = true).
  { intros a Ha Hb. pose proof grammar_actions_ok as Hok. unfold grammar_actions_disciplined in Hok.
    rewrite forallb_forall in Hok. specialize (Hok a Ha). rewrite Hb in Hok. exact Hok. }
  induction fired as [|a r IH]; [apply le_n|].
  assert (Hr : forall x, In x r -> In x grammar_actions) by (intros x Hx; apply Hin; right; exact Hx).
  specialize (IH Hr). cbn [filter].
  destruct (ga_builds a) eqn:Hb.
  - rewrite (Hd a (Hin a (or_introl eq_refl)) Hb). cbn [length]. lia.
  - destruct (ga_pushes a); cbn [length]; lia.
Qed.

Lemma C23_no_error_nodes_holds : C23_no_error_nodes_stmt.
Proof.
  intros fired t r verrs Hin Hbuilt Hf.
  pose proof (builds_le_pushes fired Hin) as Hle.
  unfold parse_filter in Hf.
  destruct (length (filter ga_pushes fired)) eqn:Hp; [|discriminate].
  destruct verrs; [|discriminate].
  inversion Hf; subst r. repeat split. lia.
Qed.

(* ------------------------------------------------------------------------------------------ *)
(* 2. reflection *)

Lemma before_b_spec : forall d u, before_b d u = true <-> before d u.
Proof. intros d [p|]; cbn; [apply N.ltb_lt | tauto]. Qed.
Lemma inside_b_spec : forall s u, inside_b s u = true <-> inside s u.
Proof.
  intros s [p|]; cbn; [|tauto]. unfold contains_position.
  rewrite andb_true_iff, !N.ltb_lt. tauto.
Qed.

Lemma use_scoped_b_spec : forall t u, use_scoped_b t u = true <-> use_scoped t u.
Proof.
  intros t u. unfold use_scoped_b, use_scoped. rewrite orb_true_iff, !existsb_exists.
  split; intros [[x [Hx H]]|[x [Hx H]]]; [left|right|left|right]; exists x.
  - apply andb_true_iff in H as [H1 H2]. apply String.eqb_eq in H1. apply before_b_spec in H2. auto.
  - apply andb_true_iff in H as [H1 H2]. apply String.eqb_eq in H1. apply inside_b_spec in H2. auto.
  - destruct H as [H1 H2]. split; [exact Hx|]. apply andb_true_iff. split; [apply String.eqb_eq; exact H1 | apply before_b_spec; exact H2].
  - destruct H as [H1 H2]. split; [exact Hx|]. apply andb_true_iff. split; [apply String.eqb_eq; exact H1 | apply inside_b_spec; exact H2].
Qed.
Lemma next_scoped_b_spec : forall t n, next_scoped_b t n = true <-> next_scoped t n.
Proof.
  intros t n. unfold next_scoped_b, next_scoped. rewrite existsb_exists.
  split; intros [x [Hx H]]; exists x.
  - apply andb_true_iff in H as [H1 H2]. apply String.eqb_eq in H1. apply inside_b_spec in H2. auto.
  - destruct H as [H1 H2]. split; [exact Hx|]. apply andb_true_iff. split; [apply String.eqb_eq; exact H1 | apply inside_b_spec; exact H2].
Qed.
Lemma well_scoped_b_spec : forall t, well_scoped_b t = true <-> well_scoped t.
Proof.
  intros t. unfold well_scoped_b, well_scoped. rewrite andb_true_iff, !forallb_forall.
  split; intros [H1 H2]; split; intros x Hx.
  - apply use_scoped_b_spec, H1, Hx.
  - apply next_scoped_b_spec, H2, Hx.
  - apply use_scoped_b_spec, H1, Hx.
  - apply next_scoped_b_spec, H2, Hx.
Qed.

(* ------------------------------------------------------------------------------------------ *)
(* 3. witnesses: printed by harness/src/bin/validate.rs from what the real parser built; every one
      of these texts is ACCEPTED by the real air_parser::parse *)
Open Scope string_scope.
(* (seq (call "p" ("s" "f") [] xs) (seq (fold xs i (seq (null) (next i))) (call "p" ("s" "f") [i])))  -- accepted *)
Definition wit_iterator : instr * stree :=
  ((ISeq (ICall "call ""p"" (""s"" ""f"") [] xs" {| t_peer := (PLiteral "p"); t_service := (SLiteral "s"); t_function := (SLiteral "f") |} [] (OutScalar {| v_name := "xs"; v_pos := 28 |})) (ISeq (IFoldScalar "fold xs i" (FIScalar {| v_name := "xs"; v_pos := 43 |}) {| v_name := "i"; v_pos := 46 |} (ISeq INull (INext "next i" {| v_name := "i"; v_pos := 66 |})) None {| sp_left := 37; sp_right := 70 |}) (ICall "call ""p"" (""s"" ""f"") [i] " {| t_peer := (PLiteral "p"); t_service := (SLiteral "s"); t_function := (SLiteral "f") |} [(VScalar {| v_name := "i"; v_pos := 92 |})] OutNone))), (S2 {| sp_left := 0; sp_right := 97 |} (S0 {| sp_left := 5; sp_right := 31 |}) (S2 {| sp_left := 32; sp_right := 96 |} (S1 {| sp_left := 37; sp_right := 70 |} (S2 {| sp_left := 48; sp_right := 69 |} (S0 {| sp_left := 53; sp_right := 59 |}) (S0 {| sp_left := 60; sp_right := 68 |}))) (S0 {| sp_left := 71; sp_right := 95 |})))).
(* (match x 1 (new x (call "p" ("s" "f") [x])))  -- accepted *)
Definition wit_first_only : instr * stree :=
  ((IMatch "match x 1" (VScalar {| v_name := "x"; v_pos := 7 |}) (VNumber (NumInt 1%Z)) (INew "new x" (NScalar {| v_name := "x"; v_pos := 16 |}) (ICall "call ""p"" (""s"" ""f"") [x] " {| t_peer := (PLiteral "p"); t_service := (SLiteral "s"); t_function := (SLiteral "f") |} [(VScalar {| v_name := "x"; v_pos := 39 |})] OutNone) {| sp_left := 11; sp_right := 43 |})), (S1 {| sp_left := 0; sp_right := 44 |} (S1 {| sp_left := 11; sp_right := 43 |} (S0 {| sp_left := 18; sp_right := 42 |})))).
(* (fail x)  -- accepted *)
Definition wit_unvisited_fail : instr * stree :=
  ((IFail "fail x" (FScalar {| v_name := "x"; v_pos := 6 |})), (S0 {| sp_left := 0; sp_right := 8 |})).
(* (ap ("k" x) %m)  -- accepted *)
Definition wit_unvisited_apmap : instr * stree :=
  ((IApMap "ap (""k"" x) %m" (KLiteral "k") (AScalar {| v_name := "x"; v_pos := 9 |}) {| v_name := "%m"; v_pos := 12 |}), (S0 {| sp_left := 0; sp_right := 15 |})).
(* (canon x $s #c1)  -- accepted *)
Definition wit_unvisited_canon_peer : instr * stree :=
  ((ICanon "canon x $s #c1" (PScalar {| v_name := "x"; v_pos := 7 |}) {| v_name := "$s"; v_pos := 9 |} {| v_name := "#c1"; v_pos := 12 |}), (S0 {| sp_left := 0; sp_right := 16 |})).
(* (call "p" ("s" "f") [:error:.$.[x]])  -- accepted *)
Definition wit_unvisited_error_lens : instr * stree :=
  ((ICall "call ""p"" (""s"" ""f"") [:error:.$.[x]] " {| t_peer := (PLiteral "p"); t_service := (SLiteral "s"); t_function := (SLiteral "f") |} [(VError (Some (LValuePath [(FieldAccessByScalar "x")])))] OutNone), (S0 {| sp_left := 0; sp_right := 36 |})).
(* (seq (call "p" ("s" "f") [] xs) (seq (fold xs i (seq (null) (next i))) (next i)))  -- accepted *)
Definition wit_next : instr * stree :=
  ((ISeq (ICall "call ""p"" (""s"" ""f"") [] xs" {| t_peer := (PLiteral "p"); t_service := (SLiteral "s"); t_function := (SLiteral "f") |} [] (OutScalar {| v_name := "xs"; v_pos := 28 |})) (ISeq (IFoldScalar "fold xs i" (FIScalar {| v_name := "xs"; v_pos := 43 |}) {| v_name := "i"; v_pos := 46 |} (ISeq INull (INext "next i" {| v_name := "i"; v_pos := 66 |})) None {| sp_left := 37; sp_right := 70 |}) (INext "next i" {| v_name := "i"; v_pos := 77 |}))), (S2 {| sp_left := 0; sp_right := 81 |} (S0 {| sp_left := 5; sp_right := 31 |}) (S2 {| sp_left := 32; sp_right := 80 |} (S1 {| sp_left := 37; sp_right := 70 |} (S2 {| sp_left := 48; sp_right := 69 |} (S0 {| sp_left := 53; sp_right := 59 |}) (S0 {| sp_left := 60; sp_right := 68 |}))) (S0 {| sp_left := 71; sp_right := 79 |})))).
(* (seq (call "p" ("s" "f") [] xs) (fold xs i (seq (call "p" ("s" "f") [i xs] y) (next i))))  -- accepted *)
Definition wit_good : instr * stree :=
  ((ISeq (ICall "call ""p"" (""s"" ""f"") [] xs" {| t_peer := (PLiteral "p"); t_service := (SLiteral "s"); t_function := (SLiteral "f") |} [] (OutScalar {| v_name := "xs"; v_pos := 28 |})) (IFoldScalar "fold xs i" (FIScalar {| v_name := "xs"; v_pos := 38 |}) {| v_name := "i"; v_pos := 41 |} (ISeq (ICall "call ""p"" (""s"" ""f"") [i xs] y" {| t_peer := (PLiteral "p"); t_service := (SLiteral "s"); t_function := (SLiteral "f") |} [(VScalar {| v_name := "i"; v_pos := 69 |}); (VScalar {| v_name := "xs"; v_pos := 71 |})] (OutScalar {| v_name := "y"; v_pos := 75 |})) (INext "next i" {| v_name := "i"; v_pos := 84 |})) None {| sp_left := 32; sp_right := 88 |})), (S2 {| sp_left := 0; sp_right := 89 |} (S0 {| sp_left := 5; sp_right := 31 |}) (S1 {| sp_left := 32; sp_right := 88 |} (S2 {| sp_left := 43; sp_right := 87 |} (S0 {| sp_left := 48; sp_right := 77 |}) (S0 {| sp_left := 78; sp_right := 86 |}))))).
(* (seq (call "p" ("s" "f") [y]) (next i))  -- rejected/validator *)
Definition wit_bad : instr * stree :=
  ((ISeq (ICall "call ""p"" (""s"" ""f"") [y] " {| t_peer := (PLiteral "p"); t_service := (SLiteral "s"); t_function := (SLiteral "f") |} [(VScalar {| v_name := "y"; v_pos := 26 |})] OutNone) (INext "next i" {| v_name := "i"; v_pos := 36 |})), (S2 {| sp_left := 0; sp_right := 39 |} (S0 {| sp_left := 5; sp_right := 29 |}) (S0 {| sp_left := 30; sp_right := 38 |}))).
Close Scope string_scope.

Definition accepted_by_model (w : instr * stree) : bool :=
  wf_layout_b (fst w) (snd w) &&
  match validate (fst w) (snd w) with Some [] => true | _ => false end.

Lemma refute_scoped : forall w, accepted_by_model w = true -> well_scoped_b (fst w) = false ->
  wf_layout (fst w) (snd w) /\ validate (fst w) (snd w) = Some [] /\ ~ well_scoped (fst w).
Proof.
  intros w Ha Hs. unfold accepted_by_model in Ha. apply andb_true_iff in Ha as [Hw Hv].
  split; [exact Hw|]. split.
  - destruct (validate (fst w) (snd w)) as [[|]|]; try discriminate. reflexivity.
  - intro H. apply well_scoped_b_spec in H. rewrite H in Hs. discriminate.
Qed.

(* finding 7: an iterator used after its fold *)
Lemma C23_refuted_holds : C23_refuted_stmt.
Proof. exists (fst wit_iterator), (snd wit_iterator). apply (refute_scoped wit_iterator); vm_compute; reflexivity. Qed.
(* only the first unresolved use of a name is re-checked *)
Lemma C23_refuted_first_only_holds : C23_refuted_stmt.
Proof. exists (fst wit_first_only), (snd wit_first_only). apply (refute_scoped wit_first_only); vm_compute; reflexivity. Qed.
(* sites no callback looks at *)
Lemma C23_refuted_unvisited_fail_holds : C23_refuted_stmt.
Proof. exists (fst wit_unvisited_fail), (snd wit_unvisited_fail). apply (refute_scoped wit_unvisited_fail); vm_compute; reflexivity. Qed.
Lemma C23_refuted_unvisited_apmap_holds : C23_refuted_stmt.
Proof. exists (fst wit_unvisited_apmap), (snd wit_unvisited_apmap). apply (refute_scoped wit_unvisited_apmap); vm_compute; reflexivity. Qed.
Lemma C23_refuted_unvisited_canon_peer_holds : C23_refuted_stmt.
Proof. exists (fst wit_unvisited_canon_peer), (snd wit_unvisited_canon_peer). apply (refute_scoped wit_unvisited_canon_peer); vm_compute; reflexivity. Qed.
Lemma C23_refuted_unvisited_error_lens_holds : C23_refuted_stmt.
Proof. exists (fst wit_unvisited_error_lens), (snd wit_unvisited_error_lens). apply (refute_scoped wit_unvisited_error_lens); vm_compute; reflexivity. Qed.

Lemma C23_scoped_full_false : ~ C23_scoped_full.
Proof.
  intro H. destruct C23_refuted_holds as [t [s [Hw [Hv Hn]]]]. exact (Hn (H t s Hw Hv)).
Qed.

(* a next outside every fold, accepted because an earlier next of the same name is inside one *)
Lemma C23_next_refuted_holds : C23_next_refuted_stmt.
Proof.
  exists (fst wit_next), (snd wit_next).
  assert (Ha : accepted_by_model wit_next = true) by (vm_compute; reflexivity).
  unfold accepted_by_model in Ha. apply andb_true_iff in Ha as [Hw Hv].
  split; [exact Hw|]. split.
  - destruct (validate (fst wit_next) (snd wit_next)) as [[|]|]; try discriminate. reflexivity.
  - exists ("i"%string, 77). split.
    + vm_compute. tauto.
    + intro H. apply next_scoped_b_spec in H. vm_compute in H. discriminate.
Qed.
Lemma C23_next_full_false : ~ C23_next_full.
Proof.
  intro H. destruct C23_next_refuted_holds as [t [s [Hw [Hv [n [Hn Hns]]]]]]. exact (Hns (H t s Hw Hv n Hn)).
Qed.

(* the same, witness by witness *)
Lemma wit_iterator_refutes : refutes_scoping wit_iterator.
Proof. apply refute_scoped; vm_compute; reflexivity. Qed.
Lemma wit_first_only_refutes : refutes_scoping wit_first_only.
Proof. apply refute_scoped; vm_compute; reflexivity. Qed.
Lemma wit_unvisited_fail_refutes : refutes_scoping wit_unvisited_fail.
Proof. apply refute_scoped; vm_compute; reflexivity. Qed.
Lemma wit_unvisited_apmap_refutes : refutes_scoping wit_unvisited_apmap.
Proof. apply refute_scoped; vm_compute; reflexivity. Qed.
Lemma wit_unvisited_canon_peer_refutes : refutes_scoping wit_unvisited_canon_peer.
Proof. apply refute_scoped; vm_compute; reflexivity. Qed.
Lemma wit_unvisited_error_lens_refutes : refutes_scoping wit_unvisited_error_lens.
Proof. apply refute_scoped; vm_compute; reflexivity. Qed.
Lemma wit_next_refutes : refutes_next wit_next ("i"%string, 77).
Proof.
  assert (Ha : accepted_by_model wit_next = true) by (vm_compute; reflexivity).
  unfold accepted_by_model in Ha. apply andb_true_iff in Ha as [Hw Hv].
  split; [exact Hw|]. split.
  - destruct (validate (fst wit_next) (snd wit_next)) as [[|]|]; try discriminate. reflexivity.
  - split.
    + vm_compute. tauto.
    + intro H. apply next_scoped_b_spec in H. vm_compute in H. discriminate.
Qed.

Lemma source_tie_holds :
  grammar_actions_disciplined = true /\ grammar_table_sane = true /\ parser_error_variants_agree = true.
Proof. exact (conj grammar_actions_ok (conj grammar_table_sane_ok parser_error_variants_ok)). Qed.

(* ========================================================================================== *)
(* 4. what the validator does guarantee *)

(* ------------------------------------------------------------------------------------------ *)
(* 4a. the variable part of the validator, as a function of the list of callbacks *)

Lemma span_ltb_spec : forall a b, span_ltb a b = (span_min a <? span_min b).
Proof.
  intros a b. unfold span_ltb, span_cmp. destruct (span_min a <? span_min b); [reflexivity|].
  destruct (span_eqb a b); reflexivity.
Qed.
Lemma span_gtb_ge : forall a b, span_gtb a b = true -> span_min b <= span_min a.
Proof.
  intros a b. unfold span_gtb, span_cmp. destruct (span_min a <? span_min b) eqn:H; [discriminate|].
  intros _. apply N.ltb_ge in H. exact H.
Qed.
Lemma span_ltb_trans_le : forall a b c, span_ltb a b = true -> span_min b <= span_min c -> span_ltb a c = true.
Proof. intros a b c. rewrite !span_ltb_spec, !N.ltb_lt. lia. Qed.

Definition cv (dfs : list (string * span)) (its : mm span) (key : string) (ks : span) : bool :=
  match assoc key dfs with Some fs => span_ltb fs ks | None => false end
  || existsb (fun s => span_ltb s ks) (mm_get_vec its key).
Lemma contains_variable_cv : forall st k ks,
  contains_variable st k ks = cv (met_variable_definitions st) (met_iterator_definitions st) k ks.
Proof. reflexivity. Qed.

Lemma cv_le : forall dfs its k a b, cv dfs its k a = true -> span_min a <= span_min b -> cv dfs its k b = true.
Proof.
  intros dfs its k a b H Hle. unfold cv in *. apply orb_true_iff in H. apply orb_true_iff.
  destruct H as [H|H].
  - left. destruct (assoc k dfs); [|discriminate]. eapply span_ltb_trans_le; eauto.
  - right. apply existsb_exists in H as [s [Hs H]]. apply existsb_exists. exists s. split; [exact Hs|].
    eapply span_ltb_trans_le; eauto.
Qed.

Definition met_names (st : vstate) (names : list string) (sp : span) : vstate :=
  fold_left (fun s n => met_variable_name s n sp) names st.

Lemma mvn_fields : forall st n sp,
  met_variable_definitions (met_variable_name st n sp) = met_variable_definitions st /\
  met_iterator_definitions (met_variable_name st n sp) = met_iterator_definitions st /\
  unresolved_iterables (met_variable_name st n sp) = unresolved_iterables st /\
  unresolved_variables (met_variable_name st n sp) =
    unresolved_variables st ++ (if contains_variable st n sp then [] else [(n, sp)]).
Proof.
  intros st n sp. unfold met_variable_name. destruct (contains_variable st n sp); cbn.
  - rewrite app_nil_r. auto.
  - auto.
Qed.

Lemma met_names_fields : forall names st sp,
  met_variable_definitions (met_names st names sp) = met_variable_definitions st /\
  met_iterator_definitions (met_names st names sp) = met_iterator_definitions st /\
  unresolved_iterables (met_names st names sp) = unresolved_iterables st /\
  unresolved_variables (met_names st names sp) =
    unresolved_variables st ++ map (fun n => (n, sp)) (filter (fun n => negb (contains_variable st n sp)) names).
Proof.
  induction names as [|a r IH]; intros st sp.
  - cbn. rewrite app_nil_r. auto.
  - change (met_names st (a :: r) sp) with (met_names (met_variable_name st a sp) r sp).
    destruct (mvn_fields st a sp) as [Hd [Hi [Hn Hu]]].
    destruct (IH (met_variable_name st a sp) sp) as [Hd' [Hi' [Hn' Hu']]].
    rewrite Hd', Hi', Hn', Hu', Hd, Hi, Hn, Hu. repeat split.
    assert (Hc : forall n, contains_variable (met_variable_name st a sp) n sp = contains_variable st n sp).
    { intro n. unfold contains_variable. rewrite Hd, Hi. reflexivity. }
    rewrite (filter_ext _ (fun n => negb (contains_variable st n sp))) by (intro n; rewrite Hc; reflexivity).
    cbn [filter]. destruct (contains_variable st a sp); cbn [negb map]; [rewrite app_nil_r; reflexivity|].
    rewrite <- app_assoc. reflexivity.
Qed.

Lemma step_fields : forall st e,
  met_variable_definitions (step st e) =
    fold_left (fun l n => define_name l n (ev_span e)) (ev_defs e) (met_variable_definitions st) /\
  met_iterator_definitions (step st e) =
    match ev_iter e with Some i => mm_insert (met_iterator_definitions st) i (ev_span e) | None => met_iterator_definitions st end /\
  unresolved_iterables (step st e) =
    match ev_next e with Some i => mm_insert (unresolved_iterables st) i (ev_span e) | None => unresolved_iterables st end /\
  unresolved_variables (step st e) =
    unresolved_variables st ++ map (fun n => (n, ev_span e)) (filter (fun n => negb (contains_variable st n (ev_span e))) (ev_uses e)).
Proof.
  intros st e. unfold step.
  destruct (met_names_fields (ev_uses e) st (ev_span e)) as [Hd [Hi [Hn Hu]]]. fold (met_names st (ev_uses e) (ev_span e)).
  unfold apply_rest. cbn. rewrite Hd, Hi, Hn, Hu. auto.
Qed.

(* define_name *)
Lemma assoc_define_name : forall l n sp k,
  assoc k (define_name l n sp) =
  if String.eqb n k then
    match assoc k l with Some old => if span_gtb old sp then Some sp else Some old | None => Some sp end
  else assoc k l.
Proof.
  induction l as [|p r IH]; intros n sp k.
  - cbn. destruct (String.eqb n k); reflexivity.
  - cbn [define_name]. destruct (String.eqb (fst p) n) eqn:Hpn.
    + apply String.eqb_eq in Hpn.
      destruct (String.eqb n k) eqn:Hnk.
      * cbn [assoc]. rewrite Hpn, Hnk. destruct (span_gtb (snd p) sp); cbn [assoc fst snd]; rewrite ?Hpn, Hnk; reflexivity.
      * cbn [assoc]. rewrite Hpn, Hnk. destruct (span_gtb (snd p) sp); cbn [assoc fst snd]; rewrite ?Hpn, Hnk; reflexivity.
    + cbn [assoc]. rewrite IH. destruct (String.eqb n k) eqn:Hnk; [|reflexivity].
      apply String.eqb_eq in Hnk. subst k. rewrite Hpn. reflexivity.
Qed.

Lemma assoc_define_names : forall names l sp k s,
  assoc k (fold_left (fun l n => define_name l n sp) names l) = Some s ->
  assoc k l = Some s \/ (In k names /\ s = sp).
Proof.
  induction names as [|a r IH]; intros l sp k s H; cbn in H; [left; exact H|].
  apply IH in H as [H|[H1 H2]]; [|right; split; [right; exact H1|exact H2]].
  rewrite assoc_define_name in H. destruct (String.eqb a k) eqn:Hak; [|left; exact H].
  apply String.eqb_eq in Hak. subst a.
  destruct (assoc k l) as [old|].
  - destruct (span_gtb old sp); inversion H; subst; [right; split; [left; reflexivity|reflexivity] | left; reflexivity].
  - inversion H; subst. right. split; [left; reflexivity|reflexivity].
Qed.

Lemma cv_define_mono : forall dfs its n sp k ks, cv dfs its k ks = true -> cv (define_name dfs n sp) its k ks = true.
Proof.
  intros dfs its n sp k ks H. unfold cv in *. apply orb_true_iff in H. apply orb_true_iff.
  destruct H as [H|H]; [left|right; exact H].
  rewrite assoc_define_name. destruct (String.eqb n k); [|exact H].
  destruct (assoc k dfs) as [old|]; [|discriminate].
  destruct (span_gtb old sp) eqn:Hg; [|exact H].
  apply span_gtb_ge in Hg. rewrite span_ltb_spec in *. apply N.ltb_lt in H. apply N.ltb_lt. lia.
Qed.
Lemma cv_define_names_mono : forall names dfs its sp k ks,
  cv dfs its k ks = true -> cv (fold_left (fun l n => define_name l n sp) names dfs) its k ks = true.
Proof.
  induction names as [|a r IH]; intros dfs its sp k ks H; cbn; [exact H|].
  apply IH. apply cv_define_mono. exact H.
Qed.

Lemma mm_get_vec_app : forall V (a b : mm V) k, mm_get_vec (a ++ b) k = mm_get_vec a k ++ mm_get_vec b k.
Proof. intros. unfold mm_get_vec. rewrite filter_app, map_app. reflexivity. Qed.

Lemma cv_insert_mono : forall dfs its i sp k ks, cv dfs its k ks = true -> cv dfs (mm_insert its i sp) k ks = true.
Proof.
  intros dfs its i sp k ks H. unfold cv in *. apply orb_true_iff in H. apply orb_true_iff.
  destruct H as [H|H]; [left; exact H|right].
  unfold mm_insert. rewrite mm_get_vec_app, existsb_app, H. reflexivity.
Qed.

Lemma step_mono : forall st e k ks, contains_variable st k ks = true -> contains_variable (step st e) k ks = true.
Proof.
  intros st e k ks H. rewrite contains_variable_cv in *.
  destruct (step_fields st e) as [Hd [Hi _]]. rewrite Hd, Hi.
  apply cv_define_names_mono. destruct (ev_iter e); [apply cv_insert_mono|]; exact H.
Qed.
Lemma run_mono : forall evs st k ks, contains_variable st k ks = true -> contains_variable (fold_left step evs st) k ks = true.
Proof.
  induction evs as [|e r IH]; intros st k ks H; cbn; [exact H|]. apply IH, step_mono, H.
Qed.

Lemma unres_grows : forall evs st, exists extra, unresolved_variables (fold_left step evs st) = unresolved_variables st ++ extra.
Proof.
  induction evs as [|e r IH]; intros st; cbn.
  - exists []. rewrite app_nil_r. reflexivity.
  - destruct (IH (step st e)) as [x Hx]. destruct (step_fields st e) as [_ [_ [_ Hu]]].
    rewrite Hx, Hu, <- app_assoc. eexists. reflexivity.
Qed.
Lemma unres_iter_grows : forall evs st, exists extra, unresolved_iterables (fold_left step evs st) = unresolved_iterables st ++ extra.
Proof.
  induction evs as [|e r IH]; intros st; cbn.
  - exists []. rewrite app_nil_r. reflexivity.
  - destruct (IH (step st e)) as [x Hx]. destruct (step_fields st e) as [_ [_ [Hn _]]].
    rewrite Hx, Hn. destruct (ev_next e); [unfold mm_insert; rewrite <- app_assoc|]; eexists; reflexivity.
Qed.

(* where the entries of the tables come from *)
Definition origin (evs : list event) (st : vstate) : Prop :=
  (forall k s, assoc k (met_variable_definitions st) = Some s -> exists e, In e evs /\ In k (ev_defs e) /\ s = ev_span e) /\
  (forall k s, In (k, s) (met_iterator_definitions st) -> exists e, In e evs /\ ev_iter e = Some k /\ s = ev_span e) /\
  (forall k s, In (k, s) (unresolved_variables st) -> exists e, In e evs /\ In k (ev_uses e) /\ s = ev_span e) /\
  (forall k s, In (k, s) (unresolved_iterables st) -> exists e, In e evs /\ ev_next e = Some k /\ s = ev_span e).

Lemma origin_step : forall evs st e, origin evs st -> origin (evs ++ [e]) (step st e).
Proof.
  intros evs st e [Ha [Hb [Hc Hd]]].
  destruct (step_fields st e) as [Fd [Fi [Fn Fu]]].
  assert (Hl : forall x, In x evs -> In x (evs ++ [e])) by (intros; apply in_or_app; left; assumption).
  assert (He : In e (evs ++ [e])) by (apply in_or_app; right; left; reflexivity).
  repeat split.
  - intros k s H. rewrite Fd in H. apply assoc_define_names in H as [H|[H1 H2]].
    + destruct (Ha k s H) as [x [X1 X2]]. exists x. split; [apply Hl, X1|exact X2].
    + exists e. auto.
  - intros k s H. rewrite Fi in H. destruct (ev_iter e) as [i|] eqn:Hi.
    + unfold mm_insert in H. apply in_app_or in H as [H|[H|[]]].
      * destruct (Hb k s H) as [x [X1 X2]]. exists x. split; [apply Hl, X1|exact X2].
      * inversion H; subst. exists e. auto.
    + destruct (Hb k s H) as [x [X1 X2]]. exists x. split; [apply Hl, X1|exact X2].
  - intros k s H. rewrite Fu in H. apply in_app_or in H as [H|H].
    + destruct (Hc k s H) as [x [X1 X2]]. exists x. split; [apply Hl, X1|exact X2].
    + apply in_map_iff in H as [n [Hn Hin]]. inversion Hn; subst. apply filter_In in Hin as [Hin _]. exists e. auto.
  - intros k s H. rewrite Fn in H. destruct (ev_next e) as [i|] eqn:Hi.
    + unfold mm_insert in H. apply in_app_or in H as [H|[H|[]]].
      * destruct (Hd k s H) as [x [X1 X2]]. exists x. split; [apply Hl, X1|exact X2].
      * inversion H; subst. exists e. auto.
    + destruct (Hd k s H) as [x [X1 X2]]. exists x. split; [apply Hl, X1|exact X2].
Qed.
Lemma origin_run_from : forall evs pre st, origin pre st -> origin (pre ++ evs) (fold_left step evs st).
Proof.
  induction evs as [|e r IH]; intros pre st H; cbn.
  - rewrite app_nil_r. exact H.
  - replace (pre ++ e :: r) with ((pre ++ [e]) ++ r) by (rewrite <- app_assoc; reflexivity).
    apply IH, origin_step, H.
Qed.
Lemma origin_run : forall evs, origin evs (run_events evs).
Proof.
  intros evs. apply (origin_run_from evs [] vstate0).
  repeat split; intros k s H; cbn in H; try discriminate; contradiction.
Qed.

(* MultiMap::iter(): the first pair of a key *)
Lemma mm_iter_first : forall V (m1 m2 : mm V) k v, In (k, v) m1 ->
  exists v0, In (k, v0) (mm_iter (m1 ++ m2)) /\ In (k, v0) m1.
Proof.
  induction m1 as [|p r IH]; intros m2 k v H; [contradiction|].
  cbn [app mm_iter]. destruct (String.eqb k (fst p)) eqn:Hk.
  - apply String.eqb_eq in Hk. exists (snd p). destruct p as [pk pv]. cbn in *. subst pk. split; left; reflexivity.
  - assert (Hr : In (k, v) r).
    { destruct H as [H|H]; [|exact H]. subst p. cbn in Hk. rewrite String.eqb_refl in Hk. discriminate. }
    destruct (IH m2 k v Hr) as [v0 [H1 H2]]. exists v0. split; [|right; exact H2].
    right. apply filter_In. split; [exact H1|]. cbn. rewrite Hk. reflexivity.
Qed.
Lemma mm_iter_subset : forall V (m : mm V) p, In p (mm_iter m) -> In p m.
Proof.
  induction m as [|q r IH]; intros p H; [contradiction|]. cbn in H. destruct H as [H|H]; [left; exact H|].
  apply filter_In in H as [H _]. right. apply IH, H.
Qed.

Lemma flat_map_nil : forall A B (f : A -> list B) l, flat_map f l = [] -> forall x, In x l -> f x = [].
Proof.
  induction l as [|a r IH]; intros H x Hx; [contradiction|]. cbn in H. apply app_eq_nil in H as [H1 H2].
  destruct Hx as [Hx|Hx]; [subst; exact H1|apply IH; assumption].
Qed.

(* soundness of check_undefined_variables: a use is covered by the final tables, or an EARLIER (or the same)
   callback used the same name and that one is covered *)
Lemma undefined_sound : forall evs, check_undefined_variables (run_events evs) = [] ->
  forall l1 e l2, evs = l1 ++ e :: l2 -> forall x, In x (ev_uses e) ->
  exists e0, In e0 (l1 ++ [e]) /\ In x (ev_uses e0) /\ contains_variable (run_events evs) x (ev_span e0) = true.
Proof.
  intros evs Hchk l1 e l2 Hevs x Hx.
  set (st1 := run_events l1).
  assert (Hrun : run_events evs = fold_left step l2 (step st1 e)).
  { subst evs. unfold run_events, st1. rewrite fold_left_app. reflexivity. }
  destruct (contains_variable st1 x (ev_span e)) eqn:Hc.
  - exists e. split; [apply in_or_app; right; left; reflexivity|]. split; [exact Hx|].
    rewrite Hrun. apply run_mono, step_mono, Hc.
  - destruct (step_fields st1 e) as [_ [_ [_ Fu]]].
    assert (Hin : In (x, ev_span e) (unresolved_variables (step st1 e))).
    { rewrite Fu. apply in_or_app. right. apply in_map_iff. exists x. split; [reflexivity|].
      apply filter_In. split; [exact Hx|]. rewrite Hc. reflexivity. }
    destruct (unres_grows l2 (step st1 e)) as [extra Hex].
    destruct (mm_iter_first _ _ extra x (ev_span e) Hin) as [s0 [H1 H2]].
    assert (Ho : origin (l1 ++ [e]) (step st1 e)) by (apply origin_step, origin_run).
    destruct Ho as [_ [_ [Hc3 _]]]. destruct (Hc3 x s0 H2) as [e0 [E1 [E2 E3]]].
    exists e0. split; [exact E1|]. split; [exact E2|]. subst s0.
    unfold check_undefined_variables in Hchk. rewrite Hrun, Hex in Hchk.
    pose proof (flat_map_nil _ _ _ _ Hchk (x, ev_span e0) H1) as Hf. cbn in Hf.
    rewrite Hrun. destruct (contains_variable (fold_left step l2 (step st1 e)) x (ev_span e0)); [reflexivity|discriminate].
Qed.

(* what "covered by the final tables" means *)
Lemma contains_origin : forall evs x ks, contains_variable (run_events evs) x ks = true ->
  exists e, In e evs /\ (In x (ev_defs e) \/ ev_iter e = Some x) /\ span_ltb (ev_span e) ks = true.
Proof.
  intros evs x ks H. destruct (origin_run evs) as [Ha [Hb _]].
  unfold contains_variable in H. apply orb_true_iff in H as [H|H].
  - destruct (assoc x (met_variable_definitions (run_events evs))) as [fs|] eqn:Hfs; [|discriminate].
    destruct (Ha x fs Hfs) as [e [E1 [E2 E3]]]. exists e. subst fs. auto.
  - apply existsb_exists in H as [s [Hs H]]. unfold mm_get_vec in Hs. apply in_map_iff in Hs as [p [Hp Hin]].
    apply filter_In in Hin as [Hin Hk]. apply String.eqb_eq in Hk. destruct p as [pk ps]. cbn in *. subst.
    destruct (Hb x s Hin) as [e [E1 [E2 E3]]]. exists e. subst s. auto.
Qed.

(* ------------------------------------------------------------------------------------------ *)
(* 4b. layout of a tree of callbacks *)

Definition leaf_kind (e : event) : bool :=
  match e with
  | EvCall _ _ _ _ | EvCanon _ _ | EvCanonMap _ _ | EvCanonMapScalar _ _ | EvAp _ _ _ | EvApMap _ _ _
  | EvSimple _ | EvFail _ _ | EvNext _ _ => true
  | _ => false
  end.
Definition eroot (T : etree) : event := match T with E0 e | E1 e _ | E2 e _ _ => e end.
Definition new_arg_var (a : new_arg) : var :=
  match a with NScalar v | NStream v | NStreamMap v | NCanon v | NCanonMap v => v end.
(* the definition sites of a callback, with the position of the defined name *)
Definition ev_def_pos (e : event) : list (string * pos) :=
  match e with
  | EvCall _ _ (OutScalar v) _ | EvCall _ _ (OutStream v) _ => [(v_name v, v_pos v)]
  | EvCanon c _ | EvCanonMap c _ | EvCanonMapScalar c _ => [(v_name c, v_pos c)]
  | EvAp _ (ApScalar v) _ | EvAp _ (ApStream v) _ => [(v_name v, v_pos v)]
  | EvApMap _ m _ => [(v_name m, v_pos m)]
  | EvNew a _ => [(v_name (new_arg_var a), v_pos (new_arg_var a))]
  | _ => []
  end.
Definition eL (e : event) : N := sp_left (ev_span e).
Definition eR (e : event) : N := sp_right (ev_span e).
Definition defs_in (e : event) (limit : N) : Prop := forall d, In d (ev_def_pos e) -> eL e < snd d /\ snd d < limit.

Fixpoint elayout (T : etree) : Prop :=
  match T with
  | E0 e => leaf_kind e = true /\ eL e < eR e /\ defs_in e (eR e)
  | E1 e k => leaf_kind e = false /\ eL e < eL (eroot k) /\ eR (eroot k) < eR e /\ defs_in e (eL (eroot k)) /\ elayout k
  | E2 e a b => leaf_kind e = false /\ eL e < eL (eroot a) /\ eR (eroot a) <= eL (eroot b) /\ eR (eroot b) < eR e /\
                defs_in e (eL (eroot a)) /\ elayout a /\ elayout b
  end.

Lemma eroot_in_post : forall T, In (eroot T) (post T).
Proof.
  destruct T; cbn; [left; reflexivity| |]; repeat (apply in_or_app; right); left; reflexivity.
Qed.

Definition node_ok (root e : event) : Prop :=
  eL root <= eL e /\ eR e <= eR root /\ eL e < eR e /\ (forall d, In d (ev_def_pos e) -> eL e < snd d /\ snd d < eR e).

Lemma elayout_within : forall T, elayout T -> forall e, In e (post T) -> node_ok (eroot T) e.
Proof.
  induction T as [e0|e0 k IHk|e0 a IHa b IHb]; cbn [elayout post eroot]; intros H e He.
  - destruct H as [_ [H1 H2]]. destruct He as [He|[]]. subst e. unfold node_ok. repeat split; try lia; apply H2; assumption.
  - destruct H as [_ [H1 [H2 [H3 H4]]]].
    pose proof (IHk H4 _ (eroot_in_post k)) as [_ [_ [Hk _]]].
    apply in_app_or in He as [He|[He|[]]].
    + destruct (IHk H4 e He) as [A [B [C D]]]. unfold node_ok. repeat split; try lia; apply D; assumption.
    + subst e. unfold node_ok. repeat split; try lia; destruct (H3 d H); lia.
  - destruct H as [_ [H1 [H2 [H3 [H4 [H5 H6]]]]]].
    pose proof (IHa H5 _ (eroot_in_post a)) as [_ [_ [Ha _]]].
    pose proof (IHb H6 _ (eroot_in_post b)) as [_ [_ [Hb _]]].
    apply in_app_or in He as [He|He]; [|apply in_app_or in He as [He|[He|[]]]].
    + destruct (IHa H5 e He) as [A [B [C D]]]. unfold node_ok. repeat split; try lia; apply D; assumption.
    + destruct (IHb H6 e He) as [A [B [C D]]]. unfold node_ok. repeat split; try lia; apply D; assumption.
    + subst e. unfold node_ok. repeat split; try lia; destruct (H4 d H); lia.
Qed.

Lemma app_eq_split : forall A (a b l1 l2 : list A) (e : A), a ++ b = l1 ++ e :: l2 ->
  (exists t, a = l1 ++ e :: t /\ l2 = t ++ b) \/ (exists h, l1 = a ++ h /\ b = h ++ e :: l2).
Proof.
  induction a as [|x a IH]; intros b l1 l2 e H.
  - right. exists l1. cbn in H. auto.
  - destruct l1 as [|y l1]; cbn in H; inversion H; subst.
    + left. exists a. auto.
    + destruct (IH _ _ _ _ H2) as [[t [T1 T2]]|[h [H3 H4]]].
      * left. exists t. subst. auto.
      * right. exists h. subst. auto.
Qed.

(* what lies around a leaf callback e in the order of the callbacks: everything before it ends before it starts;
   a definition site of any other callback that starts before e lies before e *)
Lemma around_leaf : forall T, elayout T -> forall l1 e l2, post T = l1 ++ e :: l2 -> leaf_kind e = true ->
  (forall e0, In e0 (l1) -> eR e0 <= eL e /\ eL e0 < eR e0) /\
  (forall e', In e' (l1 ++ l2) -> eL e' < eL e -> forall d, In d (ev_def_pos e') -> snd d <= eL e).
Proof.
  induction T as [e0|e0 k IHk|e0 a IHa b IHb]; cbn [elayout post]; intros H l1 e l2 Hp Hleaf.
  - destruct l1 as [|x l1]; cbn in Hp.
    + inversion Hp; subst. split; intros ? [].
    + inversion Hp. destruct l1; discriminate.
  - destruct H as [Hk0 [H1 [H2 [H3 H4]]]].
    apply app_eq_split in Hp as [[t [T1 T2]]|[h [X1 X2]]].
    + destruct (IHk H4 _ _ _ T1 Hleaf) as [A B]. split; [exact A|].
      intros e' He' Hlt d Hd. subst l2. rewrite app_assoc in He'. apply in_app_or in He' as [He'|[He'|[]]].
      * eapply B; eauto.
      * subst e'. destruct (H3 d Hd) as [_ D].
        assert (Hin : In e (post k)) by (rewrite T1; apply in_or_app; right; left; reflexivity).
        destruct (elayout_within k H4 e Hin) as [W _]. lia.
    + destruct h as [|y h]; cbn in X2; inversion X2; subst.
      * rewrite Hk0 in Hleaf. discriminate.
      * destruct h; discriminate.
  - destruct H as [Hk0 [H1 [H2 [H3 [H4 [H5 H6]]]]]].
    apply app_eq_split in Hp as [[t [T1 T2]]|[h [X1 X2]]].
    + (* e in a *)
      destruct (IHa H5 _ _ _ T1 Hleaf) as [A B]. split; [exact A|].
      assert (Hin : In e (post a)) by (rewrite T1; apply in_or_app; right; left; reflexivity).
      destruct (elayout_within a H5 e Hin) as [W1 [W2 [W3 _]]].
      intros e' He' Hlt d Hd. subst l2. rewrite app_assoc in He'. apply in_app_or in He' as [He'|He'].
      * eapply B; eauto.
      * apply in_app_or in He' as [He'|[He'|[]]].
        -- destruct (elayout_within b H6 e' He') as [V1 _]. lia.
        -- subst e'. destruct (H4 d Hd) as [_ D]. lia.
    + apply app_eq_split in X2 as [[t [T1 T2]]|[h2 [Y1 Y2]]].
      * (* e in b *)
        destruct (IHb H6 _ _ _ T1 Hleaf) as [A B].
        assert (Hin : In e (post b)) by (rewrite T1; apply in_or_app; right; left; reflexivity).
        destruct (elayout_within b H6 e Hin) as [W1 [W2 [W3 _]]].
        split.
        -- intros e1 He1. subst l1. apply in_app_or in He1 as [He1|He1]; [|apply A, He1].
           destruct (elayout_within a H5 e1 He1) as [V1 [V2 [V3 _]]]. lia.
        -- intros e' He' Hlt d Hd. subst l1 l2. rewrite <- app_assoc in He'. apply in_app_or in He' as [He'|He'].
           ++ destruct (elayout_within a H5 e' He') as [V1 [V2 [V3 V4]]]. destruct (V4 d Hd). lia.
           ++ rewrite app_assoc in He'. apply in_app_or in He' as [He'|[He'|[]]].
              ** eapply B; eauto.
              ** subst e'. destruct (H4 d Hd) as [_ D].
                 pose proof (elayout_within a H5 _ (eroot_in_post a)) as [_ [_ [Va _]]]. lia.
      * destruct h2 as [|y h2]; cbn in Y2; inversion Y2; subst.
        -- rewrite Hk0 in Hleaf. discriminate.
        -- destruct h2; discriminate.
Qed.

(* ------------------------------------------------------------------------------------------ *)
(* 4c. from the instruction tree to the tree of callbacks *)

Definition kids (i : instr) : list instr :=
  match i with
  | ISeq a b | IPar a b | IXor a b => [a; b]
  | IMatch _ _ _ b | IMisMatch _ _ _ b | INew _ _ b _ => [b]
  | IFoldScalar _ _ _ b l _ | IFoldStream _ _ _ b l _ | IFoldStreamMap _ _ _ b l _ =>
      b :: match l with Some x => [x] | None => [] end
  | _ => []
  end.
Definition node_event (i : instr) (sp : span) : option event :=
  match i with
  | ICall _ t args out => Some (EvCall t args out sp)
  | IAp _ a r => Some (EvAp a r sp)
  | IApMap _ k _ m => Some (EvApMap k m sp)
  | ICanon _ _ _ c => Some (EvCanon c sp)
  | ICanonMap _ _ _ c => Some (EvCanonMap c sp)
  | ICanonStreamMapScalar _ _ _ c => Some (EvCanonMapScalar c sp)
  | ISeq _ _ | IPar _ _ => Some (EvMerging sp)
  | IXor _ _ => Some (EvXoring sp)
  | IMatch _ l r _ => Some (EvMatch l r sp)
  | IMisMatch _ l r _ => Some (EvMisMatch l r sp)
  | IFail _ f => Some (EvFail f sp)
  | IFoldScalar _ it iter _ l _ => Some (EvFoldScalar it iter (is_some l) sp)
  | IFoldStream _ s iter _ l _ => Some (EvFoldStream s iter (is_some l) sp)
  | IFoldStreamMap _ s iter _ l _ => Some (EvFoldStreamMap s iter (is_some l) sp)
  | INever | INull => Some (EvSimple sp)
  | INew _ a _ _ => Some (EvNew a sp)
  | INext _ iter => Some (EvNext iter sp)
  | IError => None
  end.

Lemma skeleton_unfold : forall i s,
  skeleton i s =
  match kids i, s with
  | [], S0 sp => option_map E0 (node_event i sp)
  | [b], S1 sp sb => match node_event i sp, skeleton b sb with Some e, Some x => Some (E1 e x) | _, _ => None end
  | [a; b], S2 sp sa sb =>
      match node_event i sp, skeleton a sa, skeleton b sb with Some e, Some x, Some y => Some (E2 e x y) | _, _, _ => None end
  | _, _ => None
  end.
Proof.
  intros i s. destruct i; try (destruct last); destruct s; cbn; try reflexivity;
    repeat match goal with |- context [skeleton ?x ?y] => destruct (skeleton x y) end; reflexivity.
Qed.

Lemma wf_unfold : forall i s,
  wf_layout_b i s =
  match kids i, s with
  | [], S0 sp => header_ok i sp (sp_right sp) && is_some (node_event i sp)
  | [b], S1 sp sb => header_ok i sp (sp_left (stree_span sb)) && kid_in sp sb && wf_layout_b b sb
  | [a; b], S2 sp sa sb =>
      header_ok i sp (sp_left (stree_span sa)) && kid_in sp sa && kid_in sp sb &&
      (sp_right (stree_span sa) <=? sp_left (stree_span sb)) && wf_layout_b a sa && wf_layout_b b sb
  | _, _ => false
  end.
Proof.
  intros i s. destruct i; try (destruct last); destruct s; cbn [wf_layout_b kids node_event is_some]; try reflexivity;
    rewrite ?andb_true_r; try reflexivity.
  all: try (cbn; reflexivity).
  rewrite andb_false_r. reflexivity.
Qed.

Lemma collect_kids : forall A (own : instr -> list A) i,
  collect own i = flat_map (collect own) (kids i) ++ own i.
Proof.
  intros A own i. destruct i; try (destruct last); cbn; rewrite ?app_nil_r, <- ?app_assoc; reflexivity.
Qed.

(* the callback of a node *)
Lemma ne_span : forall i sp e, node_event i sp = Some e -> ev_span e = sp.
Proof. intros i sp e H. destruct i; cbn in H; inversion H; reflexivity. Qed.
Lemma ne_leaf : forall i sp e, node_event i sp = Some e ->
  leaf_kind e = match kids i with [] => true | _ => false end.
Proof. intros i sp e H. destruct i; cbn in H; inversion H; reflexivity. Qed.
Lemma ne_defs : forall i sp e, node_event i sp = Some e -> ev_def_pos e = own_defs i.
Proof.
  intros i sp e H. destruct i; cbn in H; inversion H; subst; cbn; try reflexivity;
    repeat match goal with |- context [match ?x with _ => _ end] => destruct x end; reflexivity.
Qed.
Lemma ne_def_names : forall e, ev_defs e = map fst (ev_def_pos e).
Proof.
  destruct e; cbn; try reflexivity;
    repeat match goal with |- context [match ?x with _ => _ end] => destruct x end; try reflexivity.
  all: match goal with a : new_arg |- _ => destruct a; reflexivity end.
Qed.

Lemma span_eqb_eq : forall a b, span_eqb a b = true -> a = b.
Proof.
  intros [al ar] [bl br] H. unfold span_eqb in H. cbn in H. apply andb_true_iff in H as [H1 H2].
  apply N.eqb_eq in H1, H2. subst. reflexivity.
Qed.
Lemma ne_iter : forall i sp e, node_event i sp = Some e -> own_span_ok i sp = true ->
  forall x, ev_iter e = Some x -> In (x, sp) (own_folds i).
Proof.
  intros i sp e H Hok x Hx. destruct i; cbn in H; inversion H; subst; cbn in Hx; try discriminate;
    cbn in Hok; apply span_eqb_eq in Hok; subst; inversion Hx; subst; left; reflexivity.
Qed.
Lemma ne_next : forall i sp e, node_event i sp = Some e -> forall x p, In (x, p) (own_nexts i) -> ev_next e = Some x.
Proof.
  intros i sp e H x p Hin. destruct i; cbn in Hin; try contradiction. destruct Hin as [Hin|[]].
  cbn in H. inversion H; inversion Hin; subst. reflexivity.
Qed.

(* the occurrences the property counts vs the names the callbacks look up *)
Definition positioned (u : occurrence) : Prop := exists p, o_pos u = Some p.
Lemma occ_var_l_names : forall s v u, In u (occ_var_l s v) ->
  In (o_name u) (names_var_l v) /\ positioned u /\ o_site u = s.
Proof.
  intros s v u H. unfold occ_var_l in H. destruct H as [H|H].
  - subst u. cbn. repeat split; [left; reflexivity|eexists; reflexivity].
  - apply in_map_iff in H as [n [Hn Hin]]. subst u. cbn. repeat split; [|eexists; reflexivity].
    right. unfold names_lambda. unfold lens_scalars in Hin. exact Hin.
Qed.
Lemma occ_var_names : forall s v u, In u (occ_var s v) -> o_name u = v_name v /\ positioned u /\ o_site u = s.
Proof. intros s v u [H|[]]. subst u. cbn. repeat split. eexists; reflexivity. Qed.
Lemma occ_error_lens_site : forall l u, In u (occ_error_lens l) -> o_site u = UErrorLens.
Proof. intros [l|] u H; cbn in H; [|contradiction]. apply in_map_iff in H as [n [Hn _]]. subst u. reflexivity. Qed.

Lemma occ_peer_names : forall s p u, In u (occ_peer s p) -> In (o_name u) (names_peer p) /\ positioned u.
Proof.
  intros s p u H. destruct p; cbn in *; try contradiction.
  - apply occ_var_names in H as [H1 [H2 _]]. rewrite H1. split; [left; reflexivity|exact H2].
  - apply occ_var_l_names in H as [H1 [H2 _]]. auto.
  - apply occ_var_l_names in H as [H1 [H2 _]]. auto.
  - apply occ_var_l_names in H as [H1 [H2 _]]. auto.
Qed.
Lemma occ_string_arg_names : forall s p u, In u (occ_string_arg s p) -> In (o_name u) (names_string_arg p) /\ positioned u.
Proof.
  intros s p u H. destruct p; cbn in *; try contradiction.
  - apply occ_var_names in H as [H1 [H2 _]]. rewrite H1. split; [left; reflexivity|exact H2].
  - apply occ_var_l_names in H as [H1 [H2 _]]. auto.
  - apply occ_var_l_names in H as [H1 [H2 _]]. auto.
  - apply occ_var_l_names in H as [H1 [H2 _]]. auto.
Qed.
Lemma occ_value_names : forall s v u, In u (occ_value s v) -> o_site u <> UErrorLens ->
  In (o_name u) (names_value v) /\ positioned u.
Proof.
  intros s v u H Hs. destruct v; cbn in *; try contradiction;
    try (apply occ_error_lens_site in H; contradiction);
    try (apply occ_var_names in H as [H1 [H2 _]]; rewrite H1; split; [left; reflexivity|exact H2]);
    try (apply occ_var_l_names in H as [H1 [H2 _]]; auto).
Qed.
Lemma occ_ap_arg_names : forall s a u, In u (occ_ap_arg s a) -> o_site u <> UErrorLens ->
  In (o_name u) (names_ap_arg a) /\ positioned u.
Proof.
  intros s a u H Hs. destruct a; cbn in *; try contradiction;
    try (apply occ_error_lens_site in H; contradiction);
    try (apply occ_var_names in H as [H1 [H2 _]]; rewrite H1; split; [left; reflexivity|exact H2]);
    try (apply occ_var_l_names in H as [H1 [H2 _]]; auto).
Qed.

Lemma leaf_site_not_error : forall u, leaf_checked_site (o_site u) = true -> o_site u <> UErrorLens.
Proof. intros u H E. rewrite E in H. discriminate. Qed.

Lemma occ_ap_arg_site : forall s a u, In u (occ_ap_arg s a) -> o_site u = s \/ o_site u = UErrorLens.
Proof.
  intros s a u H. destruct a; cbn in *; try contradiction;
    try (right; eapply occ_error_lens_site; eassumption);
    try (apply occ_var_names in H as [_ [_ H]]; left; exact H);
    try (apply occ_var_l_names in H as [_ [_ H]]; left; exact H).
Qed.

Lemma ne_uses : forall i sp e, node_event i sp = Some e ->
  forall u, In u (own_uses i) -> leaf_checked_site (o_site u) = true ->
  In (o_name u) (ev_uses e) /\ positioned u /\ leaf_kind e = true.
Proof.
  intros i sp e H u Hu Hs. pose proof (leaf_site_not_error u Hs) as Hne.
  destruct i; cbn in H; inversion H; subst; cbn [own_uses] in Hu; try contradiction; cbn [ev_uses leaf_kind].
  - (* call *)
    apply in_app_or in Hu as [Hu|Hu]; [|apply in_app_or in Hu as [Hu|Hu]; [|apply in_app_or in Hu as [Hu|Hu]]].
    + apply occ_peer_names in Hu as [A B]. repeat split; auto. apply in_or_app. left. exact A.
    + apply occ_string_arg_names in Hu as [A B]. repeat split; auto. apply in_or_app. right. apply in_or_app. left. exact A.
    + apply occ_string_arg_names in Hu as [A B]. repeat split; auto. do 2 (apply in_or_app; right). apply in_or_app. left. exact A.
    + apply in_flat_map in Hu as [v [Hv Hu]]. apply occ_value_names in Hu as [A B]; [|exact Hne].
      repeat split; auto. do 3 (apply in_or_app; right). apply in_flat_map. exists v. auto.
  - (* ap *)
    apply occ_ap_arg_names in Hu as [A B]; [|exact Hne]. auto.
  - (* ap map *)
    apply in_app_or in Hu as [Hu|Hu].
    + destruct k; cbn in *; try contradiction.
      * apply occ_var_names in Hu as [H1 [H2 _]]. rewrite H1. repeat split; auto; try (left; reflexivity).
      * apply occ_var_l_names in Hu as [H1 [H2 _]]. auto.
      * apply occ_var_l_names in Hu as [H1 [H2 _]]. auto.
    + apply occ_ap_arg_site in Hu as [Hu|Hu]; rewrite Hu in Hs; discriminate.
  - (* canon: the peer is not a checked site *)
    exfalso. destruct p; cbn in Hu; try contradiction;
      [apply occ_var_names in Hu as [_ [_ Hu]] | apply occ_var_l_names in Hu as [_ [_ Hu]] ..]; rewrite Hu in Hs; discriminate.
  - exfalso. destruct p; cbn in Hu; try contradiction;
      [apply occ_var_names in Hu as [_ [_ Hu]] | apply occ_var_l_names in Hu as [_ [_ Hu]] ..]; rewrite Hu in Hs; discriminate.
  - exfalso. destruct p; cbn in Hu; try contradiction;
      [apply occ_var_names in Hu as [_ [_ Hu]] | apply occ_var_l_names in Hu as [_ [_ Hu]] ..]; rewrite Hu in Hs; discriminate.
  - (* match *)
    exfalso. apply in_app_or in Hu as [Hu|Hu];
      (destruct l, r; cbn in Hu; try contradiction;
       try (apply occ_error_lens_site in Hu; contradiction);
       try (apply occ_var_names in Hu as [_ [_ Hu]]; rewrite Hu in Hs; discriminate);
       try (apply occ_var_l_names in Hu as [_ [_ Hu]]; rewrite Hu in Hs; discriminate)).
  - exfalso. apply in_app_or in Hu as [Hu|Hu];
      (destruct l, r; cbn in Hu; try contradiction;
       try (apply occ_error_lens_site in Hu; contradiction);
       try (apply occ_var_names in Hu as [_ [_ Hu]]; rewrite Hu in Hs; discriminate);
       try (apply occ_var_l_names in Hu as [_ [_ Hu]]; rewrite Hu in Hs; discriminate)).
  - (* fail *)
    exfalso. destruct f; cbn in Hu; try contradiction;
      [apply occ_var_names in Hu as [_ [_ Hu]] | apply occ_var_l_names in Hu as [_ [_ Hu]] ..]; rewrite Hu in Hs; discriminate.
  - (* folds *)
    exfalso. destruct it; cbn in Hu; try contradiction;
      try (apply occ_var_names in Hu as [_ [_ Hu]]; rewrite Hu in Hs; discriminate);
      try (apply occ_var_l_names in Hu as [_ [_ Hu]]; rewrite Hu in Hs; discriminate).
  - exfalso. apply occ_var_names in Hu as [_ [_ Hu]]; rewrite Hu in Hs; discriminate.
  - exfalso. apply occ_var_names in Hu as [_ [_ Hu]]; rewrite Hu in Hs; discriminate.
Qed.

Lemma skel_cases : forall i s T, skeleton i s = Some T ->
  match T with
  | E0 e => exists sp, s = S0 sp /\ kids i = [] /\ node_event i sp = Some e
  | E1 e x => exists sp sb b, s = S1 sp sb /\ kids i = [b] /\ node_event i sp = Some e /\ skeleton b sb = Some x
  | E2 e x y => exists sp sa sb a b, s = S2 sp sa sb /\ kids i = [a; b] /\ node_event i sp = Some e /\
                                     skeleton a sa = Some x /\ skeleton b sb = Some y
  end.
Proof.
  intros i s T H. rewrite skeleton_unfold in H.
  destruct (kids i) as [|a [|b [|c r]]]; destruct s as [sp|sp sb|sp sa sb]; try discriminate.
  - destruct (node_event i sp) eqn:He; cbn in H; inversion H; subst. eauto.
  - destruct (node_event i sp) eqn:He; [|discriminate]. destruct (skeleton a sb) eqn:Hx; inversion H; subst.
    exists sp, sb, a. auto.
  - destruct (node_event i sp) eqn:He; [|discriminate]. destruct (skeleton a sa) eqn:Hx; [|discriminate].
    destruct (skeleton b sb) eqn:Hy; inversion H; subst. exists sp, sa, sb, a, b. auto.
Qed.

Lemma header_ok_spec : forall i sp limit, header_ok i sp limit = true ->
  sp_left sp < sp_right sp /\ own_span_ok i sp = true /\ forall p, In p (own_positions i) -> sp_left sp < p /\ p < limit.
Proof.
  intros i sp limit H. unfold header_ok in H. apply andb_true_iff in H as [H H3]. apply andb_true_iff in H as [H1 H2].
  apply N.ltb_lt in H1. split; [exact H1|]. split; [exact H2|]. intros p Hp.
  rewrite forallb_forall in H3. specialize (H3 p Hp).
  apply andb_true_iff in H3 as [A B]. apply N.ltb_lt in A, B. auto.
Qed.
Lemma own_defs_positions : forall i d, In d (own_defs i) -> In (snd d) (own_positions i).
Proof.
  intros i d H. unfold own_positions. apply in_or_app. right. apply in_or_app. left. apply in_map. exact H.
Qed.
Lemma own_uses_positions : forall i u p, In u (own_uses i) -> o_pos u = Some p -> In p (own_positions i).
Proof.
  intros i u p H Hp. unfold own_positions. apply in_or_app. left. apply in_flat_map. exists u. split; [exact H|].
  rewrite Hp. left. reflexivity.
Qed.
Lemma own_nexts_positions : forall i n, In n (own_nexts i) -> In (snd n) (own_positions i).
Proof.
  intros i d H. unfold own_positions. do 2 (apply in_or_app; right). apply in_or_app. left. apply in_map. exact H.
Qed.

Lemma kid_in_spec : forall sp k, kid_in sp k = true -> sp_left sp < sp_left (stree_span k) /\ sp_right (stree_span k) < sp_right sp.
Proof. intros sp k H. unfold kid_in in H. apply andb_true_iff in H as [A B]. apply N.ltb_lt in A, B. auto. Qed.

(* a tree with the layout of a text gives a tree of callbacks with that layout *)
Lemma skeleton_layout : forall T i s, skeleton i s = Some T -> wf_layout_b i s = true ->
  elayout T /\ ev_span (eroot T) = stree_span s.
Proof.
  induction T as [e|e x IHx|e x IHx y IHy]; intros i s Hs Hw; pose proof (skel_cases _ _ _ Hs) as Hc; cbn in Hc.
  - destruct Hc as [sp [-> [Hk He]]]. rewrite wf_unfold, Hk in Hw. apply andb_true_iff in Hw as [Hh _].
    apply header_ok_spec in Hh as [H1 [H2 H3]]. pose proof (ne_span _ _ _ He) as Hsp.
    split; [|exact Hsp]. cbn. unfold defs_in, eL, eR. rewrite Hsp, (ne_leaf _ _ _ He), Hk, (ne_defs _ _ _ He).
    repeat split; auto;
      match goal with Hd : In ?d (own_defs _) |- _ => destruct (H3 _ (own_defs_positions _ _ Hd)); assumption end.
  - destruct Hc as [sp [sb [b [-> [Hk [He Hx]]]]]]. rewrite wf_unfold, Hk in Hw.
    apply andb_true_iff in Hw as [Hw Hwb]. apply andb_true_iff in Hw as [Hh Hkid].
    apply header_ok_spec in Hh as [H1 [H2 H3]]. apply kid_in_spec in Hkid as [K1 K2].
    destruct (IHx _ _ Hx Hwb) as [Lx Rx]. pose proof (ne_span _ _ _ He) as Hsp.
    split; [|exact Hsp]. cbn. unfold defs_in, eL, eR. rewrite Hsp, Rx, (ne_leaf _ _ _ He), Hk, (ne_defs _ _ _ He).
    repeat split; auto;
      match goal with Hd : In ?d (own_defs _) |- _ => destruct (H3 _ (own_defs_positions _ _ Hd)); assumption end.
  - destruct Hc as [sp [sa [sb [a [b [-> [Hk [He [Hx Hy]]]]]]]]]. rewrite wf_unfold, Hk in Hw.
    apply andb_true_iff in Hw as [Hw Hwb]. apply andb_true_iff in Hw as [Hw Hwa].
    apply andb_true_iff in Hw as [Hw Hord]. apply andb_true_iff in Hw as [Hw Hkb]. apply andb_true_iff in Hw as [Hh Hka].
    apply header_ok_spec in Hh as [H1 [H2 H3]]. apply kid_in_spec in Hka as [A1 A2]. apply kid_in_spec in Hkb as [B1 B2].
    apply N.leb_le in Hord.
    destruct (IHx _ _ Hx Hwa) as [Lx Rx]. destruct (IHy _ _ Hy Hwb) as [Ly Ry]. pose proof (ne_span _ _ _ He) as Hsp.
    split; [|exact Hsp]. cbn. unfold defs_in, eL, eR. rewrite Hsp, Rx, Ry, (ne_leaf _ _ _ He), Hk, (ne_defs _ _ _ He).
    repeat split; auto;
      match goal with Hd : In ?d (own_defs _) |- _ => destruct (H3 _ (own_defs_positions _ _ Hd)); assumption end.
Qed.

(* the callbacks and the lists the property is stated over *)
Definition located (T : etree) (e : event) : Prop := exists l1 l2, post T = l1 ++ e :: l2.
Lemma located_app_l : forall (a b : list event) e, (exists l1 l2, a = l1 ++ e :: l2) -> exists l1 l2, a ++ b = l1 ++ e :: l2.
Proof. intros a b e [l1 [l2 H]]. exists l1, (l2 ++ b). rewrite H, <- app_assoc. reflexivity. Qed.
Lemma located_app_r : forall (a b : list event) e, (exists l1 l2, b = l1 ++ e :: l2) -> exists l1 l2 : list event, a ++ b = l1 ++ e :: l2.
Proof. intros a b e [l1 [l2 H]]. exists (a ++ l1), l2. rewrite H, <- app_assoc. reflexivity. Qed.

Record bridged (i : instr) (T : etree) : Prop := {
  br_defs : forall e, In e (post T) -> forall d, In d (ev_def_pos e) -> In d (defs i);
  br_iter : forall e, In e (post T) -> forall x, ev_iter e = Some x -> In (x, ev_span e) (folds i);
  br_uses : forall u, In u (uses i) -> leaf_checked_site (o_site u) = true ->
            exists e p, located T e /\ leaf_kind e = true /\ In (o_name u) (ev_uses e) /\ o_pos u = Some p /\ eL e < p;
  br_nexts : forall n, In n (nexts i) ->
            exists e, located T e /\ leaf_kind e = true /\ ev_next e = Some (fst n) /\ eL e < snd n /\ snd n < eR e;
  br_nexts_back : forall e x, In e (post T) -> ev_next e = Some x ->
            exists p, In (x, p) (nexts i) /\ eL e < p /\ p < eR e
}.

Lemma ev_next_own : forall i sp e x, node_event i sp = Some e -> ev_next e = Some x -> exists p, In (x, p) (own_nexts i).
Proof.
  intros i sp e x H Hx. destruct i; cbn in H; inversion H; subst; cbn in Hx; try discriminate.
  inversion Hx; subst. eexists. left. reflexivity.
Qed.

Lemma own_facts : forall i sp e limit, node_event i sp = Some e -> header_ok i sp limit = true -> limit <= sp_right sp ->
  (forall d, In d (ev_def_pos e) -> In d (own_defs i)) /\
  (forall x, ev_iter e = Some x -> In (x, ev_span e) (own_folds i)) /\
  (forall u, In u (own_uses i) -> leaf_checked_site (o_site u) = true ->
     leaf_kind e = true /\ In (o_name u) (ev_uses e) /\ exists p, o_pos u = Some p /\ eL e < p) /\
  (forall n, In n (own_nexts i) -> ev_next e = Some (fst n) /\ eL e < snd n /\ snd n < eR e) /\
  (forall x, ev_next e = Some x -> exists p, In (x, p) (own_nexts i) /\ eL e < p /\ p < eR e).
Proof.
  intros i sp e limit He Hh Hl. apply header_ok_spec in Hh as [H1 [H2 H3]].
  pose proof (ne_span _ _ _ He) as Hsp. unfold eL, eR. rewrite Hsp. repeat split.
  - intros d Hd. rewrite (ne_defs _ _ _ He) in Hd. exact Hd.
  - intros x Hx. apply (ne_iter _ _ _ He H2 x Hx).
  - destruct (ne_uses _ _ _ He u H H0) as [_ [_ A]]. exact A.
  - destruct (ne_uses _ _ _ He u H H0) as [A _]. exact A.
  - destruct (ne_uses _ _ _ He u H H0) as [_ [[p Hp] _]]. exists p. split; [exact Hp|].
    apply (H3 p (own_uses_positions _ _ _ H Hp)).
  - destruct n as [x p]. apply (ne_next _ _ _ He x p H).
  - apply (H3 _ (own_nexts_positions _ _ H)).
  - destruct (H3 _ (own_nexts_positions _ _ H)). lia.
  - intros x Hx. destruct (ev_next_own _ _ _ _ He Hx) as [p Hp]. exists p. split; [exact Hp|].
    destruct (H3 _ (own_nexts_positions _ _ Hp)). cbn in *. lia.
Qed.

Lemma located_root : forall T, located T (eroot T).
Proof.
  destruct T as [e|e x|e x y]; cbn; unfold located; cbn.
  - exists [], []. reflexivity.
  - exists (post x), []. reflexivity.
  - exists (post x ++ post y), []. rewrite <- app_assoc. reflexivity.
Qed.

Lemma skeleton_bridged : forall T i s, skeleton i s = Some T -> wf_layout_b i s = true -> bridged i T.
Proof.
  induction T as [e|e x IHx|e x IHx y IHy]; intros i s Hs Hw; pose proof (skel_cases _ _ _ Hs) as Hc; cbn in Hc.
  - destruct Hc as [sp [-> [Hk He]]]. rewrite wf_unfold, Hk in Hw. apply andb_true_iff in Hw as [Hh _].
    destruct (own_facts _ _ _ _ He Hh (N.le_refl _)) as [F1 [F2 [F3 [F4 F5]]]].
    constructor; unfold uses, defs, folds, nexts; cbn [post]; rewrite ?(collect_kids _ _ i), ?Hk; cbn [flat_map app].
    + intros e0 [<-|[]] d Hd. rewrite ?(collect_kids _ _ i), ?Hk. cbn. apply F1, Hd.
    + intros e0 [<-|[]] x Hx. rewrite ?(collect_kids _ _ i), ?Hk. cbn. apply F2, Hx.
    + intros u Hu Hsite. destruct (F3 u Hu Hsite) as [A [B [p [C D]]]]. exists e, p.
      split; [exists [], []; reflexivity|auto].
    + intros n Hn. destruct (F4 n Hn) as [A [B C]]. exists e. split; [exists [], []; reflexivity|].
      split; [|auto]. rewrite (ne_leaf _ _ _ He), Hk. reflexivity.
    + intros e0 x [<-|[]] Hx. rewrite ?(collect_kids _ _ i), ?Hk. cbn. apply F5, Hx.
  - destruct Hc as [sp [sb [b [-> [Hk [He Hx]]]]]]. rewrite wf_unfold, Hk in Hw.
    apply andb_true_iff in Hw as [Hw Hwb]. apply andb_true_iff in Hw as [Hh Hkid].
    apply kid_in_spec in Hkid as [K1 K2].
    assert (Hlim : sp_left (stree_span sb) <= sp_right sp).
    { destruct (skeleton_layout _ _ _ Hx Hwb) as [Lx Rx]. pose proof (elayout_within _ Lx _ (eroot_in_post x)) as [_ [_ [W _]]].
      unfold eL, eR in W. rewrite Rx in W. lia. }
    destruct (own_facts _ _ _ _ He Hh Hlim) as [F1 [F2 [F3 [F4 F5]]]].
    destruct (IHx _ _ Hx Hwb) as [G1 G2 G3 G4 G5].
    constructor; unfold uses, defs, folds, nexts in *; cbn [post]; rewrite ?(collect_kids _ _ i), ?Hk; cbn [flat_map]; rewrite ?app_nil_r.
    + intros e0 He0 d Hd. rewrite ?(collect_kids _ _ i), ?Hk. cbn [flat_map]. rewrite ?app_nil_r. apply in_or_app.
      apply in_app_or in He0 as [He0|[<-|[]]]; [left; eapply G1; eauto|right; apply F1, Hd].
    + intros e0 He0 z Hz. rewrite ?(collect_kids _ _ i), ?Hk. cbn [flat_map]. rewrite ?app_nil_r. apply in_or_app.
      apply in_app_or in He0 as [He0|[<-|[]]]; [left; eapply G2; eauto|right; apply F2, Hz].
    + intros u Hu Hsite. apply in_app_or in Hu as [Hu|Hu].
      * destruct (G3 u Hu Hsite) as [e0 [p [A B]]]. exists e0, p. split; [|exact B]. apply located_app_l; exact A.
      * destruct (F3 u Hu Hsite) as [A _]. rewrite (ne_leaf _ _ _ He), Hk in A. discriminate.
    + intros n Hn. apply in_app_or in Hn as [Hn|Hn].
      * destruct (G4 n Hn) as [e0 [A B]]. exists e0. split; [|exact B]. apply located_app_l; exact A.
      * destruct (F4 n Hn) as [A _]. destruct (ev_next_own _ _ _ _ He A) as [p Hp].
        exfalso. destruct i; cbn in Hk; try discriminate; cbn in Hp; try contradiction; destruct last; discriminate.
    + intros e0 z He0 Hz. rewrite ?(collect_kids _ _ i), ?Hk. cbn [flat_map]. rewrite ?app_nil_r.
      apply in_app_or in He0 as [He0|[<-|[]]].
      * destruct (G5 _ _ He0 Hz) as [p [A B]]. exists p. split; [apply in_or_app; left; exact A|exact B].
      * destruct (F5 z Hz) as [p [A B]]. exists p. split; [apply in_or_app; right; exact A|exact B].
  - destruct Hc as [sp [sa [sb [a [b [-> [Hk [He [Hx Hy]]]]]]]]]. rewrite wf_unfold, Hk in Hw.
    apply andb_true_iff in Hw as [Hw Hwb]. apply andb_true_iff in Hw as [Hw Hwa].
    apply andb_true_iff in Hw as [Hw Hord]. apply andb_true_iff in Hw as [Hw Hkb]. apply andb_true_iff in Hw as [Hh Hka].
    apply kid_in_spec in Hka as [A1 A2].
    assert (Hlim : sp_left (stree_span sa) <= sp_right sp).
    { destruct (skeleton_layout _ _ _ Hx Hwa) as [Lx Rx]. pose proof (elayout_within _ Lx _ (eroot_in_post x)) as [_ [_ [W _]]].
      unfold eL, eR in W. rewrite Rx in W. lia. }
    destruct (own_facts _ _ _ _ He Hh Hlim) as [F1 [F2 [F3 [F4 F5]]]].
    destruct (IHx _ _ Hx Hwa) as [G1 G2 G3 G4 G5]. destruct (IHy _ _ Hy Hwb) as [J1 J2 J3 J4 J5].
    constructor; unfold uses, defs, folds, nexts in *; cbn [post]; rewrite ?(collect_kids _ _ i), ?Hk; cbn [flat_map]; rewrite ?app_nil_r.
    + intros e0 He0 d Hd. rewrite ?(collect_kids _ _ i), ?Hk. cbn [flat_map]. rewrite ?app_nil_r, <- ?app_assoc.
      apply in_app_or in He0 as [He0|He0]; [apply in_or_app; left; eapply G1; eauto|].
      apply in_app_or in He0 as [He0|[<-|[]]]; apply in_or_app; right; apply in_or_app; [left; eapply J1; eauto|right; apply F1, Hd].
    + intros e0 He0 z Hz. rewrite ?(collect_kids _ _ i), ?Hk. cbn [flat_map]. rewrite ?app_nil_r, <- ?app_assoc.
      apply in_app_or in He0 as [He0|He0]; [apply in_or_app; left; eapply G2; eauto|].
      apply in_app_or in He0 as [He0|[<-|[]]]; apply in_or_app; right; apply in_or_app; [left; eapply J2; eauto|right; apply F2, Hz].
    + intros u Hu Hsite. rewrite <- app_assoc in Hu. apply in_app_or in Hu as [Hu|Hu]; [|apply in_app_or in Hu as [Hu|Hu]].
      * destruct (G3 u Hu Hsite) as [e0 [p [A B]]]. exists e0, p. split; [|exact B]. apply located_app_l; exact A.
      * destruct (J3 u Hu Hsite) as [e0 [p [A B]]]. exists e0, p. split; [|exact B].
        apply located_app_r. apply located_app_l; exact A.
      * destruct (F3 u Hu Hsite) as [A _]. rewrite (ne_leaf _ _ _ He), Hk in A. discriminate.
    + intros n Hn. rewrite <- app_assoc in Hn. apply in_app_or in Hn as [Hn|Hn]; [|apply in_app_or in Hn as [Hn|Hn]].
      * destruct (G4 n Hn) as [e0 [A B]]. exists e0. split; [|exact B]. apply located_app_l; exact A.
      * destruct (J4 n Hn) as [e0 [A B]]. exists e0. split; [|exact B]. apply located_app_r. apply located_app_l; exact A.
      * destruct (F4 n Hn) as [A _]. destruct (ev_next_own _ _ _ _ He A) as [p Hp].
        exfalso. destruct i; cbn in Hk; try discriminate; cbn in Hp; try contradiction; destruct last; discriminate.
    + intros e0 z He0 Hz. rewrite ?(collect_kids _ _ i), ?Hk. cbn [flat_map]. rewrite ?app_nil_r, <- ?app_assoc.
      apply in_app_or in He0 as [He0|He0]; [|apply in_app_or in He0 as [He0|[<-|[]]]].
      * destruct (G5 _ _ He0 Hz) as [p [A B]]. exists p. split; [apply in_or_app; left; exact A|exact B].
      * destruct (J5 _ _ He0 Hz) as [p [A B]]. exists p. split; [apply in_or_app; right; apply in_or_app; left; exact A|exact B].
      * destruct (F5 z Hz) as [p [A B]]. exists p. split; [do 2 (apply in_or_app; right); exact A|exact B].
Qed.

(* ------------------------------------------------------------------------------------------ *)
(* 4d. the guarantees *)

Lemma validate_accepts : forall t s, validate t s = Some [] ->
  exists T, skeleton t s = Some T /\
    check_undefined_variables (run_events (post T)) = [] /\ check_undefined_iterables (run_events (post T)) = [].
Proof.
  intros t s H. unfold validate, events in H. destruct (skeleton t s) as [T|]; [|discriminate].
  cbn in H. injection H as Hv. exists T. split; [reflexivity|].
  unfold validate_events, finalize in Hv. apply app_eq_nil in Hv as [H1 Hv]. apply app_eq_nil in Hv as [H2 _]. split; assumption.
Qed.

Lemma span_min_left : forall e, eL e < eR e -> span_min (ev_span e) = eL e.
Proof. intros e H. unfold span_min, eL, eR in *. apply N.min_l. lia. Qed.

Lemma in_split_located : forall (l1 l2 : list event) e x, In x (l1 ++ e :: l2) -> x = e \/ In x (l1 ++ l2).
Proof.
  intros l1 l2 e x H. apply in_app_or in H as [H|[H|H]]; [right; apply in_or_app; left; exact H|left; symmetry; exact H|
    right; apply in_or_app; right; exact H].
Qed.

Theorem C23_scoped_partial_holds : C23_scoped_partial_stmt.
Proof.
  intros t s Hw Hv u Hu Hsite.
  destruct (validate_accepts _ _ Hv) as [T [Hs [Hchk _]]].
  destruct (skeleton_layout _ _ _ Hs Hw) as [Hlay _].
  destruct (skeleton_bridged _ _ _ Hs Hw) as [Bd Bi Bu _ _].
  destruct (Bu u Hu Hsite) as [e [p [[l1 [l2 Hloc]] [Hleaf [Hname [Hp Hlt]]]]]].
  exists p. split; [exact Hp|].
  destruct (undefined_sound _ Hchk _ _ _ Hloc _ Hname) as [e0 [He0 [_ Hc0]]].
  destruct (around_leaf _ Hlay _ _ _ Hloc Hleaf) as [Hbefore Hdefs].
  assert (Hine : In e (post T)) by (rewrite Hloc; apply in_or_app; right; left; reflexivity).
  destruct (elayout_within _ Hlay _ Hine) as [_ [_ [HeLR _]]].
  (* the use is covered by the final tables at its own span *)
  assert (Hc : contains_variable (run_events (post T)) (o_name u) (ev_span e) = true).
  { apply in_app_or in He0 as [He0|[He0|[]]]; [|subst e0; exact Hc0].
    destruct (Hbefore _ He0) as [R0 LR0].
    rewrite contains_variable_cv in *. eapply cv_le; [exact Hc0|].
    rewrite (span_min_left _ LR0), (span_min_left _ HeLR). lia. }
  destruct (contains_origin _ _ _ Hc) as [e' [He' [Hkind Hlt']]].
  destruct (elayout_within _ Hlay _ He') as [_ [_ [HeLR' _]]].
  rewrite span_ltb_spec, (span_min_left _ HeLR'), (span_min_left _ HeLR) in Hlt'. apply N.ltb_lt in Hlt'.
  destruct Hkind as [Hdef|Hiter].
  - left. rewrite ne_def_names in Hdef. apply in_map_iff in Hdef as [d [Hd1 Hd2]].
    exists d. split; [eapply Bd; eauto|]. split; [exact Hd1|].
    rewrite Hloc in He'. apply in_split_located in He' as [He'|He']; [subst e'; lia|].
    pose proof (Hdefs _ He' Hlt' _ Hd2). lia.
  - right. exists (o_name u, ev_span e'). split; [apply Bi; assumption|]. split; [reflexivity|].
    cbn. unfold eL in *. lia.
Qed.

(* ---- next ---- *)
Lemma in_insert_span : forall x a l, In x (insert_span a l) -> x = a \/ In x l.
Proof.
  induction l as [|y r IH]; cbn; intros H.
  - destruct H as [H|[]]. left. symmetry. exact H.
  - destruct (span_gtb a y).
    + destruct H as [H|H]; [right; left; exact H|]. destruct (IH H) as [E|E]; [left; exact E|right; right; exact E].
    + destruct H as [H|H]; [left; symmetry; exact H|right; exact H].
Qed.
Lemma in_sort_spans : forall x l, In x (sort_spans l) -> In x l.
Proof.
  induction l as [|a r IH]; cbn; intros H; [exact H|].
  apply in_insert_span in H as [H|H]; [left; symmetry; exact H|right; apply IH, H].
Qed.
Lemma last_in : forall A (l : list A) d x, last l d = x -> l <> [] -> In x l.
Proof.
  induction l as [|a r IH]; intros d x H Hn; [contradiction|].
  destruct r as [|b r']; [cbn in H; left; exact H|]. right. apply (IH d). exact H. discriminate.
Qed.
Lemma mm_get_vec_in : forall V (m : mm V) k v, In v (mm_get_vec m k) -> In (k, v) m.
Proof.
  intros V m k v H. unfold mm_get_vec in H. apply in_map_iff in H as [p [Hp Hin]]. apply filter_In in Hin as [Hin Hk].
  apply String.eqb_eq in Hk. destruct p; cbn in *; subst. exact Hin.
Qed.
Lemma find_closest_some : forall st k ks fs, find_closest_fold_span st k ks = Some fs ->
  In (k, fs) (met_iterator_definitions st) /\ contains_span fs ks = true.
Proof.
  intros st k ks fs H. unfold find_closest_fold_span in H.
  set (l := filter (fun s => contains_span s ks) (sorted_iterator_spans st k)) in *.
  assert (Hin : In (Some fs) (map Some l)).
  { apply (last_in _ _ None); [exact H|]. destruct l; [cbn in H; discriminate|discriminate]. }
  apply in_map_iff in Hin as [x [Hx Hin]]. inversion Hx; subst x. unfold l in Hin. apply filter_In in Hin as [Hin Hc].
  split; [|exact Hc]. apply mm_get_vec_in. unfold sorted_iterator_spans in Hin. apply in_sort_spans in Hin. exact Hin.
Qed.

Lemma iterables_sound : forall evs, check_undefined_iterables (run_events evs) = [] ->
  forall l1 e l2, evs = l1 ++ e :: l2 -> forall k, ev_next e = Some k ->
  exists e0 fs, In e0 (l1 ++ [e]) /\ ev_next e0 = Some k /\ find_closest_fold_span (run_events evs) k (ev_span e0) = Some fs.
Proof.
  intros evs Hchk l1 e l2 Hevs k Hk.
  set (st1 := run_events l1).
  assert (Hrun : run_events evs = fold_left step l2 (step st1 e)).
  { subst evs. unfold run_events, st1. rewrite fold_left_app. reflexivity. }
  destruct (step_fields st1 e) as [_ [_ [Fn _]]]. rewrite Hk in Fn.
  assert (Hin : In (k, ev_span e) (unresolved_iterables (step st1 e))).
  { rewrite Fn. unfold mm_insert. apply in_or_app. right. left. reflexivity. }
  destruct (unres_iter_grows l2 (step st1 e)) as [extra Hex].
  destruct (mm_iter_first _ _ extra k (ev_span e) Hin) as [s0 [H1 H2]].
  assert (Ho : origin (l1 ++ [e]) (step st1 e)) by (apply origin_step, origin_run).
  destruct Ho as [_ [_ [_ Hc4]]]. destruct (Hc4 k s0 H2) as [e0 [E1 [E2 E3]]]. subst s0.
  unfold check_undefined_iterables in Hchk. rewrite Hrun, Hex in Hchk.
  pose proof (flat_map_nil _ _ _ _ Hchk (k, ev_span e0) H1) as Hf. cbn in Hf.
  destruct (find_closest_fold_span (fold_left step l2 (step st1 e)) k (ev_span e0)) as [fs|] eqn:Hfs; [|discriminate].
  exists e0, fs. split; [exact E1|]. split; [exact E2|]. rewrite Hrun. exact Hfs.
Qed.

Theorem C23_next_partial_holds : C23_next_partial_stmt.
Proof.
  intros t s Hw Hv n Hn Hmin.
  destruct (validate_accepts _ _ Hv) as [T [Hs [_ Hchk]]].
  destruct (skeleton_layout _ _ _ Hs Hw) as [Hlay _].
  destruct (skeleton_bridged _ _ _ Hs Hw) as [_ Bi _ Bn Bb].
  destruct (Bn n Hn) as [e [[l1 [l2 Hloc]] [Hleaf [Hnext [Hl Hr]]]]].
  destruct (iterables_sound _ Hchk _ _ _ Hloc _ Hnext) as [e0 [fs [He0 [Hk0 Hfs]]]].
  apply find_closest_some in Hfs as [Hit Hcont].
  destruct (origin_run (post T)) as [_ [Hb _]]. destruct (Hb _ _ Hit) as [e' [He' [Hi' Hsp']]].
  apply in_app_or in He0 as [He0|[He0|[]]].
  - (* an earlier next of the same name: impossible, n is the first one *)
    exfalso. destruct (around_leaf _ Hlay _ _ _ Hloc Hleaf) as [Hbefore _]. destruct (Hbefore _ He0) as [R0 _].
    assert (Hin0 : In e0 (post T)) by (rewrite Hloc; apply in_or_app; left; exact He0).
    destruct (Bb _ _ Hin0 Hk0) as [p0 [Hp0 [A B]]].
    pose proof (Hmin (fst n, p0) Hp0 eq_refl) as Hle. cbn in Hle. lia.
  - subst e0. exists (fst n, fs). split; [subst fs; apply Bi; assumption|]. split; [reflexivity|].
    cbn. unfold contains_span, contains_position in Hcont.
    apply andb_true_iff in Hcont as [C1 C2]. apply andb_true_iff in C1 as [C1 _]. apply andb_true_iff in C2 as [_ C2].
    apply N.ltb_lt in C1, C2. unfold eL, eR in *. lia.
Qed.

