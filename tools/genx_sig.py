"""Translator piece for C15 (signature verifier): facts of the Rust sources that model/Sig.v relies on.

    data_verifier_error_variants      variants of DataVerifierError, declaration order
    data_verifier_error_constructed   the variants verification.rs constructs, in source order, without repetition
    data_verifier_error_maps_to       the PreparationError variant carrying `#[from] DataVerifierError`
    merge_swaps_on_strictly_shorter   merge() swaps exactly under `our.cids.len() < other.cids.len()` and then
                                      calls check_cid_multiset_invariant(larger_info, smaller_info)
    sign_cids_sorts                   sign_cids sorts (sort_unstable) before it serialises SaltedData
    data_verifier_new_sorts           DataVerifier::new sorts every peer's cids (sort_unstable)
    verify_step_order                 the calls of verification_step::verify, in order

model/Sig.v proves [dv_err_table_agrees = true] by computation, so a change of any of these in the
sources breaks the obligation of C15."""
import re

import gen_model
from gen_model import TranslationError, coq_list, coq_str, read, strip_comments

ERRORS = "crates/air-lib/interpreter-data/src/interpreter_data/errors.rs"
VERIF = "crates/air-lib/interpreter-data/src/interpreter_data/verification.rs"
TRACKERS = "crates/air-lib/interpreter-signatures/src/trackers.rs"
PREP_ERRORS = "air/src/preparation_step/errors.rs"
STEP = "air/src/verification_step.rs"


def fn_body(src, name, rel):
    m = re.search(r"\bfn\s+" + re.escape(name) + r"\b", src)
    if not m:
        raise TranslationError("function %s not found in %s" % (name, rel))
    i = src.find("{", m.end())
    # skip a possible `where`/return type containing braces is not needed for these functions
    if i < 0:
        raise TranslationError("function %s in %s has no body" % (name, rel))
    depth, j = 1, i + 1
    while j < len(src) and depth > 0:
        depth += {"{": 1, "}": -1}.get(src[j], 0)
        j += 1
    return src[i:j]


def generate():
    out = []
    w = out.append
    w("(* ---- tools/genx_sig.py (C15) ---- *)")
    variants = gen_model.enum_variants(ERRORS, "DataVerifierError")
    w("Definition data_verifier_error_variants : list string := %s." % coq_list([coq_str(v) for v in variants]))

    vsrc = strip_comments(read(VERIF))
    constructed = []
    for m in re.finditer(r"DataVerifierError::([A-Za-z_]\w*)", vsrc):
        if m.group(1) not in constructed:
            constructed.append(m.group(1))
    if not constructed:
        raise TranslationError("verification.rs constructs no DataVerifierError")
    for c in constructed:
        if c not in variants:
            raise TranslationError("verification.rs constructs unknown DataVerifierError::%s" % c)
    w("Definition data_verifier_error_constructed : list string := %s." % coq_list([coq_str(v) for v in constructed]))

    psrc = strip_comments(read(PREP_ERRORS))
    m = re.search(r"([A-Z]\w*)\s*\(\s*#\[from\]\s*DataVerifierError\s*\)", psrc)
    if not m:
        raise TranslationError("no PreparationError variant with #[from] DataVerifierError")
    w("Definition data_verifier_error_maps_to : string := %s." % coq_str(m.group(1)))

    merge = fn_body(vsrc, "merge", VERIF)
    flat = re.sub(r"\s+", " ", merge)
    swap = re.search(r"if our_info_ent\.get\(\)\.cids\.len\(\) < other_info\.cids\.len\(\) \{ std::mem::swap\(our_info_ent\.get_mut\(\), &mut other_info\); \}", flat)
    chk = re.search(r"let larger_info = our_info_ent\.get\(\); let smaller_info = &other_info; check_cid_multiset_invariant\(larger_info, smaller_info\)\?;", flat)
    vac = re.search(r"Vacant\(ent\) => \{ ent\.insert\(other_info\); \}", flat)
    n_if = len(re.findall(r"\bif\b", flat))
    ok = bool(swap and chk and vac and swap.start() < chk.start() and n_if == 1)
    w("Definition merge_swaps_on_strictly_shorter : bool := %s." % ("true" if ok else "false"))

    inv = re.sub(r"\s+", " ", fn_body(vsrc, "check_cid_multiset_invariant", VERIF))
    if "is_multisubset(larger_count_map, smaller_count_map)" not in inv:
        raise TranslationError("check_cid_multiset_invariant: call of is_multisubset not recognised")
    sub = re.sub(r"\s+", " ", fn_body(vsrc, "is_multisubset", VERIF))
    if not re.search(r"for \(cid, &smaller_count\) in &smaller_count_set \{.*larger_count_set\.get\(cid\)\.cloned\(\)\.unwrap_or_default\(\); if larger_count < smaller_count \{ return false; \} \} true", sub):
        raise TranslationError("is_multisubset: loop shape not recognised")

    tsrc = strip_comments(read(TRACKERS))
    sc = re.sub(r"\s+", " ", fn_body(tsrc, "sign_cids", TRACKERS))
    s_ok = bool(re.search(r"cids\.sort_unstable\(\);.*SaltedData::new\(&cids, salt\)\.serialize\(\);.*keypair\.sign\(", sc))
    w("Definition sign_cids_sorts : bool := %s." % ("true" if s_ok else "false"))

    new = re.sub(r"\s+", " ", fn_body(vsrc, "new", VERIF))
    n_ok = bool(re.search(r"collect_peers_cids_from_trace\(.*\)\?;.*for peer_info in grouped_cids\.values_mut\(\) \{ peer_info\.cids\.sort_unstable\(\); \}", new))
    w("Definition data_verifier_new_sorts : bool := %s." % ("true" if n_ok else "false"))

    ssrc = strip_comments(read(STEP))
    # the feature-enabled definition is the first `fn verify`
    body = re.sub(r"\s+", " ", fn_body(ssrc, "verify", STEP))
    calls = []
    for pat, name in [(r"current_data\.cid_info\.verify\(\)\?", "cid_info_verify_cur"),
                      (r"DataVerifier::new\(prev_data, salt\)\?", "new_prev"),
                      (r"DataVerifier::new\(current_data, salt\)\?", "new_cur"),
                      (r"current_data_verifier\.verify\(\)\?", "verify_cur"),
                      (r"prev_data_verifier\.merge\(current_data_verifier\)\?", "merge_prev_cur")]:
        mm = re.search(pat, body)
        if not mm:
            raise TranslationError("verification_step::verify: %s not found" % name)
        calls.append((mm.start(), name))
    calls.sort()
    w("Definition verify_step_order : list string := %s." % coq_list([coq_str(n) for _, n in calls]))
    w("")
    return out
