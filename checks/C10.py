"""C10 -- produced traces are structurally well formed.

Three kinds of cases, all evaluated by the Coq function `wf_trace_b` (coq/model/WfTrace.v; proved equivalent to
the Prop `wf_trace` of the theorems) on what the IMPLEMENTATION produced:

  history  a simulated multi-peer history of a generated script (harness/src/bin/wftrace.rs runs the real
           `air::execute_air` for every step and prints the trace of every produced data); oracle `w_wf`
           (all three clauses: par/fold structure, value positions, no placeholder generation).
  tree     the real `air_trace_handler::TraceHandler` driven through its public API (harness/src/bin/handler.rs)
           by the call sequence of a random driver forest (the `dts` of WfTrace.v) against arbitrary previous /
           current traces (results of earlier rounds, also mutated): the handler model must agree op by op and
           on the result trace (`wt_model`), `drive` -- the function the theorems are about -- must give the
           same result (`wt_drive`), and the real result must satisfy the par/fold clause whenever the drive
           succeeded (`wt_oracle_struct`), and the value_pos clause whenever the iterations were started at
           earlier stream entries (`wt_oracle_value_pos`).
  exec     a few histories through the `exec` driver: `oracle_wf` on ExecCases.case_t (the same oracle on the
           lock-step cases of the executor model)."""
import json
import random

import airgen
import exec_common
import handlergen
import vlib
import wfgen

PID = "C10"
MODEL_TARGETS = ["model/WfCases.vo"]
HARNESS_BINS = ["wftrace", "handler", "exec"]
RULE = ("history cases: one evaluation per run of a simulated history (3 peers, random delivery / call-result schedules with "
        "duplication, re-delivery and batching, then drained); scripts from lib/wfgen.py (streams written from several peers, "
        "stream folds with next in seq / par position and under xor, last instructions, nested stream folds, guarded recursive "
        "appends, new-scoped streams, failing calls inside iterations and par branches with and without xor, canon inside folds) "
        "and from lib/airgen.py (general profile, half of them with stream maps); distinct = distinct produced traces (content ids abstracted) holding at least "
        "one par or fold state. tree cases: one evaluation per round = one driver forest run on the real TraceHandler against "
        "(prev, cur) taken from earlier rounds' results (20% of later rounds with mutated traces, 10% with a different forest); "
        "distinct = distinct (forest, prev, cur) rounds whose result holds a par or a fold")
PARTIAL = [
    "C10_exec_is_driven (every run of the executor model Exec.exec talks to the handler as `drive ds` for some driver forest ds) is "
    "not proved: the tie from the instruction executor to driver forests is the history lock-step / oracle only",
    "value_pos and generation clauses are proved under the executor facts they need, stated as hypotheses: every iteration is "
    "started at an earlier stream value entry (C10_wf_drive_value_pos: the checked driver), and update_generation is applied to "
    "every stream value entry with generations different from the placeholder (C10_generations); that the executor establishes them "
    "(Streams::compactify covers every value of every stream incl. new-scoped ones; generation counts stay below 0xCAFEBABE) is "
    "checked by the oracle on histories, not proved",
    "update_generation during a run (Streams::meet_scope_end compacts a new-scoped stream when its scope ends) is a node of the "
    "driver forests (DGens) and covered by C10_wf_drive / C10_wf_drive_value_pos; a FAILING update is modelled as a no-op (the executor "
    "aborts the run and produces no trace)",
    "driver forests put `next` of a stream fold in its own body, directly or inside par branches (any nesting); a `next` of an OUTER "
    "stream fold executed inside an inner stream fold's body, or executed twice in one iteration (inside an inner scalar fold), is not "
    "covered by the forests (the validator allows the first syntactically; generators do not produce either)",
    "the reader's view (lens_convolution groups lore entries by the generation at value_pos; value positions pairwise distinct) is "
    "measured (distribution: reader_grouping_differs) but is not part of C10's text and not an oracle",
]
ASSUMPTIONS = [
    "stream value entry = Ap state or Call(Executed(Stream)) state; an iteration's value position must be smaller than the start of "
    "its own `before` interval (it may lie inside the fold's range for recursive streams)",
    "a fold's iteration ranges partition the entries after it: the lore splits into consecutive groups, each laid out "
    "before1..beforek afterk..after1 contiguously (one group per meet_generation_end); the grouping is existential, the generations "
    "stored at value_pos are not consulted",
    "content ids in history traces are replaced by small numbers before the trace reaches Coq (C10 does not look at them)",
]
H_HEADER = "From Aqua Require Import Base Trace Handler WfTrace WfCases.\nOpen Scope N_scope.\nOpen Scope list_scope.\n"
T_HEADER = "From Aqua Require Import Base Trace Handler HandlerCases WfTrace WfCases.\nOpen Scope N_scope.\nOpen Scope list_scope.\n"
E_HEADER = exec_common.HEADER.replace("ExecCases.", "ExecCases WfTrace WfExecCases.")

# DESIGN section 7, defect 11 (a fold iteration is lost on a later run): the trace must stay well formed
F11_SCRIPT = ('(seq (par (call "@A" ("s" "va") [] $s) (call "@B" ("s" "vb") [] $s)) '
              '(seq (call "@C" ("s" "gate") [] g) '
              '(seq (fold $s i (seq (xor (match i "a" (ap "c" $s)) (null)) (seq (call "@C" ("s" "visit") [i]) (next i))) (null)) '
              '(call "@D" ("s" "end") []))))')
F11_SERVICES = [["s", "va", {"const": "a"}], ["s", "vb", {"const": "b"}], ["s", "gate", {"const": 1}],
                ["s", "visit", {"echo": 0}], ["s", "end", {"const": 0}]]
FIXED_SCRIPTS = [
    # the layouts asserted in air/tests/test_module/instructions/fold.rs
    '(seq (seq (ap 1 $stream) (ap 2 $stream)) (seq (fold $stream iterator (seq (call "@A" ("s" "id") [iterator] $new_stream) '
    '(next iterator)) (call "@A" ("s" "id") [iterator] $new_stream)) (call "@A" ("s" "id") [0])))',
    '(seq (seq (seq (ap "@B" $stream) (ap "@C" $stream)) (ap "@A" $stream)) (seq (fold $stream peer_id (par '
    '(call peer_id ("s" "num") [] $new_stream) (next peer_id))) (call "@A" ("s" "num") [])))',
    # new-scoped stream written inside a fold, canonicalised, nested fold over it
    '(seq (par (call "@A" ("s" "id") ["a"] $s) (call "@B" ("s" "id") ["b"] $s)) (fold $s i (seq (new $t (seq (seq (ap i $t) '
    '(call "@C" ("s" "tag") [] $t)) (fold $t j (par (call "@A" ("s" "id") [j]) (next j))))) (next i))))',
    # catchable failure inside an iteration, without and with xor, and in a par branch
    '(seq (par (call "@A" ("s" "id") ["a"] $s) (call "@B" ("s" "id") ["b"] $s)) (seq (fold $s i (seq (call "@C" ("s" "fail") []) (next i))) '
    '(fold $s k (par (seq (call "@B" ("s" "id") [k]) (call "@A" ("s" "fail2") [])) (xor (next k) (call "@C" ("s" "num") []))))))',
]


def history_case(rng, script=None, n_ops=None, services=None, peers=3, init=0):
    ops = airgen.gen_schedule(rng, n_ops=n_ops if n_ops is not None else rng.choice([8, 14, 24]))
    return {"kind": "history", "script": script, "peers": airgen.PEERS[:peers], "init": init,
            "services": services if services is not None else airgen.DEFAULT_SERVICES, "ops": ops, "drain": True}


def tree_case(rng):
    shape_seed = rng.randrange(1 << 30)
    rounds, trees = [], []
    for r in range(rng.choice([3, 4, 5, 6])):
        peer = "p%d" % (r % 3)
        known = rng.choice([0.0, 0.3, 0.6, 0.9, 1.0])
        prev, cur = (-1, -1) if r < 2 else (rng.randrange(-1, r), rng.randrange(-1, r))
        mp, mc = [], []
        x = rng.random()
        if x < 0.2 and r >= 2:
            for _ in range(rng.choice([1, 1, 2])):
                (mc if rng.random() < 0.7 else mp).append(handlergen.random_mutation(rng))
        shape = random.Random(shape_seed if x < 0.9 else rng.randrange(1 << 30))
        t, ops = wfgen.gen_tree(shape, random.Random(rng.randrange(1 << 30)), known, peer)
        rounds.append({"prev": prev, "cur": cur, "mut_prev": mp, "mut_cur": mc, "ops": ops})
        trees.append(t)
    return {"kind": "tree", "rounds": rounds, "trees": trees}


def gen_cases(rng, tier, escalate=False):
    k = {"quick": 1, "thorough": 6}[tier] * (3 if escalate else 1)
    cases = []
    for s in FIXED_SCRIPTS:
        cases.append(history_case(rng, script=s, n_ops=14))
    for _ in range(3):
        cases.append(history_case(rng, script=F11_SCRIPT, services=F11_SERVICES, peers=4, init=2, n_ops=rng.choice([6, 12])))
    for _ in range(140 * k):
        cases.append(history_case(rng, script=wfgen.gen_script(rng)))
    prof = airgen.Profile()
    prof_maps = airgen.Profile(maps=True)                   # stream maps: folds over %maps iterate Ap entries
    for i in range(40 * k):
        cases.append(history_case(rng, script=airgen.gen_script(rng, prof_maps if i % 2 else prof)))
    for _ in range(60 * k):
        cases.append(tree_case(rng))
    for _ in range(3 * k if tier == "thorough" else 0):      # the lock-step cases are ~20x larger: thorough tier only
        c = exec_common.history_case(rng, prof, n_ops=8)
        c["kind"] = "exec"
        c["script"] = wfgen.gen_script(rng) if rng.random() < 0.7 else c["script"]
        cases.append(c)
    return cases


def _bump(dist, key, n=1):
    dist[key] = dist.get(key, 0) + n


def eval_histories(cases, result):
    if not cases:
        return
    dist = result["distribution"]
    outs = vlib.harness_lines("wftrace", [json.dumps({k: c[k] for k in ("script", "peers", "init", "services", "ops", "drain") if k in c})
                                          for c in cases], timeout=1800)
    terms, owner, seen = [], [], {}
    for ci, o in enumerate(outs):
        if "error" in o:
            result["errors"].append("wftrace: %s: %s" % (o["error"][:200], cases[ci].get("script", "")[:300]))
            continue
        _bump(dist, "histories")
        for ti, t in enumerate(o["coq"]):
            result["evaluations"] += 1
            cls = o["classes"][ti]
            _bump(dist, "run/" + cls.split(":")[0] + (":0" if cls.endswith(":0") else ":nonzero" if ":" in cls else ""))
            sh = (o["info"][ti].get("shape") or {}) if ti < len(o["info"]) else {}
            if t in seen:
                continue
            seen[t] = len(terms)
            terms.append(t)
            owner.append((ci, ti))
            if sh.get("pars") or sh.get("folds"):
                result["distinct"].add(t)
            for key in ("recursive", "multi_gen", "par_in_fold", "fold_in_fold", "nonempty_after"):
                if sh.get(key):
                    _bump(dist, "trace/" + key)
            if sh.get("pars"):
                _bump(dist, "trace/with_par")
            if sh.get("folds"):
                _bump(dist, "trace/with_fold")
            if sh.get("max_lore", 0) >= 3:
                _bump(dist, "trace/lore>=3")
        if len(result["samples"]) < 2 and o["coq"]:
            result["samples"].append({"kind": "history", "script": cases[ci]["script"], "last_trace": o["coq"][-1][:1500]})
    _bump(dist, "distinct_traces", len(terms))
    if not terms:
        return
    checks = {"oracle_wf": "w_wf", "struct": "w_struct", "value_pos": "w_value_pos", "no_stub": "w_no_stub", "reader": "w_reader"}
    fails, errs = vlib.coq_eval_cases("C10", H_HEADER, "wcase", checks, terms, shard_size=160)
    result["errors"].extend(errs)
    _bump(dist, "reader_grouping_differs", len(fails["reader"]))
    for i in fails["oracle_wf"]:
        ci, ti = owner[i]
        clauses = [n for n in ("struct", "value_pos", "no_stub") if i in fails[n]]
        info = outs[ci]["info"][ti] if ti < len(outs[ci]["info"]) else {}
        result["oracle_fail"].append({
            "case": cases[ci], "key": None, "step": info.get("step"), "peer": info.get("peer"), "failed_clauses": clauses,
            "trace": terms[i][:6000], "script_instantiated": outs[ci].get("script"),
            "what": "wf_trace_b is false on a trace produced by the real interpreter (clauses: %s)" % ", ".join(clauses)})


def eval_trees(cases, result):
    if not cases:
        return
    dist = result["distribution"]
    outs = vlib.harness_lines("handler", [json.dumps({"rounds": c["rounds"]}) for c in cases])
    terms, owner = [], []
    for ci, o in enumerate(outs):
        if "error" in o or len(o.get("coq", [])) != len(cases[ci]["trees"]):
            result["errors"].append("handler: unexpected output for a tree case")
            continue
        _bump(dist, "tree_cases")
        for ri, t in enumerate(o["coq"]):
            terms.append("{| wt_tree := %s; wt_case := %s |}" % (cases[ci]["trees"][ri], t))
            owner.append((ci, ri))
            result["evaluations"] += 1
            cls = o["classes"][ri]
            _bump(dist, "tree_round/" + cls)
            rd = cases[ci]["rounds"][ri]
            if rd["mut_prev"] or rd["mut_cur"]:
                _bump(dist, "tree_round/mutated_input")
            if rd["prev"] >= 0 or rd["cur"] >= 0:
                _bump(dist, "tree_round/merging")
        if len(result["samples"]) < 3:
            result["samples"].append({"kind": "tree", "tree": cases[ci]["trees"][-1][:800], "ops": cases[ci]["rounds"][-1]["ops"][:40]})
    if not terms:
        return
    checks = {"model": "wt_model", "drive": "wt_drive", "oracle_struct": "wt_oracle_struct", "oracle_value_pos": "wt_oracle_value_pos",
              "nofold": "wt_has_fold", "failed": "wt_succeeded"}
    fails, errs = vlib.coq_eval_cases("C10t", T_HEADER, "wtcase", checks, terms, shard_size=60)
    result["errors"].extend(errs)
    nofold = set(fails["nofold"])
    _bump(dist, "tree_round/result_with_fold", len(terms) - len(nofold))
    for i in range(len(terms)):
        res_txt = terms[i].rsplit("hc_result := ", 1)[-1]
        if res_txt.startswith("(Some") and ("SPar" in res_txt or "SFold" in res_txt):
            result["distinct"].add(terms[i])
    for name, what in (("model", "model/Handler.v disagrees with the real TraceHandler (observations or result trace) on the call sequence of this forest"),
                       ("drive", "`drive` on this forest does not give the result trace the real TraceHandler produced")):
        for i in fails[name]:
            ci, ri = owner[i]
            result["mismatch"].append({"case": cases[ci], "round": ri, "check": name, "term": terms[i][:6000], "what": what})
    for name, what in (("oracle_struct", "the real TraceHandler accepted the whole call sequence but its result trace is not a well-formed forest / fold tiling"),
                       ("oracle_value_pos", "iterations were started at earlier stream entries but a lore entry of the real result does not point to one")):
        for i in fails[name]:
            ci, ri = owner[i]
            result["oracle_fail"].append({"case": cases[ci], "round": ri, "key": None, "check": name, "term": terms[i][:6000], "what": what})


def eval_exec(cases, result):
    if not cases:
        return
    dist = result["distribution"]
    ok, out = vlib.coq_make(["model/WfExecCases.vo"])
    if not ok:
        _bump(dist, "exec_sample_skipped(model/WfExecCases.v does not build against the current ExecCases.v)")
        return
    outs = vlib.harness_lines("exec", [json.dumps({k: v for k, v in c.items() if k != "kind"}) for c in cases], timeout=1800)
    terms, owner = [], []
    for ci, o in enumerate(outs):
        if "error" in o:
            continue
        for ti, t in enumerate(o["coq"]):
            terms.append("(let script := %s in %s)" % (o["script_term"], t))
            owner.append((ci, ti))
    _bump(dist, "exec_sample_runs", len(terms))
    result["evaluations"] += len(terms)
    if not terms:
        return
    fails, errs = vlib.coq_eval_cases("C10e", E_HEADER, "ExecCases.case_t", {"oracle_wf": "oracle_wf"}, terms, shard_size=12)
    if errs:
        # the lock-step case format belongs to the executor model and changes with it: not a C10 obligation
        _bump(dist, "exec_sample_unreadable_shards", len(errs))
    for i in fails["oracle_wf"]:
        ci, ti = owner[i]
        info = outs[ci]["info"][ti] if ti < len(outs[ci]["info"]) else {}
        c = dict(cases[ci], kind="history", drain=False)
        result["oracle_fail"].append({"case": c, "key": None, "step": info.get("step"),
                                      "what": "oracle_wf (wf_trace_b on eo_trace of the exec driver's case) is false"})


def evaluate(cases, result, tier):
    cases = [c if "kind" in c else dict(c, kind="history") for c in cases]
    eval_histories([c for c in cases if c["kind"] == "history"], result)
    eval_trees([c for c in cases if c["kind"] == "tree"], result)
    eval_exec([c for c in cases if c["kind"] == "exec"], result)
