(* ExecStreamsInv.v -- the stage-2 hook of the executor (model/ExecStreams.v: [stream_instr]) and the
   farewell compactification ([finish_streams]) under the generic induction principle of ExecInv.v:

     stream_instr_preserves : exec_invariant R -> hook_preserves R stream_instr
     exec2_inv              : exec_invariant R -> forall fuel i x, res_sat R x (exec stream_instr fuel i x)
     finish_streams_inv     : frame_invariant R -> finish_streams x = inl y -> R x y

   The only non-frame step of the stream instructions is handle_unseen_canon, which pushes the
   designated peer (different from the current one) to the next peers: [ei_forward].
   Kept apart from ExecInv.v so that a change of ExecStreams.v cannot break the stage-1 users. *)
From Coq Require Import Lia.
From Aqua Require Import Base Json Air Trace Handler Values Scalars Lens Exec RunExec ExecStreams CallSpec ExecInv.
From Aqua Require Stream.
Open Scope N_scope.
Open Scope list_scope.

Section StreamsInv.
  Variable R : ctx -> ctx -> Prop.
  Hypothesis HE : exec_invariant R.

  Let HF := ei_frame R HE.
  Let Rrefl := fi_refl R HF.
  Let Rtrans := fi_trans R HF.

  Ltac rch :=
    match goal with
    | |- R ?x ?x => apply Rrefl
    | H : R ?x ?y |- R ?x ?y => exact H
    | |- R ?x (set_scalars ?y _) => apply (Rtrans x y); [rch | apply (fi_set_scalars R HF)]
    | |- R ?x (set_canons ?y _) => apply (Rtrans x y); [rch | apply (fi_set_canons R HF)]
    | |- R ?x (set_iterables ?y _) => apply (Rtrans x y); [rch | apply (fi_set_iterables R HF)]
    | |- R ?x (set_last_error ?y _ _) => apply (Rtrans x y); [rch | apply (fi_set_last_error R HF)]
    | |- R ?x (set_error ?y _ _) => apply (Rtrans x y); [rch | apply (fi_set_error R HF)]
    | |- R ?x (set_complete ?y _) => apply (Rtrans x y); [rch | apply (fi_set_complete R HF)]
    | |- R ?x (set_handler ?y _) => apply (Rtrans x y); [rch | apply (fi_set_handler R HF)]
    | |- R ?x (set_cids ?y _ _) => apply (Rtrans x y); [rch | apply (fi_set_cids R HF)]
    | |- R ?x (set_fold_counter ?y _) => apply (Rtrans x y); [rch | apply (fi_set_fold_counter R HF)]
    | |- R ?x (set_ext ?y _) => apply (Rtrans x y); [rch | apply (fi_set_ext R HF)]
    | |- R ?x (with_streams ?y _) => apply (Rtrans x y); [rch | apply (fi_set_ext R HF)]
    | |- R ?x (put_stream ?y _ _ _) => apply (Rtrans x y); [rch | apply (fi_set_ext R HF)]
    | |- R ?x (make_incomplete ?y) => apply (Rtrans x y); [rch | apply (fi_make_incomplete R HF)]
    | |- R ?x (flush_complete ?y) => apply (Rtrans x y); [rch | apply (fi_flush_complete R HF)]
    | |- R ?x (call_end ?y _) => apply (Rtrans x y); [rch | apply (fi_call_end R HF)]
    | |- R ?x (record_cid ?y _ _) => apply (Rtrans x y); [rch | apply (fi_record_cid R HF)]
    | H : R ?z ?y |- R ?x ?y => apply (Rtrans x z); [rch | exact H]
    end.

  Let sat_trans := res_sat_trans R HE.

  Lemma si_with_trace x r k :
    (forall y, R x y -> res_sat R x (k y)) -> res_sat R x (with_trace x r k).
  Proof.
    intros H. unfold with_trace. apply (fi_with_handler R HF). intros h _. apply H. rch.
  Qed.

  Lemma si_exec_ap_stream x a sv : res_sat R x (exec_ap_stream x a sv).
  Proof.
    unfold exec_ap_stream. destruct (apply_to_arg x a true); cbn [res_sat]; auto.
    - apply (fi_with_handler R HF). intros rh _.
      destruct (add_stream_value (set_handler x (snd rh)) (v_name sv) a0 _ (v_pos sv)) eqn:E; cbn [res_sat]; auto.
      + pose proof (fi_add_stream_value' R HF _ _ _ _ _ _ E). rch.
      + rch.
    - destruct (is_joinable e); cbn [res_sat]; rch.
  Qed.

  Lemma si_set_canon_value x name c y : set_canon_value x name c = POk y -> R x y.
  Proof.
    unfold set_canon_value. destruct (Scalars.set_value canon_wp (x_canons x) name c) as [[m b] |]; intros E; inversion E; subst.
    rch.
  Qed.

  Lemma si_canon_epilog x name values t c : res_sat R x (canon_epilog x name values t c).
  Proof.
    unfold canon_epilog. apply (fi_lift R HF). intros y E. cbn [res_sat].
    pose proof (si_set_canon_value _ _ _ _ E). rch.
  Qed.

  Lemma si_create_canon_first_time x stream name peer : res_sat R x (create_canon_first_time x stream name peer).
  Proof.
    unfold create_canon_first_time. eapply sat_trans; [| apply si_canon_epilog]. rch.
  Qed.

  Lemma si_handle_canon_executed x p name c : res_sat R x (handle_canon_executed x p name c).
  Proof.
    unfold handle_canon_executed. apply (fi_lift R HF). intros peer _.
    destruct (negb (cid_mem c (cs_canon_results (x_cids x)))); cbn [res_sat]; [rch |].
    destruct c; cbn [res_sat]; auto.
    destruct (negb (cid_mem c (cs_tetraplets (x_cids x)))); cbn [res_sat]; [rch |].
    destruct c; cbn [res_sat]; auto.
    apply (fi_lift R HF). intros _ _. apply (fi_lift R HF). intros vals _.
    eapply sat_trans; [| apply si_canon_epilog]. rch.
  Qed.

  Lemma si_exec_canon x p stream canon : res_sat R x (exec_canon x p stream canon).
  Proof.
    unfold exec_canon. apply (fi_with_handler R HF). intros rh _.
    set (x0 := set_handler x (snd rh)). assert (H0 : R x x0) by (unfold x0; rch).
    destruct (fst rh) as [| r].
    - destruct (resolve_peer_id_to_string x0 p) as [peer | e | s | w]; cbn [res_sat]; auto.
      + destruct (negb (String.eqb (current_peer x0) peer)) eqn:Ep; cbn [res_sat].
        * apply Bool.negb_true_iff in Ep. rewrite String.eqb_sym in Ep.
          pose proof (ei_forward R HE (make_incomplete x0) peer Ep) as Hf.
          change (x_next_peers (make_incomplete x0)) with (x_next_peers x0) in Hf. rch.
        * eapply sat_trans; [exact H0 | apply si_create_canon_first_time].
      + destruct (is_joinable e); cbn [res_sat]; rch.
    - destruct r as [sender | c].
      + apply (sat_trans _ _ _ H0). apply (fi_lift R HF). intros peer _.
        destruct (negb (String.eqb (current_peer x0) peer)); cbn [res_sat]; [rch | apply si_create_canon_first_time].
      + eapply sat_trans; [exact H0 | apply si_handle_canon_executed].
  Qed.

  Lemma si_run_compact_plan x pl : res_sat R x (run_compact_plan x pl).
  Proof.
    unfold run_compact_plan. destruct (Stream.run_plan _ _ pl); cbn [res_sat]; auto; rch.
  Qed.

  Lemma si_new_stream_epilog x name : res_sat R x (new_stream_epilog x name).
  Proof.
    unfold new_stream_epilog.
    destruct (Stream.streams_meet_scope_end vagg va_pos (streams_of x) name) as [[[m b] pl] | e | s]; cbn [res_sat]; auto; try rch.
    eapply sat_trans; [| apply si_run_compact_plan]. rch.
  Qed.

  (* ---------------------------------------------------------------------------------------- *)
  Variable run : instr -> ctx -> xres.
  Hypothesis Hrun : forall i x, res_sat R x (run i x).

  Ltac dmr :=
    match goal with
    | |- context [match run ?a ?z with _ => _ end] =>
        let H := fresh "HI" in
        pose proof (Hrun a z) as H; destruct (run a z) eqn:?; cbn [res_sat] in H
    | |- context [match ?d with _ => _ end] =>
        lazymatch d with
        | context [match _ with _ => _ end] => fail
        | _ => destruct d eqn:?
        end
    end.

  Lemma si_exec_new_stream x sv body sp : res_sat R x (exec_new_stream run x sv body sp).
  Proof.
    unfold exec_new_stream.
    match goal with |- context [run body ?z] => pose proof (Hrun body z) as HI; destruct (run body z) as [y | e y | | |] end;
      cbn [res_sat] in *; auto.
    - eapply sat_trans; [| apply si_new_stream_epilog]. rch.
    - pose proof (si_new_stream_epilog y (v_name sv)) as H2.
      destruct (new_stream_epilog y (v_name sv)); cbn [res_sat] in *; auto; rch.
  Qed.

  Lemma si_fold_batch x batch fold_id iter body last : res_sat R x (fold_batch run x batch fold_id iter body last).
  Proof.
    unfold fold_batch. repeat dmr; cbn [res_sat]; auto; rch.
  Qed.

  Lemma si_execute_iterations batches : forall x fold_id iter body last observed,
    res_sat R x (fst (execute_iterations run x batches fold_id iter body last observed)).
  Proof.
    induction batches as [| b rest IH]; intros x fold_id iter body last observed; cbn [execute_iterations fst res_sat].
    - rch.
    - destruct b as [| v b']; [apply IH |].
      destruct (meet_iteration_start cid (x_handler x) fold_id (va_pos v)) as [h | e | s]; cbn [fst res_sat]; auto; try rch.
      pose proof (si_fold_batch (set_handler x h) (v :: b') fold_id iter body last) as Hb.
      assert (Hafter : forall y, R x y ->
                res_sat R x (fst match meet_generation_end cid (x_handler y) fold_id with
                                 | Err e => (XErr (trace_err e) y, observed)
                                 | Crash _ => (XCrash "trace handler panic", observed)
                                 | Ok h' =>
                                     execute_iterations run (set_handler y h') rest fold_id iter body last
                                                        (observed || x_complete (set_handler y h'))
                                 end)).
      { intros y Hy. destruct (meet_generation_end cid (x_handler y) fold_id) as [h' | e | s]; cbn [fst res_sat]; auto.
        eapply sat_trans; [| apply IH]. rch. }
      destruct (fold_batch run (set_handler x h) (v :: b') fold_id iter body last) as [y | e y | | |];
        cbn [res_sat] in Hb; cbn [fst res_sat]; auto.
      + apply Hafter. rch.
      + destruct (is_catchable e); [apply Hafter; rch | cbn [fst res_sat]; rch].
  Qed.

  Lemma si_fold_stream_loop n : forall x st rc sv iter body last fold_id observed,
    res_sat R x (fst (fold_stream_loop n run x st rc sv iter body last fold_id observed)).
  Proof.
    induction n as [| n IH]; intros x st rc sv iter body last fold_id observed;
      destruct st as [batches |]; cbn [fold_stream_loop fst res_sat]; auto; try rch.
    pose proof (si_execute_iterations batches x fold_id iter body last observed) as He.
    destruct (execute_iterations run x batches fold_id iter body last observed) as [r obs].
    destruct r as [y | e y | | |]; cbn [fst res_sat] in *; auto.
    destruct (get_stream y (v_name sv) (v_pos sv)) as [s |]; cbn [fst res_sat]; auto.
    destruct (Stream.met_iteration_end vagg rc s) as [[[st' rc'] s'] | e | c]; cbn [fst res_sat]; auto.
    eapply sat_trans; [| apply IH]. rch.
  Qed.

  Lemma si_exec_fold_stream x sv iter body last : res_sat R x (exec_fold_stream run x sv iter body last).
  Proof.
    unfold exec_fold_stream. destruct (get_stream x (v_name sv) (v_pos sv)) as [s |]; cbn [res_sat]; [| rch].
    eapply sat_trans with (y := set_fold_counter x (x_fold_counter x + 1)); [rch |].
    apply si_with_trace. intros x2 H2.
    destruct (Stream.met_fold_start vagg Stream.rcursor_new s) as [[[st rc] s'] | e | c]; cbn [res_sat]; auto.
    pose proof (si_fold_stream_loop fold_rounds (put_stream x2 (v_name sv) (v_pos sv) s') st rc sv iter body last
                                    (x_fold_counter x + 1) false) as Hl.
    destruct (fold_stream_loop fold_rounds run _ st rc sv iter body last (x_fold_counter x + 1) false) as [r obs].
    destruct r as [y | e y | | |]; cbn [fst res_sat] in *; auto; try rch.
    eapply sat_trans with (y := set_complete y obs); [rch |].
    apply si_with_trace. intros y2 Hy2. cbn [res_sat]. exact Hy2.
  Qed.

  Lemma si_exec_next_stream x iter fs fold_id : res_sat R x (exec_next_stream run x iter fs fold_id).
  Proof.
    unfold exec_next_stream. apply si_with_trace. intros x0 H0.
    destruct (it_next (fs_iterable fs)) as [moved it'].
    destruct (negb moved).
    - eapply sat_trans; [exact H0 |]. apply si_with_trace. intros x1 H1.
      destruct (fs_last fs) as [li |].
      + eapply sat_trans; [| apply Hrun]. rch.
      + destruct (negb (fs_back_started fs)); cbn [res_sat]; rch.
    - destruct (it_peek it') as [item |]; cbn [res_sat]; auto.
      eapply sat_trans with (y := set_iterables x0 _); [rch |].
      apply si_with_trace. intros x2 H2.
      repeat dmr; cbn [res_sat]; auto; try rch.
      eapply sat_trans with (y := set_iterables _ _); [| apply si_with_trace; intros y2 Hy2; cbn [res_sat]; exact Hy2].
      rch.
  Qed.

  Lemma si_stream_instr i x r : stream_instr run i x = Some r -> res_sat R x r.
  Proof.
    unfold stream_instr. destruct i; try discriminate.
    - destruct r0; [discriminate |]. intros E; inversion E; subst. apply si_exec_ap_stream.
    - intros E; inversion E; subst. apply si_exec_canon.
    - intros E; inversion E; subst. apply si_exec_fold_stream.
    - destruct a; try discriminate. intros E; inversion E; subst. apply si_exec_new_stream.
    - destruct (iter_get (x_iterables x) (v_name iter)) as [fs |]; [| discriminate].
      destruct (fs_type fs); [discriminate |]. intros E; inversion E; subst. apply si_exec_next_stream.
  Qed.

End StreamsInv.

Theorem stream_instr_preserves R : exec_invariant R -> hook_preserves R stream_instr.
Proof. intros HE run Hrun i x r E. apply (si_stream_instr R HE run Hrun i x r E). Qed.

Theorem exec2_inv R : exec_invariant R -> forall fuel i x, res_sat R x (exec stream_instr fuel i x).
Proof. intros HE. apply (exec_inv R HE stream_instr (stream_instr_preserves R HE)). Qed.

Lemma finish_streams_inv R : frame_invariant R -> forall x y, finish_streams x = inl y -> R x y.
Proof.
  intros HF x y. unfold finish_streams.
  destruct (Stream.streams_compactify vagg va_pos _ (streams_of x)) as [m pl].
  unfold run_compact_plan. destruct (Stream.run_plan _ _ pl); try discriminate.
  intros E. inversion E; subst.
  apply (fi_trans R HF _ (with_streams x m)); [apply (fi_set_ext R HF) | apply (fi_set_handler R HF)].
Qed.

Lemma finish_streams_frame x y : finish_streams x = inl y -> frame x y.
Proof. apply (finish_streams_inv frame frame_is_frame_invariant). Qed.
