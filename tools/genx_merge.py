"""Translator piece for C07 / C08 (and the state-level part of C09 / C04): the merge decision tables.

Reads, on every run, from crates/air-lib/trace-handler/src/merger:

    call_merger.rs        the arms of `match (prev_call, current_call)` in merge_call_results
                          -> mt_call_table : list (mt_kind * mt_kind * mt_action * mt_scheme)
                          the arms of `match (prev_state, current_state)` in try_merge_next_state_as_call
                          -> mt_call_dispatch : list (mt_slot * mt_slot * mt_dispatch)
    call_merger/utils.rs  the arms of merge_executed -> mt_executed_table : list (mt_vkind * mt_vkind * mt_vaction)
                          the comparisons made by check_equal / are_scalars_equal / are_streams_equal
    canon_merger.rs       the arms of merge_canon_results -> mt_canon_table : list (mt_ckind * mt_ckind * mt_guard * mt_caction)
                          the dispatch of try_merge_next_state_as_canon -> mt_canon_dispatch
    ap_merger.rs          the dispatch of try_merge_next_state_as_ap -> mt_ap_dispatch, the generation count it demands
    par_merger.rs         the dispatch of try_merge_next_state_as_par -> mt_par_dispatch
    position_mapping.rs   which sliders each PreparationScheme maps -> mt_scheme_maps; From<PreparationScheme> for ValueSource
    errors.rs             which error variant each constructor helper builds -> mt_error_ctor_variant

Strict: an arm, pattern or body that is not one of the shapes below raises TranslationError (a failed
translation is a broken obligation).  coq/proofs/MergeLaws.v proves `merge_table_agrees`: the functions
of model/Handler.v are, on all inputs, the first-match interpretation of these tables
(model/MergeSpec.v), so editing an arm in the Rust source breaks the proof obligation of C07 and C08."""
import re

from gen_model import TranslationError, coq_list, coq_str, read, strip_comments

DIR = "crates/air-lib/trace-handler/src/merger/"
CALL = DIR + "call_merger.rs"
UTILS = DIR + "call_merger/utils.rs"
CANON = DIR + "canon_merger.rs"
AP = DIR + "ap_merger.rs"
PAR = DIR + "par_merger.rs"
POS = DIR + "position_mapping.rs"
ERRORS = DIR + "errors.rs"


# ------------------------------------------------------------------------------------------------
# small Rust reader

def balanced(src, i, open_c="{", close_c="}"):
    """src[i] == open_c; returns the index just after the matching close."""
    if src[i] != open_c:
        raise TranslationError("internal: balanced() not at %r" % open_c)
    depth, j = 0, i
    while j < len(src):
        ch = src[j]
        if ch == open_c:
            depth += 1
        elif ch == close_c:
            depth -= 1
            if depth == 0:
                return j + 1
        j += 1
    raise TranslationError("unbalanced %s in source" % open_c)


def fn_body(src, name, rel):
    ms = list(re.finditer(r"\bfn\s+" + re.escape(name) + r"\b", src))
    if len(ms) != 1:
        raise TranslationError("expected exactly one `fn %s` in %s, found %d" % (name, rel, len(ms)))
    i = src.find("{", ms[0].end())
    if i < 0:
        raise TranslationError("fn %s in %s has no body" % (name, rel))
    return src[i + 1:balanced(src, i) - 1]


def match_arms(body, scrutinee_re, what):
    """The arms [(pattern text, guard text or None, body text)] of the single `match <scrutinee> {` in body."""
    ms = list(re.finditer(r"\bmatch\s+" + scrutinee_re + r"\s*\{", body))
    if len(ms) != 1:
        raise TranslationError("%s: expected exactly one `match` on the expected scrutinee, found %d" % (what, len(ms)))
    i = ms[0].end() - 1
    inner = body[i + 1:balanced(body, i) - 1]
    arms = []
    k = 0
    n = len(inner)
    while True:
        while k < n and inner[k] in " \t\r\n,":
            k += 1
        if k >= n:
            break
        # pattern up to the top-level `=>`
        depth = 0
        j = k
        while j < n:
            ch = inner[j]
            if ch in "([{":
                depth += 1
            elif ch in ")]}":
                depth -= 1
            elif ch == "=" and depth == 0 and inner[j:j + 2] == "=>":
                break
            j += 1
        if j >= n:
            raise TranslationError("%s: arm without `=>`: %r" % (what, inner[k:k + 60]))
        pat = inner[k:j].strip()
        j += 2
        while j < n and inner[j] in " \t\r\n":
            j += 1
        if j < n and inner[j] == "{":
            e = balanced(inner, j)
            arm_body = inner[j + 1:e - 1]
            k = e
        else:
            depth = 0
            e = j
            while e < n:
                ch = inner[e]
                if ch in "([{":
                    depth += 1
                elif ch in ")]}":
                    depth -= 1
                elif ch == "," and depth == 0:
                    break
                e += 1
            arm_body = inner[j:e]
            k = e
        guard = None
        mg = re.search(r"\)\s+if\s+(.+)$", pat, flags=re.S)
        if mg:
            guard = norm(mg.group(1))
            pat = pat[:mg.start() + 1]
        arms.append((norm(pat), guard, norm(arm_body)))
    if not arms:
        raise TranslationError("%s: no arms" % what)
    return arms


def norm(s):
    return re.sub(r"\s+", " ", s).strip()


def split_top(s, sep):
    out, depth, cur = [], 0, ""
    for ch in s:
        if ch in "([{":
            depth += 1
        elif ch in ")]}":
            depth -= 1
        if ch == sep and depth == 0:
            out.append(cur.strip())
            cur = ""
        else:
            cur += ch
    if cur.strip():
        out.append(cur.strip())
    return out


def pair_pattern(pat, what):
    """`(A, B)` -> (A, B); or-patterns `(A, B) | (C, D)` -> list of pairs."""
    pairs = []
    for alt in split_top(pat, "|"):
        alt = alt.strip()
        if not (alt.startswith("(") and alt.endswith(")")):
            raise TranslationError("%s: pattern is not a pair: %r" % (what, alt))
        parts = split_top(alt[1:-1], ",")
        if len(parts) != 2:
            raise TranslationError("%s: pattern is not a pair: %r" % (what, alt))
        pairs.append((parts[0], parts[1]))
    return pairs


# ------------------------------------------------------------------------------------------------
# merge_call_results

CALL_KINDS = {"RequestSentBy": "MtRequestSentBy", "Executed": "MtExecuted", "Failed": "MtFailed"}
SCHEMES = {"Previous": "MtPrevious", "Current": "MtCurrent", "Both": "MtBoth"}


def call_side_pattern(p, what):
    """-> (kind, whole-state binder or None, payload binder or None)"""
    m = re.fullmatch(r"(?:(\w+)\s*@\s*)?(RequestSentBy|Executed|Failed)\s*\(\s*(\.\.|_|\w+)\s*\)", p)
    if m:
        binder, kind, inner = m.groups()
        payload = inner if inner not in ("..", "_") else None
        return CALL_KINDS[kind], binder, payload
    if re.fullmatch(r"[a-z_]\w*", p):
        return "MtAnyCall", p, None
    raise TranslationError("%s: call pattern not understood: %r" % (what, p))


def call_table():
    src = strip_comments(read(CALL))
    body = fn_body(src, "merge_call_results", CALL)
    if not re.search(r"let \(merged_state, scheme\) = match", norm(body)) or not norm(body).endswith("Ok((merged_state, scheme))"):
        raise TranslationError("merge_call_results: the result is no longer `Ok((merged_state, scheme))` of the match")
    arms = match_arms(body, r"\(\s*prev_call\s*,\s*current_call\s*\)", "merge_call_results")
    rows = []
    for pat, guard, b in arms:
        if guard is not None:
            raise TranslationError("merge_call_results: guarded arm not understood: %r if %r" % (pat, guard))
        for pp, cp in pair_pattern(pat, "merge_call_results"):
            kp, bp, vp = call_side_pattern(pp, "merge_call_results")
            kc, bc, vc = call_side_pattern(cp, "merge_call_results")
            side = {}
            if bp:
                side[bp] = "MtPrev"
            if bc:
                if bc in side:
                    raise TranslationError("merge_call_results: binder %s bound twice" % bc)
                side[bc] = "MtCur"
            m = re.fullmatch(r"\((\w+), (Previous|Current|Both)\)", b)
            if m and m.group(1) in side:
                rows.append((kp, kc, "(MtTake %s)" % side[m.group(1)], SCHEMES[m.group(2)]))
                continue
            m = re.fullmatch(r"check_equal\(&(\w+), &(\w+)\)\?; \((\w+), (Previous|Current|Both)\)", b)
            if m and {m.group(1), m.group(2)} == set(side) and len(side) == 2 and m.group(3) in side:
                rows.append((kp, kc, "(MtTakeIfEqual %s)" % side[m.group(3)], SCHEMES[m.group(4)]))
                continue
            m = re.fullmatch(r"\(merge_executed\((\w+), (\w+)\)\?, (Previous|Current|Both)\)", b)
            if m and kp == "MtExecuted" and kc == "MtExecuted" and vp and vc and {m.group(1), m.group(2)} == {vp, vc}:
                act = "(MtMergeExecuted %s)" % ("false" if (m.group(1), m.group(2)) == (vp, vc) else "true")
                rows.append((kp, kc, act, SCHEMES[m.group(3)]))
                continue
            m = re.fullmatch(r"return Err\(CallResultError::(\w+)\((\w+), (\w+)\)\)", b)
            if m:
                rows.append((kp, kc, "(MtFail %s)" % coq_str(m.group(1)), "MtPrevious"))
                continue
            raise TranslationError("merge_call_results: arm body not understood: %r => %r" % (pat, b))
    return rows


def slot_pattern(p, ctor, what):
    if p == "None":
        return "MtNone", None
    m = re.fullmatch(r"Some\(" + ctor + r"\((\w+)\)\)", p)
    if m:
        return "MtSomeKind", m.group(1)
    if re.fullmatch(r"[a-z_]\w*", p):
        return "MtAnySlot", p
    raise TranslationError("%s: state pattern not understood: %r" % (what, p))


def call_dispatch():
    def both(b, bp, bc):
        want = "let (merged_call, scheme) = merge_call_results(%s, %s)?; Ok(prepare_call_result(merged_call, scheme, data_keeper))" % (bp, bc)
        if b != want:
            raise TranslationError("try_merge_next_state_as_call: merging arm not understood: %r" % b)
        return "MtMergeBoth"

    def single(b, binder, side):
        m = re.fullmatch(r"Ok\(prepare_call_result\((\w+), (Previous|Current|Both), data_keeper\)\)", b)
        if not m or m.group(1) != binder:
            raise TranslationError("try_merge_next_state_as_call: single-state arm not understood: %r" % b)
        return "(MtSingle %s %s)" % (side, SCHEMES[m.group(2)])

    src = strip_comments(read(CALL))
    rows = _dispatch_body(fn_body(src, "try_merge_next_state_as_call", CALL), "Call", single, both, "Ok(MergerCallResult::NotMet)",
                          "try_merge_next_state_as_call")
    # prepare_call_result: position taken before the mapping, source = scheme.into()
    pb = norm(fn_body(src, "prepare_call_result", CALL))
    if not re.fullmatch(r"let trace_pos = data_keeper\.result_trace_next_pos\(\); prepare_positions_mapping\(scheme, data_keeper\); "
                        r"let met_result = MetCallResult::new\(call_result, trace_pos, scheme\.into\(\)\); MergerCallResult::Met\(met_result\)", pb):
        raise TranslationError("prepare_call_result: shape not recognised")
    return rows


def ap_dispatch():
    def both(b, bp, bc):
        m = re.fullmatch(r"prepare_merge_result\((\w+), (Previous|Current|Both), data_keeper\)", b)
        if not m:
            raise TranslationError("try_merge_next_state_as_ap: merging arm not understood: %r" % b)
        if m.group(1) == bp:
            side = "MtPrev"
        elif m.group(1) == bc:
            side = "MtCur"
        else:
            raise TranslationError("try_merge_next_state_as_ap: merging arm uses an unknown binder: %r" % b)
        return "(MtSingle %s %s)" % (side, SCHEMES[m.group(2)])

    def single(b, binder, side):
        m = re.fullmatch(r"prepare_merge_result\((\w+), (Previous|Current|Both), data_keeper\)", b)
        if not m or m.group(1) != binder:
            raise TranslationError("try_merge_next_state_as_ap: single-state arm not understood: %r" % b)
        return "(MtSingle %s %s)" % (side, SCHEMES[m.group(2)])

    # `Some(Ap(_))` binds nothing: rewrite for the slot reader
    src = strip_comments(read(AP))
    body = fn_body(src, "try_merge_next_state_as_ap", AP)
    if "Some(Ap(_))" in body:
        body2 = body.replace("Some(Ap(_))", "Some(Ap(unused_ap))")
    else:
        body2 = body
    rows = _dispatch_body(body2, "Ap", single, both, "Ok(MergerApResult::NotMet)", "try_merge_next_state_as_ap")
    pm = norm(fn_body(src, "prepare_merge_result", AP))
    if not re.fullmatch(r"prepare_positions_mapping\(scheme, data_keeper\); let generation = to_maybe_generation!\(ap_result, &ap_result\.res_generations, InvalidDstGenerations\); "
                        r"let met_result = MetApResult::new\(generation, scheme\.into\(\)\); let ap_result = MergerApResult::Met\(met_result\); Ok\(ap_result\)", pm):
        raise TranslationError("ap_merger prepare_merge_result: shape not recognised")
    mm = re.search(r"macro_rules! to_maybe_generation \{(.*?)\n\}", src, flags=re.S)
    if not mm:
        raise TranslationError("to_maybe_generation! not found")
    mac = norm(mm.group(1))
    m = re.search(r"match \$generations\.len\(\) \{ (\d+) => \$generations\[0\], _ => \{ let ap_error = super::ApResultError::\$error_ty\(\$ap_result\); "
                  r"return Err\(super::MergeError::IncorrectApResult\(ap_error\)\); \} \}", mac)
    if not m:
        raise TranslationError("to_maybe_generation!: shape not recognised")
    return rows, int(m.group(1))


def _dispatch_body(body, ctor, single, both, none_body, what):
    nb = norm(body)
    if not re.search(r"let prev_state = data_keeper\.prev_slider_mut\(\)\.next_state\(\); let current_state = data_keeper\.current_slider_mut\(\)\.next_state\(\);", nb):
        raise TranslationError("%s: both sliders are no longer advanced first" % what)
    arms = match_arms(body, r"\(\s*prev_state\s*,\s*current_state\s*\)", what)
    rows = []
    for pat, guard, b in arms:
        if guard is not None:
            raise TranslationError("%s: guarded arm %r" % (what, pat))
        for pp, cp in pair_pattern(pat, what):
            sp, bp = slot_pattern(pp, ctor, what)
            sc, bc = slot_pattern(cp, ctor, what)
            if sp == "MtNone" and sc == "MtNone":
                if b != none_body:
                    raise TranslationError("%s: (None, None) arm not understood: %r" % (what, b))
                rows.append((sp, sc, "MtNotMet"))
            elif sp == "MtAnySlot" or sc == "MtAnySlot":
                if not re.fullmatch(r"(?:return )?Err\(MergeError::incompatible_states\(\s*prev_state, current_state, (?:EXPECTED_STATE_NAME|\"\w+\"),? ?\)\)", b):
                    raise TranslationError("%s: catch-all arm not understood: %r" % (what, b))
                rows.append((sp, sc, "MtIncompatibleStates"))
            elif sp == "MtSomeKind" and sc == "MtSomeKind":
                rows.append((sp, sc, both(b, bp, bc)))
            else:
                binder = bp if sp == "MtSomeKind" else bc
                side = "MtPrev" if sp == "MtSomeKind" else "MtCur"
                rows.append((sp, sc, single(b, binder, side)))
    return rows


def canon_dispatch():
    src = strip_comments(read(CANON))

    def both(b, bp, bc):
        if b != "prepare_both_canon_result(%s, %s)" % (bp, bc):
            raise TranslationError("try_merge_next_state_as_canon: merging arm not understood: %r" % b)
        return "MtMergeBoth"

    def single(b, binder, side):
        if b != "prepare_single_canon_result(%s)" % binder:
            raise TranslationError("try_merge_next_state_as_canon: single-state arm not understood: %r" % b)
        return "(MtSingle %s %s)" % (side, "MtPrevious" if side == "MtPrev" else "MtCurrent")

    rows = _dispatch_body(fn_body(src, "try_merge_next_state_as_canon", CANON), "Canon", single, both,
                          "Ok(MergerCanonResult::Empty)", "try_merge_next_state_as_canon")
    pb = norm(fn_body(src, "prepare_both_canon_result", CANON))
    if not re.fullmatch(r"let canon_result = merge_canon_results\(prev_canon_result, current_canon_result\)\.map_err\(MergeError::IncorrectCanonResult\)\?; "
                        r"prepare_single_canon_result\(canon_result\)", pb):
        raise TranslationError("prepare_both_canon_result: shape not recognised")
    ps = norm(fn_body(src, "prepare_single_canon_result", CANON))
    if ps != "let merger_result = MergerCanonResult::CanonResult(canon_result); Ok(merger_result)":
        raise TranslationError("prepare_single_canon_result: shape not recognised")
    return rows


def par_dispatch():
    src = strip_comments(read(PAR))

    def both(b, bp, bc):
        if b != "MergerParResult::from_pars(%s, %s)" % (bp, bc):
            raise TranslationError("try_merge_next_state_as_par: two-state arm not understood: %r" % b)
        return "MtMergeBoth"

    def single(b, binder, side):
        want = "MergerParResult::from_%s_par(%s)" % ("prev" if side == "MtPrev" else "current", binder)
        if b != want:
            raise TranslationError("try_merge_next_state_as_par: single-state arm not understood: %r" % b)
        return "(MtSingle %s %s)" % (side, "MtPrevious" if side == "MtPrev" else "MtCurrent")

    rows = _dispatch_body(fn_body(src, "try_merge_next_state_as_par", PAR), "Par", single, both,
                          "MergerParResult::default()", "try_merge_next_state_as_par")
    # the three constructors keep each side's sizes in its own field
    for name, want in [("from_pars", "Self { prev_par: Some(prev_par), current_par: Some(current_par), }"),
                       ("from_prev_par", "Self { prev_par: Some(prev_par), current_par: None, }"),
                       ("from_current_par", "Self { prev_par: None, current_par: Some(current_par), }")]:
        if norm(fn_body(src, name, PAR)) != want:
            raise TranslationError("MergerParResult::%s: shape not recognised" % name)
    return rows


# ------------------------------------------------------------------------------------------------
# merge_executed and the equality helpers

VKINDS = {"Scalar": "MtScalar", "Stream": "MtStream", "Unused": "MtUnused"}


def executed_table():
    src = strip_comments(read(UTILS))
    body = fn_body(src, "merge_executed", UTILS)
    arms = match_arms(body, r"\(\s*&prev_value\s*,\s*&current_value\s*\)", "merge_executed")
    rows = []
    for pat, guard, b in arms:
        if guard is not None:
            raise TranslationError("merge_executed: guarded arm %r" % pat)
        if pat == "_":
            m = re.fullmatch(r"Err\(CallResultError::(\w+)\(prev_value, current_value\)\)", b)
            if not m:
                raise TranslationError("merge_executed: catch-all arm not understood: %r" % b)
            rows.append(("MtAnyValue", "MtAnyValue", "(MtVFail %s)" % coq_str(m.group(1))))
            continue
        for pp, cp in pair_pattern(pat, "merge_executed"):
            sides = []
            for p in (pp, cp):
                m = re.fullmatch(r"ValueRef::(Scalar|Unused)\(_\)", p)
                if m:
                    sides.append((VKINDS[m.group(1)], None))
                    continue
                m = re.fullmatch(r"ValueRef::Stream \{ cid: (\w+), \.\. \}", p)
                if m:
                    sides.append(("MtStream", m.group(1)))
                    continue
                raise TranslationError("merge_executed: value pattern not understood: %r" % p)
            (kp, cidp), (kc, cidc) = sides
            m = re.fullmatch(r"are_scalars_equal\(&prev_value, &current_value\)\?; Ok\(CallResult::Executed\((prev_value|current_value)\)\)", b)
            if m:
                rows.append((kp, kc, "(MtVTake MtWholeValueEqual %s)" % ("MtPrev" if m.group(1) == "prev_value" else "MtCur")))
                continue
            m = re.fullmatch(r"are_streams_equal\((\w+), (\w+), &prev_value, &current_value\)\?; Ok\(CallResult::Executed\((prev_value|current_value)\)\)", b)
            if m and cidp and cidc and {m.group(1), m.group(2)} == {cidp, cidc}:
                rows.append((kp, kc, "(MtVTake MtCidEqual %s)" % ("MtPrev" if m.group(3) == "prev_value" else "MtCur")))
                continue
            raise TranslationError("merge_executed: arm body not understood: %r => %r" % (pat, b))
    # what the helpers compare
    sc = norm(fn_body(src, "are_scalars_equal", UTILS))
    if not re.fullmatch(r"if prev_value == current_value \{ return Ok\(\(\)\); \} Err\(CallResultError::(\w+)\( prev_value\.clone\(\), current_value\.clone\(\), \)\)", sc):
        raise TranslationError("are_scalars_equal: shape not recognised")
    scalar_err = re.search(r"CallResultError::(\w+)", sc).group(1)
    st = norm(fn_body(src, "are_streams_equal", UTILS))
    if not re.fullmatch(r"if prev_result_value == current_result_value \{ return Ok\(\(\)\); \} Err\(CallResultError::(\w+)\( prev_value\.clone\(\), current_value\.clone\(\), \)\)", st):
        raise TranslationError("are_streams_equal: shape not recognised")
    sig = re.search(r"fn are_streams_equal\(\s*prev_result_value: &CID<ServiceResultCidAggregate>,\s*current_result_value: &CID<ServiceResultCidAggregate>,", src)
    if not sig:
        raise TranslationError("are_streams_equal: the first two parameters are no longer the two result CIDs")
    stream_err = re.search(r"CallResultError::(\w+)", st).group(1)
    ce = norm(fn_body(src, "check_equal", UTILS))
    m = re.fullmatch(r"if prev_call != current_call \{ Err\(CallResultError::(\w+)\( prev_call\.clone\(\), current_call\.clone\(\), \)\) \} else \{ Ok\(\(\)\) \}", ce)
    if not m:
        raise TranslationError("check_equal: shape not recognised")
    return rows, scalar_err, stream_err, m.group(1)


# ------------------------------------------------------------------------------------------------
# merge_canon_results

CKINDS = {"RequestSentBy": "MtCanonRequestSentBy", "Executed": "MtCanonExecuted"}


def canon_table():
    src = strip_comments(read(CANON))
    body = fn_body(src, "merge_canon_results", CANON)
    arms = match_arms(body, r"\(\s*&prev_canon_result\s*,\s*&current_canon_result\s*\)", "merge_canon_results")
    rows = []
    for pat, guard, b in arms:
        for pp, cp in pair_pattern(pat, "merge_canon_results"):
            ks, binders = [], []
            for p in (pp, cp):
                m = re.fullmatch(r"(RequestSentBy|Executed)\((_|\w+)\)", p)
                if not m:
                    raise TranslationError("merge_canon_results: pattern not understood: %r" % p)
                ks.append(CKINDS[m.group(1)])
                binders.append(None if m.group(2) == "_" else m.group(2))
            g = "MtAlways"
            if guard is not None:
                m = re.fullmatch(r"(\w+) != (\w+)", guard)
                if not (m and binders[0] and binders[1] and {m.group(1), m.group(2)} == set(binders)
                        and ks == ["MtCanonExecuted", "MtCanonExecuted"]):
                    raise TranslationError("merge_canon_results: guard not understood: %r if %r" % (pat, guard))
                g = "MtIfCidsDiffer"
            if b == "Ok(prev_canon_result)":
                act = "(MtCTake MtPrev)"
            elif b == "Ok(current_canon_result)":
                act = "(MtCTake MtCur)"
            else:
                m = re.fullmatch(r"Err\(CanonResultError::(\w+)\( ?prev_canon_result, current_canon_result,? ?\)\)", b)
                if not m:
                    raise TranslationError("merge_canon_results: arm body not understood: %r => %r" % (pat, b))
                act = "(MtCFail %s)" % coq_str(m.group(1))
            rows.append((ks[0], ks[1], g, act))
    return rows


# ------------------------------------------------------------------------------------------------
# position mapping, value source, error constructors

def scheme_maps():
    src = strip_comments(read(POS))
    body = fn_body(src, "prepare_positions_mapping", POS)
    if not re.search(r"let new_pos = data_keeper\.result_trace_next_pos\(\);", norm(body)):
        raise TranslationError("prepare_positions_mapping: new_pos not recognised")
    arms = match_arms(body, r"scheme", "prepare_positions_mapping")
    out = []
    for pat, guard, b in arms:
        if pat not in SCHEMES or guard is not None:
            raise TranslationError("prepare_positions_mapping: arm %r" % pat)
        prev = bool(re.search(r"let prev_pos = data_keeper\.prev_slider\(\)\.position\(\) - 1;", b)) and \
            bool(re.search(r"data_keeper\.new_to_prev_pos\.insert\(new_pos, prev_pos\);", b))
        cur = bool(re.search(r"let current_pos = data_keeper\.current_slider\(\)\.position\(\) - 1;", b)) and \
            bool(re.search(r"data_keeper\.new_to_current_pos\.insert\(new_pos, current_pos\);", b))
        stmts = [s for s in b.split(";") if s.strip()]
        if len(stmts) != 2 * (int(prev) + int(cur)):
            raise TranslationError("prepare_positions_mapping: arm %s has statements that are not understood: %r" % (pat, b))
        out.append((SCHEMES[pat], prev, cur))
    src2 = strip_comments(read(CALL))
    m = re.search(r"impl From<PreparationScheme> for ValueSource \{(.*?)\n\}", src2, flags=re.S)
    if not m:
        raise TranslationError("From<PreparationScheme> for ValueSource not found")
    arms = match_arms(m.group(1), r"scheme", "From<PreparationScheme> for ValueSource")
    srcs = []
    for pat, guard, b in arms:
        mm = re.fullmatch(r"ValueSource::(PreviousData|CurrentData)", b)
        if not mm or guard is not None:
            raise TranslationError("From<PreparationScheme>: arm body %r" % b)
        for alt in split_top(pat, "|"):
            ma = re.fullmatch(r"PreparationScheme::(Previous|Current|Both)", alt.strip())
            if not ma:
                raise TranslationError("From<PreparationScheme>: pattern %r" % alt)
            srcs.append((SCHEMES[ma.group(1)], mm.group(1) == "PreviousData"))
    return out, srcs


def error_ctors():
    src = strip_comments(read(ERRORS))
    out = []
    for helper, enum in [("not_equal_values", "CallResultError"), ("incompatible_calls", "CallResultError"),
                         ("incompatible_state", "CanonResultError")]:
        b = norm(fn_body(src, helper, ERRORS))
        m = re.search(r"(?:CallResultError|Self)::(\w+) \{", b)
        if not m:
            raise TranslationError("errors.rs: constructor %s not understood" % helper)
        out.append((helper, m.group(1)))
    return out


def tup(xs):
    return "(" + ", ".join(xs) + ")"


def generate():
    out = []
    w = out.append
    w("(* ---- tools/genx_merge.py (C07, C08): the merge decision tables of crates/air-lib/trace-handler/src/merger ---- *)")
    w("Inductive mt_side := MtPrev | MtCur.")
    w("Inductive mt_scheme := MtPrevious | MtCurrent | MtBoth.")
    w("Inductive mt_kind := MtRequestSentBy | MtExecuted | MtFailed | MtAnyCall.")
    w("(* MtMergeExecuted swapped: merge_executed is applied to (prev, current) when false *)")
    w("Inductive mt_action := MtTake (s : mt_side) | MtTakeIfEqual (s : mt_side) | MtMergeExecuted (swapped : bool) | MtFail (ctor : string).")
    w("Inductive mt_vkind := MtScalar | MtStream | MtUnused | MtAnyValue.")
    w("Inductive mt_vcheck := MtWholeValueEqual | MtCidEqual.")
    w("Inductive mt_vaction := MtVTake (c : mt_vcheck) (s : mt_side) | MtVFail (ctor : string).")
    w("Inductive mt_ckind := MtCanonRequestSentBy | MtCanonExecuted.")
    w("Inductive mt_guard := MtAlways | MtIfCidsDiffer.")
    w("Inductive mt_caction := MtCTake (s : mt_side) | MtCFail (ctor : string).")
    w("Inductive mt_slot := MtSomeKind | MtNone | MtAnySlot.")
    w("Inductive mt_dispatch := MtMergeBoth | MtSingle (s : mt_side) (sch : mt_scheme) | MtNotMet | MtIncompatibleStates.")
    rows = call_table()
    w("Definition mt_call_table : list (mt_kind * mt_kind * mt_action * mt_scheme) := %s." % coq_list([tup(r) for r in rows]))
    vrows, scalar_err, stream_err, eq_err = executed_table()
    w("Definition mt_executed_table : list (mt_vkind * mt_vkind * mt_vaction) := %s." % coq_list([tup(r) for r in vrows]))
    w("Definition mt_value_check_errors : string * string := (%s, %s)." % (coq_str(scalar_err), coq_str(stream_err)))
    w("Definition mt_check_equal_error : string := %s." % coq_str(eq_err))
    crows = canon_table()
    w("Definition mt_canon_table : list (mt_ckind * mt_ckind * mt_guard * mt_caction) := %s." % coq_list([tup(r) for r in crows]))
    w("Definition mt_call_dispatch : list (mt_slot * mt_slot * mt_dispatch) := %s." % coq_list([tup(r) for r in call_dispatch()]))
    w("Definition mt_canon_dispatch : list (mt_slot * mt_slot * mt_dispatch) := %s." % coq_list([tup(r) for r in canon_dispatch()]))
    arows, ngen = ap_dispatch()
    w("Definition mt_ap_dispatch : list (mt_slot * mt_slot * mt_dispatch) := %s." % coq_list([tup(r) for r in arows]))
    w("Definition mt_ap_generations_required : N := %d%%N." % ngen)
    w("Definition mt_par_dispatch : list (mt_slot * mt_slot * mt_dispatch) := %s." % coq_list([tup(r) for r in par_dispatch()]))
    maps, srcs = scheme_maps()
    b = lambda x: "true" if x else "false"
    w("(* scheme, maps the previous slider's position, maps the current slider's position *)")
    w("Definition mt_scheme_maps : list (mt_scheme * bool * bool) := %s." % coq_list([tup([s, b(p), b(c)]) for s, p, c in maps]))
    w("(* scheme, value source is the previous data *)")
    w("Definition mt_scheme_source_is_prev : list (mt_scheme * bool) := %s." % coq_list([tup([s, b(p)]) for s, p in srcs]))
    w("Definition mt_error_ctor_variant : list (string * string) := %s." % coq_list([tup([coq_str(a), coq_str(v)]) for a, v in error_ctors()]))
    w("")
    return out
