//! `aquah runtop`: one JSON case per input line ->
//! one JSON line {"coq": [terms...], "classes": [...], "info": ...} per case.
//!
//! case = { "mode": "limits"|"versions", "script": "...", "peers": [...], "init": 0, "services": [...],
//!          "ops": [...], "probe_steps": [..]|null, "mutations": [..], "versions": [..], "extra_limits": [...] }

use aquah::cmd_limits::*;
use aquah::sim::*;
use air_interpreter_data::{InterpreterDataEnvelope, Versions};
use serde_json::Value as J;
use std::io::BufRead;

fn with_version(data: &[u8], ver: &str) -> Option<Vec<u8>> {
    let env = InterpreterDataEnvelope::try_from_slice(data).ok()?;
    let v = semver::Version::parse(ver).ok()?;
    let env2 = InterpreterDataEnvelope {
        versions: Versions { data_version: env.versions.data_version.clone(), interpreter_version: v },
        inner_data: env.inner_data.clone(),
    };
    env2.serialize().ok()
}

fn garbage(n: usize, seed: u64) -> Vec<u8> {
    let mut h = seed | 1;
    (0..n)
        .map(|_| {
            h ^= h << 13;
            h ^= h >> 7;
            h ^= h << 17;
            (h >> 11) as u8
        })
        .collect()
}

pub fn mutate(inp: &RunInput, m: &str, seed: u64) -> Option<RunInput> {
    let mut i = inp.clone();
    match m {
        "none" => {}
        "cur_garbage" => i.cur = garbage(40, seed),
        "cur_truncated" => {
            if i.cur.len() < 8 { return None; }
            let n = i.cur.len() - 1 - (seed as usize % (i.cur.len() / 2));
            i.cur.truncate(n)
        }
        "cur_empty" => i.cur = vec![],
        "prev_garbage" => i.prev = garbage(33, seed),
        "prev_truncated" => {
            if i.prev.len() < 8 { return None; }
            let n = i.prev.len() - 1 - (seed as usize % (i.prev.len() / 2));
            i.prev.truncate(n)
        }
        "cur_inner_garbage" => {
            let env = InterpreterDataEnvelope::try_from_slice(&inp.cur).ok()?;
            let env2 = InterpreterDataEnvelope { versions: env.versions.clone(), inner_data: garbage(24, seed).into() };
            i.cur = env2.serialize().ok()?;
        }
        "prev_inner_garbage" => {
            let env = InterpreterDataEnvelope::try_from_slice(&inp.prev).ok()?;
            let env2 = InterpreterDataEnvelope { versions: env.versions.clone(), inner_data: garbage(24, seed).into() };
            i.prev = env2.serialize().ok()?;
        }
        "old_version_inner_garbage" => {
            let env = InterpreterDataEnvelope::try_from_slice(&inp.cur).ok()?;
            let env2 = InterpreterDataEnvelope {
                versions: Versions { data_version: env.versions.data_version.clone(), interpreter_version: semver::Version::new(0, 1, 0) },
                inner_data: garbage(24, seed).into(),
            };
            i.cur = env2.serialize().ok()?;
        }
        "air_garbage" => i.air = "(seq (call".to_string(),
        "air_unscoped" => i.air = "(call \"x\" (\"s\" \"f\") [undefined_var])".to_string(),
        "cr_garbage" => i.call_results_raw = Some(garbage(12, seed)),
        "cr_other_codec" => {
            let mut b = encode_call_results(&i.call_results);
            if !b.is_empty() { b[0] ^= 0x01; }
            i.call_results_raw = Some(b)
        }
        "cr_extra_big" => {
            i.call_results.insert(4_000_000, (0, format!("\"{}\"", "x".repeat(100 + (seed % 50) as usize))));
        }
        "bad_key_format" => i.key_format = 9,
        "bad_key_bytes" => i.secret = vec![1, 2, 3],
        _ => return None,
    }
    Some(i)
}

fn main() {
    quiet_panics();
    let stdin = std::io::stdin();
    for line in stdin.lock().lines() {
        let line = match line { Ok(l) => l, Err(_) => break };
        if line.trim().is_empty() { continue; }
        let case: J = match serde_json::from_str(&line) {
            Ok(c) => c,
            Err(e) => { println!("{}", serde_json::json!({"error": format!("bad case: {e}")})); continue; }
        };
        println!("{}", run_case(&case));
    }
}

fn run_case(case: &J) -> J {
    let mode = case["mode"].as_str().unwrap_or("limits");
    let peers: Vec<String> = case["peers"].as_array().map(|a| a.iter().filter_map(|x| x.as_str().map(String::from)).collect()).unwrap_or_default();
    let script = Net::instantiate(case["script"].as_str().unwrap_or("(null)"), &peers);
    let init = case["init"].as_u64().unwrap_or(0) as usize;
    let services = Services::from_json(&case["services"]);
    let ops = ops_from_json(&case["ops"]);
    let seed = case["seed"].as_u64().unwrap_or(1);
    let mutations: Vec<String> = case["mutations"].as_array().map(|a| a.iter().filter_map(|x| x.as_str().map(String::from)).collect()).unwrap_or_else(|| vec!["none".into()]);
    let versions: Vec<String> = case["versions"].as_array().map(|a| a.iter().filter_map(|x| x.as_str().map(String::from)).collect()).unwrap_or_default();
    let probe_steps: Option<Vec<u64>> = case["probe_steps"].as_array().map(|a| a.iter().filter_map(|x| x.as_u64()).collect());
    let extra: Vec<Limits> = case["extra_limits"].as_array().map(|a| a.iter().map(|e| Limits {
        air: e[0].as_u64().unwrap_or(u64::MAX), particle: e[1].as_u64().unwrap_or(u64::MAX),
        result: e[2].as_u64().unwrap_or(u64::MAX), hard: e[3].as_bool().unwrap_or(false) }).collect()).unwrap_or_default();

    let mut net = Net::new(&script, &peers, init, services, case["particle_id"].as_str().unwrap_or("particle-1"));
    let mut terms = vec![];
    let mut classes = vec![];
    let mut infos = vec![];
    let mut nsteps = 0;
    for op in &ops {
        let rec = match net.exec(op) { Some(r) => r, None => continue };
        nsteps += 1;
        let probe_here = match &probe_steps { None => true, Some(v) => v.contains(&(rec.step as u64)) };
        if !probe_here { continue; }
        for (mi, m) in mutations.iter().enumerate() {
            let base = match mutate(&rec.input, m, seed.wrapping_add(mi as u64 * 7919 + rec.step as u64)) { Some(i) => i, None => continue };
            if mode == "limits" {
                let (t, cls, info) = probe(&base, &extra);
                terms.push(t);
                classes.extend(cls.into_iter().map(|c| format!("{}/{}", m, c)));
                infos.push(serde_json::json!({"step": rec.step, "mutation": m, "info": info}));
            } else {
                // versions: the same input under every version string in the grid
                for v in &versions {
                    let cur = match with_version(&base.cur, v) { Some(c) => c, None => continue };
                    let mut i2 = base.clone();
                    i2.cur = cur;
                    i2.limits = Limits::unlimited();
                    let out = run(&i2);
                    let w = world_of(&i2, &out);
                    // a non-failing run is reported as `Rest 0`: C21 is only about rejection
                    let (t, cls) = {
                        let (t, cls) = outcome_term(&i2, &out, &J::Null);
                        if cls.starts_with("rest") { (format!("(Rest 0 {})", flags_term(&out.flags)), "rest".to_string()) } else { (t, cls) }
                    };
                    terms.push(format!("({}, [({}, {})])", w.term, limits_term(&i2.limits), t));
                    classes.push(format!("{}/{}", m, cls));
                    infos.push(serde_json::json!({"step": rec.step, "mutation": m, "version": v, "code": out.code}));
                }
            }
        }
    }
    serde_json::json!({"coq": terms, "classes": classes, "info": infos, "steps": nsteps})
}
