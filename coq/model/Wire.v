(* Wire.v -- byte-level framing of AquaVM's encodings (property C27).

   What is modelled, each part next to the Rust code it mirrors:
   * unsigned LEB128 varints for u32 exactly as the crate `unsigned-varint` 0.8.0 does them
     (src/encode.rs macro encode!, src/decode.rs macro decode!(buf, 4, u32)), including the three
     error cases and the fact that the decoder ORs the fifth 7-bit group into a u32 with a plain
     shift, i.e. silently drops the bits that do not fit;
   * the multiformat prefix of crates/air-lib/interpreter-sede/src/multiformat.rs
     (varint codec tag ++ payload) over an abstract inner Format;
   * the MessagePack skeleton of InterpreterDataEnvelope
     (crates/air-lib/interpreter-data/src/interpreter_data.rs: serialize / try_from_slice /
     try_get_versions through rmp-serde 1.1.2 and rmp 0.8.12): a map of three entries, two strings
     and one bin object; the reader understands exactly str and bin objects and says
     [Unsupported] (= "the model does not predict") for every other MessagePack object.
   Bytes are [N] values below 256.  Definitions only. *)
From Aqua Require Import Base.
Open Scope list_scope.
Open Scope N_scope.

Definition is_byte (b : N) : bool := b <? 256.
Definition u32_bound : N := 4294967296.

Fixpoint lenN {A} (l : list A) : N :=
  match l with [] => 0 | _ :: r => N.succ (lenN r) end.

(* ------------------------------------------------------------------------------------------ *)
(* unsigned-varint 0.8.0                                                                      *)

Inductive varint_error := VInsufficient | VOverflow | VNotMinimal.
Inductive varint_result := VOk (n : N) (rest : list N) | VErr (e : varint_error).

(* index of the last byte a u32 may occupy: decode!(buf, 4, u32); buffer length U32_LEN = 5.
   Both numbers are re-read from the crate's source by tools/genx_wire.py. *)
Definition u32_max_index : nat := 4.
Definition u32_len : nat := 5.

(* src/encode.rs, macro encode!: for b in buf.iter_mut() { *b = n as u8 | 0x80; n >>= 7;
   if n == 0 { *b &= 0x7f; break } i += 1 }.  [fuel] is the number of buffer cells left; running
   out of them is the failing debug_assert / out-of-range slice, i.e. a crash ([None]). *)
Fixpoint varint_encode_loop (fuel : nat) (n : N) : option (list N) :=
  match fuel with
  | O => None
  | S f =>
      let b := N.lor (n mod 256) 128 in
      let n' := N.shiftr n 7 in
      if n' =? 0 then Some [N.land b 127]
      else match varint_encode_loop f n' with
           | Some r => Some (b :: r)
           | None => None
           end
  end.

(* unsigned_varint::encode::u32. The argument is typed u32 in Rust: a number that is not a u32
   has no encoding ([None]). *)
Definition varint_encode_u32 (n : N) : option (list N) :=
  if n <? u32_bound then varint_encode_loop u32_len n else None.

(* src/decode.rs, macro decode!(buf, 4, u32): [i] is the index of the byte, [acc] the u32 so far.
   `k << (i * 7)` on a u32 keeps only the low 32 bits (the shift amount is at most 28, so no
   overflow check fires). *)
Fixpoint varint_decode_from (i : nat) (acc : N) (buf : list N) : varint_result :=
  match buf with
  | [] => VErr VInsufficient
  | b :: rest =>
      let k := N.land b 127 in
      let acc' := N.lor acc ((N.shiftl k (7 * N.of_nat i)) mod u32_bound) in
      if N.land b 128 =? 0 then
        if (b =? 0) && negb (Nat.eqb i 0) then VErr VNotMinimal else VOk acc' rest
      else if Nat.eqb i u32_max_index then VErr VOverflow
      else varint_decode_from (S i) acc' rest
  end.

(* unsigned_varint::decode::u32 = interpreter-sede multiformat.rs: parse_multiformat_bytes *)
Definition varint_decode_u32 (buf : list N) : varint_result := varint_decode_from 0 0 buf.

(* the mathematical (unbounded) LEB128 value of a byte string: specification only *)
Fixpoint leb_value (bs : list N) : N :=
  match bs with
  | [] => 0
  | b :: r => b mod 128 + 128 * leb_value r
  end.

(* shape of what the decoder consumes: continuation bytes, then one final byte that is not a
   trailing zero group *)
Fixpoint leb_shape (first : bool) (bs : list N) : bool :=
  match bs with
  | [] => false
  | [b] => (b <? 128) && (first || negb (b =? 0))
  | b :: r => (128 <=? b) && is_byte b && leb_shape false r
  end.

(* ------------------------------------------------------------------------------------------ *)
(* multiformat.rs                                                                             *)

Inductive decode_error := DFormat | DCodec (c : N) | DVarInt (e : varint_error).
Inductive decode_result (A : Type) := MOk (x : A) | MErr (e : decode_error).
Arguments MOk {A} x.
Arguments MErr {A} e.

(* rmp_serde.rs / serde_json.rs: the multicodec numbers (values come from the translator) *)
Definition multiformat_msgpack : N := wire_multiformat_msgpck.
Definition multiformat_json : N := wire_multiformat_json.

Section Multiformat.
  (* the inner Format<Value>: to_writer / from_slice.  Third-party codec (rmp-serde, serde_json):
     abstract; a failing writer is [None] (EncodeError::Format), a failing reader is [None]
     (DecodeError::Format). *)
  Variable A : Type.
  Variable enc : A -> option (list N).
  Variable dec : list N -> option A.

  (* multiformat.rs: encode_multiformat / write_multiformat *)
  Definition encode_multiformat (codec : N) (x : A) : option (list N) :=
    match varint_encode_u32 codec with
    | None => None
    | Some tag => match enc x with
                  | None => None
                  | Some payload => Some (tag ++ payload)
                  end
    end.

  (* multiformat.rs: decode_multiformat *)
  Definition decode_multiformat (expected : N) (data : list N) : decode_result A :=
    match varint_decode_u32 data with
    | VErr e => MErr (DVarInt e)
    | VOk data_codec payload =>
        if negb (data_codec =? expected) then MErr (DCodec data_codec)
        else match dec payload with
             | Some x => MOk x
             | None => MErr DFormat
             end
    end.
End Multiformat.

(* ------------------------------------------------------------------------------------------ *)
(* MessagePack pieces used by the envelope (rmp 0.8.12: encode/str.rs, encode/bin.rs, marker.rs) *)

Definition be2 (n : N) : list N := [n / 256; n mod 256].
Definition be4 (n : N) : list N := [n / 16777216; (n / 65536) mod 256; (n / 256) mod 256; n mod 256].
Definition of_be (l : list N) : N := fold_left (fun acc b => acc * 256 + b) l 0.

(* write_str_len: FixStr(0xa0|len) / Str8 0xd9 / Str16 0xda / Str32 0xdb; `len` is a u32 *)
Definition mp_str_header (len : N) : option (list N) :=
  if len <? 32 then Some [160 + len]
  else if len <? 256 then Some [217; len]
  else if len <? 65536 then Some (218 :: be2 len)
  else if len <? u32_bound then Some (219 :: be4 len)
  else None.

(* write_bin_len: Bin8 0xc4 / Bin16 0xc5 / Bin32 0xc6 *)
Definition mp_bin_header (len : N) : option (list N) :=
  if len <? 256 then Some [196; len]
  else if len <? 65536 then Some (197 :: be2 len)
  else if len <? u32_bound then Some (198 :: be4 len)
  else None.

Definition mp_str (s : list N) : option (list N) :=
  match mp_str_header (lenN s) with Some h => Some (h ++ s) | None => None end.
Definition mp_bin (s : list N) : option (list N) :=
  match mp_bin_header (lenN s) with Some h => Some (h ++ s) | None => None end.

Fixpoint bytes_of_string (s : string) : list N :=
  match s with
  | EmptyString => []
  | String a r => N_of_ascii a :: bytes_of_string r
  end.
Fixpoint string_of_bytes (l : list N) : string :=
  match l with
  | [] => EmptyString
  | b :: r => String (ascii_of_N b) (string_of_bytes r)
  end.

Inductive mp_res (A : Type) := MpOk (x : A) (rest : list N) | MpErr | MpUnsupported.
Arguments MpOk {A} x rest.
Arguments MpErr {A}.
Arguments MpUnsupported {A}.

(* split off the first n bytes; [None] when there are fewer *)
Definition take (n : N) (l : list N) : option (list N * list N) :=
  if n <=? lenN l then Some (firstn (N.to_nat n) l, skipn (N.to_nat n) l) else None.

Definition read_len (k : nat) (l : list N) : option (N * list N) :=
  match take (N.of_nat k) l with
  | Some (h, r) => Some (of_be h, r)
  | None => None
  end.

(* marker of a str / bin object: (is_str, length given inline | number of length bytes) *)
Definition blob_kind (m : N) : option (bool * (N + nat)) :=
  if (160 <=? m) && (m <? 192) then Some (true, inl (m - 160))
  else if m =? 217 then Some (true, inr 1%nat)
  else if m =? 218 then Some (true, inr 2%nat)
  else if m =? 219 then Some (true, inr 4%nat)
  else if m =? 196 then Some (false, inr 1%nat)
  else if m =? 197 then Some (false, inr 2%nat)
  else if m =? 198 then Some (false, inr 4%nat)
  else None.

(* one str or bin object: (is_str, content) *)
Definition read_blob (l : list N) : mp_res (bool * list N) :=
  match l with
  | [] => MpErr
  | m :: r =>
      match blob_kind m with
      | None => MpUnsupported
      | Some (is_str, inl len) =>
          match take len r with
          | Some (p, r') => MpOk (is_str, p) r'
          | None => MpErr
          end
      | Some (is_str, inr k) =>
          match read_len k r with
          | Some (len, r1) =>
              match take len r1 with
              | Some (p, r') => MpOk (is_str, p) r'
              | None => MpErr
              end
          | None => MpErr
          end
      end
  end.

(* map header: FixMap 0x80|n, Map16 0xde, Map32 0xdf *)
Definition read_map_len (l : list N) : mp_res N :=
  match l with
  | [] => MpErr
  | m :: r =>
      if (128 <=? m) && (m <? 144) then MpOk (m - 128) r
      else if m =? 222 then match read_len 2 r with Some (n, r') => MpOk n r' | None => MpErr end
      else if m =? 223 then match read_len 4 r with Some (n, r') => MpOk n r' | None => MpErr end
      else MpUnsupported
  end.

(* ------------------------------------------------------------------------------------------ *)
(* InterpreterDataEnvelope                                                                    *)

(* field names as serde writes them: Versions { #[serde(rename = "version")] data_version,
   interpreter_version }, flattened into the envelope, then inner_data (serde_bytes) *)
Definition key_version : list N := bytes_of_string "version".
Definition key_interpreter_version : list N := bytes_of_string "interpreter_version".
Definition key_inner_data : list N := bytes_of_string "inner_data".

Definition bytes_eqb (a b : list N) : bool := list_eqb N.eqb a b.

Inductive env_res (A : Type) := EOk (x : A) | EErr | EUnsupported.
Arguments EOk {A} x.
Arguments EErr {A}.
Arguments EUnsupported {A}.

Record env_acc := { a_ver : option (list N); a_iver : option (list N); a_inner : option (list N) }.
Definition acc0 : env_acc := {| a_ver := None; a_iver := None; a_inner := None |}.

(* one map entry seen by the derived visitors.  [want_inner = false]: Versions (try_get_versions),
   unknown keys are skipped with IgnoredAny; [want_inner = true]: the whole envelope.
   A second occurrence of a wanted key is serde's duplicate_field error. *)
Definition entry_step (want_inner : bool) (a : env_acc) (key : bool * list N) (val : bool * list N)
  : env_res env_acc :=
  if negb (fst key) then EUnsupported            (* keys given as bin: not predicted *)
  else if bytes_eqb (snd key) key_version then
    if negb (fst val) then EUnsupported
    else match a_ver a with
         | Some _ => EErr
         | None => EOk {| a_ver := Some (snd val); a_iver := a_iver a; a_inner := a_inner a |}
         end
  else if bytes_eqb (snd key) key_interpreter_version then
    if negb (fst val) then EUnsupported
    else match a_iver a with
         | Some _ => EErr
         | None => EOk {| a_ver := a_ver a; a_iver := Some (snd val); a_inner := a_inner a |}
         end
  else if want_inner && bytes_eqb (snd key) key_inner_data then
    if fst val then EUnsupported
    else match a_inner a with
         | Some _ => EErr
         | None => EOk {| a_ver := a_ver a; a_iver := a_iver a; a_inner := Some (snd val) |}
         end
  else EOk a.

(* the entries of the map; every entry consumes at least two bytes, so [fuel] = number of bytes
   suffices; [n] is the entry count announced by the header *)
Fixpoint read_entries (want_inner : bool) (fuel : nat) (n : N) (a : env_acc) (l : list N)
  : env_res env_acc :=
  if n =? 0 then EOk a
  else match fuel with
       | O => EErr
       | S f =>
           match read_blob l with
           | MpErr => EErr
           | MpUnsupported => EUnsupported
           | MpOk key l1 =>
               match read_blob l1 with
               | MpErr => EErr
               | MpUnsupported => EUnsupported
               | MpOk val l2 =>
                   match entry_step want_inner a key val with
                   | EOk a' => read_entries want_inner f (n - 1) a' l2
                   | EErr => EErr
                   | EUnsupported => EUnsupported
                   end
               end
           end
       end.

Definition read_envelope_map (want_inner : bool) (l : list N) : env_res env_acc :=
  match read_map_len l with
  | MpErr => EErr
  | MpUnsupported => EUnsupported
  | MpOk n r => read_entries want_inner (length r) n acc0 r     (* bytes after the map are ignored: rmp_serde::from_slice does not look at them *)
  end.

Section Envelope.
  (* semver::Version <-> its text (third party): abstract *)
  Variable V : Type.
  Variable print_ver : V -> string.
  Variable parse_ver : string -> option V.

  Definition parse_two (a b : option (list N)) : env_res (V * V) :=
    match a, b with
    | Some x, Some y =>
        match parse_ver (string_of_bytes x), parse_ver (string_of_bytes y) with
        | Some v, Some w => EOk (v, w)
        | _, _ => EErr
        end
    | _, _ => EErr                                  (* serde: missing field *)
    end.

  (* InterpreterDataEnvelope::serialize = rmp_serde::to_vec_named: a map of three entries *)
  Definition envelope_serialize (dv iv : V) (inner : list N) : option (list N) :=
    match mp_str key_version, mp_str (bytes_of_string (print_ver dv)),
          mp_str key_interpreter_version, mp_str (bytes_of_string (print_ver iv)),
          mp_str key_inner_data, mp_bin inner with
    | Some k1, Some v1, Some k2, Some v2, Some k3, Some v3 =>
        Some (131 :: k1 ++ v1 ++ k2 ++ v2 ++ k3 ++ v3)
    | _, _, _, _, _, _ => None
    end.

  (* InterpreterDataEnvelope::try_get_versions = rmp_serde::from_slice::<Versions> *)
  Definition try_get_versions (l : list N) : env_res (V * V) :=
    match read_envelope_map false l with
    | EOk a => parse_two (a_ver a) (a_iver a)
    | EErr => EErr
    | EUnsupported => EUnsupported
    end.

  (* InterpreterDataEnvelope::try_from_slice *)
  Definition envelope_try_from_slice (l : list N) : env_res (V * V * list N) :=
    match read_envelope_map true l with
    | EOk a =>
        match parse_two (a_ver a) (a_iver a), a_inner a with
        | EOk (v, w), Some i => EOk (v, w, i)
        | EOk _, None => EErr
        | EErr, _ => EErr
        | EUnsupported, _ => EUnsupported
        end
    | EErr => EErr
    | EUnsupported => EUnsupported
    end.

  (* InterpreterData::serialize / try_from_slice (rkyv + check_bytes): abstract *)
  Variable D : Type.
  Variable data_enc : D -> option (list N).
  Variable data_dec : list N -> option D.

  (* from_execution_result + serialize, then try_from_slice + InterpreterData::try_from_slice *)
  Definition data_to_bytes (dv iv : V) (d : D) : option (list N) :=
    match data_enc d with
    | Some inner => envelope_serialize dv iv inner
    | None => None
    end.
  Definition data_from_bytes (l : list N) : env_res (V * V * D) :=
    match envelope_try_from_slice l with
    | EOk (v, w, i) => match data_dec i with Some d => EOk (v, w, d) | None => EErr end
    | EErr => EErr
    | EUnsupported => EUnsupported
    end.
End Envelope.

(* ------------------------------------------------------------------------------------------ *)
(* tie to the sources (values produced by tools/genx_wire.py)                                  *)

Definition wire_constants_agree : bool :=
  (wire_varint_u32_max_index =? N.of_nat u32_max_index) &&
  (wire_varint_u32_len =? N.of_nat u32_len) &&
  String.eqb wire_call_results_format "MsgPackMultiformat" &&
  String.eqb wire_call_requests_format "MsgPackMultiformat" &&
  String.eqb wire_msgpack_multiformat_codec_const "MULTIFORMAT_MSGPCK" &&
  list_eqb String.eqb wire_envelope_fields ["version"; "interpreter_version"; "inner_data"] &&
  String.eqb wire_try_get_versions_target "Versions" &&
  wire_decode_multiformat_is_standard && wire_varint_decode_macro_is_standard.

(* ------------------------------------------------------------------------------------------ *)
(* statements                                                                                 *)

(* full canonicity of the decoder; refuted by the model (and by the crate), see WireProofs.v *)
Definition C27_varint_canonical_full : Prop :=
  forall bs n rest, forallb is_byte bs = true ->
    varint_decode_u32 bs = VOk n rest ->
    exists tag, varint_encode_u32 n = Some tag /\ bs = tag ++ rest.
