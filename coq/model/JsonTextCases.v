(* JsonTextCases.v -- executable comparison functions used by the generated case files of C26:
   the model of model/JsonText.v against what air_interpreter_value::JValue did (harness/src/bin/jsonval.rs),
   and the property oracle evaluated on the implementation's observations alone. *)
From Aqua Require Import Base Json JsonText.
Open Scope N_scope.

(* strings with bytes outside printable ASCII are written by the harness as hex: hx "e4bda0" *)
Definition hexv (c : ascii) : N := match hex_val c with Some n => n | None => 0 end.
Fixpoint hx (s : string) : string :=
  match s with
  | String a (String b r) => String (ascii_of_N (hexv a * 16 + hexv b)) (hx r)
  | _ => EmptyString
  end.

Definition opt_json_eqb (a b : option json) : bool := option_eqb json_eqb a b.

(* the float reader of the implementation, tabulated by the harness for the number tokens of one text:
   token text -> canonical text of the f64 serde_json built from that token alone (None: rejected) *)
Definition float_table := list (string * option string).
Fixpoint lookup_float (tbl : float_table) (t : string) : option string :=
  match tbl with
  | [] => None
  | (k, v) :: r => if String.eqb k t then v else lookup_float r t
  end.

(* one mixed comparison `value == constant`:
   the constant, JValue::from(constant) as the implementation built it, the observed result, and the
   result of the same comparison on serde_json::Value (to_value of the same value) *)
Inductive mixed_obs :=
| MI64 (c : Z) (embedded : json) (obs std_obs : bool)
| MU64 (c : Z) (embedded : json) (obs std_obs : bool)
| MBool (c : bool) (embedded : json) (obs std_obs : bool)
| MStr (c : string) (embedded : json) (obs std_obs : bool)
| MF64 (c : string) (embedded : json) (obs std_obs : bool)        (* c: canonical text of the f64 *)
| MF32 (c : string) (embedded : json) (obs obs_widened : bool).   (* c: text of (c as f64); value == (c as f64) *)

Inductive case_t :=
(* a value [v] (printed from the JValue itself), v.to_string(), serde_json::from_str::<JValue>(that text),
   `reparsed == v`, JValue::from(serde_json::to_value(&v)) and `that == v`, the float table of the text,
   v.as_f64() as text, mixed comparisons *)
| CValue (v : json) (text : string) (reparsed : option json) (reparsed_eq : bool)
         (std_rt : json) (std_rt_eq : bool) (floats : float_table) (as_f64_obs : option string)
         (mixed : list mixed_obs)
(* an arbitrary text: serde_json::from_str::<JValue>(text), serde_json::from_str::<serde_json::Value>(text) *)
| CText (text : string) (result std_result : option json) (floats : float_table)
(* two values: a == b on JValue, the same on their serde_json::Value images *)
| CEq (a b : json) (eq_obs std_eq_obs : bool).

(* ---- correspondence: the model predicts every observation ---- *)

Definition mixed_model (v : json) (i2f : option string) (m : mixed_obs) : bool :=
  let conv := fun _ : Z => match i2f with Some r => r | None => EmptyString end in
  match m with
  | MI64 c e obs _ => Bool.eqb (eq_i64 v c) obs && json_eqb e (JInt c)
  | MU64 c e obs _ => Bool.eqb (eq_u64 v c) obs && json_eqb e (JInt c)
  | MBool c e obs _ => Bool.eqb (eq_bool v c) obs && json_eqb e (JBool c)
  | MStr c e obs _ => Bool.eqb (eq_str v c) obs && json_eqb e (JStr c)
  | MF64 c e obs _ => Bool.eqb (eq_f64 conv v c) obs && json_eqb e (JFloat c)
  | MF32 c e obs w => Bool.eqb (eq_f64 conv v c) obs && Bool.eqb obs w && json_eqb e (JFloat c)
  end.

(* JValue::as_f64: Some for numbers only; a float gives its own value (an integer's image is the oracle) *)
Definition as_f64_ok (v : json) (i2f : option string) : bool :=
  match v, i2f with
  | JInt _, Some _ => true
  | JFloat r, Some r' => String.eqb r r'
  | JInt _, None => false
  | JFloat _, None => false
  | _, None => true
  | _, Some _ => false
  end.

Definition check_case (c : case_t) : bool :=
  match c with
  | CValue v text reparsed reparsed_eq std_rt std_rt_eq floats i2f mixed =>
      String.eqb (print v) text &&
      opt_json_eqb (parse (lookup_float floats) text) reparsed &&
      Bool.eqb (match reparsed with Some v' => jv_eq v' v | None => false end) reparsed_eq &&
      json_eqb (of_std (to_std v)) std_rt &&
      Bool.eqb (jv_eq std_rt v) std_rt_eq &&
      as_f64_ok v i2f &&
      forallb (mixed_model v i2f) mixed
  | CText text result _ floats => opt_json_eqb (parse (lookup_float floats) text) result
  | CEq a b eq_obs _ => Bool.eqb (jv_eq a b) eq_obs
  end.

(* ---- the property on the implementation's observations only ---- *)

(* to_string then from_str gives back the same value (same canonical form, and == says so) *)
Definition c26_oracle_roundtrip (c : case_t) : bool :=
  match c with
  | CValue v _ reparsed reparsed_eq _ _ _ _ _ =>
      match reparsed with Some v' => json_eqb v' v && reparsed_eq | None => false end
  | _ => true
  end.

(* JValue -> serde_json::Value -> JValue is the identity *)
Definition c26_oracle_conv (c : case_t) : bool :=
  match c with
  | CValue v _ _ _ std_rt std_rt_eq _ _ _ => json_eqb std_rt v && std_rt_eq
  | _ => true
  end.

(* == is structural equality of the canonical forms (numbers by value: 0.0 == -0.0), and is what
   serde_json::Value answers on the images *)
Definition c26_oracle_eq (c : case_t) : bool :=
  match c with
  | CEq a b eq_obs std_eq_obs =>
      Bool.eqb eq_obs std_eq_obs && Bool.eqb eq_obs (json_eqb (json_norm a) (json_norm b))
  | _ => true
  end.

(* value == constant  <->  value == JValue::from(constant); floats against integers follow serde_json::Value *)
Definition mixed_oracle (v : json) (m : mixed_obs) : bool :=
  match m with
  | MI64 _ e obs std | MU64 _ e obs std | MBool _ e obs std | MStr _ e obs std =>
      Bool.eqb obs (json_eqb v e) && Bool.eqb obs std
  | MF64 _ e obs std =>
      Bool.eqb obs std &&
      match v with JInt _ => true | _ => Bool.eqb obs (json_eqb (json_norm v) (json_norm e)) end
  | MF32 _ e obs w =>
      Bool.eqb obs w &&
      match v with JInt _ => true | _ => Bool.eqb obs (json_eqb (json_norm v) (json_norm e)) end
  end.
Definition c26_oracle_mixed (c : case_t) : bool :=
  match c with
  | CValue v _ _ _ _ _ _ _ mixed => forallb (mixed_oracle v) mixed
  | _ => true
  end.

(* parsing a text agrees with standard JSON as read by serde_json::Value: same verdict, same value *)
Definition c26_oracle_text (c : case_t) : bool :=
  match c with
  | CText _ result std_result _ => opt_json_eqb result std_result
  | _ => true
  end.

Definition c26_oracle (c : case_t) : bool :=
  c26_oracle_roundtrip c && c26_oracle_conv c && c26_oracle_eq c && c26_oracle_mixed c && c26_oracle_text c.
